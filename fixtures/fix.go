// Package fixtures embeds the certificate fixtures (generated once by tools/genfix).
package fixtures

import "embed"

//go:embed *.pem *.key
var FS embed.FS

func Must(name string) []byte {
	b, err := FS.ReadFile(name)
	if err != nil {
		panic(err)
	}
	return b
}
