package wire

import (
	"errors"
	"fmt"
)

// Extension code points this package knows a grammar for.
const (
	ExtServerName           uint16 = 0
	ExtStatusRequest        uint16 = 5
	ExtSupportedGroups      uint16 = 10
	ExtECPointFormats       uint16 = 11
	ExtSignatureAlgorithms  uint16 = 13
	ExtALPN                 uint16 = 16
	ExtStatusRequestV2      uint16 = 17
	ExtSCT                  uint16 = 18
	ExtPadding              uint16 = 21
	ExtEncryptThenMAC       uint16 = 22
	ExtExtendedMasterSecret uint16 = 23
	ExtCompressCertificate  uint16 = 27
	ExtRecordSizeLimit      uint16 = 28
	ExtDelegatedCredentials uint16 = 34
	ExtSessionTicket        uint16 = 35
	ExtPreSharedKey         uint16 = 41
	ExtSupportedVersions    uint16 = 43
	ExtCookie               uint16 = 44
	ExtPSKKeyExchangeModes  uint16 = 45
	ExtPostHandshakeAuth    uint16 = 49
	ExtSignatureAlgsCert    uint16 = 50
	ExtKeyShare             uint16 = 51
	ExtQUICTransportParams  uint16 = 57
	ExtNextProtoNeg         uint16 = 13172
	ExtALPSOld              uint16 = 17513
	ExtALPSNew              uint16 = 17613
	ExtChannelIDOld         uint16 = 30031
	ExtChannelID            uint16 = 30032
	ExtECH                  uint16 = 0xfe0d
	ExtRenegotiationInfo    uint16 = 0xff01
)

// Extension is one raw extension.
type Extension struct {
	Type uint16
	Data []byte
}

// KeyShare is one KeyShareEntry.
type KeyShare struct {
	Group uint16
	Data  []byte
}

// PSKIdentity is one PskIdentity of the pre_shared_key extension.
type PSKIdentity struct {
	Identity      []byte
	ObfuscatedAge uint32
}

// ECHOuter is the decoded encrypted_client_hello (0xfe0d) extension of type
// outer.
type ECHOuter struct {
	KDF, AEAD uint16
	ConfigID  uint8
	Enc       []byte
	Payload   []byte
}

// ClientHello is a fully validated ClientHello.
type ClientHello struct {
	Raw           []byte // whole handshake message incl. 4-byte header
	LegacyVersion uint16
	Random        []byte // 32
	SessionID     []byte
	CipherSuites  []uint16
	Compression   []byte
	HasExtensions bool
	Extensions    []Extension // in wire order

	// decoded views (nil/zero when the extension is absent)
	SNIPresent           bool
	SNI                  string
	ALPN                 []string
	SupportedVersions    []uint16
	SupportedGroups      []uint16
	KeyShares            []KeyShare
	SigAlgs              []uint16
	SigAlgsCert          []uint16
	PSKModes             []uint8
	PSKIdentities        []PSKIdentity
	PSKBinders           [][]byte
	ECPointFormats       []uint8
	CertCompression      []uint16 // compress_certificate (27) algorithms
	ALPS                 []string // application_settings (17513 or 17613) protocol list
	ALPSCodepoint        uint16
	Cookie               []byte
	ECH                  *ECHOuter // nil unless ext 0xfe0d present with type outer (0)
	ECHInner             bool      // ext 0xfe0d present with type inner (1)
	PaddingLen           int
	HasPadding           bool
	RecordSizeLimit      uint16
	QUICTransportParams  []byte // ext 57 raw body
	SessionTicket        []byte
	HasSessionTicket     bool
	RenegotiationInfo    []byte
	HasRenegotiationInfo bool
	DelegatedCredentials []uint16 // ext 34 sig algs
}

// Ext returns the extension with type t.
func (ch *ClientHello) Ext(t uint16) (*Extension, bool) {
	if i := ch.ExtIndex(t); i >= 0 {
		return &ch.Extensions[i], true
	}
	return nil, false
}

// ExtIndex returns the wire position of the extension with type t, or -1.
func (ch *ClientHello) ExtIndex(t uint16) int {
	for i := range ch.Extensions {
		if ch.Extensions[i].Type == t {
			return i
		}
	}
	return -1
}

// ExtTypes returns the extension types in wire order.
func (ch *ClientHello) ExtTypes() []uint16 {
	out := make([]uint16, len(ch.Extensions))
	for i := range ch.Extensions {
		out[i] = ch.Extensions[i].Type
	}
	return out
}

// parseHandshakeHeader checks the 4-byte handshake header and returns the
// body.
func parseHandshakeHeader(msg []byte, want uint8, name string) ([]byte, error) {
	if len(msg) < 4 {
		return nil, fmt.Errorf("%s: message shorter than the 4-byte handshake header (%d bytes)", name, len(msg))
	}
	if msg[0] != want {
		return nil, fmt.Errorf("%s: handshake type %d, want %d", name, msg[0], want)
	}
	n := int(msg[1])<<16 | int(msg[2])<<8 | int(msg[3])
	if n != len(msg)-4 {
		return nil, fmt.Errorf("%s: handshake length %d does not match body length %d", name, n, len(msg)-4)
	}
	return msg[4:len(msg):len(msg)], nil
}

// parseExtensionBlock parses "Extension extensions<0..2^16-1>" which must be
// the only thing left in r, rejecting duplicate types.
func parseExtensionBlock(r *rd, name string) ([]Extension, error) {
	block, err := r.whole16(name + ": extensions block")
	if err != nil {
		return nil, err
	}
	er := rd{b: block}
	var exts []Extension
	seen := make(map[uint16]int)
	for !er.empty() {
		idx := len(exts)
		at := er.off
		t, ok := er.u16()
		if !ok {
			return nil, fmt.Errorf("%s: extension #%d at block offset %d: truncated type", name, idx, at)
		}
		data, err := er.vec16(fmt.Sprintf("%s: extension #%d (type %d)", name, idx, t))
		if err != nil {
			return nil, err
		}
		if prev, dup := seen[t]; dup {
			return nil, fmt.Errorf("%s: extension type %d (0x%04x) appears twice (#%d and #%d)", name, t, t, prev, idx)
		}
		seen[t] = idx
		exts = append(exts, Extension{Type: t, Data: data})
	}
	return exts, nil
}

// ParseClientHello parses a handshake message (with its 4-byte header;
// msg[0] must be 1). It is STRICT: it returns an error describing the first
// problem if ANY of these hold:
//   - handshake length != len(msg)-4; any length prefix does not match its
//     body exactly; trailing bytes anywhere
//   - session id > 32; cipher suite vector empty or odd; compression vector
//     empty
//   - the extensions block length does not consume the rest of the message
//     exactly
//   - an extension type appears twice (GREASE types count as ordinary types:
//     two GREASE extensions with the SAME code point are a duplicate)
//   - pre_shared_key (41) present and not the last extension
//   - a known extension's body violates its grammar
//
// Unknown extension types are accepted with any body, as are GREASE
// extension types. The returned slices alias msg.
func ParseClientHello(msg []byte) (*ClientHello, error) {
	body, err := parseHandshakeHeader(msg, 1, "ClientHello")
	if err != nil {
		return nil, err
	}
	ch := &ClientHello{Raw: msg}
	r := rd{b: body}

	var ok bool
	if ch.LegacyVersion, ok = r.u16(); !ok {
		return nil, errors.New("ClientHello: truncated legacy_version")
	}
	if ch.Random, ok = r.bytes(32); !ok {
		return nil, errors.New("ClientHello: truncated random")
	}
	if ch.SessionID, err = r.vec8("ClientHello: legacy_session_id"); err != nil {
		return nil, err
	}
	if len(ch.SessionID) > 32 {
		return nil, fmt.Errorf("ClientHello: legacy_session_id length %d > 32", len(ch.SessionID))
	}
	cs, err := r.vec16("ClientHello: cipher_suites")
	if err != nil {
		return nil, err
	}
	if ch.CipherSuites, err = u16list(cs, "ClientHello: cipher_suites", true); err != nil {
		return nil, err
	}
	if ch.Compression, err = r.vec8("ClientHello: legacy_compression_methods"); err != nil {
		return nil, err
	}
	if len(ch.Compression) == 0 {
		return nil, errors.New("ClientHello: legacy_compression_methods: empty list")
	}

	if r.empty() {
		// Pre-extensions ClientHello (RFC 5246 section 7.4.1.2 allows it).
		return ch, nil
	}
	ch.HasExtensions = true
	if ch.Extensions, err = parseExtensionBlock(&r, "ClientHello"); err != nil {
		return nil, err
	}

	for i := range ch.Extensions {
		e := &ch.Extensions[i]
		if e.Type == ExtPreSharedKey && i != len(ch.Extensions)-1 {
			return nil, fmt.Errorf("ClientHello: pre_shared_key is extension #%d of %d, must be last", i, len(ch.Extensions))
		}
		if err := ch.decodeExtension(e); err != nil {
			return nil, fmt.Errorf("ClientHello: extension #%d: %w", i, err)
		}
	}
	return ch, nil
}

// protocolNameList parses "ProtocolName protocol_name_list<2..2^16-1>" with
// "opaque ProtocolName<1..2^8-1>" consuming the whole of b.
func protocolNameList(b []byte, what string) ([]string, error) {
	r := rd{b: b}
	list, err := r.whole16(what)
	if err != nil {
		return nil, err
	}
	if len(list) == 0 {
		return nil, fmt.Errorf("%s: empty protocol name list", what)
	}
	lr := rd{b: list}
	var out []string
	for !lr.empty() {
		name, err := lr.vec8(fmt.Sprintf("%s: protocol name #%d", what, len(out)))
		if err != nil {
			return nil, err
		}
		if len(name) == 0 {
			return nil, fmt.Errorf("%s: protocol name #%d is empty", what, len(out))
		}
		out = append(out, string(name))
	}
	return out, nil
}

func requireEmpty(b []byte, what string) error {
	if len(b) != 0 {
		return fmt.Errorf("%s: body must be empty, has %d byte(s)", what, len(b))
	}
	return nil
}

// decodeExtension validates one extension body and fills the decoded view.
func (ch *ClientHello) decodeExtension(e *Extension) error {
	if IsGREASE(e.Type) {
		return nil
	}
	b := e.Data
	r := rd{b: b}
	switch e.Type {

	case ExtServerName: // RFC 6066 section 3
		const w = "server_name"
		list, err := r.whole16(w + ": server_name_list")
		if err != nil {
			return err
		}
		if len(list) == 0 {
			return errors.New(w + ": empty server_name_list")
		}
		lr := rd{b: list}
		n := 0
		for !lr.empty() {
			typ, _ := lr.u8()
			if typ != 0 {
				return fmt.Errorf("%s: entry #%d: name_type %d, want 0 (host_name)", w, n, typ)
			}
			host, err := lr.vec16(fmt.Sprintf("%s: entry #%d: HostName", w, n))
			if err != nil {
				return err
			}
			if n > 0 {
				return errors.New(w + ": more than one host_name entry")
			}
			if len(host) == 0 {
				return errors.New(w + ": empty HostName")
			}
			for _, c := range host {
				if c == 0 {
					return errors.New(w + ": HostName contains a NUL byte")
				}
			}
			if host[len(host)-1] == '.' {
				return fmt.Errorf("%s: HostName %q has a trailing dot", w, host)
			}
			ch.SNI = string(host)
			n++
		}
		ch.SNIPresent = true

	case ExtStatusRequest: // RFC 6066 section 8
		const w = "status_request"
		typ, ok := r.u8()
		if !ok {
			return errors.New(w + ": missing status_type")
		}
		if typ == 1 {
			ids, err := r.vec16(w + ": responder_id_list")
			if err != nil {
				return err
			}
			ir := rd{b: ids}
			for n := 0; !ir.empty(); n++ {
				id, err := ir.vec16(fmt.Sprintf("%s: ResponderID #%d", w, n))
				if err != nil {
					return err
				}
				if len(id) == 0 {
					return fmt.Errorf("%s: ResponderID #%d is empty", w, n)
				}
			}
			if _, err := r.whole16(w + ": request_extensions"); err != nil {
				return err
			}
		}

	case ExtSupportedGroups: // RFC 8446 section 4.2.7
		list, err := r.whole16("supported_groups")
		if err != nil {
			return err
		}
		if ch.SupportedGroups, err = u16list(list, "supported_groups", true); err != nil {
			return err
		}

	case ExtECPointFormats: // RFC 8422 section 5.1.2
		list, err := r.whole8("ec_point_formats")
		if err != nil {
			return err
		}
		if len(list) == 0 {
			return errors.New("ec_point_formats: empty list")
		}
		ch.ECPointFormats = list

	case ExtSignatureAlgorithms, ExtSignatureAlgsCert: // RFC 8446 section 4.2.3
		w := "signature_algorithms"
		if e.Type == ExtSignatureAlgsCert {
			w = "signature_algorithms_cert"
		}
		list, err := r.whole16(w)
		if err != nil {
			return err
		}
		algs, err := u16list(list, w, true)
		if err != nil {
			return err
		}
		if e.Type == ExtSignatureAlgorithms {
			ch.SigAlgs = algs
		} else {
			ch.SigAlgsCert = algs
		}

	case ExtALPN: // RFC 7301 section 3.1
		names, err := protocolNameList(b, "application_layer_protocol_negotiation")
		if err != nil {
			return err
		}
		ch.ALPN = names

	case ExtStatusRequestV2: // RFC 6961
		if _, err := r.whole16("status_request_v2"); err != nil {
			return err
		}

	case ExtSCT: // RFC 6962 section 3.3.1: empty in ClientHello
		if len(b) != 0 {
			if _, err := r.whole16("signed_certificate_timestamp"); err != nil {
				return err
			}
		}

	case ExtPadding: // RFC 7685
		for i, c := range b {
			if c != 0 {
				return fmt.Errorf("padding: non-zero byte 0x%02x at offset %d", c, i)
			}
		}
		ch.HasPadding = true
		ch.PaddingLen = len(b)

	case ExtEncryptThenMAC:
		return requireEmpty(b, "encrypt_then_mac")
	case ExtExtendedMasterSecret:
		return requireEmpty(b, "extended_master_secret")
	case ExtPostHandshakeAuth:
		return requireEmpty(b, "post_handshake_auth")
	case ExtNextProtoNeg:
		return requireEmpty(b, "next_protocol_negotiation")
	case ExtChannelID:
		return requireEmpty(b, "channel_id")
	case ExtChannelIDOld:
		return requireEmpty(b, "channel_id(old)")

	case ExtCompressCertificate: // RFC 8879 section 3
		list, err := r.whole8("compress_certificate")
		if err != nil {
			return err
		}
		if ch.CertCompression, err = u16list(list, "compress_certificate", true); err != nil {
			return err
		}

	case ExtRecordSizeLimit: // RFC 8449 section 4
		if len(b) != 2 {
			return fmt.Errorf("record_size_limit: body is %d byte(s), want 2", len(b))
		}
		ch.RecordSizeLimit, _ = r.u16()

	case ExtDelegatedCredentials: // RFC 9345 section 4.1.1
		list, err := r.whole16("delegated_credentials")
		if err != nil {
			return err
		}
		if ch.DelegatedCredentials, err = u16list(list, "delegated_credentials", true); err != nil {
			return err
		}

	case ExtSessionTicket: // RFC 5077: opaque
		ch.HasSessionTicket = true
		ch.SessionTicket = b

	case ExtPreSharedKey: // RFC 8446 section 4.2.11
		const w = "pre_shared_key"
		ids, err := r.vec16(w + ": identities")
		if err != nil {
			return err
		}
		if len(ids) == 0 {
			return errors.New(w + ": empty identities list")
		}
		ir := rd{b: ids}
		var identities []PSKIdentity
		for !ir.empty() {
			n := len(identities)
			id, err := ir.vec16(fmt.Sprintf("%s: identity #%d", w, n))
			if err != nil {
				return err
			}
			if len(id) == 0 {
				return fmt.Errorf("%s: identity #%d is empty", w, n)
			}
			age, ok := ir.u32()
			if !ok {
				return fmt.Errorf("%s: identity #%d: truncated obfuscated_ticket_age", w, n)
			}
			identities = append(identities, PSKIdentity{Identity: id, ObfuscatedAge: age})
		}
		bl, err := r.whole16(w + ": binders")
		if err != nil {
			return err
		}
		if len(bl) == 0 {
			return errors.New(w + ": empty binders list")
		}
		br := rd{b: bl}
		var binders [][]byte
		for !br.empty() {
			n := len(binders)
			bd, err := br.vec8(fmt.Sprintf("%s: binder #%d", w, n))
			if err != nil {
				return err
			}
			if len(bd) < 32 {
				return fmt.Errorf("%s: binder #%d has length %d < 32", w, n, len(bd))
			}
			binders = append(binders, bd)
		}
		if len(binders) != len(identities) {
			return fmt.Errorf("%s: %d identities but %d binders", w, len(identities), len(binders))
		}
		ch.PSKIdentities, ch.PSKBinders = identities, binders

	case ExtSupportedVersions: // RFC 8446 section 4.2.1
		list, err := r.whole8("supported_versions")
		if err != nil {
			return err
		}
		if ch.SupportedVersions, err = u16list(list, "supported_versions", true); err != nil {
			return err
		}

	case ExtCookie: // RFC 8446 section 4.2.2
		c, err := r.whole16("cookie")
		if err != nil {
			return err
		}
		if len(c) == 0 {
			return errors.New("cookie: empty cookie")
		}
		ch.Cookie = c

	case ExtPSKKeyExchangeModes: // RFC 8446 section 4.2.9
		list, err := r.whole8("psk_key_exchange_modes")
		if err != nil {
			return err
		}
		if len(list) == 0 {
			return errors.New("psk_key_exchange_modes: empty list")
		}
		ch.PSKModes = list

	case ExtKeyShare: // RFC 8446 section 4.2.8
		const w = "key_share"
		list, err := r.whole16(w + ": client_shares")
		if err != nil {
			return err
		}
		lr := rd{b: list}
		shares := []KeyShare{} // non-nil: present, possibly empty
		for !lr.empty() {
			n := len(shares)
			g, ok := lr.u16()
			if !ok {
				return fmt.Errorf("%s: entry #%d: truncated group", w, n)
			}
			kx, err := lr.vec16(fmt.Sprintf("%s: entry #%d (group 0x%04x): key_exchange", w, n, g))
			if err != nil {
				return err
			}
			if len(kx) == 0 {
				return fmt.Errorf("%s: entry #%d (group 0x%04x): empty key_exchange", w, n, g)
			}
			for _, s := range shares {
				if s.Group == g {
					return fmt.Errorf("%s: group 0x%04x appears twice", w, g)
				}
			}
			shares = append(shares, KeyShare{Group: g, Data: kx})
		}
		ch.KeyShares = shares

	case ExtQUICTransportParams: // RFC 9001 section 8.2, RFC 9000 section 18
		const w = "quic_transport_parameters"
		seen := make(map[uint64]bool)
		rest := b
		for n := 0; len(rest) > 0; n++ {
			id, k, ok := ParseQUICVarint(rest)
			if !ok {
				return fmt.Errorf("%s: parameter #%d: truncated id varint", w, n)
			}
			rest = rest[k:]
			l, k, ok := ParseQUICVarint(rest)
			if !ok {
				return fmt.Errorf("%s: parameter #%d (id %d): truncated length varint", w, n, id)
			}
			rest = rest[k:]
			if l > uint64(len(rest)) {
				return fmt.Errorf("%s: parameter #%d (id %d): length %d exceeds the %d bytes available", w, n, id, l, len(rest))
			}
			rest = rest[l:]
			if seen[id] {
				return fmt.Errorf("%s: parameter id %d appears twice", w, id)
			}
			seen[id] = true
		}
		ch.QUICTransportParams = b

	case ExtALPSOld, ExtALPSNew: // draft-vvv-tls-alps section 4
		names, err := protocolNameList(b, "application_settings")
		if err != nil {
			return err
		}
		if ch.ALPS == nil {
			ch.ALPS = names
			ch.ALPSCodepoint = e.Type
		}

	case ExtRenegotiationInfo: // RFC 5746 section 3.2
		ri, err := r.whole8("renegotiation_info")
		if err != nil {
			return err
		}
		ch.HasRenegotiationInfo = true
		ch.RenegotiationInfo = ri

	case ExtECH: // draft-ietf-tls-esni section 5
		const w = "encrypted_client_hello"
		typ, ok := r.u8()
		if !ok {
			return errors.New(w + ": missing ECHClientHelloType")
		}
		switch typ {
		case 0:
			var o ECHOuter
			var ok1, ok2, ok3 bool
			o.KDF, ok1 = r.u16()
			o.AEAD, ok2 = r.u16()
			o.ConfigID, ok3 = r.u8()
			if !ok1 || !ok2 || !ok3 {
				return errors.New(w + ": outer: truncated cipher_suite/config_id")
			}
			var err error
			if o.Enc, err = r.vec16(w + ": outer: enc"); err != nil {
				return err
			}
			if o.Payload, err = r.whole16(w + ": outer: payload"); err != nil {
				return err
			}
			if len(o.Payload) == 0 {
				return errors.New(w + ": outer: empty payload")
			}
			ch.ECH = &o
		case 1:
			if len(b) != 1 {
				return fmt.Errorf("%s: inner: %d trailing byte(s)", w, len(b)-1)
			}
			ch.ECHInner = true
		default:
			return fmt.Errorf("%s: unknown ECHClientHelloType %d", w, typ)
		}
	}
	return nil
}
