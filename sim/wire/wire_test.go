package wire

import (
	"bytes"
	"crypto/ecdsa"
	"crypto/elliptic"
	"crypto/rand"
	stdtls "crypto/tls"
	"crypto/x509"
	"crypto/x509/pkix"
	"encoding/binary"
	"errors"
	"fmt"
	"io"
	"math/big"
	"net"
	"strings"
	"sync"
	"testing"
	"time"

	tls "github.com/refraction-networking/utls"
)

// ---------------------------------------------------------------------------
// parrots
// ---------------------------------------------------------------------------

type namedID struct {
	name string
	id   tls.ClientHelloID
}

// Hand-written list of every exported Hello* variable of u_common.go that has
// a spec (HelloCustom has none; the *_Auto aliases are included on purpose so
// that an alias retargeted to a broken parrot is still exercised).
var parrots = []namedID{
	{"HelloGolang", tls.HelloGolang},
	{"HelloFirefox_Auto", tls.HelloFirefox_Auto},
	{"HelloFirefox_55", tls.HelloFirefox_55},
	{"HelloFirefox_56", tls.HelloFirefox_56},
	{"HelloFirefox_63", tls.HelloFirefox_63},
	{"HelloFirefox_65", tls.HelloFirefox_65},
	{"HelloFirefox_99", tls.HelloFirefox_99},
	{"HelloFirefox_102", tls.HelloFirefox_102},
	{"HelloFirefox_105", tls.HelloFirefox_105},
	{"HelloFirefox_120", tls.HelloFirefox_120},
	{"HelloChrome_Auto", tls.HelloChrome_Auto},
	{"HelloChrome_58", tls.HelloChrome_58},
	{"HelloChrome_62", tls.HelloChrome_62},
	{"HelloChrome_70", tls.HelloChrome_70},
	{"HelloChrome_72", tls.HelloChrome_72},
	{"HelloChrome_83", tls.HelloChrome_83},
	{"HelloChrome_87", tls.HelloChrome_87},
	{"HelloChrome_96", tls.HelloChrome_96},
	{"HelloChrome_100", tls.HelloChrome_100},
	{"HelloChrome_102", tls.HelloChrome_102},
	{"HelloChrome_106_Shuffle", tls.HelloChrome_106_Shuffle},
	{"HelloChrome_100_PSK", tls.HelloChrome_100_PSK},
	{"HelloChrome_112_PSK_Shuf", tls.HelloChrome_112_PSK_Shuf},
	{"HelloChrome_114_Padding_PSK_Shuf", tls.HelloChrome_114_Padding_PSK_Shuf},
	{"HelloChrome_115_PQ", tls.HelloChrome_115_PQ},
	{"HelloChrome_115_PQ_PSK", tls.HelloChrome_115_PQ_PSK},
	{"HelloChrome_120", tls.HelloChrome_120},
	{"HelloChrome_120_PQ", tls.HelloChrome_120_PQ},
	{"HelloChrome_131", tls.HelloChrome_131},
	{"HelloChrome_133", tls.HelloChrome_133},
	{"HelloIOS_Auto", tls.HelloIOS_Auto},
	{"HelloIOS_11_1", tls.HelloIOS_11_1},
	{"HelloIOS_12_1", tls.HelloIOS_12_1},
	{"HelloIOS_13", tls.HelloIOS_13},
	{"HelloIOS_14", tls.HelloIOS_14},
	{"HelloAndroid_11_OkHttp", tls.HelloAndroid_11_OkHttp},
	{"HelloEdge_Auto", tls.HelloEdge_Auto},
	{"HelloEdge_85", tls.HelloEdge_85},
	{"HelloEdge_106", tls.HelloEdge_106},
	{"HelloSafari_Auto", tls.HelloSafari_Auto},
	{"HelloSafari_16_0", tls.HelloSafari_16_0},
	{"Hello360_Auto", tls.Hello360_Auto},
	{"Hello360_7_5", tls.Hello360_7_5},
	{"Hello360_11_0", tls.Hello360_11_0},
	{"HelloQQ_Auto", tls.HelloQQ_Auto},
	{"HelloQQ_11_1", tls.HelloQQ_11_1},
}

const nRandomSeeds = 40

func randomizedIDs() []namedID {
	var out []namedID
	for _, base := range []namedID{
		{"HelloRandomized", tls.HelloRandomized},
		{"HelloRandomizedALPN", tls.HelloRandomizedALPN},
		{"HelloRandomizedNoALPN", tls.HelloRandomizedNoALPN},
	} {
		out = append(out, base) // nil seed: uTLS draws one
		for s := 0; s < nRandomSeeds; s++ {
			seed := new(tls.PRNGSeed)
			for i := range seed {
				seed[i] = byte(s*131 + i*7 + len(base.name))
			}
			id := base.id
			id.Seed = seed
			out = append(out, namedID{fmt.Sprintf("%s/seed%d", base.name, s), id})
		}
	}
	return out
}

func allIDs() []namedID { return append(append([]namedID{}, parrots...), randomizedIDs()...) }

func buildHello(id tls.ClientHelloID, cfg *tls.Config) ([]byte, error) {
	c1, c2 := net.Pipe()
	defer c1.Close()
	defer c2.Close()
	if cfg == nil {
		cfg = &tls.Config{ServerName: "example.com", OmitEmptyPsk: true}
	}
	u := tls.UClient(c1, cfg, id)
	if err := u.BuildHandshakeState(); err != nil {
		return nil, err
	}
	raw := u.HandshakeState.Hello.Raw
	if len(raw) == 0 {
		var err error
		if raw, err = u.HandshakeState.Hello.Marshal(); err != nil {
			return nil, err
		}
	}
	return append([]byte(nil), raw...), nil
}

// ---------------------------------------------------------------------------
// test-side serialiser (independent of the parser's reader)
// ---------------------------------------------------------------------------

func p16(n int) []byte { return []byte{byte(n >> 8), byte(n)} }

func v8(b []byte) []byte  { return append([]byte{byte(len(b))}, b...) }
func v16(b []byte) []byte { return append(p16(len(b)), b...) }

func cat(parts ...[]byte) []byte {
	var out []byte
	for _, p := range parts {
		out = append(out, p...)
	}
	return out
}

func hsMsg(typ uint8, body []byte) []byte {
	return cat([]byte{typ, byte(len(body) >> 16), byte(len(body) >> 8), byte(len(body))}, body)
}

func serialiseExts(exts []Extension) []byte {
	var b []byte
	for _, e := range exts {
		b = append(b, p16(int(e.Type))...)
		b = append(b, v16(e.Data)...)
	}
	return v16(b)
}

// reserialise rebuilds a ClientHello from the decoded top-level fields with
// the given extension list.
func reserialise(ch *ClientHello, exts []Extension, withExts bool) []byte {
	var cs []byte
	for _, c := range ch.CipherSuites {
		cs = append(cs, p16(int(c))...)
	}
	body := cat(p16(int(ch.LegacyVersion)), ch.Random, v8(ch.SessionID), v16(cs), v8(ch.Compression))
	if withExts {
		body = append(body, serialiseExts(exts)...)
	}
	return hsMsg(1, body)
}

func mkCH(exts ...Extension) []byte {
	ch := &ClientHello{
		LegacyVersion: 0x0303,
		Random:        bytes.Repeat([]byte{0x42}, 32),
		SessionID:     bytes.Repeat([]byte{0x17}, 32),
		CipherSuites:  []uint16{0x1301, 0xc02b},
		Compression:   []byte{0},
	}
	return reserialise(ch, exts, true)
}

func record(typ uint8, payload []byte) []byte {
	return cat([]byte{typ, 3, 3}, p16(len(payload)), payload)
}

// ---------------------------------------------------------------------------
// positive tests on real uTLS output
// ---------------------------------------------------------------------------

func checkViews(t *testing.T, ch *ClientHello, wantSNI string) {
	t.Helper()
	if len(ch.Random) != 32 {
		t.Errorf("random length %d", len(ch.Random))
	}
	if got := reserialise(ch, ch.Extensions, ch.HasExtensions); !bytes.Equal(got, ch.Raw) {
		t.Errorf("re-serialised ClientHello differs from Raw")
	}
	types := ch.ExtTypes()
	if len(types) != len(ch.Extensions) {
		t.Errorf("ExtTypes length")
	}
	for i, ty := range types {
		if ch.ExtIndex(ty) != i {
			t.Errorf("ExtIndex(%d) = %d, want %d", ty, ch.ExtIndex(ty), i)
		}
		e, ok := ch.Ext(ty)
		if !ok || e != &ch.Extensions[i] {
			t.Errorf("Ext(%d) wrong", ty)
		}
	}
	if _, ok := ch.Ext(0x9999); ok || ch.ExtIndex(0x9999) != -1 {
		t.Errorf("absent extension reported present")
	}
	has := func(ty uint16) bool { return ch.ExtIndex(ty) >= 0 }
	pres := func(name string, ty uint16, viewPresent bool) {
		if has(ty) != viewPresent {
			t.Errorf("%s: extension present=%v but view present=%v", name, has(ty), viewPresent)
		}
	}
	pres("sni", 0, ch.SNIPresent)
	pres("alpn", 16, ch.ALPN != nil)
	pres("supported_versions", 43, ch.SupportedVersions != nil)
	pres("supported_groups", 10, ch.SupportedGroups != nil)
	pres("key_share", 51, ch.KeyShares != nil)
	pres("sigalgs", 13, ch.SigAlgs != nil)
	pres("sigalgs_cert", 50, ch.SigAlgsCert != nil)
	pres("psk_modes", 45, ch.PSKModes != nil)
	pres("psk", 41, ch.PSKIdentities != nil)
	pres("psk", 41, ch.PSKBinders != nil)
	pres("ec_point_formats", 11, ch.ECPointFormats != nil)
	pres("compress_certificate", 27, ch.CertCompression != nil)
	pres("cookie", 44, ch.Cookie != nil)
	pres("padding", 21, ch.HasPadding)
	pres("session_ticket", 35, ch.HasSessionTicket)
	pres("renegotiation_info", 0xff01, ch.HasRenegotiationInfo)
	pres("delegated_credentials", 34, ch.DelegatedCredentials != nil)
	pres("quic_tp", 57, ch.QUICTransportParams != nil)
	pres("ech", 0xfe0d, ch.ECH != nil || ch.ECHInner)
	if (has(17513) || has(17613)) != (ch.ALPS != nil) {
		t.Errorf("ALPS view/presence mismatch")
	}
	if ch.ALPS != nil && !has(ch.ALPSCodepoint) {
		t.Errorf("ALPSCodepoint %d not present", ch.ALPSCodepoint)
	}
	if ch.SNIPresent && ch.SNI != wantSNI {
		t.Errorf("SNI = %q, want %q", ch.SNI, wantSNI)
	}
	if ch.HasPadding {
		e, _ := ch.Ext(21)
		if ch.PaddingLen != len(e.Data) {
			t.Errorf("PaddingLen")
		}
	}
	if has(28) {
		e, _ := ch.Ext(28)
		if ch.RecordSizeLimit != binary.BigEndian.Uint16(e.Data) {
			t.Errorf("RecordSizeLimit")
		}
	}
	for _, p := range ch.ALPN {
		if p == "" {
			t.Errorf("empty ALPN name")
		}
	}
	tls13 := false
	for _, v := range ch.SupportedVersions {
		if v == 0x0304 {
			tls13 = true
		}
	}
	if tls13 {
		if ch.LegacyVersion != 0x0303 {
			t.Errorf("TLS 1.3 hello with legacy_version %#x", ch.LegacyVersion)
		}
		if !has(51) || !has(10) || !has(13) {
			t.Errorf("TLS 1.3 hello lacks key_share/supported_groups/signature_algorithms")
		}
		// RFC 8446 4.2.8: shares must be a subsequence of supported_groups.
		// Not a parser property: only logged.
		j := 0
		for _, ks := range ch.KeyShares {
			for j < len(ch.SupportedGroups) && ch.SupportedGroups[j] != ks.Group {
				j++
			}
			if j == len(ch.SupportedGroups) {
				t.Logf("NOTE: key_share group %#04x not in supported_groups order %04x", ks.Group, ch.SupportedGroups)
				break
			}
		}
	}
	if ch.ECH != nil && len(ch.ECH.Payload) == 0 {
		t.Errorf("ECH outer with empty payload accepted")
	}
}

func TestParrotsAccepted(t *testing.T) {
	seenExt := map[uint16]int{}
	for _, p := range allIDs() {
		t.Run(p.name, func(t *testing.T) {
			raw, err := buildHello(p.id, nil)
			if err != nil {
				t.Fatalf("BuildHandshakeState: %v", err)
			}
			ch, err := ParseClientHello(raw)
			if err != nil {
				t.Fatalf("REJECTED: %v\n% x", err, raw)
			}
			if !ch.SNIPresent {
				t.Logf("no SNI extension")
			}
			checkViews(t, ch, "example.com")
			for _, ty := range ch.ExtTypes() {
				if IsGREASE(ty) {
					ty = 0x0a0a
				}
				seenExt[ty]++
			}

			// through the record layer, split in awkward places
			stream := cat(record(22, raw[:3]), record(22, raw[3:7]), record(22, raw[7:]))
			recs, rest, err := ParseRecords(stream)
			if err != nil || len(rest) != 0 || len(recs) != 3 {
				t.Fatalf("ParseRecords: %v rest=%d recs=%d", err, len(rest), len(recs))
			}
			msgs, partial, err := PlaintextHandshake(recs)
			if err != nil || len(partial) != 0 || len(msgs) != 1 || !bytes.Equal(msgs[0].Raw, raw) {
				t.Fatalf("PlaintextHandshake: %v partial=%d msgs=%d", err, len(partial), len(msgs))
			}
		})
	}
	t.Logf("extension types seen across parrots (GREASE folded into 0x0a0a): %v", seenExt)
}

// Hellos without SNI (empty ServerName / IP literal) and with a trailing dot
// in the configured name.
func TestParrotsServerNameVariants(t *testing.T) {
	for _, p := range []namedID{{"Chrome_133", tls.HelloChrome_133}, {"Firefox_120", tls.HelloFirefox_120}, {"Golang", tls.HelloGolang}, {"iOS_14", tls.HelloIOS_14}} {
		for _, sn := range []string{"", "192.0.2.1", "example.com.", "xn--bcher-kva.example"} {
			raw, err := buildHello(p.id, &tls.Config{ServerName: sn, InsecureSkipVerify: true, OmitEmptyPsk: true})
			if err != nil {
				t.Fatalf("%s/%q: %v", p.name, sn, err)
			}
			ch, err := ParseClientHello(raw)
			if err != nil {
				t.Errorf("%s/%q REJECTED: %v\n% x", p.name, sn, err, raw)
				continue
			}
			want := strings.TrimSuffix(sn, ".")
			if ch.SNIPresent {
				checkViews(t, ch, want)
			}
			t.Logf("%s ServerName=%q -> SNIPresent=%v SNI=%q", p.name, sn, ch.SNIPresent, ch.SNI)
		}
	}
}

// ---------------------------------------------------------------------------
// mutation tests on real uTLS output
// ---------------------------------------------------------------------------

type prefix struct {
	off, size int
	what      string
}

// lengthPrefixes walks raw independently of the parser and lists every
// length prefix it knows about.
func lengthPrefixes(t *testing.T, raw []byte) []prefix {
	var ps []prefix
	add := func(off, size int, what string) { ps = append(ps, prefix{off, size, what}) }
	be16 := func(off int) int { return int(raw[off])<<8 | int(raw[off+1]) }
	add(1, 3, "handshake length")
	off := 4 + 2 + 32
	add(off, 1, "session id")
	off += 1 + int(raw[off])
	add(off, 2, "cipher suites")
	off += 2 + be16(off)
	add(off, 1, "compression")
	off += 1 + int(raw[off])
	if off == len(raw) {
		return ps
	}
	add(off, 2, "extensions block")
	off += 2
	for i := 0; off < len(raw); i++ {
		ty := uint16(be16(off))
		n := be16(off + 2)
		w := fmt.Sprintf("ext#%d(type %d)", i, ty)
		add(off+2, 2, w+" length")
		d := off + 4
		switch {
		case IsGREASE(ty):
		case ty == 0:
			add(d, 2, w+" list")
			add(d+3, 2, w+" hostname")
		case ty == 5:
			if raw[d] == 1 {
				add(d+1, 2, w+" responder ids")
				add(d+3+be16(d+1), 2, w+" request extensions")
			}
		case ty == 10 || ty == 13 || ty == 50 || ty == 34 || ty == 17 || ty == 44:
			add(d, 2, w+" list")
		case ty == 18:
			if n > 0 {
				add(d, 2, w+" list")
			}
		case ty == 11 || ty == 43 || ty == 45 || ty == 27 || ty == 0xff01:
			add(d, 1, w+" list")
		case ty == 16 || ty == 17513 || ty == 17613:
			add(d, 2, w+" list")
			for q := d + 2; q < d+n; q += 1 + int(raw[q]) {
				add(q, 1, w+" name")
			}
		case ty == 41:
			add(d, 2, w+" identities")
			q := d + 2
			for q < d+2+be16(d) {
				add(q, 2, w+" identity")
				q += 2 + be16(q) + 4
			}
			add(q, 2, w+" binders")
			for q += 2; q < d+n; q += 1 + int(raw[q]) {
				add(q, 1, w+" binder")
			}
		case ty == 51:
			add(d, 2, w+" shares")
			for q := d + 2; q < d+n; q += 4 + be16(q+2) {
				add(q+2, 2, w+" key_exchange")
			}
		case ty == 0xfe0d:
			if raw[d] == 0 {
				add(d+6, 2, w+" enc")
				add(d+8+be16(d+6), 2, w+" payload")
			}
		}
		off = d + n
	}
	if off != len(raw) {
		t.Fatalf("test walker out of sync")
	}
	return ps
}

func bump(raw []byte, p prefix, delta int) []byte {
	m := append([]byte(nil), raw...)
	v := 0
	for i := 0; i < p.size; i++ {
		v = v<<8 | int(m[p.off+i])
	}
	v = (v + delta) & (1<<(8*p.size) - 1)
	for i := p.size - 1; i >= 0; i-- {
		m[p.off+i] = byte(v)
		v >>= 8
	}
	return m
}

var testPSKExt = Extension{Type: 41, Data: cat(
	v16(cat(v16([]byte("ticket-ticket-ticket")), []byte{1, 2, 3, 4})),
	v16(v8(bytes.Repeat([]byte{0xbb}, 32))),
)}

// reframed reports whether mut (accepted as c2) is a genuinely different,
// fully consistent framing: it re-serialises byte for byte from c2's
// top-level decomposition (so no byte was skipped or invented), and its
// extension framing (types or body lengths) differs from the original's.
// Observed example: Chrome shuffled hellos where GREASE(+1 byte) is followed
// by status_request, whose shifted length 0x0501 ends exactly on the X25519
// KeyShareEntry "001d 0020 <32 bytes>", which then reads as an unknown
// extension.
func reframed(orig, c2 *ClientHello, mut []byte) bool {
	if !bytes.Equal(reserialise(c2, c2.Extensions, c2.HasExtensions), mut) {
		return false
	}
	if fmt.Sprint(orig.ExtTypes()) == fmt.Sprint(c2.ExtTypes()) {
		same := true
		for i := range orig.Extensions {
			if len(orig.Extensions[i].Data) != len(c2.Extensions[i].Data) {
				same = false
			}
		}
		if same {
			return false
		}
	}
	return true
}

func TestParrotMutationsRejected(t *testing.T) {
	nPrefix, nReframed := 0, 0
	for _, p := range allIDs() {
		t.Run(p.name, func(t *testing.T) {
			raw, err := buildHello(p.id, nil)
			if err != nil {
				t.Fatalf("BuildHandshakeState: %v", err)
			}
			ch, err := ParseClientHello(raw)
			if err != nil {
				t.Skipf("rejected (reported by TestParrotsAccepted): %v", err)
			}

			// 1. every length prefix +-1
			for _, pf := range lengthPrefixes(t, raw) {
				for _, d := range []int{+1, -1} {
					nPrefix++
					m := bump(raw, pf, d)
					c2, err := ParseClientHello(m)
					if err == nil {
						// The only legitimate way: the corrupted bytes happen to
						// form ANOTHER fully consistent ClientHello (an opaque
						// extension absorbs the slack and the framing re-syncs on
						// something that looks like an extension header, e.g. a
						// key_share entry). Prove that, independently of the
						// parser, or fail.
						if !reframed(ch, c2, m) {
							t.Errorf("%s %+d at offset %d: accepted", pf.what, d, pf.off)
						} else {
							nReframed++
							t.Logf("%s %+d at offset %d: corrupted bytes are a different but consistent ClientHello: %04x", pf.what, d, pf.off, c2.ExtTypes())
						}
					}
				}
			}
			// truncation / extension at the end
			if _, err := ParseClientHello(raw[:len(raw)-1]); err == nil {
				t.Errorf("truncated hello accepted")
			}
			if _, err := ParseClientHello(append(append([]byte(nil), raw...), 0)); err == nil {
				t.Errorf("hello with trailing byte accepted")
			}
			if !ch.HasExtensions {
				return
			}

			// 2. duplicate each extension (copy inserted first)
			for i, e := range ch.Extensions {
				exts := append([]Extension{e}, ch.Extensions...)
				_, err := ParseClientHello(reserialise(ch, exts, true))
				if err == nil || !strings.Contains(err.Error(), "appears twice") {
					t.Errorf("duplicate of ext #%d type %d: err=%v", i, e.Type, err)
				}
			}

			// 3. padding
			if ch.HasPadding && ch.PaddingLen > 0 {
				m := append([]byte(nil), raw...)
				// offset of the padding body: walk the extensions before it
				off := len(reserialise(ch, nil, false)) + 2
				for _, e := range ch.Extensions[:ch.ExtIndex(21)] {
					off += 4 + len(e.Data)
				}
				off += 4
				if binary.BigEndian.Uint16(raw[off-4:]) != 21 || int(binary.BigEndian.Uint16(raw[off-2:])) != ch.PaddingLen {
					t.Fatalf("test bug: padding offset")
				}
				m[off+ch.PaddingLen-1] = 0x80
				if _, err := ParseClientHello(m); err == nil || !strings.Contains(err.Error(), "padding") {
					t.Errorf("non-zero padding: err=%v", err)
				}
			} else if !ch.HasPadding {
				last := len(ch.Extensions)
				if ch.ExtIndex(41) >= 0 {
					last--
				}
				ins := func(e Extension) []Extension {
					out := append([]Extension{}, ch.Extensions[:last]...)
					out = append(out, e)
					return append(out, ch.Extensions[last:]...)
				}
				if _, err := ParseClientHello(reserialise(ch, ins(Extension{21, []byte{0, 0, 0, 0}}), true)); err != nil {
					t.Errorf("zero padding rejected: %v", err)
				}
				if _, err := ParseClientHello(reserialise(ch, ins(Extension{21, []byte{0, 0, 1, 0}}), true)); err == nil {
					t.Errorf("non-zero padding accepted")
				}
			}

			// 4. PSK position
			if ch.ExtIndex(41) < 0 {
				exts := append(append([]Extension{}, ch.Extensions...), testPSKExt)
				c2, err := ParseClientHello(reserialise(ch, exts, true))
				if err != nil {
					t.Fatalf("PSK last rejected: %v", err)
				}
				if len(c2.PSKIdentities) != 1 || len(c2.PSKBinders) != 1 || c2.PSKIdentities[0].ObfuscatedAge != 0x01020304 {
					t.Errorf("PSK view wrong: %+v", c2.PSKIdentities)
				}
				for pos := 0; pos < len(ch.Extensions); pos++ {
					exts := append([]Extension{}, ch.Extensions[:pos]...)
					exts = append(exts, testPSKExt)
					exts = append(exts, ch.Extensions[pos:]...)
					_, err := ParseClientHello(reserialise(ch, exts, true))
					if err == nil || !strings.Contains(err.Error(), "must be last") {
						t.Errorf("PSK at position %d of %d: err=%v", pos, len(exts), err)
					}
				}
			}

			// 5. GREASE extensions: distinct code points fine, same one twice not
			nog := []Extension{}
			for _, e := range ch.Extensions {
				if !IsGREASE(e.Type) && e.Type != 41 {
					nog = append(nog, e)
				}
			}
			two := append([]Extension{{0x3a3a, nil}}, append(nog, Extension{0x4a4a, []byte{0}})...)
			if _, err := ParseClientHello(reserialise(ch, two, true)); err != nil {
				t.Errorf("two distinct GREASE extensions rejected: %v", err)
			}
			two[len(two)-1].Type = 0x3a3a
			if _, err := ParseClientHello(reserialise(ch, two, true)); err == nil {
				t.Errorf("same GREASE extension twice accepted")
			}
		})
	}
	t.Logf("%d length-prefix mutations tried, %d of them produced a different but consistent ClientHello", nPrefix, nReframed)
	if nReframed*100 > nPrefix {
		t.Errorf("too many accepted mutations")
	}
}

// ---------------------------------------------------------------------------
// grammar table
// ---------------------------------------------------------------------------

func qv(v uint64) []byte { // minimal QUIC varint
	switch {
	case v < 1<<6:
		return []byte{byte(v)}
	case v < 1<<14:
		return []byte{0x40 | byte(v>>8), byte(v)}
	case v < 1<<30:
		return []byte{0x80 | byte(v>>24), byte(v >> 16), byte(v >> 8), byte(v)}
	}
	b := make([]byte, 8)
	binary.BigEndian.PutUint64(b, v)
	b[0] |= 0xc0
	return b
}

func TestExtensionGrammar(t *testing.T) {
	h := func(s string) []byte {
		var b []byte
		s = strings.ReplaceAll(s, " ", "")
		if _, err := fmt.Sscanf(s, "%x", &b); err != nil && s != "" {
			t.Fatalf("bad hex %q: %v", s, err)
		}
		return b
	}
	b32 := bytes.Repeat([]byte{0xaa}, 32)
	b31 := b32[:31]
	id := func(s string, age uint32) []byte {
		return cat(v16([]byte(s)), []byte{byte(age >> 24), byte(age >> 16), byte(age >> 8), byte(age)})
	}
	ks := func(g uint16, kx []byte) []byte { return cat(p16(int(g)), v16(kx)) }
	echOuter := func(enc, payload []byte) []byte {
		return cat([]byte{0, 0, 1, 0, 1, 7}, v16(enc), v16(payload))
	}
	tp := func(id uint64, val []byte) []byte { return cat(qv(id), qv(uint64(len(val))), val) }

	cases := []struct {
		name string
		typ  uint16
		body []byte
		ok   bool
	}{
		{"sni ok", 0, h("000e 00 000b 6578616d706c652e636f6d"), true},
		{"sni empty body", 0, nil, false},
		{"sni empty list", 0, h("0000"), false},
		{"sni empty host", 0, h("0003 00 0000"), false},
		{"sni name_type 1", 0, h("0004 01 0001 61"), false},
		{"sni two hosts", 0, h("0008 00 0001 61 00 0001 62"), false},
		{"sni NUL", 0, h("0005 00 0002 6100"), false},
		{"sni trailing dot", 0, h("0005 00 0002 612e"), false},
		{"sni list short", 0, h("0005 00 0001 61"), false},
		{"sni list long", 0, h("0003 00 0001 61"), false},
		{"sni host long", 0, h("0004 00 0002 61"), false},
		{"sni trailing", 0, h("0004 00 0001 61 00"), false},
		{"sni truncated entry", 0, h("0002 00 00"), false},

		{"status_request ocsp", 5, h("01 0000 0000"), true},
		{"status_request ocsp ids+exts", 5, h("01 0005 0003 aabbcc 0002 3000"), true},
		{"status_request empty", 5, nil, false},
		{"status_request ocsp short", 5, h("01 0000"), false},
		{"status_request ocsp trailing", 5, h("01 0000 0000 00"), false},
		{"status_request ocsp empty responder id", 5, h("01 0002 0000 0000"), false},
		{"status_request ocsp bad responder id", 5, h("01 0003 0002 aa 0000"), false},
		{"status_request other type", 5, h("02 ffff"), true},

		{"groups ok", 10, h("0004 001d 0017"), true},
		{"groups empty", 10, h("0000"), false},
		{"groups odd", 10, h("0003 001d 00"), false},
		{"groups short", 10, h("0006 001d 0017"), false},
		{"groups trailing", 10, h("0002 001d 0017"), false},
		{"groups no body", 10, nil, false},

		{"ecpf ok", 11, h("01 00"), true},
		{"ecpf empty", 11, h("00"), false},
		{"ecpf trailing", 11, h("01 00 01"), false},
		{"ecpf short", 11, h("02 00"), false},

		{"sigalgs ok", 13, h("0004 0403 0804"), true},
		{"sigalgs empty", 13, h("0000"), false},
		{"sigalgs odd", 13, h("0001 04"), false},
		{"sigalgs_cert ok", 50, h("0002 0403"), true},
		{"sigalgs_cert empty", 50, h("0000"), false},
		{"sigalgs_cert trailing", 50, h("0002 0403 00"), false},

		{"alpn ok", 16, h("000c 02 6832 08 687474702f312e31"), true},
		{"alpn empty list", 16, h("0000"), false},
		{"alpn empty name", 16, h("0001 00"), false},
		{"alpn name overrun", 16, h("0003 03 6832"), false},
		{"alpn trailing", 16, h("0003 02 6832 00"), false},
		{"alpn no body", 16, nil, false},

		{"status_request_v2 ok", 17, h("0003 aabbcc"), true},
		{"status_request_v2 empty vec", 17, h("0000"), true},
		{"status_request_v2 no body", 17, nil, false},
		{"status_request_v2 trailing", 17, h("0000 00"), false},

		{"sct empty", 18, nil, true},
		{"sct list", 18, h("0004 0002 aabb"), true},
		{"sct bad list", 18, h("0004 0002 aa"), false},
		{"sct one byte", 18, h("00"), false},

		{"padding none", 21, nil, true},
		{"padding zeros", 21, make([]byte, 300), true},
		{"padding nonzero first", 21, h("01 00 00"), false},
		{"padding nonzero last", 21, h("00 00 01"), false},

		{"etm ok", 22, nil, true},
		{"etm body", 22, h("00"), false},
		{"ems ok", 23, nil, true},
		{"ems body", 23, h("00"), false},
		{"pha ok", 49, nil, true},
		{"pha body", 49, h("00"), false},
		{"npn ok", 13172, nil, true},
		{"npn body", 13172, h("00"), false},
		{"channel_id ok", 30032, nil, true},
		{"channel_id body", 30032, h("00"), false},
		{"channel_id old ok", 30031, nil, true},
		{"channel_id old body", 30031, h("00"), false},

		{"compress_cert ok", 27, h("02 0002"), true},
		{"compress_cert three", 27, h("06 0001 0002 0003"), true},
		{"compress_cert empty", 27, h("00"), false},
		{"compress_cert odd", 27, h("01 02"), false},
		{"compress_cert u16 prefix (wrong)", 27, h("0002 0002"), false},
		{"compress_cert trailing", 27, h("02 0002 00"), false},

		{"rsl ok", 28, h("4001"), true},
		{"rsl 1 byte", 28, h("40"), false},
		{"rsl 3 bytes", 28, h("400100"), false},
		{"rsl empty", 28, nil, false},

		{"dc ok", 34, h("0008 0403 0503 0603 0203"), true},
		{"dc odd", 34, h("0003 0403 05"), false},
		{"dc empty", 34, h("0000"), false},
		{"dc trailing", 34, h("0002 0403 00"), false},

		{"ticket empty", 35, nil, true},
		{"ticket any", 35, h("deadbeef"), true},

		{"psk ok", 41, cat(v16(id("abc", 7)), v16(v8(b32))), true},
		{"psk two", 41, cat(v16(cat(id("abc", 7), id("d", 9))), v16(cat(v8(b32), v8(append(b32[:32:32], 1, 2))))), true},
		{"psk no identities", 41, cat(v16(nil), v16(v8(b32))), false},
		{"psk empty identity", 41, cat(v16(id("", 7)), v16(v8(b32))), false},
		{"psk no binders", 41, cat(v16(id("abc", 7)), v16(nil)), false},
		{"psk short binder", 41, cat(v16(id("abc", 7)), v16(v8(b31))), false},
		{"psk count mismatch", 41, cat(v16(id("abc", 7)), v16(cat(v8(b32), v8(b32)))), false},
		{"psk count mismatch 2", 41, cat(v16(cat(id("abc", 7), id("d", 9))), v16(v8(b32))), false},
		{"psk trailing", 41, cat(v16(id("abc", 7)), v16(v8(b32)), []byte{0}), false},
		{"psk truncated age", 41, cat(v16(cat(v16([]byte("abc")), []byte{0, 0, 0})), v16(v8(b32))), false},
		{"psk missing binders", 41, v16(id("abc", 7)), false},
		{"psk empty", 41, nil, false},

		{"versions ok", 43, h("04 0304 0303"), true},
		{"versions grease", 43, h("06 1a1a 0304 0303"), true},
		{"versions empty", 43, h("00"), false},
		{"versions odd", 43, h("03 0304 03"), false},
		{"versions trailing", 43, h("02 0304 03"), false},
		{"versions u16 prefix (wrong)", 43, h("0002 0304"), false},

		{"cookie ok", 44, h("0003 aabbcc"), true},
		{"cookie empty", 44, h("0000"), false},
		{"cookie short", 44, h("0004 aabbcc"), false},
		{"cookie trailing", 44, h("0002 aabbcc"), false},

		{"psk modes ok", 45, h("01 01"), true},
		{"psk modes two", 45, h("02 01 00"), true},
		{"psk modes empty", 45, h("00"), false},
		{"psk modes no body", 45, nil, false},
		{"psk modes trailing", 45, h("01 01 00"), false},

		{"key_share ok", 51, v16(cat(ks(0x2a2a, []byte{0}), ks(0x001d, b32))), true},
		{"key_share empty list", 51, h("0000"), true},
		{"key_share no body", 51, nil, false},
		{"key_share empty kx", 51, v16(ks(0x001d, nil)), false},
		{"key_share dup group", 51, v16(cat(ks(0x001d, b32), ks(0x001d, b31))), false},
		{"key_share dup grease", 51, v16(cat(ks(0x2a2a, []byte{0}), ks(0x2a2a, []byte{0}))), false},
		{"key_share truncated", 51, v16(cat(ks(0x001d, b32), []byte{0, 0x17, 0})), false},
		{"key_share trailing", 51, cat(v16(ks(0x001d, b32)), []byte{0}), false},
		{"key_share kx overrun", 51, v16(cat(p16(0x1d), p16(33), b32)), false},

		{"quic tp empty", 57, nil, true},
		{"quic tp ok", 57, cat(tp(1, qv(30000)), tp(4, qv(1<<20)), tp(27+31*5, []byte{1, 2, 3}), tp(0x0f, nil), tp(1<<40, []byte{9})), true},
		{"quic tp non-minimal varint", 57, h("4001 4001 aa"), true},
		{"quic tp dup", 57, cat(tp(1, qv(3)), tp(1, qv(3))), false},
		{"quic tp dup via non-minimal id", 57, cat(tp(1, qv(3)), h("4001 00")), false},
		{"quic tp overrun", 57, h("01 02 aa"), false},
		{"quic tp truncated id", 57, h("40"), false},
		{"quic tp truncated len", 57, h("01"), false},
		{"quic tp truncated len varint", 57, h("01 80 00"), false},

		{"alps old ok", 17513, h("0003 02 6832"), true},
		{"alps new ok", 17613, h("0003 02 6832"), true},
		{"alps empty list", 17513, h("0000"), false},
		{"alps new empty name", 17613, h("0001 00"), false},
		{"alps trailing", 17513, h("0003 02 6832 00"), false},
		{"alps no body", 17613, nil, false},

		{"reneg ok", 0xff01, h("00"), true},
		{"reneg data", 0xff01, h("0c 000102030405060708090a0b"), true},
		{"reneg no body", 0xff01, nil, false},
		{"reneg trailing", 0xff01, h("00 00"), false},
		{"reneg short", 0xff01, h("02 00"), false},

		{"ech outer ok", 0xfe0d, echOuter(b32, bytes.Repeat([]byte{1}, 100)), true},
		{"ech outer empty enc (after HRR)", 0xfe0d, echOuter(nil, bytes.Repeat([]byte{1}, 100)), true},
		{"ech outer empty payload", 0xfe0d, echOuter(b32, nil), false},
		{"ech outer trailing", 0xfe0d, append(echOuter(b32, []byte{1}), 0), false},
		{"ech outer truncated", 0xfe0d, echOuter(b32, []byte{1, 2})[:70-29], false},
		{"ech outer header only", 0xfe0d, h("00 0001 0001"), false},
		{"ech inner ok", 0xfe0d, h("01"), true},
		{"ech inner trailing", 0xfe0d, h("01 00"), false},
		{"ech type 2", 0xfe0d, h("02"), false},
		{"ech empty", 0xfe0d, nil, false},

		{"unknown empty", 24, nil, true},
		{"unknown any", 0xffce, h("00112233"), true},
		{"unknown any 2", 0x1234, h("ff"), true},
		{"grease empty", 0x0a0a, nil, true},
		{"grease any", 0xfafa, h("00"), true},
		{"grease any long", 0x5a5a, h("0102030405"), true},
	}
	for _, c := range cases {
		msg := mkCH(Extension{23, nil}, Extension{c.typ, c.body}, Extension{0xff01, []byte{0}})
		if c.typ == 23 || c.typ == 0xff01 || c.typ == 41 {
			msg = mkCH(Extension{10, []byte{0, 2, 0, 0x1d}}, Extension{c.typ, c.body})
		}
		_, err := ParseClientHello(msg)
		if (err == nil) != c.ok {
			t.Errorf("%s: ok=%v, err=%v", c.name, c.ok, err)
		}
	}

	// Decoded views on a hand-built hello with everything in it.
	full := mkCH(
		Extension{0x1a1a, nil},
		Extension{0, h("000e 00 000b 6578616d706c652e636f6d")},
		Extension{16, h("000c 02 6832 08 687474702f312e31")},
		Extension{43, h("06 1a1a 0304 0303")},
		Extension{10, h("0006 2a2a 001d 0017")},
		Extension{51, v16(cat(ks(0x2a2a, []byte{0}), ks(0x001d, b32)))},
		Extension{13, h("0004 0403 0804")},
		Extension{50, h("0002 0401")},
		Extension{45, h("01 01")},
		Extension{11, h("01 00")},
		Extension{27, h("02 0002")},
		Extension{17613, h("0003 02 6832")},
		Extension{44, h("0003 aabbcc")},
		Extension{0xfe0d, echOuter(b32, []byte{9, 9})},
		Extension{21, make([]byte, 5)},
		Extension{28, h("4001")},
		Extension{57, tp(1, qv(30000))},
		Extension{35, h("beef")},
		Extension{0xff01, h("00")},
		Extension{34, h("0002 0403")},
		Extension{41, cat(v16(cat(id("abc", 7), id("d", 9))), v16(cat(v8(b32), v8(b32))))},
	)
	ch, err := ParseClientHello(full)
	if err != nil {
		t.Fatal(err)
	}
	checkViews(t, ch, "example.com")
	eq := func(name string, got, want any) {
		if fmt.Sprint(got) != fmt.Sprint(want) {
			t.Errorf("%s = %v, want %v", name, got, want)
		}
	}
	eq("SNI", ch.SNI, "example.com")
	eq("ALPN", ch.ALPN, []string{"h2", "http/1.1"})
	eq("SupportedVersions", ch.SupportedVersions, []uint16{0x1a1a, 0x0304, 0x0303})
	eq("SupportedGroups", ch.SupportedGroups, []uint16{0x2a2a, 0x1d, 0x17})
	eq("KeyShares", len(ch.KeyShares), 2)
	eq("KeyShares[1]", ch.KeyShares[1].Group, 0x1d)
	eq("KeyShares[1].Data", ch.KeyShares[1].Data, b32)
	eq("SigAlgs", ch.SigAlgs, []uint16{0x0403, 0x0804})
	eq("SigAlgsCert", ch.SigAlgsCert, []uint16{0x0401})
	eq("PSKModes", ch.PSKModes, []uint8{1})
	eq("ECPointFormats", ch.ECPointFormats, []uint8{0})
	eq("CertCompression", ch.CertCompression, []uint16{2})
	eq("ALPS", ch.ALPS, []string{"h2"})
	eq("ALPSCodepoint", ch.ALPSCodepoint, 17613)
	eq("Cookie", ch.Cookie, []byte{0xaa, 0xbb, 0xcc})
	eq("ECH", *ch.ECH, ECHOuter{KDF: 1, AEAD: 1, ConfigID: 7, Enc: b32, Payload: []byte{9, 9}})
	eq("ECHInner", ch.ECHInner, false)
	eq("PaddingLen", ch.PaddingLen, 5)
	eq("RecordSizeLimit", ch.RecordSizeLimit, 0x4001)
	eq("QUICTransportParams", ch.QUICTransportParams, tp(1, qv(30000)))
	eq("SessionTicket", ch.SessionTicket, []byte{0xbe, 0xef})
	eq("RenegotiationInfo", len(ch.RenegotiationInfo), 0)
	eq("DelegatedCredentials", ch.DelegatedCredentials, []uint16{0x0403})
	eq("PSKIdentities", ch.PSKIdentities, []PSKIdentity{{[]byte("abc"), 7}, {[]byte("d"), 9}})
	eq("PSKBinders", ch.PSKBinders, [][]byte{b32, b32})

	// every length prefix of this fixed hello +-1: strict, no exceptions
	for _, pf := range lengthPrefixes(t, full) {
		for _, d := range []int{1, -1} {
			if _, err := ParseClientHello(bump(full, pf, d)); err == nil {
				t.Errorf("full hello: %s %+d at offset %d accepted", pf.what, d, pf.off)
			}
		}
	}

	inner, err := ParseClientHello(mkCH(Extension{0xfe0d, []byte{1}}))
	if err != nil || !inner.ECHInner || inner.ECH != nil {
		t.Errorf("ECH inner: %v %+v", err, inner)
	}
}

func TestClientHelloFraming(t *testing.T) {
	rnd := bytes.Repeat([]byte{7}, 32)
	body := func(sid, cs, comp []byte, tail []byte) []byte {
		return cat([]byte{3, 3}, rnd, v8(sid), v16(cs), v8(comp), tail)
	}
	sid32 := bytes.Repeat([]byte{1}, 32)
	sid33 := bytes.Repeat([]byte{1}, 33)
	cases := []struct {
		name string
		msg  []byte
		ok   bool
	}{
		{"no extensions", hsMsg(1, body(nil, []byte{0, 0x2f}, []byte{0}, nil)), true},
		{"empty extension block", hsMsg(1, body(nil, []byte{0, 0x2f}, []byte{0}, []byte{0, 0})), true},
		{"sid 32", hsMsg(1, body(sid32, []byte{0, 0x2f}, []byte{0}, nil)), true},
		{"sid 33", hsMsg(1, body(sid33, []byte{0, 0x2f}, []byte{0}, nil)), false},
		{"no cipher suites", hsMsg(1, body(nil, nil, []byte{0}, nil)), false},
		{"odd cipher suites", hsMsg(1, body(nil, []byte{0, 0x2f, 0}, []byte{0}, nil)), false},
		{"no compression", hsMsg(1, body(nil, []byte{0, 0x2f}, nil, nil)), false},
		{"two compression", hsMsg(1, body(nil, []byte{0, 0x2f}, []byte{1, 0}, nil)), true},
		{"one stray byte after compression", hsMsg(1, body(nil, []byte{0, 0x2f}, []byte{0}, []byte{0})), false},
		{"ext block short", hsMsg(1, body(nil, []byte{0, 0x2f}, []byte{0}, []byte{0, 3, 0, 23, 0, 0})), false},
		{"ext block long", hsMsg(1, body(nil, []byte{0, 0x2f}, []byte{0}, []byte{0, 5, 0, 23, 0, 0})), false},
		{"ext block trailing", hsMsg(1, body(nil, []byte{0, 0x2f}, []byte{0}, []byte{0, 4, 0, 23, 0, 0, 0})), false},
		{"ext header truncated", hsMsg(1, body(nil, []byte{0, 0x2f}, []byte{0}, []byte{0, 3, 0, 23, 0})), false},
		{"ext type truncated", hsMsg(1, body(nil, []byte{0, 0x2f}, []byte{0}, []byte{0, 1, 0})), false},
		{"ext body overrun", hsMsg(1, body(nil, []byte{0, 0x2f}, []byte{0}, []byte{0, 4, 0, 23, 0, 1})), false},
		{"wrong type", hsMsg(2, body(nil, []byte{0, 0x2f}, []byte{0}, nil)), false},
		{"header only", []byte{1, 0, 0, 0}, false},
		{"short header", []byte{1, 0, 0}, false},
		{"nil", nil, false},
		{"truncated random", hsMsg(1, cat([]byte{3, 3}, rnd[:31])), false},
		{"truncated version", hsMsg(1, []byte{3}), false},
		{"hs length too big", append([]byte{1, 0, 0, 50}, body(nil, []byte{0, 0x2f}, []byte{0}, nil)...), false},
		{"hs length too small", append([]byte{1, 0, 0, 3}, body(nil, []byte{0, 0x2f}, []byte{0}, nil)...), false},
	}
	for _, c := range cases {
		ch, err := ParseClientHello(c.msg)
		if (err == nil) != c.ok {
			t.Errorf("%s: ok=%v err=%v", c.name, c.ok, err)
		}
		if err == nil {
			checkViews(t, ch, "")
		}
		if (err != nil) != (ch == nil) {
			t.Errorf("%s: result/err mismatch", c.name)
		}
	}
	ch, _ := ParseClientHello(cases[0].msg)
	if ch.HasExtensions || ch.Extensions != nil {
		t.Errorf("HasExtensions on extension-less hello")
	}
	ch, _ = ParseClientHello(cases[1].msg)
	if !ch.HasExtensions || len(ch.Extensions) != 0 {
		t.Errorf("HasExtensions on empty block")
	}
}

func TestGREASEAndVarint(t *testing.T) {
	n := 0
	for v := 0; v < 0x10000; v++ {
		want := v>>8 == v&0xff && v&0x0f == 0x0a
		if IsGREASE(uint16(v)) != want {
			t.Fatalf("IsGREASE(%#04x) = %v", v, !want)
		}
		if want {
			n++
		}
	}
	if n != 16 {
		t.Fatalf("%d GREASE values", n)
	}
	for _, id := range []uint64{27, 58, 27 + 31*1000, 27 + 31*((1<<62-28)/31)} {
		if !GREASEQUICParamID(id) {
			t.Errorf("GREASEQUICParamID(%d) false", id)
		}
	}
	for _, id := range []uint64{0, 1, 26, 28, 57, 59, 0x39} {
		if GREASEQUICParamID(id) {
			t.Errorf("GREASEQUICParamID(%d) true", id)
		}
	}
	// RFC 9000 appendix A.1 examples
	for _, c := range []struct {
		hex string
		v   uint64
		n   int
	}{
		{"c2197c5eff14e88c", 151288809941952652, 8},
		{"9d7f3e7d", 494878333, 4},
		{"7bbd", 15293, 2},
		{"25", 37, 1},
		{"4025", 37, 2},
	} {
		var b []byte
		fmt.Sscanf(c.hex, "%x", &b)
		v, n, ok := ParseQUICVarint(append(b, 0xff))
		if !ok || v != c.v || n != c.n {
			t.Errorf("varint %s = %d,%d,%v", c.hex, v, n, ok)
		}
		if _, _, ok := ParseQUICVarint(b[:len(b)-1]); ok {
			t.Errorf("truncated varint %s accepted", c.hex)
		}
	}
	for _, v := range []uint64{0, 63, 64, 16383, 16384, 1<<30 - 1, 1 << 30, 1<<62 - 1} {
		got, n, ok := ParseQUICVarint(qv(v))
		if !ok || got != v || n != len(qv(v)) {
			t.Errorf("varint roundtrip %d", v)
		}
	}
}

// ---------------------------------------------------------------------------
// records
// ---------------------------------------------------------------------------

func TestParseRecords(t *testing.T) {
	a := record(22, []byte{1, 2, 3})
	b := record(20, []byte{1})
	c := record(23, bytes.Repeat([]byte{9}, 16384+256))
	stream := cat(a, b, c)
	recs, rest, err := ParseRecords(stream)
	if err != nil || len(rest) != 0 || len(recs) != 3 {
		t.Fatalf("%v %d %d", err, len(rest), len(recs))
	}
	if recs[0].Off != 0 || recs[1].Off != len(a) || recs[2].Off != len(a)+len(b) {
		t.Errorf("offsets %d %d %d", recs[0].Off, recs[1].Off, recs[2].Off)
	}
	if recs[0].Type != 22 || recs[1].Type != 20 || recs[2].Type != 23 || recs[0].Version != 0x0303 {
		t.Errorf("types/versions")
	}
	if !bytes.Equal(recs[0].Payload, []byte{1, 2, 3}) || len(recs[2].Payload) != 16384+256 {
		t.Errorf("payloads")
	}
	// every truncation point: no error, rest = incomplete tail
	for cut := 0; cut <= len(a)+len(b)+10; cut++ {
		recs, rest, err := ParseRecords(stream[:cut])
		if err != nil {
			t.Fatalf("cut %d: %v", cut, err)
		}
		n := 0
		for _, r := range recs {
			n += 5 + len(r.Payload)
		}
		if n+len(rest) != cut || !bytes.Equal(rest, stream[n:cut]) {
			t.Fatalf("cut %d: consumed %d rest %d", cut, n, len(rest))
		}
	}
	if recs, rest, err := ParseRecords(nil); err != nil || recs != nil || len(rest) != 0 {
		t.Errorf("empty stream")
	}
	// zero-length record is a legal header
	if recs, _, err := ParseRecords(record(23, nil)); err != nil || len(recs) != 1 {
		t.Errorf("zero-length record: %v", err)
	}
	// max length
	if _, rest, err := ParseRecords([]byte{23, 3, 3, 0x48, 0x00}); err != nil || len(rest) != 5 {
		t.Errorf("length 18432 header: %v", err)
	}
	if recs, rest, err := ParseRecords(cat(a, []byte{23, 3, 3, 0x48, 0x01})); err == nil || len(recs) != 1 || len(rest) != 5 {
		t.Errorf("length 18433 header accepted")
	}
	for _, ty := range []byte{0, 19, 25, 0x80, 0xff} {
		recs, rest, err := ParseRecords(cat(a, []byte{ty, 3, 3, 0, 1, 0}))
		if err == nil || len(recs) != 1 || len(rest) != 6 {
			t.Errorf("type %d accepted", ty)
		}
		if _, _, err := ParseRecords(cat(a, []byte{ty})); err == nil {
			t.Errorf("type %d (lone byte) accepted", ty)
		}
	}
	if recs, _, err := ParseRecords(record(24, []byte{1})); err != nil || len(recs) != 1 {
		t.Errorf("heartbeat type rejected")
	}
}

func TestPlaintextHandshake(t *testing.T) {
	m1 := hsMsg(1, bytes.Repeat([]byte{0x11}, 300))
	m2 := hsMsg(2, bytes.Repeat([]byte{0x22}, 90))
	m3 := hsMsg(11, nil) // empty body
	m4 := hsMsg(20, bytes.Repeat([]byte{0x44}, 40000))
	all := cat(m1, m2, m3, m4)

	check := func(name string, stream []byte, wantFirst []int, wantPartial []byte) {
		t.Helper()
		recs, rest, err := ParseRecords(stream)
		if err != nil || len(rest) != 0 {
			t.Fatalf("%s: ParseRecords %v", name, err)
		}
		msgs, partial, err := PlaintextHandshake(recs)
		if err != nil {
			t.Fatalf("%s: %v", name, err)
		}
		want := [][]byte{m1, m2, m3, m4}[:len(wantFirst)]
		if len(msgs) != len(want) {
			t.Fatalf("%s: %d msgs, want %d", name, len(msgs), len(want))
		}
		for i, m := range msgs {
			if !bytes.Equal(m.Raw, want[i]) || !bytes.Equal(m.Body, want[i][4:]) || m.Type != want[i][0] {
				t.Errorf("%s: msg %d content", name, i)
			}
			if m.FirstRecord != wantFirst[i] {
				t.Errorf("%s: msg %d FirstRecord=%d want %d", name, i, m.FirstRecord, wantFirst[i])
			}
		}
		if !bytes.Equal(partial, wantPartial) {
			t.Errorf("%s: partial %d bytes, want %d", name, len(partial), len(wantPartial))
		}
	}

	// coalesced: everything that fits in one record, then the rest
	check("coalesced", cat(record(22, all[:16384]), record(22, all[16384:32768]), record(22, all[32768:])),
		[]int{0, 0, 0, 0}, nil)
	// one message per record (big one spans three)
	check("one per record", cat(record(22, m1), record(22, m2), record(22, m3), record(22, m4[:16384]), record(22, m4[16384:32768]), record(22, m4[32768:])),
		[]int{0, 1, 2, 3}, nil)
	// header split across records; CCS between messages; stop at app data
	check("split header + ccs + appdata",
		cat(record(22, m1[:2]), record(22, m1[2:]), record(20, []byte{1}), record(22, cat(m2, m3[:1])), record(22, m3[1:]), record(23, m4[:500]), record(22, m4[:100])),
		[]int{0, 3, 3}, nil)
	// stops at alert, partial reported
	check("partial + alert",
		cat(record(22, cat(m1, m2[:10])), record(21, []byte{2, 40}), record(22, m2[10:])),
		[]int{0}, m2[:10])
	// partial header only
	check("partial header", record(22, cat(m1, m2[:3])), []int{0}, m2[:3])
	// leading CCS
	check("leading ccs", cat(record(20, []byte{1}), record(22, m1)), []int{1}, nil)
	// one byte per record
	var tiny []byte
	for _, b := range cat(m2, m3) {
		tiny = append(tiny, record(22, []byte{b})...)
	}
	check("byte per record", cat(record(22, m1), tiny), []int{0, 1, 1 + len(m2)}, nil)
	// nothing
	if msgs, partial, err := PlaintextHandshake(nil); err != nil || msgs != nil || partial != nil {
		t.Errorf("empty input")
	}
	if msgs, _, err := PlaintextHandshake([]Record{{Type: 23, Payload: []byte{1}}}); err != nil || msgs != nil {
		t.Errorf("appdata first")
	}

	// the returned messages do not alias each other or get clobbered
	recs, _, _ := ParseRecords(cat(record(22, m1), record(22, m2)))
	msgs, _, _ := PlaintextHandshake(recs)
	_ = append(msgs[0].Raw, 0xee)
	if !bytes.Equal(msgs[1].Raw, m2) {
		t.Errorf("append to msg 0 clobbered msg 1")
	}

	// errors
	bad := func(name string, stream []byte, wantMsgs int) {
		t.Helper()
		recs, _, err := ParseRecords(stream)
		if err != nil {
			t.Fatal(err)
		}
		msgs, _, err := PlaintextHandshake(recs)
		if err == nil {
			t.Errorf("%s: accepted", name)
		}
		if len(msgs) != wantMsgs {
			t.Errorf("%s: %d msgs returned with error, want %d", name, len(msgs), wantMsgs)
		}
	}
	bad("zero-length handshake record", cat(record(22, m1), record(22, nil), record(22, m2)), 1)
	bad("ccs inside fragmented message", cat(record(22, m1[:100]), record(20, []byte{1}), record(22, m1[100:])), 0)
	bad("bad ccs payload", cat(record(22, m1), record(20, []byte{2})), 1)
	bad("long ccs payload", cat(record(22, m1), record(20, []byte{1, 1})), 1)
	bad("empty ccs", cat(record(22, m1), record(20, nil)), 1)
}

// ---------------------------------------------------------------------------
// ServerHello
// ---------------------------------------------------------------------------

func mkSH(random []byte, sid []byte, exts []Extension, withExts bool) []byte {
	body := cat([]byte{3, 3}, random, v8(sid), []byte{0x13, 0x01, 0})
	if withExts {
		body = append(body, serialiseExts(exts)...)
	}
	return hsMsg(2, body)
}

func TestParseServerHello(t *testing.T) {
	rnd := bytes.Repeat([]byte{5}, 32)
	sid := bytes.Repeat([]byte{6}, 32)
	kx := bytes.Repeat([]byte{7}, 32)

	sh, err := ParseServerHello(mkSH(rnd, sid, []Extension{
		{43, []byte{3, 4}},
		{51, cat(p16(0x1d), v16(kx))},
	}, true))
	if err != nil {
		t.Fatal(err)
	}
	if sh.IsHRR || sh.SelectedVersion != 0x0304 || sh.SelectedGroup != 0x1d || sh.CipherSuite != 0x1301 ||
		sh.Compression != 0 || sh.LegacyVersion != 0x0303 || !bytes.Equal(sh.Random, rnd) || !bytes.Equal(sh.SessionID, sid) ||
		len(sh.Extensions) != 2 || sh.Cookie != nil {
		t.Errorf("ServerHello fields: %+v", sh)
	}

	hrr, err := ParseServerHello(mkSH(HelloRetryRequestRandom, sid, []Extension{
		{43, []byte{3, 4}},
		{51, p16(0x17)},
		{44, v16([]byte("cookie"))},
	}, true))
	if err != nil {
		t.Fatal(err)
	}
	if !hrr.IsHRR || hrr.SelectedGroup != 0x17 || string(hrr.Cookie) != "cookie" || hrr.SelectedVersion != 0x0304 {
		t.Errorf("HRR fields: %+v", hrr)
	}
	// HRR without key_share (cookie only) is legal
	if h, err := ParseServerHello(mkSH(HelloRetryRequestRandom, sid, []Extension{{43, []byte{3, 4}}, {44, v16([]byte("c"))}}, true)); err != nil || h.SelectedGroup != 0 {
		t.Errorf("cookie-only HRR: %v", err)
	}
	// TLS 1.2 style, no extensions / empty session id
	old, err := ParseServerHello(mkSH(rnd, nil, nil, false))
	if err != nil || old.Extensions != nil || old.SelectedVersion != 0 || old.SelectedGroup != 0 || len(old.SessionID) != 0 {
		t.Errorf("extension-less ServerHello: %v", err)
	}
	if _, err := ParseServerHello(mkSH(rnd, nil, []Extension{{0xff01, []byte{0}}, {23, nil}, {16, h2alpn}}, true)); err != nil {
		t.Errorf("TLS 1.2 ServerHello with extensions: %v", err)
	}

	good := mkSH(rnd, sid, []Extension{{43, []byte{3, 4}}, {51, cat(p16(0x1d), v16(kx))}}, true)
	bads := map[string][]byte{
		"trailing":             append(append([]byte(nil), good...), 0),
		"truncated":            good[:len(good)-1],
		"wrong type":           append([]byte{1}, good[1:]...),
		"sid 33":               mkSH(rnd, bytes.Repeat([]byte{6}, 33), nil, false),
		"dup ext":              mkSH(rnd, sid, []Extension{{43, []byte{3, 4}}, {43, []byte{3, 4}}}, true),
		"sv 3 bytes":           mkSH(rnd, sid, []Extension{{43, []byte{3, 4, 0}}}, true),
		"sv list form":         mkSH(rnd, sid, []Extension{{43, []byte{2, 3, 4}}}, true),
		"ks HRR form in SH":    mkSH(rnd, sid, []Extension{{51, p16(0x1d)}}, true),
		"ks SH form in HRR":    mkSH(HelloRetryRequestRandom, sid, []Extension{{51, cat(p16(0x1d), v16(kx))}}, true),
		"ks empty kx":          mkSH(rnd, sid, []Extension{{51, cat(p16(0x1d), v16(nil))}}, true),
		"ks trailing":          mkSH(rnd, sid, []Extension{{51, cat(p16(0x1d), v16(kx), []byte{0})}}, true),
		"ks kx overrun":        mkSH(rnd, sid, []Extension{{51, cat(p16(0x1d), p16(33), kx)}}, true),
		"cookie empty":         mkSH(HelloRetryRequestRandom, sid, []Extension{{44, v16(nil)}}, true),
		"cookie trailing":      mkSH(HelloRetryRequestRandom, sid, []Extension{{44, append(v16([]byte("c")), 0)}}, true),
		"header only":          {2, 0, 0, 0},
		"no compression":       hsMsg(2, cat([]byte{3, 3}, rnd, v8(sid), []byte{0x13, 0x01})),
		"no cipher suite":      hsMsg(2, cat([]byte{3, 3}, rnd, v8(sid), []byte{0x13})),
		"stray byte":           hsMsg(2, cat([]byte{3, 3}, rnd, v8(sid), []byte{0x13, 0x01, 0, 0})),
		"ext block short":      hsMsg(2, cat([]byte{3, 3}, rnd, v8(sid), []byte{0x13, 0x01, 0}, []byte{0, 3, 0, 23, 0, 0})),
		"ext block long":       hsMsg(2, cat([]byte{3, 3}, rnd, v8(sid), []byte{0x13, 0x01, 0}, []byte{0, 5, 0, 23, 0, 0})),
		"hs length off by one": bump(good, prefix{1, 3, ""}, 1),
	}
	for name, msg := range bads {
		if sh, err := ParseServerHello(msg); err == nil || sh != nil {
			t.Errorf("%s: accepted", name)
		}
	}
	for _, pf := range []prefix{{1, 3, "hs"}, {38, 1, "sid"}, {38 + 1 + 32 + 3, 2, "exts"}, {38 + 1 + 32 + 3 + 4, 2, "ext0 len"}} {
		for _, d := range []int{1, -1} {
			if _, err := ParseServerHello(bump(good, pf, d)); err == nil {
				t.Errorf("ServerHello %s %+d accepted", pf.what, d)
			}
		}
	}
}

var h2alpn = []byte{0, 3, 2, 'h', '2'}

// ---------------------------------------------------------------------------
// live flows against the standard library's crypto/tls server (an independent
// implementation): HelloRetryRequest second ClientHello, PSK resumption.
// ---------------------------------------------------------------------------

// halfPipe is one direction of an unbounded in-memory pipe.
type halfPipe struct {
	mu     sync.Mutex
	cond   *sync.Cond
	buf    []byte
	closed bool
}

func newHalfPipe() *halfPipe { h := &halfPipe{}; h.cond = sync.NewCond(&h.mu); return h }

func (h *halfPipe) write(p []byte) (int, error) {
	h.mu.Lock()
	defer h.mu.Unlock()
	if h.closed {
		return 0, io.ErrClosedPipe
	}
	h.buf = append(h.buf, p...)
	h.cond.Broadcast()
	return len(p), nil
}

func (h *halfPipe) read(p []byte) (int, error) {
	h.mu.Lock()
	defer h.mu.Unlock()
	for len(h.buf) == 0 && !h.closed {
		h.cond.Wait()
	}
	if len(h.buf) == 0 {
		return 0, io.EOF
	}
	n := copy(p, h.buf)
	h.buf = h.buf[n:]
	return n, nil
}

func (h *halfPipe) close() { h.mu.Lock(); h.closed = true; h.cond.Broadcast(); h.mu.Unlock() }

type bufConn struct {
	r, w *halfPipe
	mu   sync.Mutex
	sent []byte // everything written through this end
}

func bufPipe() (*bufConn, *bufConn) {
	a, b := newHalfPipe(), newHalfPipe()
	return &bufConn{r: a, w: b}, &bufConn{r: b, w: a}
}

func (c *bufConn) Read(p []byte) (int, error) { return c.r.read(p) }
func (c *bufConn) Write(p []byte) (int, error) {
	c.mu.Lock()
	c.sent = append(c.sent, p...)
	c.mu.Unlock()
	return c.w.write(p)
}
func (c *bufConn) Close() error                     { c.r.close(); c.w.close(); return nil }
func (c *bufConn) LocalAddr() net.Addr              { return &net.TCPAddr{} }
func (c *bufConn) RemoteAddr() net.Addr             { return &net.TCPAddr{} }
func (c *bufConn) SetDeadline(time.Time) error      { return nil }
func (c *bufConn) SetReadDeadline(time.Time) error  { return nil }
func (c *bufConn) SetWriteDeadline(time.Time) error { return nil }
func (c *bufConn) written() []byte {
	c.mu.Lock()
	defer c.mu.Unlock()
	return append([]byte(nil), c.sent...)
}

func serverCert(t *testing.T) stdtls.Certificate {
	t.Helper()
	key, err := ecdsa.GenerateKey(elliptic.P256(), rand.Reader)
	if err != nil {
		t.Fatal(err)
	}
	tmpl := &x509.Certificate{
		SerialNumber: big.NewInt(1),
		Subject:      pkix.Name{CommonName: "example.com"},
		DNSNames:     []string{"example.com"},
		NotBefore:    time.Now().Add(-time.Hour),
		NotAfter:     time.Now().Add(time.Hour),
		KeyUsage:     x509.KeyUsageDigitalSignature,
		ExtKeyUsage:  []x509.ExtKeyUsage{x509.ExtKeyUsageServerAuth},
	}
	der, err := x509.CreateCertificate(rand.Reader, tmpl, tmpl, &key.PublicKey, key)
	if err != nil {
		t.Fatal(err)
	}
	return stdtls.Certificate{Certificate: [][]byte{der}, PrivateKey: key}
}

// flow runs one uTLS-client / std-server handshake plus a 1-byte echo and
// returns the bytes each side wrote.
func flow(t *testing.T, id tls.ClientHelloID, ccfg *tls.Config, scfg *stdtls.Config) (clientBytes, serverBytes []byte, cerr, serr error) {
	t.Helper()
	cc, sc := bufPipe()
	done := make(chan struct{})
	go func() {
		defer close(done)
		s := stdtls.Server(sc, scfg)
		if serr = s.Handshake(); serr != nil {
			sc.Close()
			return
		}
		var b [1]byte
		if _, serr = io.ReadFull(s, b[:]); serr == nil {
			_, serr = s.Write(b[:])
		}
		if serr != nil {
			sc.Close()
		}
	}()
	u := tls.UClient(cc, ccfg, id)
	cerr = u.Handshake()
	if cerr == nil {
		if _, cerr = u.Write([]byte{'x'}); cerr == nil {
			var b [1]byte
			_, cerr = io.ReadFull(u, b[:])
		}
	}
	if cerr != nil {
		cc.Close()
	}
	select {
	case <-done:
	case <-time.After(20 * time.Second):
		cc.Close()
		<-done
		if cerr == nil {
			cerr = errors.New("timeout")
		}
	}
	cc.Close()
	return cc.written(), sc.written(), cerr, serr
}

func clientHellosOf(t *testing.T, stream []byte) []*ClientHello {
	t.Helper()
	recs, _, err := ParseRecords(stream)
	if err != nil {
		t.Fatalf("client stream: %v", err)
	}
	msgs, _, err := PlaintextHandshake(recs)
	if err != nil {
		t.Fatalf("client stream: %v", err)
	}
	var out []*ClientHello
	for i, m := range msgs {
		if m.Type != 1 {
			// TLS 1.2 flights continue in plaintext (ClientKeyExchange ...);
			// after CCS the encrypted Finished is not meaningful.
			continue
		}
		ch, err := ParseClientHello(m.Raw)
		if err != nil {
			t.Errorf("ClientHello #%d on the wire REJECTED: %v\n% x", i, err, m.Raw)
			continue
		}
		checkViews(t, ch, "example.com")
		out = append(out, ch)
	}
	return out
}

func TestLiveHelloRetryRequest(t *testing.T) {
	cert := serverCert(t)
	nHRR := 0
	for _, p := range allIDs() {
		if strings.Contains(p.name, "/seed") && !strings.HasSuffix(p.name, "0") {
			continue // every tenth seed is plenty here
		}
		t.Run(p.name, func(t *testing.T) {
			scfg := &stdtls.Config{
				Certificates:     []stdtls.Certificate{cert},
				CurvePreferences: []stdtls.CurveID{stdtls.CurveP384}, // nobody sends a P-384 share first
				NextProtos:       []string{"h2", "http/1.1"},
			}
			ccfg := &tls.Config{ServerName: "example.com", InsecureSkipVerify: true, OmitEmptyPsk: true}
			cb, sb, cerr, serr := flow(t, p.id, ccfg, scfg)
			chs := clientHellosOf(t, cb)
			if len(chs) == 0 {
				t.Fatalf("no ClientHello on the wire (client err %v)", cerr)
			}

			recs, _, err := ParseRecords(sb)
			if err != nil {
				t.Fatalf("server stream: %v", err)
			}
			msgs, _, err := PlaintextHandshake(recs)
			if err != nil {
				t.Fatalf("server stream: %v", err)
			}
			if len(msgs) == 0 || msgs[0].Type != 2 {
				t.Logf("no ServerHello (client err: %v, server err: %v)", cerr, serr)
				return
			}
			sh, err := ParseServerHello(msgs[0].Raw)
			if err != nil {
				t.Fatalf("std ServerHello rejected: %v\n% x", err, msgs[0].Raw)
			}
			if !sh.IsHRR {
				t.Logf("no HRR: version %#x group %#x (client err: %v)", sh.SelectedVersion, sh.SelectedGroup, cerr)
				if len(chs) != 1 {
					t.Errorf("%d ClientHellos without HRR", len(chs))
				}
				return
			}
			nHRR++
			if sh.SelectedGroup != uint16(stdtls.CurveP384) || sh.SelectedVersion != 0x0304 {
				t.Errorf("HRR fields %+v", sh)
			}
			if len(chs) != 2 {
				t.Fatalf("HRR but %d ClientHello(s) on the wire (client err: %v, server err: %v)", len(chs), cerr, serr)
			}
			ch2 := chs[1]
			if len(ch2.KeyShares) != 1 || ch2.KeyShares[0].Group != sh.SelectedGroup {
				t.Errorf("second ClientHello key shares: %+v", ch2.KeyShares)
			}
			// the real ServerHello follows the HRR (and a CCS)
			if len(msgs) >= 2 && msgs[1].Type == 2 {
				sh2, err := ParseServerHello(msgs[1].Raw)
				if err != nil || sh2.IsHRR || sh2.SelectedGroup != sh.SelectedGroup {
					t.Errorf("second ServerHello: %v %+v", err, sh2)
				}
			} else if cerr == nil {
				t.Errorf("handshake succeeded but no second ServerHello found")
			}
			if cerr != nil || serr != nil {
				t.Logf("handshake after HRR: client err %v, server err %v", cerr, serr)
			}
		})
	}
	if nHRR == 0 {
		t.Errorf("no HelloRetryRequest flow was exercised")
	}
	t.Logf("%d HRR flows", nHRR)
}

func TestLivePSKResumption(t *testing.T) {
	cert := serverCert(t)
	nPSK := 0
	for _, p := range []namedID{
		{"HelloChrome_100_PSK", tls.HelloChrome_100_PSK},
		{"HelloChrome_112_PSK_Shuf", tls.HelloChrome_112_PSK_Shuf},
		{"HelloChrome_114_Padding_PSK_Shuf", tls.HelloChrome_114_Padding_PSK_Shuf},
		{"HelloChrome_115_PQ_PSK", tls.HelloChrome_115_PQ_PSK},
		{"HelloGolang", tls.HelloGolang},
	} {
		t.Run(p.name, func(t *testing.T) {
			scfg := &stdtls.Config{Certificates: []stdtls.Certificate{cert}, NextProtos: []string{"h2", "http/1.1"}}
			cache := tls.NewLRUClientSessionCache(8)
			var last *ClientHello
			for round := 0; round < 3; round++ {
				ccfg := &tls.Config{ServerName: "example.com", InsecureSkipVerify: true, ClientSessionCache: cache, OmitEmptyPsk: true}
				cb, _, cerr, serr := flow(t, p.id, ccfg, scfg)
				if cerr != nil || serr != nil {
					t.Fatalf("round %d: client err %v, server err %v", round, cerr, serr)
				}
				chs := clientHellosOf(t, cb)
				if len(chs) != 1 {
					t.Fatalf("round %d: %d ClientHellos", round, len(chs))
				}
				last = chs[0]
				t.Logf("round %d: psk identities=%d exts=%v", round, len(last.PSKIdentities), last.ExtTypes())
			}
			if last.PSKIdentities == nil {
				t.Logf("NOTE: no pre_shared_key on resumption")
				return
			}
			nPSK++
			if last.ExtIndex(41) != len(last.Extensions)-1 || len(last.PSKBinders) != len(last.PSKIdentities) || last.PSKModes == nil {
				t.Errorf("PSK hello shape: %v", last.ExtTypes())
			}
		})
	}
	if nPSK == 0 {
		t.Errorf("no real pre_shared_key extension was exercised")
	}
}

// ---------------------------------------------------------------------------
// robustness: random corruption never panics, and whatever is accepted
// re-serialises to exactly the input (the decomposition is lossless).
// ---------------------------------------------------------------------------

func checkLossless(t testing.TB, msg []byte) {
	ch, err := ParseClientHello(msg)
	if err != nil {
		return
	}
	if got := reserialise(ch, ch.Extensions, ch.HasExtensions); !bytes.Equal(got, msg) {
		t.Fatalf("accepted hello does not re-serialise to itself\n in: % x\nout: % x", msg, got)
	}
	if i := ch.ExtIndex(41); i >= 0 && i != len(ch.Extensions)-1 {
		t.Fatalf("accepted hello with pre_shared_key not last")
	}
	seen := map[uint16]bool{}
	for _, ty := range ch.ExtTypes() {
		if seen[ty] {
			t.Fatalf("accepted hello with duplicate extension %d", ty)
		}
		seen[ty] = true
	}
}

func TestRandomCorruption(t *testing.T) {
	x := uint32(12345)
	next := func(n int) int { x = x*1664525 + 1013904223; return int(x>>8) % n }
	accepted, total := 0, 0
	for _, p := range parrots {
		raw, err := buildHello(p.id, nil)
		if err != nil {
			t.Fatal(err)
		}
		for i := 0; i < 400; i++ {
			m := append([]byte(nil), raw...)
			for k := 0; k <= i%3; k++ {
				m[next(len(m))] ^= byte(1 + next(255))
			}
			total++
			if _, err := ParseClientHello(m); err == nil {
				accepted++
			}
			checkLossless(t, m)
			cut := next(len(m) + 1)
			checkLossless(t, m[:cut])
			if recs, rest, err := ParseRecords(m[cut:]); err == nil {
				PlaintextHandshake(recs)
				_ = rest
			}
			ParseServerHello(append([]byte{2}, m[1:]...))
		}
	}
	t.Logf("%d/%d randomly corrupted hellos still accepted (flips in random/key/opaque bytes are legitimately invisible)", accepted, total)
}

func FuzzParseClientHello(f *testing.F) {
	for _, p := range parrots[:8] {
		if raw, err := buildHello(p.id, nil); err == nil {
			f.Add(raw)
		}
	}
	f.Fuzz(func(t *testing.T, msg []byte) {
		checkLossless(t, msg)
		ParseServerHello(msg)
		if recs, _, err := ParseRecords(msg); err == nil {
			PlaintextHandshake(recs)
		}
	})
}
