// Package wire is a strict, independent parser/validator for TLS records,
// handshake messages, ClientHello and ServerHello messages.
//
// It is written from the RFCs (5246, 6066, 7301, 7685, 8446, 8449, 8701,
// 8879, 9000, 9001, 9345, draft-ietf-tls-esni, draft-vvv-tls-alps) and does
// not share any code with the library whose output it is used to check. It
// uses the Go standard library only.
package wire

import "fmt"

// rd is a bounds-checked big-endian reader over a byte slice. Every read
// reports failure through ok=false; nothing ever panics. ctx is a
// human-readable path used in error messages.
type rd struct {
	b   []byte
	off int
}

func (r *rd) left() int   { return len(r.b) - r.off }
func (r *rd) empty() bool { return r.off == len(r.b) }

func (r *rd) u8() (uint8, bool) {
	if r.left() < 1 {
		return 0, false
	}
	v := r.b[r.off]
	r.off++
	return v, true
}

func (r *rd) u16() (uint16, bool) {
	if r.left() < 2 {
		return 0, false
	}
	v := uint16(r.b[r.off])<<8 | uint16(r.b[r.off+1])
	r.off += 2
	return v, true
}

func (r *rd) u24() (uint32, bool) {
	if r.left() < 3 {
		return 0, false
	}
	v := uint32(r.b[r.off])<<16 | uint32(r.b[r.off+1])<<8 | uint32(r.b[r.off+2])
	r.off += 3
	return v, true
}

func (r *rd) u32() (uint32, bool) {
	if r.left() < 4 {
		return 0, false
	}
	v := uint32(r.b[r.off])<<24 | uint32(r.b[r.off+1])<<16 | uint32(r.b[r.off+2])<<8 | uint32(r.b[r.off+3])
	r.off += 4
	return v, true
}

// bytes returns the next n bytes as a sub-slice with capped capacity.
func (r *rd) bytes(n int) ([]byte, bool) {
	if n < 0 || r.left() < n {
		return nil, false
	}
	v := r.b[r.off : r.off+n : r.off+n]
	r.off += n
	return v, true
}

// vec8 / vec16 read a length-prefixed opaque vector. The error names what
// went wrong: a truncated prefix, or a prefix that claims more bytes than
// there are.
func (r *rd) vec8(what string) ([]byte, error) {
	n, ok := r.u8()
	if !ok {
		return nil, fmt.Errorf("%s: truncated 1-byte length prefix", what)
	}
	v, ok := r.bytes(int(n))
	if !ok {
		return nil, fmt.Errorf("%s: length prefix %d exceeds the %d bytes available", what, n, r.left())
	}
	return v, nil
}

func (r *rd) vec16(what string) ([]byte, error) {
	n, ok := r.u16()
	if !ok {
		return nil, fmt.Errorf("%s: truncated 2-byte length prefix", what)
	}
	v, ok := r.bytes(int(n))
	if !ok {
		return nil, fmt.Errorf("%s: length prefix %d exceeds the %d bytes available", what, n, r.left())
	}
	return v, nil
}

// end checks that everything has been consumed.
func (r *rd) end(what string) error {
	if !r.empty() {
		return fmt.Errorf("%s: %d trailing byte(s)", what, r.left())
	}
	return nil
}

// whole8 / whole16 read a length-prefixed vector that must be the only thing
// left in the reader (prefix must match the remaining bytes exactly).
func (r *rd) whole8(what string) ([]byte, error) {
	v, err := r.vec8(what)
	if err != nil {
		return nil, err
	}
	if err := r.end(what); err != nil {
		return nil, err
	}
	return v, nil
}

func (r *rd) whole16(what string) ([]byte, error) {
	v, err := r.vec16(what)
	if err != nil {
		return nil, err
	}
	if err := r.end(what); err != nil {
		return nil, err
	}
	return v, nil
}

// u16list decodes b as a packed list of uint16. b must be non-empty (when
// nonEmpty) and of even length.
func u16list(b []byte, what string, nonEmpty bool) ([]uint16, error) {
	if nonEmpty && len(b) == 0 {
		return nil, fmt.Errorf("%s: empty list", what)
	}
	if len(b)%2 != 0 {
		return nil, fmt.Errorf("%s: odd list length %d", what, len(b))
	}
	out := make([]uint16, 0, len(b)/2)
	for i := 0; i < len(b); i += 2 {
		out = append(out, uint16(b[i])<<8|uint16(b[i+1]))
	}
	return out, nil
}

// IsGREASE reports whether v is one of the sixteen RFC 8701 GREASE values
// 0x0a0a, 0x1a1a, ..., 0xfafa.
func IsGREASE(v uint16) bool {
	return v&0x0f0f == 0x0a0a && v>>8 == v&0xff
}

// GREASEQUICParamID reports whether a QUIC transport parameter id is one of
// the reserved "31*N + 27" ids of RFC 9000 section 18.1.
func GREASEQUICParamID(id uint64) bool { return id%31 == 27 }

// ParseQUICVarint decodes one RFC 9000 section 16 variable-length integer
// from the front of b. n is the number of bytes consumed (1, 2, 4 or 8).
func ParseQUICVarint(b []byte) (v uint64, n int, ok bool) {
	if len(b) == 0 {
		return 0, 0, false
	}
	n = 1 << (b[0] >> 6)
	if len(b) < n {
		return 0, 0, false
	}
	v = uint64(b[0] & 0x3f)
	for i := 1; i < n; i++ {
		v = v<<8 | uint64(b[i])
	}
	return v, n, true
}
