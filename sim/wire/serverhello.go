package wire

import (
	"bytes"
	"errors"
	"fmt"
)

// HelloRetryRequestRandom is the special ServerHello.random value of RFC 8446
// section 4.1.3 (SHA-256 of "HelloRetryRequest").
var HelloRetryRequestRandom = []byte{
	0xCF, 0x21, 0xAD, 0x74, 0xE5, 0x9A, 0x61, 0x11, 0xBE, 0x1D, 0x8C, 0x02, 0x1E, 0x65, 0xB8, 0x91,
	0xC2, 0xA2, 0x11, 0x16, 0x7A, 0xBB, 0x8C, 0x5E, 0x07, 0x9E, 0x09, 0xE2, 0xC8, 0xA8, 0x33, 0x9C,
}

// ServerHello is a minimally decoded ServerHello / HelloRetryRequest.
type ServerHello struct {
	Raw             []byte
	LegacyVersion   uint16
	Random          []byte
	SessionID       []byte
	CipherSuite     uint16
	Compression     uint8
	Extensions      []Extension
	IsHRR           bool
	SelectedVersion uint16 // from supported_versions ext, 0 if absent
	SelectedGroup   uint16 // key_share: group of the share, or HRR selected_group; 0 if absent
	Cookie          []byte
}

// Ext returns the extension with type t.
func (sh *ServerHello) Ext(t uint16) (*Extension, bool) {
	for i := range sh.Extensions {
		if sh.Extensions[i].Type == t {
			return &sh.Extensions[i], true
		}
	}
	return nil, false
}

// ParseServerHello parses a handshake message with header (type 2). It is
// strict on lengths: the handshake length, the session id (<= 32), the
// extensions block and every extension must fit exactly, extension types may
// not repeat, and the three extensions it decodes must match their RFC 8446
// grammar:
//
//	supported_versions (43): exactly 2 bytes
//	key_share (51): HRR: exactly 2 bytes (selected_group);
//	                otherwise {group u16, key_exchange u16-vec non-empty}
//	cookie (44): u16-vec non-empty
//
// IsHRR is set when random equals the HelloRetryRequest magic value.
func ParseServerHello(msg []byte) (*ServerHello, error) {
	body, err := parseHandshakeHeader(msg, 2, "ServerHello")
	if err != nil {
		return nil, err
	}
	sh := &ServerHello{Raw: msg}
	r := rd{b: body}
	var ok bool
	if sh.LegacyVersion, ok = r.u16(); !ok {
		return nil, errors.New("ServerHello: truncated legacy_version")
	}
	if sh.Random, ok = r.bytes(32); !ok {
		return nil, errors.New("ServerHello: truncated random")
	}
	sh.IsHRR = bytes.Equal(sh.Random, HelloRetryRequestRandom)
	if sh.SessionID, err = r.vec8("ServerHello: legacy_session_id_echo"); err != nil {
		return nil, err
	}
	if len(sh.SessionID) > 32 {
		return nil, fmt.Errorf("ServerHello: legacy_session_id_echo length %d > 32", len(sh.SessionID))
	}
	if sh.CipherSuite, ok = r.u16(); !ok {
		return nil, errors.New("ServerHello: truncated cipher_suite")
	}
	if sh.Compression, ok = r.u8(); !ok {
		return nil, errors.New("ServerHello: truncated legacy_compression_method")
	}
	if r.empty() {
		return sh, nil // TLS <= 1.2 ServerHello without extensions
	}
	if sh.Extensions, err = parseExtensionBlock(&r, "ServerHello"); err != nil {
		return nil, err
	}
	for i := range sh.Extensions {
		e := &sh.Extensions[i]
		er := rd{b: e.Data}
		switch e.Type {
		case ExtSupportedVersions:
			if len(e.Data) != 2 {
				return nil, fmt.Errorf("ServerHello: supported_versions: body is %d byte(s), want 2", len(e.Data))
			}
			sh.SelectedVersion, _ = er.u16()
		case ExtKeyShare:
			if sh.IsHRR {
				if len(e.Data) != 2 {
					return nil, fmt.Errorf("HelloRetryRequest: key_share: body is %d byte(s), want 2", len(e.Data))
				}
				sh.SelectedGroup, _ = er.u16()
				break
			}
			g, ok := er.u16()
			if !ok {
				return nil, errors.New("ServerHello: key_share: truncated group")
			}
			kx, err := er.whole16("ServerHello: key_share: key_exchange")
			if err != nil {
				return nil, err
			}
			if len(kx) == 0 {
				return nil, errors.New("ServerHello: key_share: empty key_exchange")
			}
			sh.SelectedGroup = g
		case ExtCookie:
			c, err := er.whole16("ServerHello: cookie")
			if err != nil {
				return nil, err
			}
			if len(c) == 0 {
				return nil, errors.New("ServerHello: cookie: empty cookie")
			}
			sh.Cookie = c
		}
	}
	return sh, nil
}
