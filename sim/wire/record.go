package wire

import "fmt"

// TLS record content types.
const (
	RecordCCS       uint8 = 20
	RecordAlert     uint8 = 21
	RecordHandshake uint8 = 22
	RecordAppData   uint8 = 23
	RecordHeartbeat uint8 = 24
)

// maxRecordPayload is the largest length a record header can legally carry:
// 2^14 plaintext + 2048 expansion (TLS 1.2 TLSCiphertext bound; the TLS 1.3
// bound of 2^14+256 is smaller).
const maxRecordPayload = 16384 + 2048

// Record is one TLS record as seen on the wire.
type Record struct {
	Type    uint8 // 20 ccs, 21 alert, 22 handshake, 23 appdata
	Version uint16
	Payload []byte
	Off     int // byte offset of the record header in the stream
}

// ParseRecords splits a byte stream into TLS records. rest is the trailing
// incomplete bytes (a partial header or a header whose payload has not fully
// arrived); that is not an error.
//
// err != nil only for impossible headers: a content type outside 20..24 or
// a length above 16384+2048. On error recs holds the records before the bad
// header and rest starts at the bad header. The content type is checked as
// soon as its byte is available; the length once the 5-byte header is.
func ParseRecords(stream []byte) (recs []Record, rest []byte, err error) {
	off := 0
	for off < len(stream) {
		typ := stream[off]
		if typ < 20 || typ > 24 {
			return recs, stream[off:], fmt.Errorf("record at offset %d: impossible content type %d", off, typ)
		}
		if len(stream)-off < 5 {
			break
		}
		ver := uint16(stream[off+1])<<8 | uint16(stream[off+2])
		n := int(stream[off+3])<<8 | int(stream[off+4])
		if n > maxRecordPayload {
			return recs, stream[off:], fmt.Errorf("record at offset %d: impossible length %d (> %d)", off, n, maxRecordPayload)
		}
		if len(stream)-off-5 < n {
			break
		}
		recs = append(recs, Record{
			Type:    typ,
			Version: ver,
			Payload: stream[off+5 : off+5+n : off+5+n],
			Off:     off,
		})
		off += 5 + n
	}
	return recs, stream[off:], nil
}

// HSMsg is one reassembled handshake message.
type HSMsg struct {
	Type        uint8
	Body        []byte // without the 4-byte header
	Raw         []byte // with the 4-byte header
	FirstRecord int    // index in recs of the record where the message starts
}

// PlaintextHandshake reassembles handshake messages from the leading
// plaintext handshake records (type 22), skipping ChangeCipherSpec records
// (type 20), and stops at the first application_data (23) record, alert (21)
// or any other non-handshake record. Messages may span records and records
// may hold several messages. A trailing partial message is returned in
// partial.
//
// err != nil (with the messages completed so far) when the record layer
// rules of RFC 8446 section 5.1 / RFC 5246 section 6.2.1 are broken:
//   - a zero-length handshake record;
//   - a ChangeCipherSpec record whose payload is not the single byte 0x01;
//   - a ChangeCipherSpec record interleaved inside a handshake message that
//     is fragmented over several records.
func PlaintextHandshake(recs []Record) (msgs []HSMsg, partial []byte, err error) {
	// buf is private storage; messages are sliced out of it so that they
	// stay contiguous even when they span records.
	var buf []byte
	type seg struct{ start, rec int } // bytes from buf[start] on came from recs[rec]
	var segs []seg
	done := 0 // bytes of buf already turned into messages

	recAt := func(pos int) int {
		r := -1
		for _, s := range segs {
			if s.start > pos {
				break
			}
			r = s.rec
		}
		return r
	}

	drain := func() {
		for len(buf)-done >= 4 {
			n := int(buf[done+1])<<16 | int(buf[done+2])<<8 | int(buf[done+3])
			if len(buf)-done-4 < n {
				return
			}
			end := done + 4 + n
			msgs = append(msgs, HSMsg{
				Type:        buf[done],
				Body:        buf[done+4 : end : end],
				Raw:         buf[done:end:end],
				FirstRecord: recAt(done),
			})
			done = end
		}
	}

loop:
	for i, rec := range recs {
		switch rec.Type {
		case RecordCCS:
			if len(rec.Payload) != 1 || rec.Payload[0] != 1 {
				err = fmt.Errorf("record %d (offset %d): malformed change_cipher_spec payload % x", i, rec.Off, rec.Payload)
				break loop
			}
			if len(buf) != done {
				err = fmt.Errorf("record %d (offset %d): change_cipher_spec interleaved inside a fragmented handshake message", i, rec.Off)
				break loop
			}
		case RecordHandshake:
			if len(rec.Payload) == 0 {
				err = fmt.Errorf("record %d (offset %d): zero-length handshake record", i, rec.Off)
				break loop
			}
			segs = append(segs, seg{start: len(buf), rec: i})
			// Copy: never alias the caller's stream when appending.
			buf = append(buf, rec.Payload...)
			drain()
		default:
			break loop
		}
	}
	if done < len(buf) {
		partial = buf[done:len(buf):len(buf)]
	}
	return msgs, partial, err
}
