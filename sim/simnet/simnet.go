// Package simnet is the simulated transport: links of two endpoints implementing net.Conn,
// deadlines against the bubble clock, a wire tap, a listener registry for dialing, and the
// transport fault catalogue (DESIGN.md 2.4). All state is owned by the scheduler goroutine;
// endpoint methods only publish requests.
package simnet

import (
	"errors"
	"fmt"
	"io"
	"net"
	"os"
	"syscall"
	"time"
	"unsafe"

	"github.com/refraction-networking/utls/zz_verif/simrt"
)

// Errors returned to tasks are pre-allocated (see simrt.Resource.Do).
var (
	ErrReset   error = &net.OpError{Op: "read", Net: "sim", Err: syscall.ECONNRESET}
	ErrPipe    error = &net.OpError{Op: "write", Net: "sim", Err: syscall.EPIPE}
	ErrRefused error = &net.OpError{Op: "dial", Net: "sim", Err: syscall.ECONNREFUSED}
	ErrTimeout error = &net.OpError{Op: "io", Net: "sim", Err: os.ErrDeadlineExceeded}
	ErrClosed  error = &net.OpError{Op: "io", Net: "sim", Err: net.ErrClosed}
	ErrDialTO  error = &net.OpError{Op: "dial", Net: "sim", Err: os.ErrDeadlineExceeded}
	ErrNoRoute error = &net.OpError{Op: "dial", Net: "sim", Err: syscall.EHOSTUNREACH}
	ErrShort   error = &net.OpError{Op: "write", Net: "sim", Err: io.ErrShortWrite}
)

type addr string

func (a addr) Network() string { return "sim" }
func (a addr) String() string  { return string(a) }

var theAddr net.Addr = addr("sim")

type segment struct {
	data    []byte
	readyAt time.Time
}

// Dir is one direction of a link.
type Dir struct {
	Name     string
	segs     []segment
	buffered int
	Cap      int // 0: unbounded
	wclosed  bool
	reset    bool
	Total    int64 // bytes accepted from the writer so far
	Latency  time.Duration
	Jitter   time.Duration

	// Sent is everything the writer handed to the transport; Delivered is what was made
	// available to the reader after faults.
	Sent      []byte
	Delivered []byte
	Writes    []TapWrite

	// faults (absolute byte offsets in this direction; -1: none)
	FlipAt    int64
	FlipMask  byte
	ResetAt   int64
	EOFAt     int64
	CutNow    bool // set by a Filter: the stream ends (clean EOF) behind the chunks of this write
	StallAt   int64
	StallFor  time.Duration
	ShortAt   int64 // a write crossing this offset is cut there and fails with a timeout-less error
	eofDone   bool
	stallDone bool
	Fired     map[string]int

	// Filter, if set, sees every accepted write (after byte faults) and returns the chunks
	// to enqueue (on-path attacker acting on records).
	Filter func(w *simrt.World, d *Dir, b []byte) [][]byte
}

// TapWrite records one Write call.
type TapWrite struct {
	Step int
	Off  int64
	Len  int
	At   time.Duration
}

func newDir(name string) *Dir {
	return &Dir{Name: name, FlipAt: -1, ResetAt: -1, EOFAt: -1, StallAt: -1, ShortAt: -1, Fired: map[string]int{}}
}

// Link is a bidirectional connection between endpoint A (dialer/client) and B.
type Link struct {
	Name string
	A, B *Endpoint
	AB   *Dir // A writes, B reads
	BA   *Dir
	// Frag: reads may return fewer bytes than available (chooser decides).
	Frag bool
}

// Endpoint implements net.Conn.
type Endpoint struct {
	name   string
	link   *Link
	out    *Dir
	in     *Dir
	peer   *Endpoint
	closed bool
	rdl    time.Time
	wdl    time.Time
	// OnWrite, if set, is called on the scheduler goroutine before a write is applied.
	OnWrite func(w *simrt.World, b []byte)
	// BeforeWrite, if set, is called in the writing task itself (inside the endpoint's Write, before
	// the write is handed to the scheduler): code that may block or call back into the system under
	// test belongs here, never in OnWrite.
	BeforeWrite func(b []byte)
	Reads       int
	WritesN int
}

// NewLink creates a link (root/scheduler goroutine only).
func NewLink(name string) *Link {
	l := &Link{Name: name, AB: newDir(name + ":a>b"), BA: newDir(name + ":b>a")}
	l.A = &Endpoint{name: name + ".a", link: l, out: l.AB, in: l.BA}
	l.B = &Endpoint{name: name + ".b", link: l, out: l.BA, in: l.AB}
	l.A.peer, l.B.peer = l.B, l.A
	return l
}

func (e *Endpoint) world() *simrt.World {
	w := simrt.Cur()
	if w == nil {
		panic("simnet: endpoint used outside a simulated task")
	}
	return w
}

func (e *Endpoint) Read(p []byte) (int, error) {
	if len(p) == 0 {
		return 0, nil
	}
	return e.world().Park(&simrt.Req{Kind: simrt.KRead, Res: e, Buf: p})
}

//go:norace
func (e *Endpoint) Write(p []byte) (int, error) {
	// (the hook field is set up by the root goroutine before the tasks start; the hand-off between
	// scheduler and tasks is deliberately invisible to the race detector)
	if e.BeforeWrite != nil {
		e.BeforeWrite(p)
	}
	return e.world().Park(&simrt.Req{Kind: simrt.KWrite, Res: e, Buf: p})
}

func (e *Endpoint) Close() error {
	_, err := e.world().Park(&simrt.Req{Kind: simrt.KClose, Res: e})
	return err
}

func (e *Endpoint) LocalAddr() net.Addr  { return theAddr }
func (e *Endpoint) RemoteAddr() net.Addr { return theAddr }

func (e *Endpoint) anyWorld() *simrt.World {
	w := simrt.Any()
	if w == nil {
		panic("simnet: endpoint used outside a simulated world")
	}
	return w
}

func (e *Endpoint) SetDeadline(t time.Time) error {
	e.anyWorld().Notify(&simrt.Req{Kind: simrt.NDeadline, Res: e, T: t, Arg: 3})
	return nil
}
func (e *Endpoint) SetReadDeadline(t time.Time) error {
	e.anyWorld().Notify(&simrt.Req{Kind: simrt.NDeadline, Res: e, T: t, Arg: 1})
	return nil
}
func (e *Endpoint) SetWriteDeadline(t time.Time) error {
	e.anyWorld().Notify(&simrt.Req{Kind: simrt.NDeadline, Res: e, T: t, Arg: 2})
	return nil
}

// ---- scheduler side ----

func (e *Endpoint) Name() string { return e.name }

// Closed reports whether Close was performed on this endpoint (scheduler/root only).
func (e *Endpoint) Closed() bool { return e.closed }

func (e *Endpoint) Note(w *simrt.World, r *simrt.Req) {
	if r.Kind == simrt.NDeadline {
		if r.Arg&1 != 0 {
			e.rdl = r.T
		}
		if r.Arg&2 != 0 {
			e.wdl = r.T
		}
		w.Logf("%s deadline %d %v", e.name, r.Arg, dl(w, r.T))
	}
}

func dl(w *simrt.World, t time.Time) string {
	if t.IsZero() {
		return "none"
	}
	return fmt.Sprint(t.Sub(time.Now()) + w.Now())
}

func passed(t time.Time) bool { return !t.IsZero() && !time.Now().Before(t) }

func minTime(a, b time.Time) time.Time {
	if a.IsZero() {
		return b
	}
	if b.IsZero() || a.Before(b) {
		return a
	}
	return b
}

func (e *Endpoint) Ready(w *simrt.World, r *simrt.Req) (bool, time.Time) {
	switch r.Kind {
	case simrt.KRead:
		if e.closed || e.in.reset || passed(e.rdl) {
			return true, time.Time{}
		}
		if len(e.in.segs) > 0 {
			if !time.Now().Before(e.in.segs[0].readyAt) {
				return true, time.Time{}
			}
			return false, minTime(e.in.segs[0].readyAt, e.rdl)
		}
		if e.in.wclosed {
			return true, time.Time{}
		}
		return false, e.rdl
	case simrt.KWrite:
		if e.closed || e.out.reset || e.peer.closed || passed(e.wdl) {
			return true, time.Time{}
		}
		if e.out.Cap == 0 || e.out.buffered < e.out.Cap {
			return true, time.Time{}
		}
		return false, e.wdl
	}
	return true, time.Time{}
}

func (e *Endpoint) Do(w *simrt.World, r *simrt.Req) (int, error) {
	switch r.Kind {
	case simrt.KRead:
		return e.doRead(w, r)
	case simrt.KWrite:
		return e.doWrite(w, r)
	case simrt.KClose:
		if e.closed {
			return 0, ErrClosed
		}
		e.closed = true
		e.out.wclosed = true
		return 0, nil
	}
	return 0, nil
}

func (e *Endpoint) doRead(w *simrt.World, r *simrt.Req) (int, error) {
	e.Reads++
	if e.closed {
		return 0, ErrClosed
	}
	if passed(e.rdl) {
		return 0, ErrTimeout
	}
	d := e.in
	if d.reset {
		return 0, ErrReset
	}
	if len(d.segs) == 0 {
		if d.wclosed {
			return 0, io.EOF
		}
		return 0, ErrTimeout // not reachable: Ready said so only for deadline
	}
	// coalesce every ready segment
	avail := 0
	now := time.Now()
	for _, s := range d.segs {
		if now.Before(s.readyAt) {
			break
		}
		avail += len(s.data)
	}
	k := avail
	if k > len(r.Buf) {
		k = len(r.Buf)
	}
	if e.link.Frag && k > 1 {
		switch w.Ch.Pick(4, "frag") {
		case 1:
			k = 1
		case 2:
			k = 1 + w.Ch.Pick(k, "fraglen")
		case 3:
			k = (k + 1) / 2
		}
		d.Fired["frag"]++
	}
	n := 0
	for n < k {
		s := &d.segs[0]
		c := simrt.CopyOut(r.Buf[n:k], s.data)
		n += c
		if c == len(s.data) {
			d.segs = d.segs[1:]
		} else {
			s.data = s.data[c:]
		}
	}
	d.buffered -= n
	return n, nil
}

func (e *Endpoint) doWrite(w *simrt.World, r *simrt.Req) (int, error) {
	e.WritesN++
	if e.closed {
		return 0, ErrClosed
	}
	if passed(e.wdl) {
		return 0, ErrTimeout
	}
	d := e.out
	if d.reset {
		return 0, ErrReset
	}
	if e.peer.closed {
		return 0, ErrPipe
	}
	b := simrt.CopyIn(r.Buf)
	if e.OnWrite != nil {
		e.OnWrite(w, b)
	}
	n := len(b)
	var werr error
	if d.ResetAt >= 0 && d.Total+int64(n) > d.ResetAt {
		n = int(d.ResetAt - d.Total)
		if n < 0 {
			n = 0
		}
		werr = ErrReset
		d.Fired["reset"]++
	} else if d.ShortAt >= 0 && d.Total < d.ShortAt && d.Total+int64(n) > d.ShortAt {
		n = int(d.ShortAt - d.Total)
		werr = ErrShort
		d.Fired["shortwrite"]++
	}
	b = b[:n]
	d.Writes = append(d.Writes, TapWrite{Step: w.Steps, Off: d.Total, Len: n, At: w.Now()})
	d.Sent = append(d.Sent, b...)
	if d.FlipAt >= d.Total && d.FlipAt < d.Total+int64(n) {
		b[d.FlipAt-d.Total] ^= d.FlipMask
		d.Fired["flip"]++
	}
	start := d.Total
	d.Total += int64(n)
	if d.EOFAt >= 0 && d.Total >= d.EOFAt {
		// truncation: bytes past EOFAt vanish, the reader sees a clean EOF
		keep := int(d.EOFAt - start)
		if keep < 0 {
			keep = 0
		}
		if keep < len(b) {
			b = b[:keep]
		}
		if !d.eofDone {
			d.eofDone = true
			d.Fired["eof"]++
		}
	}
	chunks := [][]byte{b}
	if d.Filter != nil {
		chunks = d.Filter(w, d, b)
	}
	if d.CutNow {
		// a Filter asked for a clean EOF behind the chunks it returned (scheduler side)
		d.CutNow = false
		d.EOFAt = 0
		if !d.eofDone {
			d.eofDone = true
			d.Fired["eof"]++
		}
	}
	ready := time.Now().Add(d.Latency)
	if d.Jitter > 0 {
		ready = ready.Add(time.Duration(w.Ch.Pick(int(d.Jitter/time.Millisecond)+1, "jitter")) * time.Millisecond)
	}
	if d.StallAt >= 0 && !d.stallDone && d.Total > d.StallAt {
		d.stallDone = true
		ready = ready.Add(d.StallFor)
		d.Fired["stall"]++
	}
	if len(d.segs) > 0 && ready.Before(d.segs[len(d.segs)-1].readyAt) {
		ready = d.segs[len(d.segs)-1].readyAt // a stream never reorders
	}
	for _, c := range chunks {
		if len(c) == 0 {
			continue
		}
		d.segs = append(d.segs, segment{data: c, readyAt: ready})
		d.buffered += len(c)
		d.Delivered = append(d.Delivered, c...)
	}
	if d.eofDone {
		d.wclosed = true
	}
	if werr == ErrReset {
		d.reset = true
		e.in.reset = true
	}
	return n, werr
}

// Inject makes b readable by the reader of d as if the writer had sent it (attacker).
func (d *Dir) Inject(b []byte) {
	d.segs = append(d.segs, segment{data: b, readyAt: time.Now()})
	d.buffered += len(b)
	d.Delivered = append(d.Delivered, b...)
}

// ---- dialing ----

// Net is the per-world listener registry.
type Net struct {
	listeners map[string]*Listener
	Dials     []DialRecord
	// DialFault is consulted for every dial: return a pre-allocated error to fail it.
	DialFault func(w *simrt.World, n int, address string) error
	nlinks    int
	LinkSetup func(l *Link)
	// StampFn, if set, stamps every dial with the scenario's global event sequence number.
	StampFn func() int64
}

type DialRecord struct {
	Addr string
	Task string
	Err  string
	Link  *Link
	Step  int
	Stamp int64
}

var curNet *Net

func NewNet() *Net {
	n := &Net{listeners: map[string]*Listener{}}
	curNet = n
	return n
}

func ClearNet() { curNet = nil }

type Listener struct {
	net    *Net
	addr   string
	queue  []*Endpoint
	closed bool
}

func (n *Net) Listen(address string) *Listener {
	l := &Listener{net: n, addr: address}
	n.listeners[address] = l
	return l
}

func (l *Listener) Name() string { return "listener:" + l.addr }
func (l *Listener) Ready(w *simrt.World, r *simrt.Req) (bool, time.Time) {
	if r.Kind == simrt.KClose {
		return true, time.Time{}
	}
	return len(l.queue) > 0 || l.closed, time.Time{}
}
func (l *Listener) Do(w *simrt.World, r *simrt.Req) (int, error) {
	if r.Kind == simrt.KClose {
		l.closed = true
		return 0, nil
	}
	if len(l.queue) == 0 {
		return 0, ErrClosed
	}
	ep := l.queue[0]
	l.queue = l.queue[1:]
	setPtr(r, unsafe.Pointer(ep))
	return 0, nil
}
func (l *Listener) Note(w *simrt.World, r *simrt.Req) {}

//go:norace
func setPtr(r *simrt.Req, p unsafe.Pointer) { r.Ptr = p }

//go:norace
func getPtr(r *simrt.Req) unsafe.Pointer { return r.Ptr }

// Accept blocks until a dial arrives. Returns nil when the listener is closed.
func (l *Listener) Accept() (net.Conn, error) {
	w := simrt.Cur()
	r := &simrt.Req{Kind: simrt.KAccept, Res: l}
	_, err := w.Park(r)
	if err != nil {
		return nil, err
	}
	return (*Endpoint)(getPtr(r)), nil
}

// CloseListener wakes pending Accepts.
func (l *Listener) Close() error {
	w := simrt.Cur()
	w.Park(&simrt.Req{Kind: simrt.KClose, Res: l})
	return nil
}

func (l *Listener) Addr() net.Addr { return theAddr }

type dialRes struct{ n *Net }

func (d dialRes) Name() string { return "dial" }
func (d dialRes) Ready(w *simrt.World, r *simrt.Req) (bool, time.Time) {
	return true, time.Time{}
}
func (d dialRes) Note(w *simrt.World, r *simrt.Req) {}
func (d dialRes) Do(w *simrt.World, r *simrt.Req) (int, error) {
	n := d.n
	address := *(*string)(r.Ptr)
	rec := DialRecord{Addr: address, Step: w.Steps}
	if n.StampFn != nil {
		rec.Stamp = n.StampFn()
	}
	if t := r.Task(); t != nil {
		rec.Task = t.Name
	}
	idx := len(n.Dials)
	if n.DialFault != nil {
		if err := n.DialFault(w, idx, address); err != nil {
			rec.Err = err.Error()
			n.Dials = append(n.Dials, rec)
			setPtr(r, nil)
			return 0, err
		}
	}
	l := n.listeners[address]
	if l == nil || l.closed {
		rec.Err = ErrRefused.Error()
		n.Dials = append(n.Dials, rec)
		setPtr(r, nil)
		return 0, ErrRefused
	}
	n.nlinks++
	link := NewLink(fmt.Sprintf("dial%d", n.nlinks))
	if n.LinkSetup != nil {
		n.LinkSetup(link)
	}
	rec.Link = link
	n.Dials = append(n.Dials, rec)
	l.queue = append(l.queue, link.B)
	setPtr(r, unsafe.Pointer(link.A))
	return 0, nil
}

// DialTimeout replaces net.DialTimeout in the scratch copy of the utls package.
func DialTimeout(network, address string, timeout time.Duration) (net.Conn, error) {
	w := simrt.Cur()
	if w == nil || curNet == nil {
		return net.DialTimeout(network, address, timeout)
	}
	a := address
	r := &simrt.Req{Kind: simrt.KDial, Res: dialRes{curNet}, Ptr: unsafe.Pointer(&a)}
	_, err := w.Park(r)
	if err != nil {
		return nil, err
	}
	p := getPtr(r)
	if p == nil {
		return nil, errors.New("simnet: dial failed")
	}
	return (*Endpoint)(p), nil
}
