// Package simsync replaces "sync" in the scratch copy of the utls package. Mutex, RWMutex
// and Once cooperate with the simulator (a goroutine blocked on a real mutex is not durably
// blocked for synctest); everything else aliases the real type. Outside a simulated world
// every operation is a pass-through to the real primitive.
//
// The real mutex is still taken after the scheduler admitted the goroutine, so the race
// detector sees exactly the happens-before edges the program itself creates.
package simsync

import (
	"sync"
	"sync/atomic"
	"time"
	"unsafe"

	"github.com/refraction-networking/utls/zz_verif/simrt"
)

type (
	Pool      = sync.Pool
	Map       = sync.Map
	WaitGroup = sync.WaitGroup
	Locker    = sync.Locker
	Cond      = sync.Cond
)

var NewCond = sync.NewCond

// lockRes is the scheduler-side view of all shim mutexes of a world: the set of mutex
// addresses for which an unlock has been seen since a waiter registered.
type lockRes struct{}

var theLockRes simrt.Resource = lockRes{}

func (lockRes) Name() string { return "mutex" }

// A lock waiter is ready once an unlock note for its mutex arrived after it registered
// (Arg is set to 1 by Note). A spurious wake-up is harmless: the waiter retries TryLock.
func (lockRes) Ready(w *simrt.World, r *simrt.Req) (bool, time.Time) {
	return r.Arg == 1, time.Time{}
}
func (lockRes) Do(w *simrt.World, r *simrt.Req) (int, error) { return 0, nil }
func (lockRes) Note(w *simrt.World, r *simrt.Req) {
	w.ForEachPending(func(p *simrt.Req) {
		if p.Kind == simrt.KLockWait && p.Ptr == r.Ptr {
			p.Arg = 1
		}
	})
}

func yieldAfterUnlock(w *simrt.World) {
	if w.Cfg.UnlockYield {
		w.Park(&simrt.Req{Kind: simrt.KYield, Res: theLockRes})
	}
}

func yieldBeforeLock(w *simrt.World) {
	if w.Cfg.LockYield {
		w.Park(&simrt.Req{Kind: simrt.KYield, Res: theLockRes})
	}
}

// Mutex has the API of sync.Mutex.
type Mutex struct {
	mu sync.Mutex
}

func (m *Mutex) Lock() {
	w := simrt.Cur()
	if w == nil {
		m.mu.Lock()
		return
	}
	yieldBeforeLock(w)
	for !m.mu.TryLock() {
		w.Park(&simrt.Req{Kind: simrt.KLockWait, Res: theLockRes, Ptr: unsafe.Pointer(m)})
	}
}

func (m *Mutex) TryLock() bool { return m.mu.TryLock() }

func (m *Mutex) Unlock() {
	m.mu.Unlock()
	if w := simrt.Cur(); w != nil {
		w.Notify(&simrt.Req{Kind: simrt.NUnlock, Res: theLockRes, Ptr: unsafe.Pointer(m)})
		yieldAfterUnlock(w)
	}
}

// RWMutex has the API of sync.RWMutex.
type RWMutex struct {
	mu sync.RWMutex
}

func (m *RWMutex) Lock() {
	w := simrt.Cur()
	if w == nil {
		m.mu.Lock()
		return
	}
	yieldBeforeLock(w)
	for !m.mu.TryLock() {
		w.Park(&simrt.Req{Kind: simrt.KLockWait, Res: theLockRes, Ptr: unsafe.Pointer(m)})
	}
}

func (m *RWMutex) RLock() {
	w := simrt.Cur()
	if w == nil {
		m.mu.RLock()
		return
	}
	yieldBeforeLock(w)
	for !m.mu.TryRLock() {
		w.Park(&simrt.Req{Kind: simrt.KLockWait, Res: theLockRes, Ptr: unsafe.Pointer(m)})
	}
}

func (m *RWMutex) TryLock() bool  { return m.mu.TryLock() }
func (m *RWMutex) TryRLock() bool { return m.mu.TryRLock() }

func (m *RWMutex) Unlock() {
	m.mu.Unlock()
	if w := simrt.Cur(); w != nil {
		w.Notify(&simrt.Req{Kind: simrt.NUnlock, Res: theLockRes, Ptr: unsafe.Pointer(m)})
		yieldAfterUnlock(w)
	}
}

func (m *RWMutex) RUnlock() {
	m.mu.RUnlock()
	if w := simrt.Cur(); w != nil {
		w.Notify(&simrt.Req{Kind: simrt.NUnlock, Res: theLockRes, Ptr: unsafe.Pointer(m)})
		yieldAfterUnlock(w)
	}
}

func (m *RWMutex) RLocker() sync.Locker { return (*rlocker)(m) }

type rlocker RWMutex

func (r *rlocker) Lock()   { (*RWMutex)(r).RLock() }
func (r *rlocker) Unlock() { (*RWMutex)(r).RUnlock() }

// Once has the API of sync.Once; a second caller waits on a shim mutex, not a real one.
type Once struct {
	done atomic.Uint32
	m    Mutex
}

func (o *Once) Do(f func()) {
	if o.done.Load() == 1 {
		return
	}
	o.m.Lock()
	defer o.m.Unlock()
	if o.done.Load() == 0 {
		defer o.done.Store(1)
		f()
	}
}

func OnceFunc(f func()) func()                       { return sync.OnceFunc(f) }
func OnceValue[T any](f func() T) func() T           { return sync.OnceValue(f) }
func OnceValues[T1, T2 any](f func() (T1, T2)) func() (T1, T2) { return sync.OnceValues(f) }
