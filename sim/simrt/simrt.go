// Package simrt is the runtime core of the deterministic simulator: one World per
// synctest bubble, a scheduler on the bubble's root goroutine, tasks parked in a
// race-detector-invisible way (DESIGN.md 2.2, 2.7).
//
// Ownership rule: everything reachable from World except the inbox and the result
// fields of a Req is touched by the scheduler goroutine only, and only while every other
// goroutine of the bubble is durably blocked (after synctest.Wait returned). Task
// goroutines talk to the scheduler exclusively by publishing a *Req into the inbox
// (spin lock in assembly, //go:norace) and reading its result fields after being woken.
package simrt

import (
	"fmt"
	"runtime"
	"runtime/debug"
	"sort"
	"sync"
	"time"
	"unsafe"
)

func tryLock(p *uint32) bool
func unlock(p *uint32)

//go:linkname synctestRun internal/synctest.Run
func synctestRun(f func())

//go:linkname synctestWait internal/synctest.Wait
func synctestWait()

// Bubble runs f as the root goroutine of a new synctest bubble (fake clock, quiescence
// detection). A bubble that ends with goroutines still blocked panics; the panic is
// recovered and reported.
func Bubble(f func()) (leak string) {
	defer func() {
		if r := recover(); r != nil {
			leak = fmt.Sprint(r)
		}
	}()
	synctestRun(f)
	return ""
}

//go:linkname getProfLabel runtime/pprof.runtime_getProfLabel
func getProfLabel() unsafe.Pointer

//go:linkname setProfLabel runtime/pprof.runtime_setProfLabel
func setProfLabel(p unsafe.Pointer)

// Kind of a request.
type Kind uint8

const (
	KStart Kind = iota
	KYield
	KSleep
	KStepWait
	KRead
	KWrite
	KClose
	KLockWait
	KAccept
	KDial
	KCustom
	// notes (non-parking)
	NUnlock
	NDeadline
	NTaskDone
	NCustom
)

var kindNames = [...]string{"start", "yield", "sleep", "stepwait", "read", "write", "close", "lockwait", "accept", "dial", "custom", "n-unlock", "n-deadline", "n-taskdone", "n-custom"}

func (k Kind) String() string { return kindNames[k] }

// Resource executes requests on the scheduler goroutine.
type Resource interface {
	Name() string
	// Ready reports whether r can be performed now. If not, next is the earliest
	// simulated time at which it may become ready by the passage of time alone (zero: never).
	Ready(w *World, r *Req) (ok bool, next time.Time)
	// Do performs r and returns its results. Errors must be pre-allocated package-level
	// values (a value built here would be written by the scheduler and read by the task
	// with no happens-before edge visible to the race detector).
	Do(w *World, r *Req) (n int, err error)
	// Note applies a non-parking notification.
	Note(w *World, r *Req)
}

type noopLocker struct{}

func (noopLocker) Lock()   {}
func (noopLocker) Unlock() {}

// Req is one request of a task to the scheduler.
type Req struct {
	Kind Kind
	Res  Resource
	Buf  []byte
	T    time.Time
	Arg  int64
	Ptr  unsafe.Pointer

	task *Task
	seq  uint64
	note bool

	// result fields: written by the scheduler and read by the task in //go:norace code only
	n       int
	err     error
	granted bool
	over    bool
	cond    sync.Cond
}

func (r *Req) Task() *Task { return r.task }

//go:norace
func (r *Req) isGranted() bool { return r.granted }

//go:norace
func (r *Req) result() (int, error, bool) { return r.n, r.err, r.over }

//go:norace
func (r *Req) grant(n int, err error, over bool) {
	r.n, r.err, r.over = n, err, over
	r.granted = true
}

// CopyOut copies src (scheduler-owned) into the task's buffer without race instrumentation.
//
//go:norace
func CopyOut(dst, src []byte) int {
	n := len(src)
	if len(dst) < n {
		n = len(dst)
	}
	for i := 0; i < n; i++ {
		dst[i] = src[i]
	}
	return n
}

// CopyIn returns a scheduler-owned copy of a task's buffer without race instrumentation.
//
//go:norace
func CopyIn(src []byte) []byte {
	dst := make([]byte, len(src))
	for i := 0; i < len(src); i++ {
		dst[i] = src[i]
	}
	return dst
}

// Task is a caller goroutine of the scenario. Goroutines started by library code inherit
// the task of the goroutine that started them.
type Task struct {
	Name       string
	w          *World
	done       chan struct{}
	finished   bool
	Panic      any
	PanicStack string
	Ops        int
	root       bool
}

const inboxCap = 1 << 12

// World is one simulated world.
type World struct {
	Ch  *Chooser
	Cfg Config

	lk    uint32
	inbox *[inboxCap]*Req
	nin   int

	pending  []*Req
	tasks    []*Task
	rootTask *Task
	last     *Task
	seq      uint64

	Steps      int
	Picks      int
	Deadlock   bool
	StepCapHit bool
	transient  []*Req // lock waiters to be resumed without a step (see drain)
	Stuck      []string
	start      time.Time

	trace     uint64
	sched     uint64
	Events    []string
	KeepTrace int
	Overlaps  int
	KindCount [NCustom + 1]int
	running   bool
	dead      bool
}

// Config holds per-run knobs of the scheduler.
type Config struct {
	StepCap       int
	PreemptPct    int  // probability (percent) of not continuing the last task at a choice point
	LockYield     bool // mutex lock attempts are scheduling points
	UnlockYield   bool // the instant after a mutex unlock is a scheduling point (narrowed critical sections)
	AtomicYield   bool // atomic operations are scheduling points
	MaxSimTime    time.Duration
	NoChoiceKinds [NCustom + 1]bool
}

var cur *World

// one world at a time per process: the inbox array is reused (page-fault churn is the
// dominant cost of a small world in this sandbox)
var theInbox [inboxCap]*Req

//go:norace
func getCur() *World { return cur }

//go:norace
func setCur(w *World) { cur = w }

// Any returns the active world if the calling goroutine belongs to it (root included).
func Any() *World {
	w := getCur()
	if w == nil {
		return nil
	}
	t := (*Task)(getProfLabel())
	if t == nil || t.w != w {
		return nil
	}
	return w
}

// Finished reports whether the task has ended (scheduler/root goroutine only).
func (t *Task) Finished() bool { return t.finished }

// Cur returns the active world if the calling goroutine is a (non-root) task of it.
func Cur() *World {
	w := getCur()
	if w == nil {
		return nil
	}
	t := (*Task)(getProfLabel())
	if t == nil || t.root || t.w != w {
		return nil
	}
	return w
}

// CurTask returns the task of the calling goroutine (nil outside a world).
func CurTask() *Task {
	w := getCur()
	if w == nil {
		return nil
	}
	t := (*Task)(getProfLabel())
	if t == nil || t.w != w {
		return nil
	}
	return t
}

// NewWorld must be called on the root goroutine of a synctest bubble.
func NewWorld(ch *Chooser, cfg Config) *World {
	if cfg.StepCap == 0 {
		cfg.StepCap = 200000
	}
	if cfg.MaxSimTime == 0 {
		cfg.MaxSimTime = 24 * time.Hour
	}
	w := &World{Ch: ch, Cfg: cfg, start: time.Now(), trace: 1469598103934665603, sched: 1469598103934665603, inbox: &theInbox}
	w.rootTask = &Task{Name: "root", w: w, root: true}
	setProfLabel(unsafe.Pointer(w.rootTask))
	setCur(w)
	return w
}

// Close detaches the world from the process.
func (w *World) Close() {
	setProfLabel(nil)
	setCur(nil)
}

func (w *World) Now() time.Duration { return time.Since(w.start) }

// Go starts a task. Root goroutine only, before or between Run calls.
func (w *World) Go(name string, fn func()) *Task {
	t := &Task{Name: name, w: w, done: make(chan struct{})}
	w.tasks = append(w.tasks, t)
	go func() {
		setProfLabel(unsafe.Pointer(t))
		defer close(t.done)
		defer func() {
			if r := recover(); r != nil {
				t.Panic = r
				t.PanicStack = string(debug.Stack())
			}
			w.Notify(&Req{Kind: NTaskDone})
		}()
		w.Park(&Req{Kind: KStart})
		fn()
	}()
	synctestWait()
	return t
}

//go:norace
func (w *World) publish(r *Req) {
	for !tryLock(&w.lk) {
		runtime.Gosched()
	}
	if w.nin >= inboxCap {
		unlock(&w.lk)
		panic("simrt: inbox overflow")
	}
	w.inbox[w.nin] = r
	w.nin++
	unlock(&w.lk)
}

//go:norace
func (w *World) take(i int) *Req {
	r := w.inbox[i]
	w.inbox[i] = nil
	return r
}

//go:norace
func (w *World) inboxLen() int { return w.nin }

//go:norace
func (w *World) inboxReset() { w.nin = 0 }

// Park publishes r and blocks the calling task until the scheduler has performed it.
func (w *World) Park(r *Req) (int, error) {
	r.cond.L = noopLocker{}
	r.task = (*Task)(getProfLabel())
	if w.isDead() {
		if r.Kind == KLockWait {
			for {
				r.cond.Wait()
			}
		}
		return 0, ErrWorldOver
	}
	w.publish(r)
	for !r.isGranted() {
		r.cond.Wait()
	}
	n, err, over := r.result()
	if over {
		return 0, ErrWorldOver
	}
	return n, err
}

type worldOverError struct{}

func (worldOverError) Error() string   { return "simrt: world is over" }
func (worldOverError) Timeout() bool   { return false }
func (worldOverError) Temporary() bool { return false }

// ErrWorldOver is returned by every simulator operation once the world has been stopped
// (deadlock, step cap). Lock waits never return after that.
var ErrWorldOver error = worldOverError{}

//go:norace
func (w *World) isDead() bool { return w.dead }

//go:norace
func (w *World) setDead() { w.dead = true }

// Notify publishes a non-parking note.
func (w *World) Notify(r *Req) {
	r.note = true
	r.task = (*Task)(getProfLabel())
	if w.isDead() {
		return
	}
	if w.inboxLen() > inboxCap-256 && r.task != nil && !r.task.root {
		// a task that produces notes without ever parking (e.g. byte-wise reads of buffered
		// data, each unlocking a mutex) would overflow the inbox: park once so that the
		// scheduler drains it
		w.Park(&Req{Kind: KYield})
	}
	w.publish(r)
}

// Yield is an explicit scheduling point.
func Yield() {
	if w := Cur(); w != nil {
		w.Park(&Req{Kind: KYield})
	}
}

// Sleep blocks the task for d of simulated time.
func Sleep(d time.Duration) {
	if w := Cur(); w != nil {
		w.Park(&Req{Kind: KSleep, T: time.Now().Add(d)})
		return
	}
	time.Sleep(d)
}

// WaitSteps blocks the task until k further scheduler steps have been taken (or nothing
// else can run).
func WaitSteps(k int) {
	if w := Cur(); w != nil {
		w.Park(&Req{Kind: KStepWait, Arg: int64(k)})
	}
}

// Poll waits (in units of two scheduler steps) until cond holds, at most maxPolls times, and
// reports whether it did. A helper task that polls for ever would keep a world alive whose other
// tasks are all blocked for good: giving up lets the deadlock detector see them.
func Poll(cond func() bool, maxPolls int) bool {
	for i := 0; !cond(); i++ {
		if i >= maxPolls {
			return false
		}
		WaitSteps(2)
	}
	return true
}

func (w *World) mix(h *uint64, s string) {
	x := *h
	for i := 0; i < len(s); i++ {
		x ^= uint64(s[i])
		x *= 1099511628211
	}
	x ^= 0xff
	x *= 1099511628211
	*h = x
}

func (w *World) mixInt(h *uint64, v int64) {
	x := *h
	for i := 0; i < 8; i++ {
		x ^= uint64(byte(v >> (8 * i)))
		x *= 1099511628211
	}
	*h = x
}

// TraceHash is a hash of every scheduler event of the run (determinism self-test).
func (w *World) TraceHash() uint64 { return w.trace }

// SchedHash is a hash of the granted (task, kind, resource) sequence.
func (w *World) SchedHash() uint64 { return w.sched }

// Logf adds a line to the trace (scheduler goroutine only).
func (w *World) Logf(format string, a ...any) {
	s := fmt.Sprintf(format, a...)
	w.mix(&w.trace, s)
	if w.KeepTrace > 0 {
		w.Events = append(w.Events, fmt.Sprintf("%6d t=%v %s", w.Steps, w.Now(), s))
		if len(w.Events) > w.KeepTrace {
			w.Events = w.Events[len(w.Events)-w.KeepTrace:]
		}
	}
}

func resName(r *Req) string {
	if r.Res == nil {
		return "-"
	}
	return r.Res.Name()
}

func taskName(r *Req) string {
	if r.task == nil {
		return "?"
	}
	return r.task.Name
}

func (w *World) drain() {
	n := w.inboxLen()
	// Two passes: requests first, then notes, so that an unlock note also reaches a lock
	// waiter that registered in the same batch (no lost wake-up when a library-started
	// goroutine ran concurrently with the granted task).
	var notes []*Req
	for i := 0; i < n; i++ {
		r := w.take(i)
		w.seq++
		r.seq = w.seq
		if r.note {
			notes = append(notes, r)
			continue
		}
		if r.Kind == KStepWait {
			r.Arg += int64(w.Steps)
		}
		w.pending = append(w.pending, r)
	}
	w.inboxReset()
	first := len(w.pending) - (n - len(notes))
	for _, r := range notes {
		switch r.Kind {
		case NTaskDone:
			if r.task != nil {
				r.task.finished = true
			}
		default:
			if r.Res != nil {
				r.Res.Note(w, r)
			}
		}
	}
	// A lock waiter whose unlock note arrived in the very batch in which it registered lost a race
	// in real time against a goroutine the library started itself (the QUIC handshake goroutine
	// releasing its locks while the call that it completed returns): had it been a microsecond
	// later, TryLock would have succeeded and no request would exist. It is resumed without a step,
	// a log line or a choice, so that the execution is the same either way.
	if first >= 0 {
		kept := w.pending[:first:first]
		for _, r := range w.pending[first:] {
			if r.Kind == KLockWait && r.Res != nil {
				if ok, _ := r.Res.Ready(w, r); ok {
					w.transient = append(w.transient, r)
					continue
				}
			}
			kept = append(kept, r)
		}
		w.pending = kept
	}
}

func (w *World) ready(r *Req) (bool, time.Time) {
	switch r.Kind {
	case KStart, KYield:
		return true, time.Time{}
	case KSleep:
		if !time.Now().Before(r.T) {
			return true, time.Time{}
		}
		return false, r.T
	case KStepWait:
		return int64(w.Steps) >= r.Arg, time.Time{}
	}
	return r.Res.Ready(w, r)
}

func (w *World) allDone() bool {
	for _, t := range w.tasks {
		if !t.finished {
			return false
		}
	}
	return true
}

// Run schedules until every task has finished, the world deadlocks, or a cap is hit.
func (w *World) Run() { w.RunUntil() }

// RunUntil schedules until the given tasks (all tasks if none) have finished.
func (w *World) RunUntil(until ...*Task) {
	if w.Deadlock || w.StepCapHit {
		return
	}
	w.running = true
	idleProbed := false
	for {
		synctestWait()
		w.drain()
		if len(w.transient) > 0 {
			for _, r := range w.transient {
				r.grant(0, nil, false)
				r.cond.Signal()
			}
			w.transient = w.transient[:0]
			continue
		}
		if len(until) == 0 {
			if w.allDone() && len(w.pending) == 0 {
				break
			}
		} else {
			fin := true
			for _, t := range until {
				if !t.finished {
					fin = false
				}
			}
			if fin {
				break
			}
		}
		if w.Steps >= w.Cfg.StepCap {
			w.StepCapHit = true
			break
		}
		if w.Now() > w.Cfg.MaxSimTime {
			w.StepCapHit = true
			break
		}
		var cands []*Req
		var next time.Time
		for _, r := range w.pending {
			ok, nx := w.ready(r)
			if ok {
				cands = append(cands, r)
			} else if !nx.IsZero() && (next.IsZero() || nx.Before(next)) {
				next = nx
			}
		}
		if len(cands) == 0 {
			// nothing can run: release step-waiters first, then let simulated time pass
			for _, r := range w.pending {
				if r.Kind == KStepWait {
					cands = append(cands, r)
				}
			}
			if len(cands) == 0 {
				if !next.IsZero() {
					d := time.Until(next)
					if d > 0 {
						time.Sleep(d)
					}
					w.Logf("clock -> %v", w.Now())
					idleProbed = false
					continue
				}
				if len(w.pending) == 0 && !idleProbed {
					// tasks are blocked on something that is not a simulator operation
					// (a channel, a library timer): let fake time pass once
					idleProbed = true
					time.Sleep(time.Hour)
					continue
				}
				if !idleProbed {
					idleProbed = true
					time.Sleep(time.Hour)
					continue
				}
				w.Deadlock = true
				break
			}
		}
		idleProbed = false
		sort.SliceStable(cands, func(i, j int) bool {
			a, b := cands[i], cands[j]
			if ta, tb := taskName(a), taskName(b); ta != tb {
				return ta < tb
			}
			if a.Kind != b.Kind {
				return a.Kind < b.Kind
			}
			if ra, rb := resName(a), resName(b); ra != rb {
				return ra < rb
			}
			return a.seq < b.seq
		})
		// the continuation of the task that ran last is candidate 0
		ci := -1
		for i, r := range cands {
			if r.task != nil && r.task == w.last {
				ci = i
				break
			}
		}
		if ci > 0 {
			c := cands[ci]
			copy(cands[1:ci+1], cands[0:ci])
			cands[0] = c
		}
		pick := 0
		if len(cands) > 1 {
			forced := ci >= 0 && w.Cfg.NoChoiceKinds[cands[0].Kind]
			if !forced {
				w.Picks++
				if ci >= 0 {
					pick = w.Ch.PickBiased(len(cands), 100-w.Cfg.PreemptPct, "sched")
				} else {
					pick = w.Ch.Pick(len(cands), "sched")
				}
				if pick != 0 && ci >= 0 {
					w.Overlaps++
				}
			}
		}
		r := cands[pick]
		for i, p := range w.pending {
			if p == r {
				w.pending = append(w.pending[:i], w.pending[i+1:]...)
				break
			}
		}
		w.Steps++
		w.KindCount[r.Kind]++
		var n int
		var err error
		if r.Res != nil {
			n, err = r.Res.Do(w, r)
		}
		if r.task != nil {
			r.task.Ops++
		}
		w.last = r.task
		es := ""
		if err != nil {
			es = err.Error()
		}
		w.mix(&w.sched, taskName(r))
		w.mix(&w.sched, r.Kind.String())
		w.mix(&w.sched, resName(r))
		w.Logf("%s %s %s n=%d err=%q", taskName(r), r.Kind, resName(r), n, es)
		r.grant(n, err, false)
		r.cond.Signal()
	}
	w.running = false
	if w.Deadlock || w.StepCapHit {
		synctestWait()
		w.drain()
		for _, r := range w.pending {
			w.Stuck = append(w.Stuck, fmt.Sprintf("%s:%s:%s", taskName(r), r.Kind, resName(r)))
		}
		for _, t := range w.tasks {
			if !t.finished {
				w.Stuck = append(w.Stuck, "unfinished:"+t.Name)
			}
		}
		sort.Strings(w.Stuck)
		// fail every parked operation so that goroutines unwind; lock waiters stay parked
		// (the bubble then ends with synctest's "blocked goroutines remain" panic, which the
		// worker recovers)
		w.setDead()
		for rounds := 0; rounds < 100; rounds++ {
			ps := w.pending
			w.pending = nil
			k := 0
			for _, r := range ps {
				if r.Kind == KLockWait {
					continue
				}
				k++
				r.grant(0, nil, true)
				r.cond.Signal()
			}
			if k == 0 {
				break
			}
			synctestWait()
			w.drain()
		}
	}
}

// Join waits for all tasks' goroutines to have exited (establishes happens-before from
// each task to the caller). Tasks stuck outside the simulator are reported.
func (w *World) Join() (leaked []string) {
	for _, t := range w.tasks {
		select {
		case <-t.done:
		default:
			synctestWait()
			select {
			case <-t.done:
			default:
				leaked = append(leaked, t.Name)
			}
		}
	}
	return leaked
}

// Tasks returns the world's tasks.
func (w *World) Tasks() []*Task { return w.tasks }

// ForEachPending calls f for every parked request (scheduler goroutine only).
func (w *World) ForEachPending(f func(*Req)) {
	for _, r := range w.pending {
		f(r)
	}
}
