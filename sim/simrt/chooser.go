package simrt

// Chooser is the single source of every choice of a run. Back-end (a): a splitmix64 stream
// that records every draw into the tape. Back-end (b): a recorded tape (exhausted ⇒ 0).
// Choice 0 is by construction the benign default everywhere.
type Chooser struct {
	state  uint64
	replay bool
	in     []uint32
	pos    int
	Tape   []uint32
	Draws  int
}

func NewChooser(seed uint64) *Chooser { return &Chooser{state: seed} }

func NewReplay(tape []uint32) *Chooser { return &Chooser{replay: true, in: tape} }

func (c *Chooser) next() uint64 {
	c.state += 0x9e3779b97f4a7c15
	z := c.state
	z = (z ^ (z >> 30)) * 0xbf58476d1ce4e5b9
	z = (z ^ (z >> 27)) * 0x94d049bb133111eb
	return z ^ (z >> 31)
}

// Pick returns a value in [0,n).
func (c *Chooser) Pick(n int, label string) int {
	if n <= 1 {
		return 0
	}
	c.Draws++
	var v uint32
	if c.replay {
		if c.pos < len(c.in) {
			v = c.in[c.pos] % uint32(n)
		}
		c.pos++
	} else {
		v = uint32(c.next() % uint64(n))
	}
	c.Tape = append(c.Tape, v)
	return int(v)
}

// PickBiased returns 0 with probability pct0 percent, otherwise uniform in [1,n).
func (c *Chooser) PickBiased(n int, pct0 int, label string) int {
	if n <= 1 {
		return 0
	}
	if c.replay {
		return c.Pick(n, label)
	}
	c.Draws++
	var v uint32
	if int(c.next()%100) >= pct0 {
		v = 1 + uint32(c.next()%uint64(n-1))
	}
	c.Tape = append(c.Tape, v)
	return int(v)
}

// Bool returns true with probability pct percent; false is the default.
func (c *Chooser) Bool(pct int, label string) bool {
	return c.PickBiased(2, 100-pct, label) == 1
}

// Range returns a value in [lo,hi]; lo is the default.
func (c *Chooser) Range(lo, hi int, label string) int {
	if hi <= lo {
		return lo
	}
	return lo + c.Pick(hi-lo+1, label)
}

// U64 returns 64 bits (two tape entries).
func (c *Chooser) U64(label string) uint64 {
	a := uint64(c.Pick(1<<31, label))
	b := uint64(c.Pick(1<<31, label))
	return a<<31 | b
}

// Bytes fills b from a stream keyed by one drawn value.
func (c *Chooser) Bytes(b []byte, label string) {
	s := c.U64(label)
	for i := range b {
		s += 0x9e3779b97f4a7c15
		z := s
		z = (z ^ (z >> 30)) * 0xbf58476d1ce4e5b9
		z = (z ^ (z >> 27)) * 0x94d049bb133111eb
		b[i] = byte(z ^ (z >> 31))
	}
}
