// Copyright 2017 Google Inc. All rights reserved.
// Use of this source code is governed by a BSD-style
// license that can be found in the LICENSE file.

package refsrv

// Fingerprinter is a struct largely for holding options for the FingerprintClientHello func
type Fingerprinter struct {
	// AllowBluntMimicry will ensure that unknown extensions are
	// passed along into the resulting ClientHelloSpec as-is
	// WARNING: there could be numerous subtle issues with ClientHelloSpecs
	// that are generated with this flag which could compromise security and/or mimicry
	AllowBluntMimicry bool
	// AlwaysAddPadding will always add a UtlsPaddingExtension with BoringPaddingStyle
	// at the end of the extensions list if it isn't found in the fingerprinted hello.
	// This could be useful in scenarios where the hello you are fingerprinting does not
	// have any padding, but you suspect that other changes you make to the final hello
	// (including things like different SNI lengths) would cause padding to be necessary
	AlwaysAddPadding bool

	RealPSKResumption bool // if set, PSK extension (if any) will be real PSK extension, otherwise it will be fake PSK extension
}

// FingerprintClientHello returns a ClientHelloSpec which is based on the
// ClientHello that is passed in as the data argument
//
// If the ClientHello passed in has extensions that are not recognized or cannot be handled
// it will return a non-nil error and a nil *ClientHelloSpec value
//
// The data should be the full tls record, including the record type/version/length header
// as well as the handshake type/length/version header
// https://tools.ietf.org/html/rfc5246#section-6.2
// https://tools.ietf.org/html/rfc5246#section-7.4
//
// It calls UnmarshalClientHello internally, and is kept for backwards compatibility
func (f *Fingerprinter) FingerprintClientHello(data []byte) (clientHelloSpec *ClientHelloSpec, err error) {
	return f.RawClientHello(data)
}

// RawClientHello returns a ClientHelloSpec which is based on the
// ClientHello raw bytes that is passed in as the raw argument.
//
// It was renamed from FingerprintClientHello in v1.3.1 and earlier versions
// as a more precise name for the function
func (f *Fingerprinter) RawClientHello(raw []byte) (clientHelloSpec *ClientHelloSpec, err error) {
	clientHelloSpec = &ClientHelloSpec{}

	err = clientHelloSpec.FromRaw(raw, f.AllowBluntMimicry, f.RealPSKResumption)
	if err != nil {
		return nil, err
	}

	if f.AlwaysAddPadding {
		clientHelloSpec.AlwaysAddPadding()
	}

	return clientHelloSpec, nil
}

// UnmarshalJSONClientHello returns a ClientHelloSpec which is based on the
// ClientHello JSON bytes that is passed in as the json argument.
func (f *Fingerprinter) UnmarshalJSONClientHello(json []byte) (clientHelloSpec *ClientHelloSpec, err error) {
	clientHelloSpec = &ClientHelloSpec{}
	err = clientHelloSpec.UnmarshalJSON(json)
	if err != nil {
		return nil, err
	}

	if f.AlwaysAddPadding {
		clientHelloSpec.AlwaysAddPadding()
	}

	return clientHelloSpec, nil
}
