// Copyright 2009 The Go Authors. All rights reserved.
// Use of this source code is governed by a BSD-style
// license that can be found in the LICENSE file.

package refsrv

import "strconv"

// An AlertError is a TLS alert.
//
// When using a QUIC transport, QUICConn methods will return an error
// which wraps AlertError rather than sending a TLS alert.
type AlertError uint8

func (e AlertError) Error() string {
	return alert(e).String()
}

type alert uint8

const (
	// alert level
	alertLevelWarning = 1
	alertLevelError   = 2
)

const (
	alertCloseNotify                  alert = 0
	alertUnexpectedMessage            alert = 10
	alertBadRecordMAC                 alert = 20
	alertDecryptionFailed             alert = 21
	alertRecordOverflow               alert = 22
	alertDecompressionFailure         alert = 30
	alertHandshakeFailure             alert = 40
	alertBadCertificate               alert = 42
	alertUnsupportedCertificate       alert = 43
	alertCertificateRevoked           alert = 44
	alertCertificateExpired           alert = 45
	alertCertificateUnknown           alert = 46
	alertIllegalParameter             alert = 47
	alertUnknownCA                    alert = 48
	alertAccessDenied                 alert = 49
	alertDecodeError                  alert = 50
	alertDecryptError                 alert = 51
	alertExportRestriction            alert = 60
	alertProtocolVersion              alert = 70
	alertInsufficientSecurity         alert = 71
	alertInternalError                alert = 80
	alertInappropriateFallback        alert = 86
	alertUserCanceled                 alert = 90
	alertNoRenegotiation              alert = 100
	alertMissingExtension             alert = 109
	alertUnsupportedExtension         alert = 110
	alertCertificateUnobtainable      alert = 111
	alertUnrecognizedName             alert = 112
	alertBadCertificateStatusResponse alert = 113
	alertBadCertificateHashValue      alert = 114
	alertUnknownPSKIdentity           alert = 115
	alertCertificateRequired          alert = 116
	alertNoApplicationProtocol        alert = 120
	alertECHRequired                  alert = 121
)

var alertText = map[alert]string{
	alertCloseNotify:                  "close notify",
	alertUnexpectedMessage:            "unexpected message",
	alertBadRecordMAC:                 "bad record MAC",
	alertDecryptionFailed:             "decryption failed",
	alertRecordOverflow:               "record overflow",
	alertDecompressionFailure:         "decompression failure",
	alertHandshakeFailure:             "handshake failure",
	alertBadCertificate:               "bad certificate",
	alertUnsupportedCertificate:       "unsupported certificate",
	alertCertificateRevoked:           "revoked certificate",
	alertCertificateExpired:           "expired certificate",
	alertCertificateUnknown:           "unknown certificate",
	alertIllegalParameter:             "illegal parameter",
	alertUnknownCA:                    "unknown certificate authority",
	alertAccessDenied:                 "access denied",
	alertDecodeError:                  "error decoding message",
	alertDecryptError:                 "error decrypting message",
	alertExportRestriction:            "export restriction",
	alertProtocolVersion:              "protocol version not supported",
	alertInsufficientSecurity:         "insufficient security level",
	alertInternalError:                "internal error",
	alertInappropriateFallback:        "inappropriate fallback",
	alertUserCanceled:                 "user canceled",
	alertNoRenegotiation:              "no renegotiation",
	alertMissingExtension:             "missing extension",
	alertUnsupportedExtension:         "unsupported extension",
	alertCertificateUnobtainable:      "certificate unobtainable",
	alertUnrecognizedName:             "unrecognized name",
	alertBadCertificateStatusResponse: "bad certificate status response",
	alertBadCertificateHashValue:      "bad certificate hash value",
	alertUnknownPSKIdentity:           "unknown PSK identity",
	alertCertificateRequired:          "certificate required",
	alertNoApplicationProtocol:        "no application protocol",
	alertECHRequired:                  "encrypted client hello required",
}

func (e alert) String() string {
	s, ok := alertText[e]
	if ok {
		return "tls: " + s
	}
	return "tls: alert(" + strconv.Itoa(int(e)) + ")"
}

func (e alert) Error() string {
	return e.String()
}
