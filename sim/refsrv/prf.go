// Copyright 2009 The Go Authors. All rights reserved.
// Use of this source code is governed by a BSD-style
// license that can be found in the LICENSE file.

package refsrv

import (
	"crypto"
	"crypto/hmac"
	"crypto/md5"
	"crypto/sha1"
	"crypto/sha256"
	"crypto/sha512"
	"errors"
	"fmt"
	"hash"

	"github.com/refraction-networking/utls/internal/tls12"
)

type prfFunc func(secret []byte, label string, seed []byte, keyLen int) []byte

// Split a premaster secret in two as specified in RFC 4346, Section 5.
func splitPreMasterSecret(secret []byte) (s1, s2 []byte) {
	s1 = secret[0 : (len(secret)+1)/2]
	s2 = secret[len(secret)/2:]
	return
}

// pHash implements the P_hash function, as defined in RFC 4346, Section 5.
func pHash(result, secret, seed []byte, hash func() hash.Hash) {
	h := hmac.New(hash, secret)
	h.Write(seed)
	a := h.Sum(nil)

	j := 0
	for j < len(result) {
		h.Reset()
		h.Write(a)
		h.Write(seed)
		b := h.Sum(nil)
		copy(result[j:], b)
		j += len(b)

		h.Reset()
		h.Write(a)
		a = h.Sum(nil)
	}
}

// prf10 implements the TLS 1.0 pseudo-random function, as defined in RFC 2246, Section 5.
func prf10(secret []byte, label string, seed []byte, keyLen int) []byte {
	result := make([]byte, keyLen)
	hashSHA1 := sha1.New
	hashMD5 := md5.New

	labelAndSeed := make([]byte, len(label)+len(seed))
	copy(labelAndSeed, label)
	copy(labelAndSeed[len(label):], seed)

	s1, s2 := splitPreMasterSecret(secret)
	pHash(result, s1, labelAndSeed, hashMD5)
	result2 := make([]byte, len(result))
	pHash(result2, s2, labelAndSeed, hashSHA1)

	for i, b := range result2 {
		result[i] ^= b
	}

	return result
}

// prf12 implements the TLS 1.2 pseudo-random function, as defined in RFC 5246, Section 5.
func prf12(hashFunc func() hash.Hash) prfFunc {
	return func(secret []byte, label string, seed []byte, keyLen int) []byte {
		return tls12.PRF(hashFunc, secret, label, seed, keyLen)
	}
}

const (
	masterSecretLength   = 48 // Length of a master secret in TLS 1.1.
	finishedVerifyLength = 12 // Length of verify_data in a Finished message.
)

const masterSecretLabel = "master secret"
const extendedMasterSecretLabel = "extended master secret"
const keyExpansionLabel = "key expansion"
const clientFinishedLabel = "client finished"
const serverFinishedLabel = "server finished"

func prfAndHashForVersion(version uint16, suite *cipherSuite) (prfFunc, crypto.Hash) {
	switch version {
	case VersionTLS10, VersionTLS11:
		return prf10, crypto.Hash(0)
	case VersionTLS12:
		if suite.flags&suiteSHA384 != 0 {
			return prf12(sha512.New384), crypto.SHA384
		}
		return prf12(sha256.New), crypto.SHA256
	default:
		panic("unknown version")
	}
}

func prfForVersion(version uint16, suite *cipherSuite) prfFunc {
	prf, _ := prfAndHashForVersion(version, suite)
	return prf
}

// masterFromPreMasterSecret generates the master secret from the pre-master
// secret. See RFC 5246, Section 8.1.
func masterFromPreMasterSecret(version uint16, suite *cipherSuite, preMasterSecret, clientRandom, serverRandom []byte) []byte {
	seed := make([]byte, 0, len(clientRandom)+len(serverRandom))
	seed = append(seed, clientRandom...)
	seed = append(seed, serverRandom...)

	return prfForVersion(version, suite)(preMasterSecret, masterSecretLabel, seed, masterSecretLength)
}

// extMasterFromPreMasterSecret generates the extended master secret from the
// pre-master secret. See RFC 7627.
func extMasterFromPreMasterSecret(version uint16, suite *cipherSuite, preMasterSecret, transcript []byte) []byte {
	prf, hash := prfAndHashForVersion(version, suite)
	if version == VersionTLS12 {
		// Use the FIPS 140-3 module only for TLS 1.2 with EMS, which is the
		// only TLS 1.0-1.2 approved mode per IG D.Q.
		return tls12.MasterSecret(hash.New, preMasterSecret, transcript)
	}
	return prf(preMasterSecret, extendedMasterSecretLabel, transcript, masterSecretLength)
}

// keysFromMasterSecret generates the connection keys from the master
// secret, given the lengths of the MAC key, cipher key and IV, as defined in
// RFC 2246, Section 6.3.
func keysFromMasterSecret(version uint16, suite *cipherSuite, masterSecret, clientRandom, serverRandom []byte, macLen, keyLen, ivLen int) (clientMAC, serverMAC, clientKey, serverKey, clientIV, serverIV []byte) {
	seed := make([]byte, 0, len(serverRandom)+len(clientRandom))
	seed = append(seed, serverRandom...)
	seed = append(seed, clientRandom...)

	n := 2*macLen + 2*keyLen + 2*ivLen
	keyMaterial := prfForVersion(version, suite)(masterSecret, keyExpansionLabel, seed, n)
	clientMAC = keyMaterial[:macLen]
	keyMaterial = keyMaterial[macLen:]
	serverMAC = keyMaterial[:macLen]
	keyMaterial = keyMaterial[macLen:]
	clientKey = keyMaterial[:keyLen]
	keyMaterial = keyMaterial[keyLen:]
	serverKey = keyMaterial[:keyLen]
	keyMaterial = keyMaterial[keyLen:]
	clientIV = keyMaterial[:ivLen]
	keyMaterial = keyMaterial[ivLen:]
	serverIV = keyMaterial[:ivLen]
	return
}

func newFinishedHash(version uint16, cipherSuite *cipherSuite) finishedHash {
	var buffer []byte
	if version >= VersionTLS12 {
		buffer = []byte{}
	}

	prf, hash := prfAndHashForVersion(version, cipherSuite)
	if hash != 0 {
		return finishedHash{hash.New(), hash.New(), nil, nil, buffer, version, prf}
	}

	return finishedHash{sha1.New(), sha1.New(), md5.New(), md5.New(), buffer, version, prf}
}

// A finishedHash calculates the hash of a set of handshake messages suitable
// for including in a Finished message.
type finishedHash struct {
	client hash.Hash
	server hash.Hash

	// Prior to TLS 1.2, an additional MD5 hash is required.
	clientMD5 hash.Hash
	serverMD5 hash.Hash

	// In TLS 1.2, a full buffer is sadly required.
	buffer []byte

	version uint16
	prf     prfFunc
}

func (h *finishedHash) Write(msg []byte) (n int, err error) {
	h.client.Write(msg)
	h.server.Write(msg)

	if h.version < VersionTLS12 {
		h.clientMD5.Write(msg)
		h.serverMD5.Write(msg)
	}

	if h.buffer != nil {
		h.buffer = append(h.buffer, msg...)
	}

	return len(msg), nil
}

func (h finishedHash) Sum() []byte {
	if h.version >= VersionTLS12 {
		return h.client.Sum(nil)
	}

	out := make([]byte, 0, md5.Size+sha1.Size)
	out = h.clientMD5.Sum(out)
	return h.client.Sum(out)
}

// clientSum returns the contents of the verify_data member of a client's
// Finished message.
func (h finishedHash) clientSum(masterSecret []byte) []byte {
	return h.prf(masterSecret, clientFinishedLabel, h.Sum(), finishedVerifyLength)
}

// serverSum returns the contents of the verify_data member of a server's
// Finished message.
func (h finishedHash) serverSum(masterSecret []byte) []byte {
	return h.prf(masterSecret, serverFinishedLabel, h.Sum(), finishedVerifyLength)
}

// hashForClientCertificate returns the handshake messages so far, pre-hashed if
// necessary, suitable for signing by a TLS client certificate.
func (h finishedHash) hashForClientCertificate(sigType uint8, hashAlg crypto.Hash) []byte {
	if (h.version >= VersionTLS12 || sigType == signatureEd25519) && h.buffer == nil {
		panic("tls: handshake hash for a client certificate requested after discarding the handshake buffer")
	}

	if sigType == signatureEd25519 {
		return h.buffer
	}

	if h.version >= VersionTLS12 {
		hash := hashAlg.New()
		hash.Write(h.buffer)
		return hash.Sum(nil)
	}

	if sigType == signatureECDSA {
		return h.server.Sum(nil)
	}

	return h.Sum()
}

// discardHandshakeBuffer is called when there is no more need to
// buffer the entirety of the handshake messages.
func (h *finishedHash) discardHandshakeBuffer() {
	h.buffer = nil
}

// noEKMBecauseRenegotiation is used as a value of
// ConnectionState.ekm when renegotiation is enabled and thus
// we wish to fail all key-material export requests.
func noEKMBecauseRenegotiation(label string, context []byte, length int) ([]byte, error) {
	return nil, errors.New("crypto/tls: ExportKeyingMaterial is unavailable when renegotiation is enabled")
}

// noEKMBecauseNoEMS is used as a value of ConnectionState.ekm when Extended
// Master Secret is not negotiated and thus we wish to fail all key-material
// export requests.
func noEKMBecauseNoEMS(label string, context []byte, length int) ([]byte, error) {
	return nil, errors.New("crypto/tls: ExportKeyingMaterial is unavailable when neither TLS 1.3 nor Extended Master Secret are negotiated; override with GODEBUG=tlsunsafeekm=1")
}

// ekmFromMasterSecret generates exported keying material as defined in RFC 5705.
func ekmFromMasterSecret(version uint16, suite *cipherSuite, masterSecret, clientRandom, serverRandom []byte) func(string, []byte, int) ([]byte, error) {
	return func(label string, context []byte, length int) ([]byte, error) {
		switch label {
		case "client finished", "server finished", "master secret", "key expansion":
			// These values are reserved and may not be used.
			return nil, fmt.Errorf("crypto/tls: reserved ExportKeyingMaterial label: %s", label)
		}

		seedLen := len(serverRandom) + len(clientRandom)
		if context != nil {
			seedLen += 2 + len(context)
		}
		seed := make([]byte, 0, seedLen)

		seed = append(seed, clientRandom...)
		seed = append(seed, serverRandom...)

		if context != nil {
			if len(context) >= 1<<16 {
				return nil, fmt.Errorf("crypto/tls: ExportKeyingMaterial context too long")
			}
			seed = append(seed, byte(len(context)>>8), byte(len(context)))
			seed = append(seed, context...)
		}

		return prfForVersion(version, suite)(masterSecret, label, seed, length), nil
	}
}
