// Copyright 2009 The Go Authors. All rights reserved.
// Use of this source code is governed by a BSD-style
// license that can be found in the LICENSE file.

package refsrv

import (
	"bytes"
	"container/list"
	"context"
	"crypto"
	"crypto/ecdsa"
	"crypto/ed25519"
	"crypto/elliptic"
	"crypto/rand"
	"crypto/rsa"
	"crypto/sha512"
	"crypto/x509"
	"errors"
	"fmt"
	"io"
	"net"
	"slices"
	"strings"
	"sync"
	"time"
	_ "unsafe" // for linkname

	"github.com/refraction-networking/utls/internal/fips140tls"
)

const (
	VersionTLS10 = 0x0301
	VersionTLS11 = 0x0302
	VersionTLS12 = 0x0303
	VersionTLS13 = 0x0304

	// Deprecated: SSLv3 is cryptographically broken, and is no longer
	// supported by this package. See golang.org/issue/32716.
	VersionSSL30 = 0x0300
)

// VersionName returns the name for the provided TLS version number
// (e.g. "TLS 1.3"), or a fallback representation of the value if the
// version is not implemented by this package.
func VersionName(version uint16) string {
	switch version {
	case VersionSSL30:
		return "SSLv3"
	case VersionTLS10:
		return "TLS 1.0"
	case VersionTLS11:
		return "TLS 1.1"
	case VersionTLS12:
		return "TLS 1.2"
	case VersionTLS13:
		return "TLS 1.3"
	default:
		return fmt.Sprintf("0x%04X", version)
	}
}

const (
	maxPlaintext               = 16384        // maximum plaintext payload length
	maxCiphertext              = 16384 + 2048 // maximum ciphertext payload length
	maxCiphertextTLS13         = 16384 + 256  // maximum ciphertext length in TLS 1.3
	recordHeaderLen            = 5            // record header length
	maxHandshake               = 65536        // maximum handshake we support (protocol max is 16 MB)
	maxHandshakeCertificateMsg = 262144       // maximum certificate message size (256 KiB)
	maxUselessRecords          = 32           // maximum number of consecutive non-advancing records
)

// TLS record types.
type recordType uint8

const (
	recordTypeChangeCipherSpec recordType = 20
	recordTypeAlert            recordType = 21
	recordTypeHandshake        recordType = 22
	recordTypeApplicationData  recordType = 23
)

// TLS handshake message types.
const (
	typeHelloRequest        uint8 = 0
	typeClientHello         uint8 = 1
	typeServerHello         uint8 = 2
	typeNewSessionTicket    uint8 = 4
	typeEndOfEarlyData      uint8 = 5
	typeEncryptedExtensions uint8 = 8
	typeCertificate         uint8 = 11
	typeServerKeyExchange   uint8 = 12
	typeCertificateRequest  uint8 = 13
	typeServerHelloDone     uint8 = 14
	typeCertificateVerify   uint8 = 15
	typeClientKeyExchange   uint8 = 16
	typeFinished            uint8 = 20
	typeCertificateStatus   uint8 = 22
	typeKeyUpdate           uint8 = 24
	typeMessageHash         uint8 = 254 // synthetic message
)

// TLS compression types.
const (
	compressionNone uint8 = 0
)

// TLS extension numbers
const (
	extensionServerName              uint16 = 0
	extensionStatusRequest           uint16 = 5
	extensionSupportedCurves         uint16 = 10 // supported_groups in TLS 1.3, see RFC 8446, Section 4.2.7
	extensionSupportedPoints         uint16 = 11
	extensionSignatureAlgorithms     uint16 = 13
	extensionALPN                    uint16 = 16
	extensionStatusRequestV2         uint16 = 17
	extensionSCT                     uint16 = 18
	extensionExtendedMasterSecret    uint16 = 23
	extensionDelegatedCredentials    uint16 = 34
	extensionSessionTicket           uint16 = 35
	extensionPreSharedKey            uint16 = 41
	extensionEarlyData               uint16 = 42
	extensionSupportedVersions       uint16 = 43
	extensionCookie                  uint16 = 44
	extensionPSKModes                uint16 = 45
	extensionCertificateAuthorities  uint16 = 47
	extensionSignatureAlgorithmsCert uint16 = 50
	extensionKeyShare                uint16 = 51
	extensionQUICTransportParameters uint16 = 57
	extensionRenegotiationInfo       uint16 = 0xff01
	extensionECHOuterExtensions      uint16 = 0xfd00
	extensionEncryptedClientHello    uint16 = 0xfe0d
)

// TLS signaling cipher suite values
const (
	scsvRenegotiation uint16 = 0x00ff
)

// CurveID is the type of a TLS identifier for a key exchange mechanism. See
// https://www.iana.org/assignments/tls-parameters/tls-parameters.xml#tls-parameters-8.
//
// In TLS 1.2, this registry used to support only elliptic curves. In TLS 1.3,
// it was extended to other groups and renamed NamedGroup. See RFC 8446, Section
// 4.2.7. It was then also extended to other mechanisms, such as hybrid
// post-quantum KEMs.
type CurveID uint16

const (
	CurveP256      CurveID = 23
	CurveP384      CurveID = 24
	CurveP521      CurveID = 25
	X25519         CurveID = 29
	X25519MLKEM768 CurveID = 4588
)

func isTLS13OnlyKeyExchange(curve CurveID) bool {
	return curve == X25519MLKEM768
}

func isPQKeyExchange(curve CurveID) bool {
	return curve == X25519MLKEM768
}

// TLS 1.3 Key Share. See RFC 8446, Section 4.2.8.
type keyShare struct {
	group CurveID
	data  []byte
}

// TLS 1.3 PSK Key Exchange Modes. See RFC 8446, Section 4.2.9.
const (
	pskModePlain uint8 = 0
	pskModeDHE   uint8 = 1
)

// TLS 1.3 PSK Identity. Can be a Session Ticket, or a reference to a saved
// session. See RFC 8446, Section 4.2.11.
type pskIdentity struct {
	label               []byte
	obfuscatedTicketAge uint32
}

// TLS Elliptic Curve Point Formats
// https://www.iana.org/assignments/tls-parameters/tls-parameters.xml#tls-parameters-9
const (
	pointFormatUncompressed uint8 = 0
)

// TLS CertificateStatusType (RFC 3546)
const (
	statusTypeOCSP   uint8 = 1
	statusV2TypeOCSP uint8 = 2
)

// Certificate types (for certificateRequestMsg)
const (
	certTypeRSASign   = 1
	certTypeECDSASign = 64 // ECDSA or EdDSA keys, see RFC 8422, Section 3.
)

// Signature algorithms (for internal signaling use). Starting at 225 to avoid overlap with
// TLS 1.2 codepoints (RFC 5246, Appendix A.4.1), with which these have nothing to do.
const (
	signaturePKCS1v15 uint8 = iota + 225
	signatureRSAPSS
	signatureECDSA
	signatureEd25519
	signatureEdDilithium3
)

// directSigning is a standard Hash value that signals that no pre-hashing
// should be performed, and that the input should be signed directly. It is the
// hash function associated with the Ed25519 signature scheme.
var directSigning crypto.Hash = 0

// helloRetryRequestRandom is set as the Random value of a ServerHello
// to signal that the message is actually a HelloRetryRequest.
var helloRetryRequestRandom = []byte{ // See RFC 8446, Section 4.1.3.
	0xCF, 0x21, 0xAD, 0x74, 0xE5, 0x9A, 0x61, 0x11,
	0xBE, 0x1D, 0x8C, 0x02, 0x1E, 0x65, 0xB8, 0x91,
	0xC2, 0xA2, 0x11, 0x16, 0x7A, 0xBB, 0x8C, 0x5E,
	0x07, 0x9E, 0x09, 0xE2, 0xC8, 0xA8, 0x33, 0x9C,
}

const (
	// downgradeCanaryTLS12 or downgradeCanaryTLS11 is embedded in the server
	// random as a downgrade protection if the server would be capable of
	// negotiating a higher version. See RFC 8446, Section 4.1.3.
	downgradeCanaryTLS12 = "DOWNGRD\x01"
	downgradeCanaryTLS11 = "DOWNGRD\x00"
)

// testingOnlyForceDowngradeCanary is set in tests to force the server side to
// include downgrade canaries even if it's using its highers supported version.
var testingOnlyForceDowngradeCanary bool

// ConnectionState records basic TLS details about the connection.
type ConnectionState struct {
	// Version is the TLS version used by the connection (e.g. VersionTLS12).
	Version uint16

	// HandshakeComplete is true if the handshake has concluded.
	HandshakeComplete bool

	// DidResume is true if this connection was successfully resumed from a
	// previous session with a session ticket or similar mechanism.
	DidResume bool

	// CipherSuite is the cipher suite negotiated for the connection (e.g.
	// TLS_ECDHE_ECDSA_WITH_AES_128_GCM_SHA256, TLS_AES_128_GCM_SHA256).
	CipherSuite uint16

	// NegotiatedProtocol is the application protocol negotiated with ALPN.
	NegotiatedProtocol string

	// NegotiatedProtocolIsMutual used to indicate a mutual NPN negotiation.
	//
	// Deprecated: this value is always true.
	NegotiatedProtocolIsMutual bool

	// PeerApplicationSettings is the Application-Layer Protocol Settings (ALPS)
	// provided by peer.
	PeerApplicationSettings []byte // [uTLS]

	// ServerName is the value of the Server Name Indication extension sent by
	// the client. It's available both on the server and on the client side.
	ServerName string

	// PeerCertificates are the parsed certificates sent by the peer, in the
	// order in which they were sent. The first element is the leaf certificate
	// that the connection is verified against.
	//
	// On the client side, it can't be empty. On the server side, it can be
	// empty if Config.ClientAuth is not RequireAnyClientCert or
	// RequireAndVerifyClientCert.
	//
	// PeerCertificates and its contents should not be modified.
	PeerCertificates []*x509.Certificate

	// VerifiedChains is a list of one or more chains where the first element is
	// PeerCertificates[0] and the last element is from Config.RootCAs (on the
	// client side) or Config.ClientCAs (on the server side).
	//
	// On the client side, it's set if Config.InsecureSkipVerify is false. On
	// the server side, it's set if Config.ClientAuth is VerifyClientCertIfGiven
	// (and the peer provided a certificate) or RequireAndVerifyClientCert.
	//
	// VerifiedChains and its contents should not be modified.
	VerifiedChains [][]*x509.Certificate

	// SignedCertificateTimestamps is a list of SCTs provided by the peer
	// through the TLS handshake for the leaf certificate, if any.
	SignedCertificateTimestamps [][]byte

	// OCSPResponse is a stapled Online Certificate Status Protocol (OCSP)
	// response provided by the peer for the leaf certificate, if any.
	OCSPResponse []byte

	// TLSUnique contains the "tls-unique" channel binding value (see RFC 5929,
	// Section 3). This value will be nil for TLS 1.3 connections and for
	// resumed connections that don't support Extended Master Secret (RFC 7627).
	TLSUnique []byte

	// ECHAccepted indicates if Encrypted Client Hello was offered by the client
	// and accepted by the server. Currently, ECH is supported only on the
	// client side.
	ECHAccepted bool

	// ekm is a closure exposed via ExportKeyingMaterial.
	ekm func(label string, context []byte, length int) ([]byte, error)

	// testingOnlyDidHRR is true if a HelloRetryRequest was sent/received.
	testingOnlyDidHRR bool

	// testingOnlyCurveID is the selected CurveID, or zero if an RSA exchanges
	// is performed.
	testingOnlyCurveID CurveID
}

// ExportKeyingMaterial returns length bytes of exported key material in a new
// slice as defined in RFC 5705. If context is nil, it is not used as part of
// the seed. If the connection was set to allow renegotiation via
// Config.Renegotiation, or if the connections supports neither TLS 1.3 nor
// Extended Master Secret, this function will return an error.
//
// Exporting key material without Extended Master Secret or TLS 1.3 was disabled
// in Go 1.22 due to security issues (see the Security Considerations sections
// of RFC 5705 and RFC 7627), but can be re-enabled with the GODEBUG setting
// tlsunsafeekm=1.
func (cs *ConnectionState) ExportKeyingMaterial(label string, context []byte, length int) ([]byte, error) {
	return cs.ekm(label, context, length)
}

// ClientAuthType declares the policy the server will follow for
// TLS Client Authentication.
type ClientAuthType int

const (
	// NoClientCert indicates that no client certificate should be requested
	// during the handshake, and if any certificates are sent they will not
	// be verified.
	NoClientCert ClientAuthType = iota
	// RequestClientCert indicates that a client certificate should be requested
	// during the handshake, but does not require that the client send any
	// certificates.
	RequestClientCert
	// RequireAnyClientCert indicates that a client certificate should be requested
	// during the handshake, and that at least one certificate is required to be
	// sent by the client, but that certificate is not required to be valid.
	RequireAnyClientCert
	// VerifyClientCertIfGiven indicates that a client certificate should be requested
	// during the handshake, but does not require that the client sends a
	// certificate. If the client does send a certificate it is required to be
	// valid.
	VerifyClientCertIfGiven
	// RequireAndVerifyClientCert indicates that a client certificate should be requested
	// during the handshake, and that at least one valid certificate is required
	// to be sent by the client.
	RequireAndVerifyClientCert
)

// requiresClientCert reports whether the ClientAuthType requires a client
// certificate to be provided.
func requiresClientCert(c ClientAuthType) bool {
	switch c {
	case RequireAnyClientCert, RequireAndVerifyClientCert:
		return true
	default:
		return false
	}
}

// ClientSessionCache is a cache of ClientSessionState objects that can be used
// by a client to resume a TLS session with a given server. ClientSessionCache
// implementations should expect to be called concurrently from different
// goroutines. Up to TLS 1.2, only ticket-based resumption is supported, not
// SessionID-based resumption. In TLS 1.3 they were merged into PSK modes, which
// are supported via this interface.
type ClientSessionCache interface {
	// Get searches for a ClientSessionState associated with the given key.
	// On return, ok is true if one was found.
	Get(sessionKey string) (session *ClientSessionState, ok bool)

	// Put adds the ClientSessionState to the cache with the given key. It might
	// get called multiple times in a connection if a TLS 1.3 server provides
	// more than one session ticket. If called with a nil *ClientSessionState,
	// it should remove the cache entry.
	Put(sessionKey string, cs *ClientSessionState)
}

//go:generate stringer -linecomment -type=SignatureScheme,CurveID,ClientAuthType -output=common_string.go

// SignatureScheme identifies a signature algorithm supported by TLS. See
// RFC 8446, Section 4.2.3.
type SignatureScheme uint16

const (
	// RSASSA-PKCS1-v1_5 algorithms.
	PKCS1WithSHA256 SignatureScheme = 0x0401
	PKCS1WithSHA384 SignatureScheme = 0x0501
	PKCS1WithSHA512 SignatureScheme = 0x0601

	// RSASSA-PSS algorithms with public key OID rsaEncryption.
	PSSWithSHA256 SignatureScheme = 0x0804
	PSSWithSHA384 SignatureScheme = 0x0805
	PSSWithSHA512 SignatureScheme = 0x0806

	// ECDSA algorithms. Only constrained to a specific curve in TLS 1.3.
	ECDSAWithP256AndSHA256 SignatureScheme = 0x0403
	ECDSAWithP384AndSHA384 SignatureScheme = 0x0503
	ECDSAWithP521AndSHA512 SignatureScheme = 0x0603

	// EdDSA algorithms.
	Ed25519 SignatureScheme = 0x0807

	// Legacy signature and hash algorithms for TLS 1.2.
	PKCS1WithSHA1 SignatureScheme = 0x0201
	ECDSAWithSHA1 SignatureScheme = 0x0203
)

// ClientHelloInfo contains information from a ClientHello message in order to
// guide application logic in the GetCertificate and GetConfigForClient callbacks.
type ClientHelloInfo struct {
	// CipherSuites lists the CipherSuites supported by the client (e.g.
	// TLS_AES_128_GCM_SHA256, TLS_ECDHE_ECDSA_WITH_AES_128_GCM_SHA256).
	CipherSuites []uint16

	// ServerName indicates the name of the server requested by the client
	// in order to support virtual hosting. ServerName is only set if the
	// client is using SNI (see RFC 4366, Section 3.1).
	ServerName string

	// SupportedCurves lists the key exchange mechanisms supported by the
	// client. It was renamed to "supported groups" in TLS 1.3, see RFC 8446,
	// Section 4.2.7 and [CurveID].
	//
	// SupportedCurves may be nil in TLS 1.2 and lower if the Supported Elliptic
	// Curves Extension is not being used (see RFC 4492, Section 5.1.1).
	SupportedCurves []CurveID

	// SupportedPoints lists the point formats supported by the client.
	// SupportedPoints is set only if the Supported Point Formats Extension
	// is being used (see RFC 4492, Section 5.1.2).
	SupportedPoints []uint8

	// SignatureSchemes lists the signature and hash schemes that the client
	// is willing to verify. SignatureSchemes is set only if the Signature
	// Algorithms Extension is being used (see RFC 5246, Section 7.4.1.4.1).
	SignatureSchemes []SignatureScheme

	// SupportedProtos lists the application protocols supported by the client.
	// SupportedProtos is set only if the Application-Layer Protocol
	// Negotiation Extension is being used (see RFC 7301, Section 3.1).
	//
	// Servers can select a protocol by setting Config.NextProtos in a
	// GetConfigForClient return value.
	SupportedProtos []string

	// SupportedVersions lists the TLS versions supported by the client.
	// For TLS versions less than 1.3, this is extrapolated from the max
	// version advertised by the client, so values other than the greatest
	// might be rejected if used.
	SupportedVersions []uint16

	// Extensions lists the IDs of the extensions presented by the client
	// in the ClientHello.
	Extensions []uint16

	// Conn is the underlying net.Conn for the connection. Do not read
	// from, or write to, this connection; that will cause the TLS
	// connection to fail.
	Conn net.Conn

	// config is embedded by the GetCertificate or GetConfigForClient caller,
	// for use with SupportsCertificate.
	config *Config

	// ctx is the context of the handshake that is in progress.
	ctx context.Context
}

// Context returns the context of the handshake that is in progress.
// This context is a child of the context passed to HandshakeContext,
// if any, and is canceled when the handshake concludes.
func (c *ClientHelloInfo) Context() context.Context {
	return c.ctx
}

// CertificateRequestInfo contains information from a server's
// CertificateRequest message, which is used to demand a certificate and proof
// of control from a client.
type CertificateRequestInfo struct {
	// AcceptableCAs contains zero or more, DER-encoded, X.501
	// Distinguished Names. These are the names of root or intermediate CAs
	// that the server wishes the returned certificate to be signed by. An
	// empty slice indicates that the server has no preference.
	AcceptableCAs [][]byte

	// SignatureSchemes lists the signature schemes that the server is
	// willing to verify.
	SignatureSchemes []SignatureScheme

	// Version is the TLS version that was negotiated for this connection.
	Version uint16

	// ctx is the context of the handshake that is in progress.
	ctx context.Context
}

// Context returns the context of the handshake that is in progress.
// This context is a child of the context passed to HandshakeContext,
// if any, and is canceled when the handshake concludes.
func (c *CertificateRequestInfo) Context() context.Context {
	return c.ctx
}

// RenegotiationSupport enumerates the different levels of support for TLS
// renegotiation. TLS renegotiation is the act of performing subsequent
// handshakes on a connection after the first. This significantly complicates
// the state machine and has been the source of numerous, subtle security
// issues. Initiating a renegotiation is not supported, but support for
// accepting renegotiation requests may be enabled.
//
// Even when enabled, the server may not change its identity between handshakes
// (i.e. the leaf certificate must be the same). Additionally, concurrent
// handshake and application data flow is not permitted so renegotiation can
// only be used with protocols that synchronise with the renegotiation, such as
// HTTPS.
//
// Renegotiation is not defined in TLS 1.3.
type RenegotiationSupport int

const (
	// RenegotiateNever disables renegotiation.
	RenegotiateNever RenegotiationSupport = iota

	// RenegotiateOnceAsClient allows a remote server to request
	// renegotiation once per connection.
	RenegotiateOnceAsClient

	// RenegotiateFreelyAsClient allows a remote server to repeatedly
	// request renegotiation.
	RenegotiateFreelyAsClient
)

// A Config structure is used to configure a TLS client or server.
// After one has been passed to a TLS function it must not be
// modified. A Config may be reused; the tls package will also not
// modify it.
type Config struct {
	// Rand provides the source of entropy for nonces and RSA blinding.
	// If Rand is nil, TLS uses the cryptographic random reader in package
	// crypto/rand.
	// The Reader must be safe for use by multiple goroutines.
	Rand io.Reader

	// Time returns the current time as the number of seconds since the epoch.
	// If Time is nil, TLS uses time.Now.
	Time func() time.Time

	// Certificates contains one or more certificate chains to present to the
	// other side of the connection. The first certificate compatible with the
	// peer's requirements is selected automatically.
	//
	// Server configurations must set one of Certificates, GetCertificate or
	// GetConfigForClient. Clients doing client-authentication may set either
	// Certificates or GetClientCertificate.
	//
	// Note: if there are multiple Certificates, and they don't have the
	// optional field Leaf set, certificate selection will incur a significant
	// per-handshake performance cost.
	Certificates []Certificate

	// NameToCertificate maps from a certificate name to an element of
	// Certificates. Note that a certificate name can be of the form
	// '*.example.com' and so doesn't have to be a domain name as such.
	//
	// Deprecated: NameToCertificate only allows associating a single
	// certificate with a given name. Leave this field nil to let the library
	// select the first compatible chain from Certificates.
	NameToCertificate map[string]*Certificate

	// GetCertificate returns a Certificate based on the given
	// ClientHelloInfo. It will only be called if the client supplies SNI
	// information or if Certificates is empty.
	//
	// If GetCertificate is nil or returns nil, then the certificate is
	// retrieved from NameToCertificate. If NameToCertificate is nil, the
	// best element of Certificates will be used.
	//
	// Once a Certificate is returned it should not be modified.
	GetCertificate func(*ClientHelloInfo) (*Certificate, error)

	// GetClientCertificate, if not nil, is called when a server requests a
	// certificate from a client. If set, the contents of Certificates will
	// be ignored.
	//
	// If GetClientCertificate returns an error, the handshake will be
	// aborted and that error will be returned. Otherwise
	// GetClientCertificate must return a non-nil Certificate. If
	// Certificate.Certificate is empty then no certificate will be sent to
	// the server. If this is unacceptable to the server then it may abort
	// the handshake.
	//
	// GetClientCertificate may be called multiple times for the same
	// connection if renegotiation occurs or if TLS 1.3 is in use.
	//
	// Once a Certificate is returned it should not be modified.
	GetClientCertificate func(*CertificateRequestInfo) (*Certificate, error)

	// GetConfigForClient, if not nil, is called after a ClientHello is
	// received from a client. It may return a non-nil Config in order to
	// change the Config that will be used to handle this connection. If
	// the returned Config is nil, the original Config will be used. The
	// Config returned by this callback may not be subsequently modified.
	//
	// If GetConfigForClient is nil, the Config passed to Server() will be
	// used for all connections.
	//
	// If SessionTicketKey was explicitly set on the returned Config, or if
	// SetSessionTicketKeys was called on the returned Config, those keys will
	// be used. Otherwise, the original Config keys will be used (and possibly
	// rotated if they are automatically managed).
	GetConfigForClient func(*ClientHelloInfo) (*Config, error)

	// VerifyPeerCertificate, if not nil, is called after normal
	// certificate verification by either a TLS client or server. It
	// receives the raw ASN.1 certificates provided by the peer and also
	// any verified chains that normal processing found. If it returns a
	// non-nil error, the handshake is aborted and that error results.
	//
	// If normal verification fails then the handshake will abort before
	// considering this callback. If normal verification is disabled (on the
	// client when InsecureSkipVerify is set, or on a server when ClientAuth is
	// RequestClientCert or RequireAnyClientCert), then this callback will be
	// considered but the verifiedChains argument will always be nil. When
	// ClientAuth is NoClientCert, this callback is not called on the server.
	// rawCerts may be empty on the server if ClientAuth is RequestClientCert or
	// VerifyClientCertIfGiven.
	//
	// This callback is not invoked on resumed connections, as certificates are
	// not re-verified on resumption.
	//
	// verifiedChains and its contents should not be modified.
	VerifyPeerCertificate func(rawCerts [][]byte, verifiedChains [][]*x509.Certificate) error

	// VerifyConnection, if not nil, is called after normal certificate
	// verification and after VerifyPeerCertificate by either a TLS client
	// or server. If it returns a non-nil error, the handshake is aborted
	// and that error results.
	//
	// If normal verification fails then the handshake will abort before
	// considering this callback. This callback will run for all connections,
	// including resumptions, regardless of InsecureSkipVerify or ClientAuth
	// settings.
	VerifyConnection func(ConnectionState) error

	// RootCAs defines the set of root certificate authorities
	// that clients use when verifying server certificates.
	// If RootCAs is nil, TLS uses the host's root CA set.
	RootCAs *x509.CertPool

	// NextProtos is a list of supported application level protocols, in
	// order of preference. If both peers support ALPN, the selected
	// protocol will be one from this list, and the connection will fail
	// if there is no mutually supported protocol. If NextProtos is empty
	// or the peer doesn't support ALPN, the connection will succeed and
	// ConnectionState.NegotiatedProtocol will be empty.
	NextProtos []string

	// ApplicationSettings is a set of application settings (ALPS) to use
	// with each application protocol (ALPN).
	ApplicationSettings map[string][]byte // [uTLS]

	// ServerName is used to verify the hostname on the returned
	// certificates unless InsecureSkipVerify is given. It is also included
	// in the client's handshake to support virtual hosting unless it is
	// an IP address.
	ServerName string

	// ClientAuth determines the server's policy for
	// TLS Client Authentication. The default is NoClientCert.
	ClientAuth ClientAuthType

	// ClientCAs defines the set of root certificate authorities
	// that servers use if required to verify a client certificate
	// by the policy in ClientAuth.
	ClientCAs *x509.CertPool

	// InsecureSkipVerify controls whether a client verifies the server's
	// certificate chain and host name. If InsecureSkipVerify is true, crypto/tls
	// accepts any certificate presented by the server and any host name in that
	// certificate. In this mode, TLS is susceptible to machine-in-the-middle
	// attacks unless custom verification is used. This should be used only for
	// testing or in combination with VerifyConnection or VerifyPeerCertificate.
	InsecureSkipVerify bool

	// InsecureSkipTimeVerify controls whether a client verifies the server's
	// certificate chain against time. If InsecureSkipTimeVerify is true,
	// crypto/tls accepts the certificate even when it is expired.
	//
	// This field is ignored when InsecureSkipVerify is true.
	InsecureSkipTimeVerify bool // [uTLS]

	// OmitEmptyPsk determines whether utls will automatically conceal
	// the psk extension when it is empty. When the psk extension is empty, the
	// browser omits it from the client hello. Utls can mimic this behavior,
	// but it deviates from the provided client hello specification, rendering
	// it unsuitable as the default behavior. Users have the option to enable
	// this behavior at their own discretion.
	OmitEmptyPsk bool // [uTLS]

	// InsecureServerNameToVerify is used to verify the hostname on the returned
	// certificates. It is intended to use with spoofed ServerName.
	// If InsecureServerNameToVerify is "*", crypto/tls will do normal
	// certificate validation but ignore certifacate's DNSName.
	//
	// This field is ignored when InsecureSkipVerify is true.
	InsecureServerNameToVerify string // [uTLS]

	// Byz, if non-nil, makes a server built from this Config deviate from the protocol
	// (reference/byzantine server of the verification harness).
	Byz *Byz

	// PreferSkipResumptionOnNilExtension controls the behavior when session resumption is enabled but the corresponding session extensions are nil.
	//
	// To successfully use session resumption, ensure that the following requirements are met:
	//  - SessionTicketsDisabled is set to false
	//  - ClientSessionCache is non-nil
	//  - For TLS 1.2, SessionTicketExtension is non-nil
	//  - For TLS 1.3, PreSharedKeyExtension is non-nil
	//
	// There may be cases where users enable session resumption (SessionTicketsDisabled: false && ClientSessionCache: non-nil), but they do not provide SessionTicketExtension or PreSharedKeyExtension in the ClientHelloSpec. This could be intentional or accidental.
	//
	// By default, utls throws an exception in such scenarios. Set this to true to skip the resumption and suppress the exception.
	PreferSkipResumptionOnNilExtension bool // [uTLS]

	// CipherSuites is a list of enabled TLS 1.0–1.2 cipher suites. The order of
	// the list is ignored. Note that TLS 1.3 ciphersuites are not configurable.
	//
	// If CipherSuites is nil, a safe default list is used. The default cipher
	// suites might change over time. In Go 1.22 RSA key exchange based cipher
	// suites were removed from the default list, but can be re-added with the
	// GODEBUG setting tlsrsakex=1. In Go 1.23 3DES cipher suites were removed
	// from the default list, but can be re-added with the GODEBUG setting
	// tls3des=1.
	CipherSuites []uint16

	// PreferServerCipherSuites is a legacy field and has no effect.
	//
	// It used to control whether the server would follow the client's or the
	// server's preference. Servers now select the best mutually supported
	// cipher suite based on logic that takes into account inferred client
	// hardware, server hardware, and security.
	//
	// Deprecated: PreferServerCipherSuites is ignored.
	PreferServerCipherSuites bool

	// SessionTicketsDisabled may be set to true to disable session ticket and
	// PSK (resumption) support. Note that on clients, session ticket support is
	// also disabled if ClientSessionCache is nil.
	SessionTicketsDisabled bool

	// SessionTicketKey is used by TLS servers to provide session resumption.
	// See RFC 5077 and the PSK mode of RFC 8446. If zero, it will be filled
	// with random data before the first server handshake.
	//
	// Deprecated: if this field is left at zero, session ticket keys will be
	// automatically rotated every day and dropped after seven days. For
	// customizing the rotation schedule or synchronizing servers that are
	// terminating connections for the same host, use SetSessionTicketKeys.
	SessionTicketKey [32]byte

	// ClientSessionCache is a cache of ClientSessionState entries for TLS
	// session resumption. It is only used by clients.
	ClientSessionCache ClientSessionCache

	// UnwrapSession is called on the server to turn a ticket/identity
	// previously produced by [WrapSession] into a usable session.
	//
	// UnwrapSession will usually either decrypt a session state in the ticket
	// (for example with [Config.EncryptTicket]), or use the ticket as a handle
	// to recover a previously stored state. It must use [ParseSessionState] to
	// deserialize the session state.
	//
	// If UnwrapSession returns an error, the connection is terminated. If it
	// returns (nil, nil), the session is ignored. crypto/tls may still choose
	// not to resume the returned session.
	UnwrapSession func(identity []byte, cs ConnectionState) (*SessionState, error)

	// WrapSession is called on the server to produce a session ticket/identity.
	//
	// WrapSession must serialize the session state with [SessionState.Bytes].
	// It may then encrypt the serialized state (for example with
	// [Config.DecryptTicket]) and use it as the ticket, or store the state and
	// return a handle for it.
	//
	// If WrapSession returns an error, the connection is terminated.
	//
	// Warning: the return value will be exposed on the wire and to clients in
	// plaintext. The application is in charge of encrypting and authenticating
	// it (and rotating keys) or returning high-entropy identifiers. Failing to
	// do so correctly can compromise current, previous, and future connections
	// depending on the protocol version.
	WrapSession func(ConnectionState, *SessionState) ([]byte, error)

	// MinVersion contains the minimum TLS version that is acceptable.
	//
	// By default, TLS 1.2 is currently used as the minimum. TLS 1.0 is the
	// minimum supported by this package.
	//
	// The server-side default can be reverted to TLS 1.0 by including the value
	// "tls10server=1" in the GODEBUG environment variable.
	MinVersion uint16

	// MaxVersion contains the maximum TLS version that is acceptable.
	//
	// By default, the maximum version supported by this package is used,
	// which is currently TLS 1.3.
	MaxVersion uint16

	// CurvePreferences contains a set of supported key exchange mechanisms.
	// The name refers to elliptic curves for legacy reasons, see [CurveID].
	// The order of the list is ignored, and key exchange mechanisms are chosen
	// from this list using an internal preference order. If empty, the default
	// will be used.
	//
	// From Go 1.24, the default includes the [X25519MLKEM768] hybrid
	// post-quantum key exchange. To disable it, set CurvePreferences explicitly
	// or use the GODEBUG=tlsmlkem=0 environment variable.
	CurvePreferences []CurveID

	// PQSignatureSchemesEnabled controls whether additional post-quantum
	// signature schemes are supported for peer certificates. For available
	// signature schemes, see tls_cf.go.
	PQSignatureSchemesEnabled bool // [UTLS] ported from cloudflare/go

	// DynamicRecordSizingDisabled disables adaptive sizing of TLS records.
	// When true, the largest possible TLS record size is always used. When
	// false, the size of TLS records may be adjusted in an attempt to
	// improve latency.
	DynamicRecordSizingDisabled bool

	// Renegotiation controls what types of renegotiation are supported.
	// The default, none, is correct for the vast majority of applications.
	Renegotiation RenegotiationSupport

	// KeyLogWriter optionally specifies a destination for TLS master secrets
	// in NSS key log format that can be used to allow external programs
	// such as Wireshark to decrypt TLS connections.
	// See https://developer.mozilla.org/en-US/docs/Mozilla/Projects/NSS/Key_Log_Format.
	// Use of KeyLogWriter compromises security and should only be
	// used for debugging.
	KeyLogWriter io.Writer

	// EncryptedClientHelloConfigList is a serialized ECHConfigList. If
	// provided, clients will attempt to connect to servers using Encrypted
	// Client Hello (ECH) using one of the provided ECHConfigs.
	//
	// Servers do not use this field. In order to configure ECH for servers, see
	// the EncryptedClientHelloKeys field.
	//
	// If the list contains no valid ECH configs, the handshake will fail
	// and return an error.
	//
	// If EncryptedClientHelloConfigList is set, MinVersion, if set, must
	// be VersionTLS13.
	//
	// When EncryptedClientHelloConfigList is set, the handshake will only
	// succeed if ECH is successfully negotiated. If the server rejects ECH,
	// an ECHRejectionError error will be returned, which may contain a new
	// ECHConfigList that the server suggests using.
	//
	// How this field is parsed may change in future Go versions, if the
	// encoding described in the final Encrypted Client Hello RFC changes.
	EncryptedClientHelloConfigList []byte

	// EncryptedClientHelloRejectionVerify, if not nil, is called when ECH is
	// rejected by the remote server, in order to verify the ECH provider
	// certificate in the outer ClientHello. If it returns a non-nil error, the
	// handshake is aborted and that error results.
	//
	// On the server side this field is not used.
	//
	// Unlike VerifyPeerCertificate and VerifyConnection, normal certificate
	// verification will not be performed before calling
	// EncryptedClientHelloRejectionVerify.
	//
	// If EncryptedClientHelloRejectionVerify is nil and ECH is rejected, the
	// roots in RootCAs will be used to verify the ECH providers public
	// certificate. VerifyPeerCertificate and VerifyConnection are not called
	// when ECH is rejected, even if set, and InsecureSkipVerify is ignored.
	EncryptedClientHelloRejectionVerify func(ConnectionState) error

	// EncryptedClientHelloKeys are the ECH keys to use when a client
	// attempts ECH.
	//
	// If EncryptedClientHelloKeys is set, MinVersion, if set, must be
	// VersionTLS13.
	//
	// If a client attempts ECH, but it is rejected by the server, the server
	// will send a list of configs to retry based on the set of
	// EncryptedClientHelloKeys which have the SendAsRetry field set.
	//
	// On the client side, this field is ignored. In order to configure ECH for
	// clients, see the EncryptedClientHelloConfigList field.
	EncryptedClientHelloKeys []EncryptedClientHelloKey

	// mutex protects sessionTicketKeys and autoSessionTicketKeys.
	mutex sync.RWMutex
	// sessionTicketKeys contains zero or more ticket keys. If set, it means
	// the keys were set with SessionTicketKey or SetSessionTicketKeys. The
	// first key is used for new tickets and any subsequent keys can be used to
	// decrypt old tickets. The slice contents are not protected by the mutex
	// and are immutable.
	sessionTicketKeys []ticketKey
	// autoSessionTicketKeys is like sessionTicketKeys but is owned by the
	// auto-rotation logic. See Config.ticketKeys.
	autoSessionTicketKeys []ticketKey
}

// EncryptedClientHelloKey holds a private key that is associated
// with a specific ECH config known to a client.
type EncryptedClientHelloKey struct {
	// Config should be a marshalled ECHConfig associated with PrivateKey. This
	// must match the config provided to clients byte-for-byte. The config
	// should only specify the DHKEM(X25519, HKDF-SHA256) KEM ID (0x0020), the
	// HKDF-SHA256 KDF ID (0x0001), and a subset of the following AEAD IDs:
	// AES-128-GCM (0x0000), AES-256-GCM (0x0001), ChaCha20Poly1305 (0x0002).
	Config []byte
	// PrivateKey should be a marshalled private key. Currently, we expect
	// this to be the output of [ecdh.PrivateKey.Bytes].
	PrivateKey []byte
	// SendAsRetry indicates if Config should be sent as part of the list of
	// retry configs when ECH is requested by the client but rejected by the
	// server.
	SendAsRetry bool
}

const (
	// ticketKeyLifetime is how long a ticket key remains valid and can be used to
	// resume a client connection.
	ticketKeyLifetime = 7 * 24 * time.Hour // 7 days

	// ticketKeyRotation is how often the server should rotate the session ticket key
	// that is used for new tickets.
	ticketKeyRotation = 24 * time.Hour
)

// ticketKey is the internal representation of a session ticket key.
type ticketKey struct {
	aesKey  [16]byte
	hmacKey [16]byte
	// created is the time at which this ticket key was created. See Config.ticketKeys.
	created time.Time
}

// ticketKeyFromBytes converts from the external representation of a session
// ticket key to a ticketKey. Externally, session ticket keys are 32 random
// bytes and this function expands that into sufficient name and key material.
func (c *Config) ticketKeyFromBytes(b [32]byte) (key ticketKey) {
	hashed := sha512.Sum512(b[:])
	// The first 16 bytes of the hash used to be exposed on the wire as a ticket
	// prefix. They MUST NOT be used as a secret. In the future, it would make
	// sense to use a proper KDF here, like HKDF with a fixed salt.
	const legacyTicketKeyNameLen = 16
	copy(key.aesKey[:], hashed[legacyTicketKeyNameLen:])
	copy(key.hmacKey[:], hashed[legacyTicketKeyNameLen+len(key.aesKey):])
	key.created = c.time()
	return key
}

// maxSessionTicketLifetime is the maximum allowed lifetime of a TLS 1.3 session
// ticket, and the lifetime we set for all tickets we send.
const maxSessionTicketLifetime = 7 * 24 * time.Hour

// Clone returns a shallow clone of c or nil if c is nil. It is safe to clone a [Config] that is
// being used concurrently by a TLS client or server.
func (c *Config) Clone() *Config {
	if c == nil {
		return nil
	}
	c.mutex.RLock()
	defer c.mutex.RUnlock()
	return &Config{
		Rand:                                c.Rand,
		Time:                                c.Time,
		Certificates:                        c.Certificates,
		NameToCertificate:                   c.NameToCertificate,
		GetCertificate:                      c.GetCertificate,
		GetClientCertificate:                c.GetClientCertificate,
		GetConfigForClient:                  c.GetConfigForClient,
		VerifyPeerCertificate:               c.VerifyPeerCertificate,
		VerifyConnection:                    c.VerifyConnection,
		RootCAs:                             c.RootCAs,
		NextProtos:                          c.NextProtos,
		ApplicationSettings:                 c.ApplicationSettings,
		ServerName:                          c.ServerName,
		ClientAuth:                          c.ClientAuth,
		ClientCAs:                           c.ClientCAs,
		InsecureSkipVerify:                  c.InsecureSkipVerify,
		InsecureSkipTimeVerify:              c.InsecureSkipTimeVerify,
		InsecureServerNameToVerify:          c.InsecureServerNameToVerify,
		OmitEmptyPsk:                        c.OmitEmptyPsk,
		CipherSuites:                        c.CipherSuites,
		PreferServerCipherSuites:            c.PreferServerCipherSuites,
		SessionTicketsDisabled:              c.SessionTicketsDisabled,
		SessionTicketKey:                    c.SessionTicketKey,
		ClientSessionCache:                  c.ClientSessionCache,
		UnwrapSession:                       c.UnwrapSession,
		WrapSession:                         c.WrapSession,
		MinVersion:                          c.MinVersion,
		MaxVersion:                          c.MaxVersion,
		CurvePreferences:                    c.CurvePreferences,
		PQSignatureSchemesEnabled:           c.PQSignatureSchemesEnabled, // [UTLS]
		DynamicRecordSizingDisabled:         c.DynamicRecordSizingDisabled,
		Renegotiation:                       c.Renegotiation,
		KeyLogWriter:                        c.KeyLogWriter,
		EncryptedClientHelloConfigList:      c.EncryptedClientHelloConfigList,
		EncryptedClientHelloRejectionVerify: c.EncryptedClientHelloRejectionVerify,
		EncryptedClientHelloKeys:            c.EncryptedClientHelloKeys,
		sessionTicketKeys:                   c.sessionTicketKeys,
		autoSessionTicketKeys:               c.autoSessionTicketKeys,

		PreferSkipResumptionOnNilExtension: c.PreferSkipResumptionOnNilExtension, // [UTLS]
		Byz:                                c.Byz,
	}
}

// deprecatedSessionTicketKey is set as the prefix of SessionTicketKey if it was
// randomized for backwards compatibility but is not in use.
var deprecatedSessionTicketKey = []byte("DEPRECATED")

// initLegacySessionTicketKeyRLocked ensures the legacy SessionTicketKey field is
// randomized if empty, and that sessionTicketKeys is populated from it otherwise.
func (c *Config) initLegacySessionTicketKeyRLocked() {
	// Don't write if SessionTicketKey is already defined as our deprecated string,
	// or if it is defined by the user but sessionTicketKeys is already set.
	if c.SessionTicketKey != [32]byte{} &&
		(bytes.HasPrefix(c.SessionTicketKey[:], deprecatedSessionTicketKey) || len(c.sessionTicketKeys) > 0) {
		return
	}

	// We need to write some data, so get an exclusive lock and re-check any conditions.
	c.mutex.RUnlock()
	defer c.mutex.RLock()
	c.mutex.Lock()
	defer c.mutex.Unlock()
	if c.SessionTicketKey == [32]byte{} {
		if _, err := io.ReadFull(c.rand(), c.SessionTicketKey[:]); err != nil {
			panic(fmt.Sprintf("tls: unable to generate random session ticket key: %v", err))
		}
		// Write the deprecated prefix at the beginning so we know we created
		// it. This key with the DEPRECATED prefix isn't used as an actual
		// session ticket key, and is only randomized in case the application
		// reuses it for some reason.
		copy(c.SessionTicketKey[:], deprecatedSessionTicketKey)
	} else if !bytes.HasPrefix(c.SessionTicketKey[:], deprecatedSessionTicketKey) && len(c.sessionTicketKeys) == 0 {
		c.sessionTicketKeys = []ticketKey{c.ticketKeyFromBytes(c.SessionTicketKey)}
	}

}

// ticketKeys returns the ticketKeys for this connection.
// If configForClient has explicitly set keys, those will
// be returned. Otherwise, the keys on c will be used and
// may be rotated if auto-managed.
// During rotation, any expired session ticket keys are deleted from
// c.sessionTicketKeys. If the session ticket key that is currently
// encrypting tickets (ie. the first ticketKey in c.sessionTicketKeys)
// is not fresh, then a new session ticket key will be
// created and prepended to c.sessionTicketKeys.
func (c *Config) ticketKeys(configForClient *Config) []ticketKey {
	// If the ConfigForClient callback returned a Config with explicitly set
	// keys, use those, otherwise just use the original Config.
	if configForClient != nil {
		configForClient.mutex.RLock()
		if configForClient.SessionTicketsDisabled {
			return nil
		}
		configForClient.initLegacySessionTicketKeyRLocked()
		if len(configForClient.sessionTicketKeys) != 0 {
			ret := configForClient.sessionTicketKeys
			configForClient.mutex.RUnlock()
			return ret
		}
		configForClient.mutex.RUnlock()
	}

	c.mutex.RLock()
	defer c.mutex.RUnlock()
	if c.SessionTicketsDisabled {
		return nil
	}
	c.initLegacySessionTicketKeyRLocked()
	if len(c.sessionTicketKeys) != 0 {
		return c.sessionTicketKeys
	}
	// Fast path for the common case where the key is fresh enough.
	if len(c.autoSessionTicketKeys) > 0 && c.time().Sub(c.autoSessionTicketKeys[0].created) < ticketKeyRotation {
		return c.autoSessionTicketKeys
	}

	// autoSessionTicketKeys are managed by auto-rotation.
	c.mutex.RUnlock()
	defer c.mutex.RLock()
	c.mutex.Lock()
	defer c.mutex.Unlock()
	// Re-check the condition in case it changed since obtaining the new lock.
	if len(c.autoSessionTicketKeys) == 0 || c.time().Sub(c.autoSessionTicketKeys[0].created) >= ticketKeyRotation {
		var newKey [32]byte
		if _, err := io.ReadFull(c.rand(), newKey[:]); err != nil {
			panic(fmt.Sprintf("unable to generate random session ticket key: %v", err))
		}
		valid := make([]ticketKey, 0, len(c.autoSessionTicketKeys)+1)
		valid = append(valid, c.ticketKeyFromBytes(newKey))
		for _, k := range c.autoSessionTicketKeys {
			// While rotating the current key, also remove any expired ones.
			if c.time().Sub(k.created) < ticketKeyLifetime {
				valid = append(valid, k)
			}
		}
		c.autoSessionTicketKeys = valid
	}
	return c.autoSessionTicketKeys
}

// SetSessionTicketKeys updates the session ticket keys for a server.
//
// The first key will be used when creating new tickets, while all keys can be
// used for decrypting tickets. It is safe to call this function while the
// server is running in order to rotate the session ticket keys. The function
// will panic if keys is empty.
//
// Calling this function will turn off automatic session ticket key rotation.
//
// If multiple servers are terminating connections for the same host they should
// all have the same session ticket keys. If the session ticket keys leaks,
// previously recorded and future TLS connections using those keys might be
// compromised.
func (c *Config) SetSessionTicketKeys(keys [][32]byte) {
	if len(keys) == 0 {
		panic("tls: keys must have at least one key")
	}

	newKeys := make([]ticketKey, len(keys))
	for i, bytes := range keys {
		newKeys[i] = c.ticketKeyFromBytes(bytes)
	}

	c.mutex.Lock()
	c.sessionTicketKeys = newKeys
	c.mutex.Unlock()
}

func (c *Config) rand() io.Reader {
	r := c.Rand
	if r == nil {
		return rand.Reader
	}
	return r
}

func (c *Config) time() time.Time {
	t := c.Time
	if t == nil {
		t = time.Now
	}
	return t()
}

func (c *Config) cipherSuites() []uint16 {
	if c.CipherSuites == nil {
		// [uTLS] SECTION BEGIN
		// if fips140tls.Required() {
		// 	return defaultCipherSuitesFIPS
		// }
		// [uTLS] SECTION END
		return defaultCipherSuites()
	}
	// [uTLS] SECTION BEGIN
	// if fips140tls.Required() {
	// 	cipherSuites := slices.Clone(c.CipherSuites)
	// 	return slices.DeleteFunc(cipherSuites, func(id uint16) bool {
	// 		return !slices.Contains(defaultCipherSuitesFIPS, id)
	// 	})
	// }
	// [uTLS] SECTION END
	return c.CipherSuites
}

var supportedVersions = []uint16{
	VersionTLS13,
	VersionTLS12,
	VersionTLS11,
	VersionTLS10,
}

// roleClient and roleServer are meant to call supportedVersions and parents
// with more readability at the callsite.
const roleClient = true
const roleServer = false

// var tls10server = godebug.New("tls10server") // [UTLS] unsupported

func (c *Config) supportedVersions(isClient bool) []uint16 {
	versions := make([]uint16, 0, len(supportedVersions))
	for _, v := range supportedVersions {
		// [uTLS] SECTION BEGIN
		// if fips140tls.Required() && !slices.Contains(defaultSupportedVersionsFIPS, v) {
		// 	continue
		// }
		// [uTLS] SECTION END
		if (c == nil || c.MinVersion == 0) && v < VersionTLS12 {
			// [uTLS SECTION BEGIN]
			// Disable unsupported godebug package
			// if isClient || tls10server.Value() != "1" {
			// 	continue
			// }
			if isClient {
				continue
			}
			// [uTLS SECTION END]
		}
		if isClient && c.EncryptedClientHelloConfigList != nil && v < VersionTLS13 {
			continue
		}
		if c != nil && c.MinVersion != 0 && v < c.MinVersion {
			continue
		}
		if c != nil && c.MaxVersion != 0 && v > c.MaxVersion {
			continue
		}
		versions = append(versions, v)
	}
	return versions
}

func (c *Config) maxSupportedVersion(isClient bool) uint16 {
	supportedVersions := c.supportedVersions(isClient)
	if len(supportedVersions) == 0 {
		return 0
	}
	return supportedVersions[0]
}

// supportedVersionsFromMax returns a list of supported versions derived from a
// legacy maximum version value. Note that only versions supported by this
// library are returned. Any newer peer will use supportedVersions anyway.
func supportedVersionsFromMax(maxVersion uint16) []uint16 {
	versions := make([]uint16, 0, len(supportedVersions))
	for _, v := range supportedVersions {
		if v > maxVersion {
			continue
		}
		versions = append(versions, v)
	}
	return versions
}

func (c *Config) curvePreferences(version uint16) []CurveID {
	var curvePreferences []CurveID
	// [uTLS] SECTION BEGIN
	// if fips140tls.Required() {
	// 	curvePreferences = slices.Clone(defaultCurvePreferencesFIPS)
	// } else {
	curvePreferences = defaultCurvePreferences()
	// }
	// [uTLS] SECTION END
	if c != nil && len(c.CurvePreferences) != 0 {
		curvePreferences = slices.DeleteFunc(curvePreferences, func(x CurveID) bool {
			return !slices.Contains(c.CurvePreferences, x)
		})
	}
	if version < VersionTLS13 {
		curvePreferences = slices.DeleteFunc(curvePreferences, isTLS13OnlyKeyExchange)
	}
	return curvePreferences
}

func (c *Config) supportsCurve(version uint16, curve CurveID) bool {
	for _, cc := range c.curvePreferences(version) {
		if cc == curve {
			return true
		}
	}
	return false
}

// mutualVersion returns the protocol version to use given the advertised
// versions of the peer. Priority is given to the peer preference order.
func (c *Config) mutualVersion(isClient bool, peerVersions []uint16) (uint16, bool) {
	supportedVersions := c.supportedVersions(isClient)
	for _, peerVersion := range peerVersions {
		for _, v := range supportedVersions {
			if v == peerVersion {
				return v, true
			}
		}
	}
	return 0, false
}

// errNoCertificates should be an internal detail,
// but widely used packages access it using linkname.
// Notable members of the hall of shame include:
//   - github.com/xtls/xray-core
//
// Do not remove or change the type signature.
// See go.dev/issue/67401.
//
//go:linkname errNoCertificates
var errNoCertificates = errors.New("tls: no certificates configured")

// getCertificate returns the best certificate for the given ClientHelloInfo,
// defaulting to the first element of c.Certificates.
func (c *Config) getCertificate(clientHello *ClientHelloInfo) (*Certificate, error) {
	if c.GetCertificate != nil &&
		(len(c.Certificates) == 0 || len(clientHello.ServerName) > 0) {
		cert, err := c.GetCertificate(clientHello)
		if cert != nil || err != nil {
			return cert, err
		}
	}

	if len(c.Certificates) == 0 {
		return nil, errNoCertificates
	}

	if len(c.Certificates) == 1 {
		// There's only one choice, so no point doing any work.
		return &c.Certificates[0], nil
	}

	if c.NameToCertificate != nil {
		name := strings.ToLower(clientHello.ServerName)
		if cert, ok := c.NameToCertificate[name]; ok {
			return cert, nil
		}
		if len(name) > 0 {
			labels := strings.Split(name, ".")
			labels[0] = "*"
			wildcardName := strings.Join(labels, ".")
			if cert, ok := c.NameToCertificate[wildcardName]; ok {
				return cert, nil
			}
		}
	}

	for _, cert := range c.Certificates {
		if err := clientHello.SupportsCertificate(&cert); err == nil {
			return &cert, nil
		}
	}

	// If nothing matches, return the first certificate.
	return &c.Certificates[0], nil
}

// SupportsCertificate returns nil if the provided certificate is supported by
// the client that sent the ClientHello. Otherwise, it returns an error
// describing the reason for the incompatibility.
//
// If this [ClientHelloInfo] was passed to a GetConfigForClient or GetCertificate
// callback, this method will take into account the associated [Config]. Note that
// if GetConfigForClient returns a different [Config], the change can't be
// accounted for by this method.
//
// This function will call x509.ParseCertificate unless c.Leaf is set, which can
// incur a significant performance cost.
func (chi *ClientHelloInfo) SupportsCertificate(c *Certificate) error {
	// Note we don't currently support certificate_authorities nor
	// signature_algorithms_cert, and don't check the algorithms of the
	// signatures on the chain (which anyway are a SHOULD, see RFC 8446,
	// Section 4.4.2.2).

	config := chi.config
	if config == nil {
		config = &Config{}
	}
	vers, ok := config.mutualVersion(roleServer, chi.SupportedVersions)
	if !ok {
		return errors.New("no mutually supported protocol versions")
	}

	// If the client specified the name they are trying to connect to, the
	// certificate needs to be valid for it.
	if chi.ServerName != "" {
		x509Cert, err := c.leaf()
		if err != nil {
			return fmt.Errorf("failed to parse certificate: %w", err)
		}
		if err := x509Cert.VerifyHostname(chi.ServerName); err != nil {
			return fmt.Errorf("certificate is not valid for requested server name: %w", err)
		}
	}

	// supportsRSAFallback returns nil if the certificate and connection support
	// the static RSA key exchange, and unsupported otherwise. The logic for
	// supporting static RSA is completely disjoint from the logic for
	// supporting signed key exchanges, so we just check it as a fallback.
	supportsRSAFallback := func(unsupported error) error {
		// TLS 1.3 dropped support for the static RSA key exchange.
		if vers == VersionTLS13 {
			return unsupported
		}
		// The static RSA key exchange works by decrypting a challenge with the
		// RSA private key, not by signing, so check the PrivateKey implements
		// crypto.Decrypter, like *rsa.PrivateKey does.
		if priv, ok := c.PrivateKey.(crypto.Decrypter); ok {
			if _, ok := priv.Public().(*rsa.PublicKey); !ok {
				return unsupported
			}
		} else {
			return unsupported
		}
		// Finally, there needs to be a mutual cipher suite that uses the static
		// RSA key exchange instead of ECDHE.
		rsaCipherSuite := selectCipherSuite(chi.CipherSuites, config.cipherSuites(), func(c *cipherSuite) bool {
			if c.flags&suiteECDHE != 0 {
				return false
			}
			if vers < VersionTLS12 && c.flags&suiteTLS12 != 0 {
				return false
			}
			return true
		})
		if rsaCipherSuite == nil {
			return unsupported
		}
		return nil
	}

	// If the client sent the signature_algorithms extension, ensure it supports
	// schemes we can use with this certificate and TLS version.
	if len(chi.SignatureSchemes) > 0 {
		if _, err := selectSignatureScheme(vers, c, chi.SignatureSchemes); err != nil {
			return supportsRSAFallback(err)
		}
	}

	// In TLS 1.3 we are done because supported_groups is only relevant to the
	// ECDHE computation, point format negotiation is removed, cipher suites are
	// only relevant to the AEAD choice, and static RSA does not exist.
	if vers == VersionTLS13 {
		return nil
	}

	// The only signed key exchange we support is ECDHE.
	if !supportsECDHE(config, vers, chi.SupportedCurves, chi.SupportedPoints) {
		return supportsRSAFallback(errors.New("client doesn't support ECDHE, can only use legacy RSA key exchange"))
	}

	var ecdsaCipherSuite bool
	if priv, ok := c.PrivateKey.(crypto.Signer); ok {
		switch pub := priv.Public().(type) {
		case *ecdsa.PublicKey:
			var curve CurveID
			switch pub.Curve {
			case elliptic.P256():
				curve = CurveP256
			case elliptic.P384():
				curve = CurveP384
			case elliptic.P521():
				curve = CurveP521
			default:
				return supportsRSAFallback(unsupportedCertificateError(c))
			}
			var curveOk bool
			for _, c := range chi.SupportedCurves {
				if c == curve && config.supportsCurve(vers, c) {
					curveOk = true
					break
				}
			}
			if !curveOk {
				return errors.New("client doesn't support certificate curve")
			}
			ecdsaCipherSuite = true
		case ed25519.PublicKey:
			if vers < VersionTLS12 || len(chi.SignatureSchemes) == 0 {
				return errors.New("connection doesn't support Ed25519")
			}
			ecdsaCipherSuite = true
		case *rsa.PublicKey:
		default:
			return supportsRSAFallback(unsupportedCertificateError(c))
		}
	} else {
		return supportsRSAFallback(unsupportedCertificateError(c))
	}

	// Make sure that there is a mutually supported cipher suite that works with
	// this certificate. Cipher suite selection will then apply the logic in
	// reverse to pick it. See also serverHandshakeState.cipherSuiteOk.
	cipherSuite := selectCipherSuite(chi.CipherSuites, config.cipherSuites(), func(c *cipherSuite) bool {
		if c.flags&suiteECDHE == 0 {
			return false
		}
		if c.flags&suiteECSign != 0 {
			if !ecdsaCipherSuite {
				return false
			}
		} else {
			if ecdsaCipherSuite {
				return false
			}
		}
		if vers < VersionTLS12 && c.flags&suiteTLS12 != 0 {
			return false
		}
		return true
	})
	if cipherSuite == nil {
		return supportsRSAFallback(errors.New("client doesn't support any cipher suites compatible with the certificate"))
	}

	return nil
}

// SupportsCertificate returns nil if the provided certificate is supported by
// the server that sent the CertificateRequest. Otherwise, it returns an error
// describing the reason for the incompatibility.
func (cri *CertificateRequestInfo) SupportsCertificate(c *Certificate) error {
	if _, err := selectSignatureScheme(cri.Version, c, cri.SignatureSchemes); err != nil {
		return err
	}

	if len(cri.AcceptableCAs) == 0 {
		return nil
	}

	for j, cert := range c.Certificate {
		x509Cert := c.Leaf
		// Parse the certificate if this isn't the leaf node, or if
		// chain.Leaf was nil.
		if j != 0 || x509Cert == nil {
			var err error
			if x509Cert, err = x509.ParseCertificate(cert); err != nil {
				return fmt.Errorf("failed to parse certificate #%d in the chain: %w", j, err)
			}
		}

		for _, ca := range cri.AcceptableCAs {
			if bytes.Equal(x509Cert.RawIssuer, ca) {
				return nil
			}
		}
	}
	return errors.New("chain is not signed by an acceptable CA")
}

// BuildNameToCertificate parses c.Certificates and builds c.NameToCertificate
// from the CommonName and SubjectAlternateName fields of each of the leaf
// certificates.
//
// Deprecated: NameToCertificate only allows associating a single certificate
// with a given name. Leave that field nil to let the library select the first
// compatible chain from Certificates.
func (c *Config) BuildNameToCertificate() {
	c.NameToCertificate = make(map[string]*Certificate)
	for i := range c.Certificates {
		cert := &c.Certificates[i]
		x509Cert, err := cert.leaf()
		if err != nil {
			continue
		}
		// If SANs are *not* present, some clients will consider the certificate
		// valid for the name in the Common Name.
		if x509Cert.Subject.CommonName != "" && len(x509Cert.DNSNames) == 0 {
			c.NameToCertificate[x509Cert.Subject.CommonName] = cert
		}
		for _, san := range x509Cert.DNSNames {
			c.NameToCertificate[san] = cert
		}
	}
}

const (
	keyLogLabelTLS12           = "CLIENT_RANDOM"
	keyLogLabelClientHandshake = "CLIENT_HANDSHAKE_TRAFFIC_SECRET"
	keyLogLabelServerHandshake = "SERVER_HANDSHAKE_TRAFFIC_SECRET"
	keyLogLabelClientTraffic   = "CLIENT_TRAFFIC_SECRET_0"
	keyLogLabelServerTraffic   = "SERVER_TRAFFIC_SECRET_0"
)

func (c *Config) writeKeyLog(label string, clientRandom, secret []byte) error {
	if c.KeyLogWriter == nil {
		return nil
	}

	logLine := fmt.Appendf(nil, "%s %x %x\n", label, clientRandom, secret)

	writerMutex.Lock()
	_, err := c.KeyLogWriter.Write(logLine)
	writerMutex.Unlock()

	return err
}

// writerMutex protects all KeyLogWriters globally. It is rarely enabled,
// and is only for debugging, so a global mutex saves space.
var writerMutex sync.Mutex

// A Certificate is a chain of one or more certificates, leaf first.
type Certificate struct {
	Certificate [][]byte
	// PrivateKey contains the private key corresponding to the public key in
	// Leaf. This must implement crypto.Signer with an RSA, ECDSA or Ed25519 PublicKey.
	// For a server up to TLS 1.2, it can also implement crypto.Decrypter with
	// an RSA PublicKey.
	PrivateKey crypto.PrivateKey
	// SupportedSignatureAlgorithms is an optional list restricting what
	// signature algorithms the PrivateKey can be used for.
	SupportedSignatureAlgorithms []SignatureScheme
	// OCSPStaple contains an optional OCSP response which will be served
	// to clients that request it.
	OCSPStaple []byte
	// SignedCertificateTimestamps contains an optional list of Signed
	// Certificate Timestamps which will be served to clients that request it.
	SignedCertificateTimestamps [][]byte
	// Leaf is the parsed form of the leaf certificate, which may be initialized
	// using x509.ParseCertificate to reduce per-handshake processing. If nil,
	// the leaf certificate will be parsed as needed.
	Leaf *x509.Certificate
}

// leaf returns the parsed leaf certificate, either from c.Leaf or by parsing
// the corresponding c.Certificate[0].
func (c *Certificate) leaf() (*x509.Certificate, error) {
	if c.Leaf != nil {
		return c.Leaf, nil
	}
	return x509.ParseCertificate(c.Certificate[0])
}

type handshakeMessage interface {
	marshal() ([]byte, error)
	unmarshal([]byte) bool
}

type handshakeMessageWithOriginalBytes interface {
	handshakeMessage

	// originalBytes should return the original bytes that were passed to
	// unmarshal to create the message. If the message was not produced by
	// unmarshal, it should return nil.
	originalBytes() []byte
}

// lruSessionCache is a ClientSessionCache implementation that uses an LRU
// caching strategy.
type lruSessionCache struct {
	sync.Mutex

	m        map[string]*list.Element
	q        *list.List
	capacity int
}

type lruSessionCacheEntry struct {
	sessionKey string
	state      *ClientSessionState
}

// NewLRUClientSessionCache returns a [ClientSessionCache] with the given
// capacity that uses an LRU strategy. If capacity is < 1, a default capacity
// is used instead.
func NewLRUClientSessionCache(capacity int) ClientSessionCache {
	const defaultSessionCacheCapacity = 64

	if capacity < 1 {
		capacity = defaultSessionCacheCapacity
	}
	return &lruSessionCache{
		m:        make(map[string]*list.Element),
		q:        list.New(),
		capacity: capacity,
	}
}

// Put adds the provided (sessionKey, cs) pair to the cache. If cs is nil, the entry
// corresponding to sessionKey is removed from the cache instead.
func (c *lruSessionCache) Put(sessionKey string, cs *ClientSessionState) {
	c.Lock()
	defer c.Unlock()

	if elem, ok := c.m[sessionKey]; ok {
		if cs == nil {
			c.q.Remove(elem)
			delete(c.m, sessionKey)
		} else {
			entry := elem.Value.(*lruSessionCacheEntry)
			entry.state = cs
			c.q.MoveToFront(elem)
		}
		return
	}

	if cs == nil {
		// Nothing to remove. Do not insert a nil entry, which would evict a
		// live session and make Get report a hit for a deleted key.
		return
	}

	if c.q.Len() < c.capacity {
		entry := &lruSessionCacheEntry{sessionKey, cs}
		c.m[sessionKey] = c.q.PushFront(entry)
		return
	}

	elem := c.q.Back()
	entry := elem.Value.(*lruSessionCacheEntry)
	delete(c.m, entry.sessionKey)
	entry.sessionKey = sessionKey
	entry.state = cs
	c.q.MoveToFront(elem)
	c.m[sessionKey] = elem
}

// Get returns the [ClientSessionState] value associated with a given key. It
// returns (nil, false) if no value is found.
func (c *lruSessionCache) Get(sessionKey string) (*ClientSessionState, bool) {
	c.Lock()
	defer c.Unlock()

	if elem, ok := c.m[sessionKey]; ok {
		c.q.MoveToFront(elem)
		return elem.Value.(*lruSessionCacheEntry).state, true
	}
	return nil, false
}

var emptyConfig Config

func defaultConfig() *Config {
	return &emptyConfig
}

func unexpectedMessageError(wanted, got any) error {
	return fmt.Errorf("tls: received unexpected handshake message of type %T when waiting for %T", got, wanted)
}

// supportedSignatureAlgorithms returns the supported signature algorithms.
func supportedSignatureAlgorithms() []SignatureScheme {
	// [uTLS] SECTION BEGIN
	// if !fips140tls.Required() {
	return defaultSupportedSignatureAlgorithms
	// }
	// return defaultSupportedSignatureAlgorithmsFIPS
	// [uTLS] SECTION END
}

func isSupportedSignatureAlgorithm(sigAlg SignatureScheme, supportedSignatureAlgorithms []SignatureScheme) bool {
	for _, s := range supportedSignatureAlgorithms {
		if s == sigAlg {
			return true
		}
	}
	return false
}

// CertificateVerificationError is returned when certificate verification fails during the handshake.
type CertificateVerificationError struct {
	// UnverifiedCertificates and its contents should not be modified.
	UnverifiedCertificates []*x509.Certificate
	Err                    error
}

func (e *CertificateVerificationError) Error() string {
	return fmt.Sprintf("tls: failed to verify certificate: %s", e.Err)
}

func (e *CertificateVerificationError) Unwrap() error {
	return e.Err
}

// fipsAllowedChains returns chains that are allowed to be used in a TLS connection
// based on the current fips140tls enforcement setting.
//
// If fips140tls is not required, the chains are returned as-is with no processing.
// Otherwise, the returned chains are filtered to only those allowed by FIPS 140-3.
// If this results in no chains it returns an error.
func fipsAllowedChains(chains [][]*x509.Certificate) ([][]*x509.Certificate, error) {
	if !fips140tls.Required() {
		return chains, nil
	}

	permittedChains := make([][]*x509.Certificate, 0, len(chains))
	for _, chain := range chains {
		if fipsAllowChain(chain) {
			permittedChains = append(permittedChains, chain)
		}
	}

	if len(permittedChains) == 0 {
		return nil, errors.New("tls: no FIPS compatible certificate chains found")
	}

	return permittedChains, nil
}

func fipsAllowChain(chain []*x509.Certificate) bool {
	if len(chain) == 0 {
		return false
	}

	for _, cert := range chain {
		if !fipsAllowCert(cert) {
			return false
		}
	}

	return true
}

func fipsAllowCert(c *x509.Certificate) bool {
	// The key must be RSA 2048, RSA 3072, RSA 4096,
	// or ECDSA P-256, P-384, P-521.
	switch k := c.PublicKey.(type) {
	case *rsa.PublicKey:
		size := k.N.BitLen()
		return size == 2048 || size == 3072 || size == 4096
	case *ecdsa.PublicKey:
		return k.Curve == elliptic.P256() || k.Curve == elliptic.P384() || k.Curve == elliptic.P521()
	}

	return false
}
