// Copyright 2009 The Go Authors. All rights reserved.
// Use of this source code is governed by a BSD-style
// license that can be found in the LICENSE file.

// Package tls partially implements TLS 1.2, as specified in RFC 5246,
// and TLS 1.3, as specified in RFC 8446.
package refsrv

// BUG(agl): The crypto/tls package only implements some countermeasures
// against Lucky13 attacks on CBC-mode encryption, and only on SHA1
// variants. See http://www.isg.rhul.ac.uk/tls/TLStiming.pdf and
// https://www.imperialviolet.org/2013/02/04/luckythirteen.html.

import (
	"bytes"
	"context"
	"crypto"
	"crypto/ecdsa"
	"crypto/ed25519"
	"crypto/rsa"
	"crypto/x509"
	"encoding/pem"
	"errors"
	"fmt"
	"net"
	"os"
	"strings"
)

// Server returns a new TLS server side connection
// using conn as the underlying transport.
// The configuration config must be non-nil and must include
// at least one certificate or else set GetCertificate.
func Server(conn net.Conn, config *Config) *Conn {
	c := &Conn{
		conn:   conn,
		config: config,
	}
	c.handshakeFn = c.serverHandshake
	return c
}

// Client returns a new TLS client side connection
// using conn as the underlying transport.
// The config cannot be nil: users must set either ServerName or
// InsecureSkipVerify in the config.
func Client(conn net.Conn, config *Config) *Conn {
	c := &Conn{
		conn:     conn,
		config:   config,
		isClient: true,
	}
	c.handshakeFn = c.clientHandshake
	return c
}

// A listener implements a network listener (net.Listener) for TLS connections.
type listener struct {
	net.Listener
	config *Config
}

// Accept waits for and returns the next incoming TLS connection.
// The returned connection is of type *Conn.
func (l *listener) Accept() (net.Conn, error) {
	c, err := l.Listener.Accept()
	if err != nil {
		return nil, err
	}
	return Server(c, l.config), nil
}

// NewListener creates a Listener which accepts connections from an inner
// Listener and wraps each connection with [Server].
// The configuration config must be non-nil and must include
// at least one certificate or else set GetCertificate.
func NewListener(inner net.Listener, config *Config) net.Listener {
	l := new(listener)
	l.Listener = inner
	l.config = config
	return l
}

// Listen creates a TLS listener accepting connections on the
// given network address using net.Listen.
// The configuration config must be non-nil and must include
// at least one certificate or else set GetCertificate.
func Listen(network, laddr string, config *Config) (net.Listener, error) {
	// If this condition changes, consider updating http.Server.ServeTLS too.
	if config == nil || len(config.Certificates) == 0 &&
		config.GetCertificate == nil && config.GetConfigForClient == nil {
		return nil, errors.New("tls: neither Certificates, GetCertificate, nor GetConfigForClient set in Config")
	}
	l, err := net.Listen(network, laddr)
	if err != nil {
		return nil, err
	}
	return NewListener(l, config), nil
}

type timeoutError struct{}

func (timeoutError) Error() string   { return "tls: DialWithDialer timed out" }
func (timeoutError) Timeout() bool   { return true }
func (timeoutError) Temporary() bool { return true }

// DialWithDialer connects to the given network address using dialer.Dial and
// then initiates a TLS handshake, returning the resulting TLS connection. Any
// timeout or deadline given in the dialer apply to connection and TLS
// handshake as a whole.
//
// DialWithDialer interprets a nil configuration as equivalent to the zero
// configuration; see the documentation of [Config] for the defaults.
//
// DialWithDialer uses context.Background internally; to specify the context,
// use [Dialer.DialContext] with NetDialer set to the desired dialer.
func DialWithDialer(dialer *net.Dialer, network, addr string, config *Config) (*Conn, error) {
	return dial(context.Background(), dialer, network, addr, config)
}

func dial(ctx context.Context, netDialer *net.Dialer, network, addr string, config *Config) (*Conn, error) {
	if netDialer.Timeout != 0 {
		var cancel context.CancelFunc
		ctx, cancel = context.WithTimeout(ctx, netDialer.Timeout)
		defer cancel()
	}

	if !netDialer.Deadline.IsZero() {
		var cancel context.CancelFunc
		ctx, cancel = context.WithDeadline(ctx, netDialer.Deadline)
		defer cancel()
	}

	rawConn, err := netDialer.DialContext(ctx, network, addr)
	if err != nil {
		return nil, err
	}

	colonPos := strings.LastIndex(addr, ":")
	if colonPos == -1 {
		colonPos = len(addr)
	}
	hostname := addr[:colonPos]

	if config == nil {
		config = defaultConfig()
	}
	// If no ServerName is set, infer the ServerName
	// from the hostname we're connecting to.
	if config.ServerName == "" {
		// Make a copy to avoid polluting argument or default.
		c := config.Clone()
		c.ServerName = hostname
		config = c
	}

	conn := Client(rawConn, config)
	if err := conn.HandshakeContext(ctx); err != nil {
		rawConn.Close()
		return nil, err
	}
	return conn, nil
}

// Dial connects to the given network address using net.Dial
// and then initiates a TLS handshake, returning the resulting
// TLS connection.
// Dial interprets a nil configuration as equivalent to
// the zero configuration; see the documentation of Config
// for the defaults.
func Dial(network, addr string, config *Config) (*Conn, error) {
	return DialWithDialer(new(net.Dialer), network, addr, config)
}

// Dialer dials TLS connections given a configuration and a Dialer for the
// underlying connection.
type Dialer struct {
	// NetDialer is the optional dialer to use for the TLS connections'
	// underlying TCP connections.
	// A nil NetDialer is equivalent to the net.Dialer zero value.
	NetDialer *net.Dialer

	// Config is the TLS configuration to use for new connections.
	// A nil configuration is equivalent to the zero
	// configuration; see the documentation of Config for the
	// defaults.
	Config *Config
}

// Dial connects to the given network address and initiates a TLS
// handshake, returning the resulting TLS connection.
//
// The returned [Conn], if any, will always be of type *[Conn].
//
// Dial uses context.Background internally; to specify the context,
// use [Dialer.DialContext].
func (d *Dialer) Dial(network, addr string) (net.Conn, error) {
	return d.DialContext(context.Background(), network, addr)
}

func (d *Dialer) netDialer() *net.Dialer {
	if d.NetDialer != nil {
		return d.NetDialer
	}
	return new(net.Dialer)
}

// DialContext connects to the given network address and initiates a TLS
// handshake, returning the resulting TLS connection.
//
// The provided Context must be non-nil. If the context expires before
// the connection is complete, an error is returned. Once successfully
// connected, any expiration of the context will not affect the
// connection.
//
// The returned [Conn], if any, will always be of type *[Conn].
func (d *Dialer) DialContext(ctx context.Context, network, addr string) (net.Conn, error) {
	c, err := dial(ctx, d.netDialer(), network, addr, d.Config)
	if err != nil {
		// Don't return c (a typed nil) in an interface.
		return nil, err
	}
	return c, nil
}

// LoadX509KeyPair reads and parses a public/private key pair from a pair of
// files. The files must contain PEM encoded data. The certificate file may
// contain intermediate certificates following the leaf certificate to form a
// certificate chain. On successful return, Certificate.Leaf will be populated.
//
// Before Go 1.23 Certificate.Leaf was left nil, and the parsed certificate was
// discarded. This behavior can be re-enabled by setting "x509keypairleaf=0"
// in the GODEBUG environment variable.
func LoadX509KeyPair(certFile, keyFile string) (Certificate, error) {
	certPEMBlock, err := os.ReadFile(certFile)
	if err != nil {
		return Certificate{}, err
	}
	keyPEMBlock, err := os.ReadFile(keyFile)
	if err != nil {
		return Certificate{}, err
	}
	return X509KeyPair(certPEMBlock, keyPEMBlock)
}

// var x509keypairleaf = godebug.New("x509keypairleaf") [uTLS]

// X509KeyPair parses a public/private key pair from a pair of
// PEM encoded data. On successful return, Certificate.Leaf will be populated.
//
// Before Go 1.23 Certificate.Leaf was left nil, and the parsed certificate was
// discarded. This behavior can be re-enabled by setting "x509keypairleaf=0"
// in the GODEBUG environment variable.
func X509KeyPair(certPEMBlock, keyPEMBlock []byte) (Certificate, error) {
	fail := func(err error) (Certificate, error) { return Certificate{}, err }

	var cert Certificate
	var skippedBlockTypes []string
	for {
		var certDERBlock *pem.Block
		certDERBlock, certPEMBlock = pem.Decode(certPEMBlock)
		if certDERBlock == nil {
			break
		}
		if certDERBlock.Type == "CERTIFICATE" {
			cert.Certificate = append(cert.Certificate, certDERBlock.Bytes)
		} else {
			skippedBlockTypes = append(skippedBlockTypes, certDERBlock.Type)
		}
	}

	if len(cert.Certificate) == 0 {
		if len(skippedBlockTypes) == 0 {
			return fail(errors.New("tls: failed to find any PEM data in certificate input"))
		}
		if len(skippedBlockTypes) == 1 && strings.HasSuffix(skippedBlockTypes[0], "PRIVATE KEY") {
			return fail(errors.New("tls: failed to find certificate PEM data in certificate input, but did find a private key; PEM inputs may have been switched"))
		}
		return fail(fmt.Errorf("tls: failed to find \"CERTIFICATE\" PEM block in certificate input after skipping PEM blocks of the following types: %v", skippedBlockTypes))
	}

	skippedBlockTypes = skippedBlockTypes[:0]
	var keyDERBlock *pem.Block
	for {
		keyDERBlock, keyPEMBlock = pem.Decode(keyPEMBlock)
		if keyDERBlock == nil {
			if len(skippedBlockTypes) == 0 {
				return fail(errors.New("tls: failed to find any PEM data in key input"))
			}
			if len(skippedBlockTypes) == 1 && skippedBlockTypes[0] == "CERTIFICATE" {
				return fail(errors.New("tls: found a certificate rather than a key in the PEM for the private key"))
			}
			return fail(fmt.Errorf("tls: failed to find PEM block with type ending in \"PRIVATE KEY\" in key input after skipping PEM blocks of the following types: %v", skippedBlockTypes))
		}
		if keyDERBlock.Type == "PRIVATE KEY" || strings.HasSuffix(keyDERBlock.Type, " PRIVATE KEY") {
			break
		}
		skippedBlockTypes = append(skippedBlockTypes, keyDERBlock.Type)
	}

	// We don't need to parse the public key for TLS, but we so do anyway
	// to check that it looks sane and matches the private key.
	x509Cert, err := x509.ParseCertificate(cert.Certificate[0])
	if err != nil {
		return fail(err)
	}

	// [uTLS section begins]
	// if x509keypairleaf.Value() != "0" {
	// 	cert.Leaf = x509Cert
	// } else {
	// 	x509keypairleaf.IncNonDefault()
	// }
	// [uTLS section ends]

	cert.PrivateKey, err = parsePrivateKey(keyDERBlock.Bytes)
	if err != nil {
		return fail(err)
	}

	switch pub := x509Cert.PublicKey.(type) {
	case *rsa.PublicKey:
		priv, ok := cert.PrivateKey.(*rsa.PrivateKey)
		if !ok {
			return fail(errors.New("tls: private key type does not match public key type"))
		}
		if pub.N.Cmp(priv.N) != 0 {
			return fail(errors.New("tls: private key does not match public key"))
		}
	case *ecdsa.PublicKey:
		priv, ok := cert.PrivateKey.(*ecdsa.PrivateKey)
		if !ok {
			return fail(errors.New("tls: private key type does not match public key type"))
		}
		if pub.X.Cmp(priv.X) != 0 || pub.Y.Cmp(priv.Y) != 0 {
			return fail(errors.New("tls: private key does not match public key"))
		}
	case ed25519.PublicKey:
		priv, ok := cert.PrivateKey.(ed25519.PrivateKey)
		if !ok {
			return fail(errors.New("tls: private key type does not match public key type"))
		}
		if !bytes.Equal(priv.Public().(ed25519.PublicKey), pub) {
			return fail(errors.New("tls: private key does not match public key"))
		}
	default:
		return fail(errors.New("tls: unknown public key algorithm"))
	}

	return cert, nil
}

// Attempt to parse the given private key DER block. OpenSSL 0.9.8 generates
// PKCS #1 private keys by default, while OpenSSL 1.0.0 generates PKCS #8 keys.
// OpenSSL ecparam generates SEC1 EC private keys for ECDSA. We try all three.
func parsePrivateKey(der []byte) (crypto.PrivateKey, error) {
	if key, err := x509.ParsePKCS1PrivateKey(der); err == nil {
		return key, nil
	}
	if key, err := x509.ParsePKCS8PrivateKey(der); err == nil {
		switch key := key.(type) {
		case *rsa.PrivateKey, *ecdsa.PrivateKey, ed25519.PrivateKey:
			return key, nil
		default:
			return nil, errors.New("tls: found unknown private key type in PKCS#8 wrapping")
		}
	}
	if key, err := x509.ParseECPrivateKey(der); err == nil {
		return key, nil
	}

	return nil, errors.New("tls: failed to parse private key")
}
