package refsrv

import "fmt"

func sprintf(format string, a ...any) string { return fmt.Sprintf(format, a...) }

// rawHandshakeMsg is a pre-marshaled handshake message (with its 4-byte header).
type rawHandshakeMsg struct{ raw []byte }

func (m *rawHandshakeMsg) marshal() ([]byte, error) { return m.raw, nil }
func (m *rawHandshakeMsg) unmarshal([]byte) bool     { return false }

// SendKeyUpdate makes the connection send a TLS 1.3 KeyUpdate and switch its sending keys.
func (c *Conn) SendKeyUpdate(requestPeer bool) error {
	c.out.Lock()
	defer c.out.Unlock()
	cs := cipherSuiteTLS13ByID(c.cipherSuite)
	if cs == nil || c.vers != VersionTLS13 {
		return fmt.Errorf("refsrv: KeyUpdate needs TLS 1.3")
	}
	msg := &keyUpdateMsg{updateRequested: requestPeer}
	data, err := msg.marshal()
	if err != nil {
		return err
	}
	if _, err := c.writeRecordLocked(recordTypeHandshake, data); err != nil {
		return err
	}
	newSecret := cs.nextTrafficSecret(c.out.trafficSecret)
	c.out.setTrafficSecret(cs, QUICEncryptionLevelInitial, newSecret)
	return nil
}
