package refsrv

import (
	"fmt"
	"io"
)

func sprintf(format string, a ...any) string { return fmt.Sprintf(format, a...) }

// rawHandshakeMsg is a pre-marshaled handshake message (with its 4-byte header).
type rawHandshakeMsg struct{ raw []byte }

func (m *rawHandshakeMsg) marshal() ([]byte, error) { return m.raw, nil }
func (m *rawHandshakeMsg) unmarshal([]byte) bool     { return false }

// SendKeyUpdate makes the connection send a TLS 1.3 KeyUpdate and switch its sending keys.
func (c *Conn) SendKeyUpdate(requestPeer bool) error {
	c.out.Lock()
	defer c.out.Unlock()
	cs := cipherSuiteTLS13ByID(c.cipherSuite)
	if cs == nil || c.vers != VersionTLS13 {
		return fmt.Errorf("refsrv: KeyUpdate needs TLS 1.3")
	}
	msg := &keyUpdateMsg{updateRequested: requestPeer}
	data, err := msg.marshal()
	if err != nil {
		return err
	}
	if _, err := c.writeRecordLocked(recordTypeHandshake, data); err != nil {
		return err
	}
	newSecret := cs.nextTrafficSecret(c.out.trafficSecret)
	c.out.setTrafficSecret(cs, QUICEncryptionLevelInitial, newSecret)
	return nil
}

// WriteEmptyRecords sends n zero-length application_data records in one transport write
// (a flood of records that are individually legal).
func (c *Conn) WriteEmptyRecords(n int) error {
	c.out.Lock()
	defer c.out.Unlock()
	vers := c.vers
	if vers == VersionTLS13 {
		vers = VersionTLS12
	}
	var buf []byte
	for i := 0; i < n; i++ {
		rec := []byte{byte(recordTypeApplicationData), byte(vers >> 8), byte(vers), 0, 0}
		rec, err := c.out.encrypt(rec, nil, c.config.rand())
		if err != nil {
			return err
		}
		buf = append(buf, rec...)
	}
	_, err := c.write(buf)
	return err
}

// SendRawHandshake sends pre-marshaled handshake message bytes under the current keys (a
// well-keyed peer sending an unexpected message).
func (c *Conn) SendRawHandshake(data []byte) error {
	c.out.Lock()
	defer c.out.Unlock()
	_, err := c.writeRecordLocked(recordTypeHandshake, data)
	return err
}

// HostileInner, if set, rewrites the encoded inner ClientHello of the reference client before it
// is HPKE-sealed: the server then decrypts a hostile inner hello (process-global; set per world).
var HostileInner func(encodedInner []byte) []byte

// SendCBCPaddingOnlyRecord (TLS 1.0-1.2, CBC suite negotiated) sends an application_data record
// that is correctly encrypted under the connection's write key but whose plaintext consists of
// padding only: nblocks cipher blocks of the byte value len-1, i.e. valid padding that covers
// the place where the MAC should be. A receiver must answer bad_record_mac. Returns an error
// when the connection does not use a CBC suite.
func (c *Conn) SendCBCPaddingOnlyRecord(nblocks int) error {
	c.out.Lock()
	defer c.out.Unlock()
	cb, ok := c.out.cipher.(cbcMode)
	if !ok {
		return fmt.Errorf("refsrv: not a CBC suite")
	}
	bs := cb.BlockSize()
	n := nblocks * bs
	if n <= 0 || n > 256 {
		return fmt.Errorf("refsrv: padding-only record of %d bytes", n)
	}
	pt := make([]byte, n)
	for i := range pt {
		pt[i] = byte(n - 1)
	}
	var body []byte
	if c.out.version >= VersionTLS11 {
		iv := make([]byte, bs)
		if _, err := io.ReadFull(c.config.rand(), iv); err != nil {
			return err
		}
		cb.SetIV(iv)
		body = append(body, iv...)
	}
	cb.CryptBlocks(pt, pt)
	body = append(body, pt...)
	rec := []byte{byte(recordTypeApplicationData), byte(c.vers >> 8), byte(c.vers), byte(len(body) >> 8), byte(len(body))}
	rec = append(rec, body...)
	c.out.incSeq()
	_, err := c.write(rec)
	return err
}

// SendUnprotectedRecord writes a record header of the given type and the payload bytes to the
// transport as they are, whatever keys are in force (what any on-path party can do as well).
func (c *Conn) SendUnprotectedRecord(typ uint8, payload []byte) error {
	c.out.Lock()
	defer c.out.Unlock()
	vers := c.vers
	if vers == VersionTLS13 {
		vers = VersionTLS12
	}
	rec := append([]byte{typ, byte(vers >> 8), byte(vers), byte(len(payload) >> 8), byte(len(payload))}, payload...)
	_, err := c.write(rec)
	return err
}
