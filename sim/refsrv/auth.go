// Copyright 2017 The Go Authors. All rights reserved.
// Use of this source code is governed by a BSD-style
// license that can be found in the LICENSE file.

package refsrv

import (
	"bytes"
	"crypto"
	"crypto/ecdsa"
	"crypto/ed25519"
	"crypto/elliptic"
	"crypto/rsa"
	"errors"
	"fmt"
	"hash"
	"io"
)

// verifyHandshakeSignature verifies a signature against pre-hashed
// (if required) handshake contents.
func verifyHandshakeSignature(sigType uint8, pubkey crypto.PublicKey, hashFunc crypto.Hash, signed, sig []byte) error {
	switch sigType {
	case signatureECDSA:
		pubKey, ok := pubkey.(*ecdsa.PublicKey)
		if !ok {
			return fmt.Errorf("expected an ECDSA public key, got %T", pubkey)
		}
		if !ecdsa.VerifyASN1(pubKey, signed, sig) {
			return errors.New("ECDSA verification failure")
		}
	case signatureEd25519:
		pubKey, ok := pubkey.(ed25519.PublicKey)
		if !ok {
			return fmt.Errorf("expected an Ed25519 public key, got %T", pubkey)
		}
		if !ed25519.Verify(pubKey, signed, sig) {
			return errors.New("Ed25519 verification failure")
		}
	case signaturePKCS1v15:
		pubKey, ok := pubkey.(*rsa.PublicKey)
		if !ok {
			return fmt.Errorf("expected an RSA public key, got %T", pubkey)
		}
		if err := rsa.VerifyPKCS1v15(pubKey, hashFunc, signed, sig); err != nil {
			return err
		}
	case signatureRSAPSS:
		pubKey, ok := pubkey.(*rsa.PublicKey)
		if !ok {
			return fmt.Errorf("expected an RSA public key, got %T", pubkey)
		}
		signOpts := &rsa.PSSOptions{SaltLength: rsa.PSSSaltLengthEqualsHash}
		if err := rsa.VerifyPSS(pubKey, hashFunc, signed, sig, signOpts); err != nil {
			return err
		}
	default:
		return errors.New("internal error: unknown signature type")
	}
	return nil
}

const (
	serverSignatureContext = "TLS 1.3, server CertificateVerify\x00"
	clientSignatureContext = "TLS 1.3, client CertificateVerify\x00"
)

var signaturePadding = []byte{
	0x20, 0x20, 0x20, 0x20, 0x20, 0x20, 0x20, 0x20,
	0x20, 0x20, 0x20, 0x20, 0x20, 0x20, 0x20, 0x20,
	0x20, 0x20, 0x20, 0x20, 0x20, 0x20, 0x20, 0x20,
	0x20, 0x20, 0x20, 0x20, 0x20, 0x20, 0x20, 0x20,
	0x20, 0x20, 0x20, 0x20, 0x20, 0x20, 0x20, 0x20,
	0x20, 0x20, 0x20, 0x20, 0x20, 0x20, 0x20, 0x20,
	0x20, 0x20, 0x20, 0x20, 0x20, 0x20, 0x20, 0x20,
	0x20, 0x20, 0x20, 0x20, 0x20, 0x20, 0x20, 0x20,
}

// signedMessage returns the pre-hashed (if necessary) message to be signed by
// certificate keys in TLS 1.3. See RFC 8446, Section 4.4.3.
func signedMessage(sigHash crypto.Hash, context string, transcript hash.Hash) []byte {
	if sigHash == directSigning {
		b := &bytes.Buffer{}
		b.Write(signaturePadding)
		io.WriteString(b, context)
		b.Write(transcript.Sum(nil))
		return b.Bytes()
	}
	h := sigHash.New()
	h.Write(signaturePadding)
	io.WriteString(h, context)
	h.Write(transcript.Sum(nil))
	return h.Sum(nil)
}

// typeAndHashFromSignatureScheme returns the corresponding signature type and
// crypto.Hash for a given TLS SignatureScheme.
func typeAndHashFromSignatureScheme(signatureAlgorithm SignatureScheme) (sigType uint8, hash crypto.Hash, err error) {
	switch signatureAlgorithm {
	case PKCS1WithSHA1, PKCS1WithSHA256, PKCS1WithSHA384, PKCS1WithSHA512:
		sigType = signaturePKCS1v15
	case PSSWithSHA256, PSSWithSHA384, PSSWithSHA512:
		sigType = signatureRSAPSS
	case ECDSAWithSHA1, ECDSAWithP256AndSHA256, ECDSAWithP384AndSHA384, ECDSAWithP521AndSHA512:
		sigType = signatureECDSA
	case Ed25519:
		sigType = signatureEd25519
	default:
		return 0, 0, fmt.Errorf("unsupported signature algorithm: %v", signatureAlgorithm)
	}
	switch signatureAlgorithm {
	case PKCS1WithSHA1, ECDSAWithSHA1:
		hash = crypto.SHA1
	case PKCS1WithSHA256, PSSWithSHA256, ECDSAWithP256AndSHA256:
		hash = crypto.SHA256
	case PKCS1WithSHA384, PSSWithSHA384, ECDSAWithP384AndSHA384:
		hash = crypto.SHA384
	case PKCS1WithSHA512, PSSWithSHA512, ECDSAWithP521AndSHA512:
		hash = crypto.SHA512
	case Ed25519:
		hash = directSigning
	default:
		return 0, 0, fmt.Errorf("unsupported signature algorithm: %v", signatureAlgorithm)
	}
	return sigType, hash, nil
}

// legacyTypeAndHashFromPublicKey returns the fixed signature type and crypto.Hash for
// a given public key used with TLS 1.0 and 1.1, before the introduction of
// signature algorithm negotiation.
func legacyTypeAndHashFromPublicKey(pub crypto.PublicKey) (sigType uint8, hash crypto.Hash, err error) {
	switch pub.(type) {
	case *rsa.PublicKey:
		return signaturePKCS1v15, crypto.MD5SHA1, nil
	case *ecdsa.PublicKey:
		return signatureECDSA, crypto.SHA1, nil
	case ed25519.PublicKey:
		// RFC 8422 specifies support for Ed25519 in TLS 1.0 and 1.1,
		// but it requires holding on to a handshake transcript to do a
		// full signature, and not even OpenSSL bothers with the
		// complexity, so we can't even test it properly.
		return 0, 0, fmt.Errorf("tls: Ed25519 public keys are not supported before TLS 1.2")
	default:
		return 0, 0, fmt.Errorf("tls: unsupported public key: %T", pub)
	}
}

var rsaSignatureSchemes = []struct {
	scheme          SignatureScheme
	minModulusBytes int
	maxVersion      uint16
}{
	// RSA-PSS is used with PSSSaltLengthEqualsHash, and requires
	//    emLen >= hLen + sLen + 2
	{PSSWithSHA256, crypto.SHA256.Size()*2 + 2, VersionTLS13},
	{PSSWithSHA384, crypto.SHA384.Size()*2 + 2, VersionTLS13},
	{PSSWithSHA512, crypto.SHA512.Size()*2 + 2, VersionTLS13},
	// PKCS #1 v1.5 uses prefixes from hashPrefixes in crypto/rsa, and requires
	//    emLen >= len(prefix) + hLen + 11
	// TLS 1.3 dropped support for PKCS #1 v1.5 in favor of RSA-PSS.
	{PKCS1WithSHA256, 19 + crypto.SHA256.Size() + 11, VersionTLS12},
	{PKCS1WithSHA384, 19 + crypto.SHA384.Size() + 11, VersionTLS12},
	{PKCS1WithSHA512, 19 + crypto.SHA512.Size() + 11, VersionTLS12},
	{PKCS1WithSHA1, 15 + crypto.SHA1.Size() + 11, VersionTLS12},
}

// signatureSchemesForCertificate returns the list of supported SignatureSchemes
// for a given certificate, based on the public key and the protocol version,
// and optionally filtered by its explicit SupportedSignatureAlgorithms.
//
// This function must be kept in sync with supportedSignatureAlgorithms.
// FIPS filtering is applied in the caller, selectSignatureScheme.
func signatureSchemesForCertificate(version uint16, cert *Certificate) []SignatureScheme {
	priv, ok := cert.PrivateKey.(crypto.Signer)
	if !ok {
		return nil
	}

	var sigAlgs []SignatureScheme
	switch pub := priv.Public().(type) {
	case *ecdsa.PublicKey:
		if version != VersionTLS13 {
			// In TLS 1.2 and earlier, ECDSA algorithms are not
			// constrained to a single curve.
			sigAlgs = []SignatureScheme{
				ECDSAWithP256AndSHA256,
				ECDSAWithP384AndSHA384,
				ECDSAWithP521AndSHA512,
				ECDSAWithSHA1,
			}
			break
		}
		switch pub.Curve {
		case elliptic.P256():
			sigAlgs = []SignatureScheme{ECDSAWithP256AndSHA256}
		case elliptic.P384():
			sigAlgs = []SignatureScheme{ECDSAWithP384AndSHA384}
		case elliptic.P521():
			sigAlgs = []SignatureScheme{ECDSAWithP521AndSHA512}
		default:
			return nil
		}
	case *rsa.PublicKey:
		size := pub.Size()
		sigAlgs = make([]SignatureScheme, 0, len(rsaSignatureSchemes))
		for _, candidate := range rsaSignatureSchemes {
			if size >= candidate.minModulusBytes && version <= candidate.maxVersion {
				sigAlgs = append(sigAlgs, candidate.scheme)
			}
		}
	case ed25519.PublicKey:
		sigAlgs = []SignatureScheme{Ed25519}
	default:
		return nil
	}

	if cert.SupportedSignatureAlgorithms != nil {
		var filteredSigAlgs []SignatureScheme
		for _, sigAlg := range sigAlgs {
			if isSupportedSignatureAlgorithm(sigAlg, cert.SupportedSignatureAlgorithms) {
				filteredSigAlgs = append(filteredSigAlgs, sigAlg)
			}
		}
		return filteredSigAlgs
	}
	return sigAlgs
}

// selectSignatureScheme picks a SignatureScheme from the peer's preference list
// that works with the selected certificate. It's only called for protocol
// versions that support signature algorithms, so TLS 1.2 and 1.3.
func selectSignatureScheme(vers uint16, c *Certificate, peerAlgs []SignatureScheme) (SignatureScheme, error) {
	supportedAlgs := signatureSchemesForCertificate(vers, c)
	if len(supportedAlgs) == 0 {
		return 0, unsupportedCertificateError(c)
	}
	if len(peerAlgs) == 0 && vers == VersionTLS12 {
		// For TLS 1.2, if the client didn't send signature_algorithms then we
		// can assume that it supports SHA1. See RFC 5246, Section 7.4.1.4.1.
		peerAlgs = []SignatureScheme{PKCS1WithSHA1, ECDSAWithSHA1}
	}
	// Pick signature scheme in the peer's preference order, as our
	// preference order is not configurable.
	for _, preferredAlg := range peerAlgs {
		// [uTLS] SECTION BEGIN
		// if fips140tls.Required() && !isSupportedSignatureAlgorithm(preferredAlg, defaultSupportedSignatureAlgorithmsFIPS) {
		// 	continue
		// }
		// [uTLS] SECTION END
		if isSupportedSignatureAlgorithm(preferredAlg, supportedAlgs) {
			return preferredAlg, nil
		}
	}
	return 0, errors.New("tls: peer doesn't support any of the certificate's signature algorithms")
}

// unsupportedCertificateError returns a helpful error for certificates with
// an unsupported private key.
func unsupportedCertificateError(cert *Certificate) error {
	switch cert.PrivateKey.(type) {
	case rsa.PrivateKey, ecdsa.PrivateKey:
		return fmt.Errorf("tls: unsupported certificate: private key is %T, expected *%T",
			cert.PrivateKey, cert.PrivateKey)
	case *ed25519.PrivateKey:
		return fmt.Errorf("tls: unsupported certificate: private key is *ed25519.PrivateKey, expected ed25519.PrivateKey")
	}

	signer, ok := cert.PrivateKey.(crypto.Signer)
	if !ok {
		return fmt.Errorf("tls: certificate private key (%T) does not implement crypto.Signer",
			cert.PrivateKey)
	}

	switch pub := signer.Public().(type) {
	case *ecdsa.PublicKey:
		switch pub.Curve {
		case elliptic.P256():
		case elliptic.P384():
		case elliptic.P521():
		default:
			return fmt.Errorf("tls: unsupported certificate curve (%s)", pub.Curve.Params().Name)
		}
	case *rsa.PublicKey:
		return fmt.Errorf("tls: certificate RSA key size too small for supported signature algorithms")
	case ed25519.PublicKey:
	default:
		return fmt.Errorf("tls: unsupported certificate key (%T)", pub)
	}

	if cert.SupportedSignatureAlgorithms != nil {
		return fmt.Errorf("tls: peer doesn't support the certificate custom signature algorithms")
	}

	return fmt.Errorf("tls: internal error: unsupported key (%T)", cert.PrivateKey)
}
