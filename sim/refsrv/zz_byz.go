package refsrv

// Byz describes how the reference server deviates from the protocol. Every field is a
// single, named deviation; the server keeps its own transcript coherent (it hashes what it
// sends), so only an explicit check in the client can stop the handshake.
//
// This package is a frozen fork of the repository's TLS stack (taken at the verified
// commit) with deviation hooks; it is harness code, not the tree under test.
type Byz struct {
	// ServerHello / negotiation
	ForceSuite       uint16 // cipher suite to put into ServerHello (0: normal)
	ForceSHGroup     CurveID // key_share group to answer with (0: normal)
	WrongSessionID   bool    // do not echo legacy_session_id (TLS 1.3)
	CompressionMethod uint8  // compression method in ServerHello (0: null)
	ForceALPN        string  // ALPN protocol in EncryptedExtensions / ServerHello ("" = normal)
	KyberDraft       bool    // select the client's X25519Kyber768Draft00 share when it sent one
	ForcePSK         bool    // announce a pre_shared_key selection although none was accepted
	ForcePSKIndex    uint16  // selected_identity to announce when ForcePSK is set

	// HelloRetryRequest
	HRRGroup  CurveID // send a HelloRetryRequest selecting this group (0: only when needed)
	HRRCookie []byte  // cookie to put into the HelloRetryRequest
	HRRAlways bool    // send the HRR even if a usable share is present
	// HRRCookieOnly (with HRRCookie and HRRAlways): the HelloRetryRequest carries the cookie but no
	// key_share (RFC 8446 4.1.4: a stateless server). The second ClientHello must repeat the shares
	// of the first; the server then uses the share of the group it would have selected anyway.
	HRRCookieOnly bool
	// AfterHRR: the HelloRetryRequest itself is honest (echoed session id, null compression);
	// WrongSessionID / CompressionMethod then apply to the ServerHello that follows it only.
	AfterHRR bool
	// SelectedIdentity >= 0: when a PSK was really accepted, announce this selected_identity instead
	// of the accepted one (the key schedule keeps following the accepted PSK). -1 / unset(0 with
	// SelectedIdentitySet false): normal.
	SelectedIdentity    uint16
	SelectedIdentitySet bool

	// CompressedCertificate (RFC 8879): send the Certificate message compressed
	CertCompAlg     uint16 // 0: uncompressed
	CertCompress    func(alg uint16, msg []byte) []byte // harness-provided compressor (valid stream)
	CertCompLenDelta int   // added to the declared uncompressed_length
	CertCompCorrupt  func(stream []byte) []byte

	// ALPS
	ALPSCodepoint uint16 // 0: none; 17513 or 17613
	ALPSSettings  []byte
	ALPSWithoutALPN bool
	ALPSFirst       bool // application_settings is the first extension of EncryptedExtensions (before ALPN)

	// TicketCount > 1: that many TLS 1.3 NewSessionTicket messages (distinct nonces) after the
	// handshake; TicketsInOneRecord: all of them in a single record (RFC 8446 5.1 allows several
	// handshake messages of one type run to share a record), as BoringSSL-style servers do.
	TicketCount        int
	TicketsInOneRecord bool

	// Mutate is applied to every handshake message the server sends, before it is hashed
	// into the transcript and written (mutate-msg fault). Return the bytes unchanged to keep it.
	Mutate func(msgType uint8, marshaled []byte) []byte

	// legacy servers (TLS <= 1.2)
	IgnoreSupportedVersions bool   // negotiate from legacy_version only
	LegacyVersion           uint16 // version to negotiate when IgnoreSupportedVersions is set
	OmitDowngradeSentinel   bool   // do not put the RFC 8446 downgrade sentinel into the random
	ForceDowngradeSentinel  bool   // put it even where a real legacy server would not

	// record layer shapes a compliant peer may choose for its application data (all legal):
	RecordPad    func(payloadLen int) int // TLS 1.3 padding zeros for the next record
	RecordSplit  func(remaining int) int  // payload length of the next record (0: default)
	EmptyRecords func() int               // zero-length application_data records to send first

	// observations
	ClientEE          []byte // body of the client EncryptedExtensions message (ALPS), if received
	ClientEESeen      bool
	SecondHelloCookie []byte
	SecondHelloSeen   bool
	Notes             []string
}

func (b *Byz) note(format string, a ...any) {
	if b != nil {
		b.Notes = append(b.Notes, sprintf(format, a...))
	}
}
