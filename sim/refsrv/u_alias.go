package refsrv

import (
	"crypto/ecdh"
)

// This file contains all the alias functions, symbols, names, etc. that
// was once used in the old version of the library.  This is to ensure
// backwards compatibility with the old version of the library.

// TLS Extensions

// UtlsExtendedMasterSecretExtension is an alias for ExtendedMasterSecretExtension.
//
// Deprecated: Use ExtendedMasterSecretExtension instead.
type UtlsExtendedMasterSecretExtension = ExtendedMasterSecretExtension

// Deprecated: Use KeySharePrivateKeys instead. This type is not used and will be removed in the future.
// KeySharesParameters serves as a in-memory storage for generated keypairs by UTLS when generating
// ClientHello. It is used to store both ecdhe and kem keypairs.
type KeySharesParameters struct{}

func NewKeySharesParameters() *KeySharesParameters { return &KeySharesParameters{} }

func (*KeySharesParameters) AddEcdheKeypair(curveID CurveID, ecdheKey *ecdh.PrivateKey, ecdhePubKey *ecdh.PublicKey) {
	return
}

func (*KeySharesParameters) GetEcdheKey(curveID CurveID) (ecdheKey *ecdh.PrivateKey, ok bool) { return }

func (*KeySharesParameters) GetEcdhePubkey(curveID CurveID) (params *ecdh.PublicKey, ok bool) { return }

func (*KeySharesParameters) AddKemKeypair(curveID CurveID, kemKey any, kemPubKey any) {
	return
}

func (ksp *KeySharesParameters) GetKemKey(curveID CurveID) (kemKey any, ok bool) { return }

func (ksp *KeySharesParameters) GetKemPubkey(curveID CurveID) (params any, ok bool) { return }
