// Copyright 2012 The Go Authors. All rights reserved.
// Use of this source code is governed by a BSD-style
// license that can be found in the LICENSE file.

package refsrv

import (
	"crypto/aes"
	"crypto/cipher"
	"crypto/hmac"
	"crypto/sha256"
	"crypto/subtle"
	"crypto/x509"
	"errors"
	"io"

	"golang.org/x/crypto/cryptobyte"
)

// A SessionState is a resumable session.
type SessionState struct {
	// Encoded as a SessionState (in the language of RFC 8446, Section 3).
	//
	//   enum { server(1), client(2) } SessionStateType;
	//
	//   opaque Certificate<1..2^24-1>;
	//
	//   Certificate CertificateChain<0..2^24-1>;
	//
	//   opaque Extra<0..2^24-1>;
	//
	//   struct {
	//       uint16 version;
	//       SessionStateType type;
	//       uint16 cipher_suite;
	//       uint64 created_at;
	//       opaque secret<1..2^8-1>;
	//       Extra extra<0..2^24-1>;
	//       uint8 ext_master_secret = { 0, 1 };
	//       uint8 early_data = { 0, 1 };
	//       CertificateEntry certificate_list<0..2^24-1>;
	//       CertificateChain verified_chains<0..2^24-1>; /* excluding leaf */
	//       select (SessionState.early_data) {
	//           case 0: Empty;
	//           case 1: opaque alpn<1..2^8-1>;
	//       };
	//       select (SessionState.type) {
	//           case server: Empty;
	//           case client: struct {
	//               select (SessionState.version) {
	//                   case VersionTLS10..VersionTLS12: Empty;
	//                   case VersionTLS13: struct {
	//                       uint64 use_by;
	//                       uint32 age_add;
	//                   };
	//               };
	//           };
	//       };
	//   } SessionState;
	//

	// Extra is ignored by crypto/tls, but is encoded by [SessionState.Bytes]
	// and parsed by [ParseSessionState].
	//
	// This allows [Config.UnwrapSession]/[Config.WrapSession] and
	// [ClientSessionCache] implementations to store and retrieve additional
	// data alongside this session.
	//
	// To allow different layers in a protocol stack to share this field,
	// applications must only append to it, not replace it, and must use entries
	// that can be recognized even if out of order (for example, by starting
	// with an id and version prefix).
	Extra [][]byte

	// EarlyData indicates whether the ticket can be used for 0-RTT in a QUIC
	// connection. The application may set this to false if it is true to
	// decline to offer 0-RTT even if supported.
	EarlyData bool

	version     uint16
	isClient    bool
	cipherSuite uint16
	// createdAt is the generation time of the secret on the sever (which for
	// TLS 1.0–1.2 might be earlier than the current session) and the time at
	// which the ticket was received on the client.
	createdAt         uint64 // seconds since UNIX epoch
	secret            []byte // master secret for TLS 1.2, or the PSK for TLS 1.3
	extMasterSecret   bool
	peerCertificates  []*x509.Certificate
	activeCertHandles []*activeCert
	ocspResponse      []byte
	scts              [][]byte
	verifiedChains    [][]*x509.Certificate
	alpnProtocol      string // only set if EarlyData is true

	// Client-side TLS 1.3-only fields.
	useBy  uint64 // seconds since UNIX epoch
	ageAdd uint32
	ticket []byte
}

// Bytes encodes the session, including any private fields, so that it can be
// parsed by [ParseSessionState]. The encoding contains secret values critical
// to the security of future and possibly past sessions.
//
// The specific encoding should be considered opaque and may change incompatibly
// between Go versions.
func (s *SessionState) Bytes() ([]byte, error) {
	var b cryptobyte.Builder
	b.AddUint16(s.version)
	if s.isClient {
		b.AddUint8(2) // client
	} else {
		b.AddUint8(1) // server
	}
	b.AddUint16(s.cipherSuite)
	addUint64(&b, s.createdAt)
	b.AddUint8LengthPrefixed(func(b *cryptobyte.Builder) {
		b.AddBytes(s.secret)
	})
	b.AddUint24LengthPrefixed(func(b *cryptobyte.Builder) {
		for _, extra := range s.Extra {
			b.AddUint24LengthPrefixed(func(b *cryptobyte.Builder) {
				b.AddBytes(extra)
			})
		}
	})
	if s.extMasterSecret {
		b.AddUint8(1)
	} else {
		b.AddUint8(0)
	}
	if s.EarlyData {
		b.AddUint8(1)
	} else {
		b.AddUint8(0)
	}
	marshalCertificate(&b, Certificate{
		Certificate:                 certificatesToBytesSlice(s.peerCertificates),
		OCSPStaple:                  s.ocspResponse,
		SignedCertificateTimestamps: s.scts,
	})
	b.AddUint24LengthPrefixed(func(b *cryptobyte.Builder) {
		for _, chain := range s.verifiedChains {
			b.AddUint24LengthPrefixed(func(b *cryptobyte.Builder) {
				// We elide the first certificate because it's always the leaf.
				if len(chain) == 0 {
					b.SetError(errors.New("tls: internal error: empty verified chain"))
					return
				}
				for _, cert := range chain[1:] {
					b.AddUint24LengthPrefixed(func(b *cryptobyte.Builder) {
						b.AddBytes(cert.Raw)
					})
				}
			})
		}
	})
	if s.EarlyData {
		b.AddUint8LengthPrefixed(func(b *cryptobyte.Builder) {
			b.AddBytes([]byte(s.alpnProtocol))
		})
	}
	if s.isClient {
		if s.version >= VersionTLS13 {
			addUint64(&b, s.useBy)
			b.AddUint32(s.ageAdd)
		}
	}
	return b.Bytes()
}

func certificatesToBytesSlice(certs []*x509.Certificate) [][]byte {
	s := make([][]byte, 0, len(certs))
	for _, c := range certs {
		s = append(s, c.Raw)
	}
	return s
}

// ParseSessionState parses a [SessionState] encoded by [SessionState.Bytes].
func ParseSessionState(data []byte) (*SessionState, error) {
	ss := &SessionState{}
	s := cryptobyte.String(data)
	var typ, extMasterSecret, earlyData uint8
	var cert Certificate
	var extra cryptobyte.String
	if !s.ReadUint16(&ss.version) ||
		!s.ReadUint8(&typ) ||
		(typ != 1 && typ != 2) ||
		!s.ReadUint16(&ss.cipherSuite) ||
		!readUint64(&s, &ss.createdAt) ||
		!readUint8LengthPrefixed(&s, &ss.secret) ||
		!s.ReadUint24LengthPrefixed(&extra) ||
		!s.ReadUint8(&extMasterSecret) ||
		!s.ReadUint8(&earlyData) ||
		len(ss.secret) == 0 ||
		!unmarshalCertificate(&s, &cert) {
		return nil, errors.New("tls: invalid session encoding")
	}
	for !extra.Empty() {
		var e []byte
		if !readUint24LengthPrefixed(&extra, &e) {
			return nil, errors.New("tls: invalid session encoding")
		}
		ss.Extra = append(ss.Extra, e)
	}
	switch extMasterSecret {
	case 0:
		ss.extMasterSecret = false
	case 1:
		ss.extMasterSecret = true
	default:
		return nil, errors.New("tls: invalid session encoding")
	}
	switch earlyData {
	case 0:
		ss.EarlyData = false
	case 1:
		ss.EarlyData = true
	default:
		return nil, errors.New("tls: invalid session encoding")
	}
	for _, cert := range cert.Certificate {
		c, err := globalCertCache.newCert(cert)
		if err != nil {
			return nil, err
		}
		ss.activeCertHandles = append(ss.activeCertHandles, c)
		ss.peerCertificates = append(ss.peerCertificates, c.cert)
	}
	ss.ocspResponse = cert.OCSPStaple
	ss.scts = cert.SignedCertificateTimestamps
	var chainList cryptobyte.String
	if !s.ReadUint24LengthPrefixed(&chainList) {
		return nil, errors.New("tls: invalid session encoding")
	}
	for !chainList.Empty() {
		var certList cryptobyte.String
		if !chainList.ReadUint24LengthPrefixed(&certList) {
			return nil, errors.New("tls: invalid session encoding")
		}
		var chain []*x509.Certificate
		if len(ss.peerCertificates) == 0 {
			return nil, errors.New("tls: invalid session encoding")
		}
		chain = append(chain, ss.peerCertificates[0])
		for !certList.Empty() {
			var cert []byte
			if !readUint24LengthPrefixed(&certList, &cert) {
				return nil, errors.New("tls: invalid session encoding")
			}
			c, err := globalCertCache.newCert(cert)
			if err != nil {
				return nil, err
			}
			ss.activeCertHandles = append(ss.activeCertHandles, c)
			chain = append(chain, c.cert)
		}
		ss.verifiedChains = append(ss.verifiedChains, chain)
	}
	if ss.EarlyData {
		var alpn []byte
		if !readUint8LengthPrefixed(&s, &alpn) {
			return nil, errors.New("tls: invalid session encoding")
		}
		ss.alpnProtocol = string(alpn)
	}
	if isClient := typ == 2; !isClient {
		if !s.Empty() {
			return nil, errors.New("tls: invalid session encoding")
		}
		return ss, nil
	}
	ss.isClient = true
	if len(ss.peerCertificates) == 0 {
		return nil, errors.New("tls: no server certificates in client session")
	}
	if ss.version < VersionTLS13 {
		if !s.Empty() {
			return nil, errors.New("tls: invalid session encoding")
		}
		return ss, nil
	}
	if !s.ReadUint64(&ss.useBy) || !s.ReadUint32(&ss.ageAdd) || !s.Empty() {
		return nil, errors.New("tls: invalid session encoding")
	}
	return ss, nil
}

// sessionState returns a partially filled-out [SessionState] with information
// from the current connection.
func (c *Conn) sessionState() *SessionState {
	return &SessionState{
		version:           c.vers,
		cipherSuite:       c.cipherSuite,
		createdAt:         uint64(c.config.time().Unix()),
		alpnProtocol:      c.clientProtocol,
		peerCertificates:  c.peerCertificates,
		activeCertHandles: c.activeCertHandles,
		ocspResponse:      c.ocspResponse,
		scts:              c.scts,
		isClient:          c.isClient,
		extMasterSecret:   c.extMasterSecret,
		verifiedChains:    c.verifiedChains,
	}
}

// EncryptTicket encrypts a ticket with the [Config]'s configured (or default)
// session ticket keys. It can be used as a [Config.WrapSession] implementation.
func (c *Config) EncryptTicket(cs ConnectionState, ss *SessionState) ([]byte, error) {
	ticketKeys := c.ticketKeys(nil)
	stateBytes, err := ss.Bytes()
	if err != nil {
		return nil, err
	}
	return c.encryptTicket(stateBytes, ticketKeys)
}

func (c *Config) encryptTicket(state []byte, ticketKeys []ticketKey) ([]byte, error) {
	if len(ticketKeys) == 0 {
		return nil, errors.New("tls: internal error: session ticket keys unavailable")
	}

	encrypted := make([]byte, aes.BlockSize+len(state)+sha256.Size)
	iv := encrypted[:aes.BlockSize]
	ciphertext := encrypted[aes.BlockSize : len(encrypted)-sha256.Size]
	authenticated := encrypted[:len(encrypted)-sha256.Size]
	macBytes := encrypted[len(encrypted)-sha256.Size:]

	if _, err := io.ReadFull(c.rand(), iv); err != nil {
		return nil, err
	}
	key := ticketKeys[0]
	block, err := aes.NewCipher(key.aesKey[:])
	if err != nil {
		return nil, errors.New("tls: failed to create cipher while encrypting ticket: " + err.Error())
	}
	cipher.NewCTR(block, iv).XORKeyStream(ciphertext, state)

	mac := hmac.New(sha256.New, key.hmacKey[:])
	mac.Write(authenticated)
	mac.Sum(macBytes[:0])

	return encrypted, nil
}

// DecryptTicket decrypts a ticket encrypted by [Config.EncryptTicket]. It can
// be used as a [Config.UnwrapSession] implementation.
//
// If the ticket can't be decrypted or parsed, DecryptTicket returns (nil, nil).
func (c *Config) DecryptTicket(identity []byte, cs ConnectionState) (*SessionState, error) {
	ticketKeys := c.ticketKeys(nil)
	stateBytes := c.decryptTicket(identity, ticketKeys)
	if stateBytes == nil {
		return nil, nil
	}
	s, err := ParseSessionState(stateBytes)
	if err != nil {
		return nil, nil // drop unparsable tickets on the floor
	}
	return s, nil
}

func (c *Config) decryptTicket(encrypted []byte, ticketKeys []ticketKey) []byte {
	if len(encrypted) < aes.BlockSize+sha256.Size {
		return nil
	}

	iv := encrypted[:aes.BlockSize]
	ciphertext := encrypted[aes.BlockSize : len(encrypted)-sha256.Size]
	authenticated := encrypted[:len(encrypted)-sha256.Size]
	macBytes := encrypted[len(encrypted)-sha256.Size:]

	for _, key := range ticketKeys {
		mac := hmac.New(sha256.New, key.hmacKey[:])
		mac.Write(authenticated)
		expected := mac.Sum(nil)

		if subtle.ConstantTimeCompare(macBytes, expected) != 1 {
			continue
		}

		block, err := aes.NewCipher(key.aesKey[:])
		if err != nil {
			return nil
		}
		plaintext := make([]byte, len(ciphertext))
		cipher.NewCTR(block, iv).XORKeyStream(plaintext, ciphertext)

		return plaintext
	}

	return nil
}

// ClientSessionState contains the state needed by a client to
// resume a previous TLS session.
type ClientSessionState struct {
	session *SessionState
}

// ResumptionState returns the session ticket sent by the server (also known as
// the session's identity) and the state necessary to resume this session.
//
// It can be called by [ClientSessionCache.Put] to serialize (with
// [SessionState.Bytes]) and store the session.
func (cs *ClientSessionState) ResumptionState() (ticket []byte, state *SessionState, err error) {
	if cs == nil || cs.session == nil {
		return nil, nil, nil
	}
	return cs.session.ticket, cs.session, nil
}

// NewResumptionState returns a state value that can be returned by
// [ClientSessionCache.Get] to resume a previous session.
//
// state needs to be returned by [ParseSessionState], and the ticket and session
// state must have been returned by [ClientSessionState.ResumptionState].
func NewResumptionState(ticket []byte, state *SessionState) (*ClientSessionState, error) {
	state.ticket = ticket
	return &ClientSessionState{
		session: state,
	}, nil
}

// // DecryptTicketWith decrypts an encrypted session ticket
// // using a TicketKeys (ie []TicketKey) struct
// //
// // usedOldKey will be true if the key used for decryption is
// // not the first in the []TicketKey slice
// //
// // [uTLS] changed to be made public and take a TicketKeys and use a fake conn receiver
// func DecryptTicketWith(encrypted []byte, tks TicketKeys) (plaintext []byte, usedOldKey bool) {
// 	// create fake conn
// 	c := &Conn{
// 		ticketKeys: tks.ToPrivate(),
// 	}

// 	return c.decryptTicket(encrypted)
// }
