/*
 * Copyright (c) 2019, Psiphon Inc.
 * All rights reserved.
 *
 * Released under utls licence:
 * https://github.com/refraction-networking/utls/blob/master/LICENSE
 */

// This code is a pared down version of:
// https://github.com/Psiphon-Labs/psiphon-tunnel-core/blob/158caea562287284cc3fa5fcd1b3c97b1addf659/psiphon/common/prng/prng.go

package refsrv

import (
	crypto_rand "crypto/rand"
	"encoding/binary"
	"io"
	"math"
	"math/rand"
	"sync"

	"golang.org/x/crypto/hkdf"
	"golang.org/x/crypto/sha3"
)

const (
	PRNGSeedLength = 32
)

// PRNGSeed is a PRNG seed.
type PRNGSeed [PRNGSeedLength]byte

// NewPRNGSeed creates a new PRNG seed using crypto/rand.Read.
func NewPRNGSeed() (*PRNGSeed, error) {
	seed := new(PRNGSeed)
	_, err := crypto_rand.Read(seed[:])
	if err != nil {
		return nil, err
	}
	return seed, nil
}

// newSaltedPRNGSeed creates a new seed derived from an existing seed and a
// salt. A HKDF is applied to the seed and salt.
//
// newSaltedPRNGSeed is intended for use cases where a single seed needs to be
// used in distinct contexts to produce independent random streams.
func newSaltedPRNGSeed(seed *PRNGSeed, salt string) (*PRNGSeed, error) {
	saltedSeed := new(PRNGSeed)
	_, err := io.ReadFull(
		hkdf.New(sha3.New256, seed[:], []byte(salt), nil), saltedSeed[:])
	if err != nil {
		return nil, err
	}
	return saltedSeed, nil
}

// prng is a seeded, unbiased PRNG based on SHAKE256. that is suitable for use
// cases such as obfuscation. Seeding is based on crypto/rand.Read.
//
// This PRNG is _not_ for security use cases including production cryptographic
// key generation.
//
// It is safe to make concurrent calls to a PRNG instance.
//
// PRNG conforms to io.Reader and math/rand.Source, with additional helper
// functions.
type prng struct {
	rand              *rand.Rand
	randomStreamMutex sync.Mutex
	randomStream      sha3.ShakeHash
}

// newPRNG generates a seed and creates a PRNG with that seed.
func newPRNG() (*prng, error) {
	seed, err := NewPRNGSeed()
	if err != nil {
		return nil, err
	}
	return newPRNGWithSeed(seed)
}

// newPRNGWithSeed initializes a new PRNG using an existing seed.
func newPRNGWithSeed(seed *PRNGSeed) (*prng, error) {
	shake := sha3.NewShake256()
	_, err := shake.Write(seed[:])
	if err != nil {
		return nil, err
	}
	p := &prng{
		randomStream: shake,
	}
	p.rand = rand.New(p)
	return p, nil
}

// newPRNGWithSaltedSeed initializes a new PRNG using a seed derived from an
// existing seed and a salt with NewSaltedSeed.
func newPRNGWithSaltedSeed(seed *PRNGSeed, salt string) (*prng, error) {
	saltedSeed, err := newSaltedPRNGSeed(seed, salt)
	if err != nil {
		return nil, err
	}
	return newPRNGWithSeed(saltedSeed)
}

// Read reads random bytes from the PRNG stream into b. Read conforms to
// io.Reader and always returns len(p), nil.
func (p *prng) Read(b []byte) (int, error) {
	p.randomStreamMutex.Lock()
	defer p.randomStreamMutex.Unlock()

	// ShakeHash.Read never returns an error:
	// https://godoc.org/golang.org/x/crypto/sha3#ShakeHash
	_, _ = io.ReadFull(p.randomStream, b)

	return len(b), nil
}

// Int63 is equivalent to math/read.Int63.
func (p *prng) Int63() int64 {
	i := p.Uint64()
	return int64(i & (1<<63 - 1))
}

// Int63 is equivalent to math/read.Uint64.
func (p *prng) Uint64() uint64 {
	var b [8]byte
	p.Read(b[:])
	return binary.BigEndian.Uint64(b[:])
}

// Seed must exist in order to use a PRNG as a math/rand.Source. This call is
// not supported and ignored.
func (p *prng) Seed(_ int64) {
}

// FlipWeightedCoin returns the result of a weighted
// random coin flip. If the weight is 0.5, the outcome
// is equally likely to be true or false. If the weight
// is 1.0, the outcome is always true, and if the
// weight is 0.0, the outcome is always false.
//
// Input weights > 1.0 are treated as 1.0.
func (p *prng) FlipWeightedCoin(weight float64) bool {
	if weight > 1.0 {
		weight = 1.0
	}
	f := float64(p.Int63()) / float64(math.MaxInt64)
	return f > 1.0-weight
}

// Intn is equivalent to math/read.Intn, except it returns 0 if n <= 0
// instead of panicking.
func (p *prng) Intn(n int) int {
	if n <= 0 {
		return 0
	}
	return p.rand.Intn(n)
}

// Int63n is equivalent to math/read.Int63n, except it returns 0 if n <= 0
// instead of panicking.
func (p *prng) Int63n(n int64) int64 {
	if n <= 0 {
		return 0
	}
	return p.rand.Int63n(n)
}

// Intn is equivalent to math/read.Perm.
func (p *prng) Perm(n int) []int {
	return p.rand.Perm(n)
}

// Range selects a random integer in [min, max].
// If min < 0, min is set to 0. If max < min, min is returned.
func (p *prng) Range(min, max int) int {
	if min < 0 {
		min = 0
	}
	if max < min {
		return min
	}
	n := p.Intn(max - min + 1)
	n += min
	return n
}
