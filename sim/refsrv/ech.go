// Copyright 2024 The Go Authors. All rights reserved.
// Use of this source code is governed by a BSD-style
// license that can be found in the LICENSE file.

package refsrv

import (
	"bytes"
	"errors"
	"fmt"
	"slices"
	"strings"

	"github.com/refraction-networking/utls/internal/hpke"

	"golang.org/x/crypto/cryptobyte"
)

// sortedSupportedAEADs is just a sorted version of hpke.SupportedAEADS.
// We need this so that when we insert them into ECHConfigs the ordering
// is stable.
var sortedSupportedAEADs []uint16

func init() {
	for aeadID := range hpke.SupportedAEADs {
		sortedSupportedAEADs = append(sortedSupportedAEADs, aeadID)
	}
	slices.Sort(sortedSupportedAEADs)
}

type echCipher struct {
	KDFID  uint16
	AEADID uint16
}

type echExtension struct {
	Type uint16
	Data []byte
}

type echConfig struct {
	raw []byte

	Version uint16
	Length  uint16

	ConfigID             uint8
	KemID                uint16
	PublicKey            []byte
	SymmetricCipherSuite []echCipher

	MaxNameLength uint8
	PublicName    []byte
	Extensions    []echExtension
}

var errMalformedECHConfig = errors.New("tls: malformed ECHConfigList")

func parseECHConfig(enc []byte) (skip bool, ec echConfig, err error) {
	s := cryptobyte.String(enc)
	ec.raw = []byte(enc)
	if !s.ReadUint16(&ec.Version) {
		return false, echConfig{}, errMalformedECHConfig
	}
	if !s.ReadUint16(&ec.Length) {
		return false, echConfig{}, errMalformedECHConfig
	}
	if len(ec.raw) < int(ec.Length)+4 {
		return false, echConfig{}, errMalformedECHConfig
	}
	ec.raw = ec.raw[:ec.Length+4]
	if ec.Version != extensionEncryptedClientHello {
		s.Skip(int(ec.Length))
		return true, echConfig{}, nil
	}
	if !s.ReadUint8(&ec.ConfigID) {
		return false, echConfig{}, errMalformedECHConfig
	}
	if !s.ReadUint16(&ec.KemID) {
		return false, echConfig{}, errMalformedECHConfig
	}
	if !readUint16LengthPrefixed(&s, &ec.PublicKey) {
		return false, echConfig{}, errMalformedECHConfig
	}
	var cipherSuites cryptobyte.String
	if !s.ReadUint16LengthPrefixed(&cipherSuites) {
		return false, echConfig{}, errMalformedECHConfig
	}
	for !cipherSuites.Empty() {
		var c echCipher
		if !cipherSuites.ReadUint16(&c.KDFID) {
			return false, echConfig{}, errMalformedECHConfig
		}
		if !cipherSuites.ReadUint16(&c.AEADID) {
			return false, echConfig{}, errMalformedECHConfig
		}
		ec.SymmetricCipherSuite = append(ec.SymmetricCipherSuite, c)
	}
	if !s.ReadUint8(&ec.MaxNameLength) {
		return false, echConfig{}, errMalformedECHConfig
	}
	var publicName cryptobyte.String
	if !s.ReadUint8LengthPrefixed(&publicName) {
		return false, echConfig{}, errMalformedECHConfig
	}
	ec.PublicName = publicName
	var extensions cryptobyte.String
	if !s.ReadUint16LengthPrefixed(&extensions) {
		return false, echConfig{}, errMalformedECHConfig
	}
	for !extensions.Empty() {
		var e echExtension
		if !extensions.ReadUint16(&e.Type) {
			return false, echConfig{}, errMalformedECHConfig
		}
		if !extensions.ReadUint16LengthPrefixed((*cryptobyte.String)(&e.Data)) {
			return false, echConfig{}, errMalformedECHConfig
		}
		ec.Extensions = append(ec.Extensions, e)
	}

	return false, ec, nil
}

// parseECHConfigList parses a draft-ietf-tls-esni-18 ECHConfigList, returning a
// slice of parsed ECHConfigs, in the same order they were parsed, or an error
// if the list is malformed.
func parseECHConfigList(data []byte) ([]echConfig, error) {
	s := cryptobyte.String(data)
	var length uint16
	if !s.ReadUint16(&length) {
		return nil, errMalformedECHConfig
	}
	if length != uint16(len(data)-2) {
		return nil, errMalformedECHConfig
	}
	var configs []echConfig
	for len(s) > 0 {
		if len(s) < 4 {
			return nil, errors.New("tls: malformed ECHConfig")
		}
		configLen := uint16(s[2])<<8 | uint16(s[3])
		skip, ec, err := parseECHConfig(s)
		if err != nil {
			return nil, err
		}
		s = s[configLen+4:]
		if !skip {
			configs = append(configs, ec)
		}
	}
	return configs, nil
}

func pickECHConfig(list []echConfig) *echConfig {
	for _, ec := range list {
		if _, ok := hpke.SupportedKEMs[ec.KemID]; !ok {
			continue
		}
		var validSCS bool
		for _, cs := range ec.SymmetricCipherSuite {
			if _, ok := hpke.SupportedAEADs[cs.AEADID]; !ok {
				continue
			}
			if _, ok := hpke.SupportedKDFs[cs.KDFID]; !ok {
				continue
			}
			validSCS = true
			break
		}
		if !validSCS {
			continue
		}
		if !validDNSName(string(ec.PublicName)) {
			continue
		}
		var unsupportedExt bool
		for _, ext := range ec.Extensions {
			// If high order bit is set to 1 the extension is mandatory.
			// Since we don't support any extensions, if we see a mandatory
			// bit, we skip the config.
			if ext.Type&uint16(1<<15) != 0 {
				unsupportedExt = true
			}
		}
		if unsupportedExt {
			continue
		}
		return &ec
	}
	return nil
}

func pickECHCipherSuite(suites []echCipher) (echCipher, error) {
	for _, s := range suites {
		// NOTE: all of the supported AEADs and KDFs are fine, rather than
		// imposing some sort of preference here, we just pick the first valid
		// suite.
		if _, ok := hpke.SupportedAEADs[s.AEADID]; !ok {
			continue
		}
		if _, ok := hpke.SupportedKDFs[s.KDFID]; !ok {
			continue
		}
		return s, nil
	}
	return echCipher{}, errors.New("tls: no supported symmetric ciphersuites for ECH")
}

// [uTLS SECTION BEGIN]
func encodeInnerClientHello(inner *clientHelloMsg, maxNameLength int) ([]byte, error) {
	return encodeInnerClientHelloReorderOuterExts(inner, maxNameLength, nil)
}

// [uTLS SECTION END]

// func encodeInnerClientHello(inner *clientHelloMsg, maxNameLength int) ([]byte, error) {
func encodeInnerClientHelloReorderOuterExts(inner *clientHelloMsg, maxNameLength int, outerExts []uint16) ([]byte, error) { // uTLS
	h, err := inner.marshalMsgReorderOuterExts(true, outerExts)
	if err != nil {
		return nil, err
	}
	h = h[4:] // strip four byte prefix

	var paddingLen int
	if inner.serverName != "" {
		paddingLen = max(0, maxNameLength-len(inner.serverName))
	} else {
		paddingLen = maxNameLength + 9
	}
	paddingLen = 31 - ((len(h) + paddingLen - 1) % 32)

	return append(h, make([]byte, paddingLen)...), nil
}

func skipUint8LengthPrefixed(s *cryptobyte.String) bool {
	var skip uint8
	if !s.ReadUint8(&skip) {
		return false
	}
	return s.Skip(int(skip))
}

func skipUint16LengthPrefixed(s *cryptobyte.String) bool {
	var skip uint16
	if !s.ReadUint16(&skip) {
		return false
	}
	return s.Skip(int(skip))
}

type rawExtension struct {
	extType uint16
	data    []byte
}

func extractRawExtensions(hello *clientHelloMsg) ([]rawExtension, error) {
	s := cryptobyte.String(hello.original)
	if !s.Skip(4+2+32) || // header, version, random
		!skipUint8LengthPrefixed(&s) || // session ID
		!skipUint16LengthPrefixed(&s) || // cipher suites
		!skipUint8LengthPrefixed(&s) { // compression methods
		return nil, errors.New("tls: malformed outer client hello")
	}
	var rawExtensions []rawExtension
	var extensions cryptobyte.String
	if !s.ReadUint16LengthPrefixed(&extensions) {
		return nil, errors.New("tls: malformed outer client hello")
	}

	for !extensions.Empty() {
		var extension uint16
		var extData cryptobyte.String
		if !extensions.ReadUint16(&extension) ||
			!extensions.ReadUint16LengthPrefixed(&extData) {
			return nil, errors.New("tls: invalid inner client hello")
		}
		rawExtensions = append(rawExtensions, rawExtension{extension, extData})
	}
	return rawExtensions, nil
}

func decodeInnerClientHello(outer *clientHelloMsg, encoded []byte) (*clientHelloMsg, error) {
	// Reconstructing the inner client hello from its encoded form is somewhat
	// complicated. It is missing its header (message type and length), session
	// ID, and the extensions may be compressed. Since we need to put the
	// extensions back in the same order as they were in the raw outer hello,
	// and since we don't store the raw extensions, or the order we parsed them
	// in, we need to reparse the raw extensions from the outer hello in order
	// to properly insert them into the inner hello. This _should_ result in raw
	// bytes which match the hello as it was generated by the client.
	innerReader := cryptobyte.String(encoded)
	var versionAndRandom, sessionID, cipherSuites, compressionMethods []byte
	var extensions cryptobyte.String
	if !innerReader.ReadBytes(&versionAndRandom, 2+32) ||
		!readUint8LengthPrefixed(&innerReader, &sessionID) ||
		len(sessionID) != 0 ||
		!readUint16LengthPrefixed(&innerReader, &cipherSuites) ||
		!readUint8LengthPrefixed(&innerReader, &compressionMethods) ||
		!innerReader.ReadUint16LengthPrefixed(&extensions) {
		return nil, errors.New("tls: invalid inner client hello")
	}

	// The specification says we must verify that the trailing padding is all
	// zeros. This is kind of weird for TLS messages, where we generally just
	// throw away any trailing garbage.
	for _, p := range innerReader {
		if p != 0 {
			return nil, errors.New("tls: invalid inner client hello")
		}
	}

	rawOuterExts, err := extractRawExtensions(outer)
	if err != nil {
		return nil, err
	}

	recon := cryptobyte.NewBuilder(nil)
	recon.AddUint8(typeClientHello)
	recon.AddUint24LengthPrefixed(func(recon *cryptobyte.Builder) {
		recon.AddBytes(versionAndRandom)
		recon.AddUint8LengthPrefixed(func(recon *cryptobyte.Builder) {
			recon.AddBytes(outer.sessionId)
		})
		recon.AddUint16LengthPrefixed(func(recon *cryptobyte.Builder) {
			recon.AddBytes(cipherSuites)
		})
		recon.AddUint8LengthPrefixed(func(recon *cryptobyte.Builder) {
			recon.AddBytes(compressionMethods)
		})
		recon.AddUint16LengthPrefixed(func(recon *cryptobyte.Builder) {
			for !extensions.Empty() {
				var extension uint16
				var extData cryptobyte.String
				if !extensions.ReadUint16(&extension) ||
					!extensions.ReadUint16LengthPrefixed(&extData) {
					recon.SetError(errors.New("tls: invalid inner client hello"))
					return
				}
				if extension == extensionECHOuterExtensions {
					if !extData.ReadUint8LengthPrefixed(&extData) {
						recon.SetError(errors.New("tls: invalid inner client hello"))
						return
					}
					var i int
					for !extData.Empty() {
						var extType uint16
						if !extData.ReadUint16(&extType) {
							recon.SetError(errors.New("tls: invalid inner client hello"))
							return
						}
						if extType == extensionEncryptedClientHello {
							recon.SetError(errors.New("tls: invalid outer extensions"))
							return
						}
						for ; i <= len(rawOuterExts); i++ {
							if i == len(rawOuterExts) {
								recon.SetError(errors.New("tls: invalid outer extensions"))
								return
							}
							if rawOuterExts[i].extType == extType {
								break
							}
						}
						recon.AddUint16(rawOuterExts[i].extType)
						recon.AddUint16LengthPrefixed(func(recon *cryptobyte.Builder) {
							recon.AddBytes(rawOuterExts[i].data)
						})
					}
				} else {
					recon.AddUint16(extension)
					recon.AddUint16LengthPrefixed(func(recon *cryptobyte.Builder) {
						recon.AddBytes(extData)
					})
				}
			}
		})
	})

	reconBytes, err := recon.Bytes()
	if err != nil {
		return nil, err
	}
	inner := &clientHelloMsg{}
	if !inner.unmarshal(reconBytes) {
		return nil, errors.New("tls: invalid reconstructed inner client hello")
	}

	if !bytes.Equal(inner.encryptedClientHello, []byte{uint8(innerECHExt)}) {
		return nil, errInvalidECHExt
	}

	if len(inner.supportedVersions) != 1 || (len(inner.supportedVersions) >= 1 && inner.supportedVersions[0] != VersionTLS13) {
		return nil, errors.New("tls: client sent encrypted_client_hello extension and offered incompatible versions")
	}

	return inner, nil
}

func decryptECHPayload(context *hpke.Receipient, hello, payload []byte) ([]byte, error) {
	outerAAD := bytes.Replace(hello[4:], payload, make([]byte, len(payload)), 1)
	return context.Open(outerAAD, payload)
}

func generateOuterECHExt(id uint8, kdfID, aeadID uint16, encodedKey []byte, payload []byte) ([]byte, error) {
	var b cryptobyte.Builder
	b.AddUint8(0) // outer
	b.AddUint16(kdfID)
	b.AddUint16(aeadID)
	b.AddUint8(id)
	b.AddUint16LengthPrefixed(func(b *cryptobyte.Builder) { b.AddBytes(encodedKey) })
	b.AddUint16LengthPrefixed(func(b *cryptobyte.Builder) { b.AddBytes(payload) })
	return b.Bytes()
}

func computeAndUpdateOuterECHExtension(outer, inner *clientHelloMsg, ech *echClientContext, useKey bool) error {
	var encapKey []byte
	if useKey {
		encapKey = ech.encapsulatedKey
	}
	encodedInner, err := encodeInnerClientHello(inner, int(ech.config.MaxNameLength))
	if err != nil {
		return err
	}
	if HostileInner != nil {
		encodedInner = HostileInner(encodedInner)
	}
	// NOTE: the tag lengths for all of the supported AEADs are the same (16
	// bytes), so we have hardcoded it here. If we add support for another AEAD
	// with a different tag length, we will need to change this.
	encryptedLen := len(encodedInner) + 16 // AEAD tag length
	outer.encryptedClientHello, err = generateOuterECHExt(ech.config.ConfigID, ech.kdfID, ech.aeadID, encapKey, make([]byte, encryptedLen))
	if err != nil {
		return err
	}
	serializedOuter, err := outer.marshal()
	if err != nil {
		return err
	}
	serializedOuter = serializedOuter[4:] // strip the four byte prefix
	encryptedInner, err := ech.hpkeContext.Seal(serializedOuter, encodedInner)
	if err != nil {
		return err
	}
	outer.encryptedClientHello, err = generateOuterECHExt(ech.config.ConfigID, ech.kdfID, ech.aeadID, encapKey, encryptedInner)
	if err != nil {
		return err
	}
	return nil
}

// validDNSName is a rather rudimentary check for the validity of a DNS name.
// This is used to check if the public_name in a ECHConfig is valid when we are
// picking a config. This can be somewhat lax because even if we pick a
// valid-looking name, the DNS layer will later reject it anyway.
func validDNSName(name string) bool {
	if len(name) > 253 {
		return false
	}
	labels := strings.Split(name, ".")
	if len(labels) <= 1 {
		return false
	}
	for _, l := range labels {
		labelLen := len(l)
		if labelLen == 0 {
			return false
		}
		for i, r := range l {
			if r == '-' && (i == 0 || i == labelLen-1) {
				return false
			}
			if (r < '0' || r > '9') && (r < 'a' || r > 'z') && (r < 'A' || r > 'Z') && r != '-' {
				return false
			}
		}
	}
	return true
}

// ECHRejectionError is the error type returned when ECH is rejected by a remote
// server. If the server offered a ECHConfigList to use for retries, the
// RetryConfigList field will contain this list.
//
// The client may treat an ECHRejectionError with an empty set of RetryConfigs
// as a secure signal from the server.
type ECHRejectionError struct {
	RetryConfigList []byte
}

func (e *ECHRejectionError) Error() string {
	return "tls: server rejected ECH"
}

var errMalformedECHExt = errors.New("tls: malformed encrypted_client_hello extension")
var errInvalidECHExt = errors.New("tls: client sent invalid encrypted_client_hello extension")

type echExtType uint8

const (
	innerECHExt echExtType = 1
	outerECHExt echExtType = 0
)

func parseECHExt(ext []byte) (echType echExtType, cs echCipher, configID uint8, encap []byte, payload []byte, err error) {
	data := make([]byte, len(ext))
	copy(data, ext)
	s := cryptobyte.String(data)
	var echInt uint8
	if !s.ReadUint8(&echInt) {
		err = errMalformedECHExt
		return
	}
	echType = echExtType(echInt)
	if echType == innerECHExt {
		if !s.Empty() {
			err = errMalformedECHExt
			return
		}
		return echType, cs, 0, nil, nil, nil
	}
	if echType != outerECHExt {
		err = errInvalidECHExt
		return
	}
	if !s.ReadUint16(&cs.KDFID) {
		err = errMalformedECHExt
		return
	}
	if !s.ReadUint16(&cs.AEADID) {
		err = errMalformedECHExt
		return
	}
	if !s.ReadUint8(&configID) {
		err = errMalformedECHExt
		return
	}
	if !readUint16LengthPrefixed(&s, &encap) {
		err = errMalformedECHExt
		return
	}
	if !readUint16LengthPrefixed(&s, &payload) {
		err = errMalformedECHExt
		return
	}

	// NOTE: clone encap and payload so that mutating them does not mutate the
	// raw extension bytes.
	return echType, cs, configID, bytes.Clone(encap), bytes.Clone(payload), nil
}

func marshalEncryptedClientHelloConfigList(configs []EncryptedClientHelloKey) ([]byte, error) {
	builder := cryptobyte.NewBuilder(nil)
	builder.AddUint16LengthPrefixed(func(builder *cryptobyte.Builder) {
		for _, c := range configs {
			builder.AddBytes(c.Config)
		}
	})
	return builder.Bytes()
}

func (c *Conn) processECHClientHello(outer *clientHelloMsg) (*clientHelloMsg, *echServerContext, error) {
	echType, echCiphersuite, configID, encap, payload, err := parseECHExt(outer.encryptedClientHello)
	if err != nil {
		if errors.Is(err, errInvalidECHExt) {
			c.sendAlert(alertIllegalParameter)
		} else {
			c.sendAlert(alertDecodeError)
		}

		return nil, nil, errInvalidECHExt
	}

	if echType == innerECHExt {
		return outer, &echServerContext{inner: true}, nil
	}

	if len(c.config.EncryptedClientHelloKeys) == 0 {
		return outer, nil, nil
	}

	for _, echKey := range c.config.EncryptedClientHelloKeys {
		skip, config, err := parseECHConfig(echKey.Config)
		if err != nil || skip {
			c.sendAlert(alertInternalError)
			return nil, nil, fmt.Errorf("tls: invalid EncryptedClientHelloKeys Config: %s", err)
		}
		if skip {
			continue
		}
		echPriv, err := hpke.ParseHPKEPrivateKey(config.KemID, echKey.PrivateKey)
		if err != nil {
			c.sendAlert(alertInternalError)
			return nil, nil, fmt.Errorf("tls: invalid EncryptedClientHelloKeys PrivateKey: %s", err)
		}
		info := append([]byte("tls ech\x00"), echKey.Config...)
		hpkeContext, err := hpke.SetupReceipient(hpke.DHKEM_X25519_HKDF_SHA256, echCiphersuite.KDFID, echCiphersuite.AEADID, echPriv, info, encap)
		if err != nil {
			// attempt next trial decryption
			continue
		}

		encodedInner, err := decryptECHPayload(hpkeContext, outer.original, payload)
		if err != nil {
			// attempt next trial decryption
			continue
		}

		// NOTE: we do not enforce that the sent server_name matches the ECH
		// configs PublicName, since this is not particularly important, and
		// the client already had to know what it was in order to properly
		// encrypt the payload. This is only a MAY in the spec, so we're not
		// doing anything revolutionary.

		echInner, err := decodeInnerClientHello(outer, encodedInner)
		if err != nil {
			c.sendAlert(alertIllegalParameter)
			return nil, nil, errInvalidECHExt
		}

		c.echAccepted = true

		return echInner, &echServerContext{
			hpkeContext: hpkeContext,
			configID:    configID,
			ciphersuite: echCiphersuite,
		}, nil
	}

	return outer, nil, nil
}

func buildRetryConfigList(keys []EncryptedClientHelloKey) ([]byte, error) {
	var atLeastOneRetryConfig bool
	var retryBuilder cryptobyte.Builder
	retryBuilder.AddUint16LengthPrefixed(func(b *cryptobyte.Builder) {
		for _, c := range keys {
			if !c.SendAsRetry {
				continue
			}
			atLeastOneRetryConfig = true
			b.AddBytes(c.Config)
		}
	})
	if !atLeastOneRetryConfig {
		return nil, nil
	}
	return retryBuilder.Bytes()
}
