// Copyright 2010 The Go Authors. All rights reserved.
// Use of this source code is governed by a BSD-style
// license that can be found in the LICENSE file.

package refsrv

import (
	"crypto"
	"crypto/aes"
	"crypto/cipher"
	"crypto/des"
	"crypto/hmac"
	"crypto/rc4"
	"crypto/sha1"
	"crypto/sha256"
	"fmt"
	"hash"
	"runtime"
	_ "unsafe" // for linkname

	"github.com/refraction-networking/utls/internal/boring"
	"golang.org/x/sys/cpu"

	"golang.org/x/crypto/chacha20poly1305"
)

// CipherSuite is a TLS cipher suite. Note that most functions in this package
// accept and expose cipher suite IDs instead of this type.
type CipherSuite struct {
	ID   uint16
	Name string

	// Supported versions is the list of TLS protocol versions that can
	// negotiate this cipher suite.
	SupportedVersions []uint16

	// Insecure is true if the cipher suite has known security issues
	// due to its primitives, design, or implementation.
	Insecure bool
}

var (
	supportedUpToTLS12 = []uint16{VersionTLS10, VersionTLS11, VersionTLS12}
	supportedOnlyTLS12 = []uint16{VersionTLS12}
	supportedOnlyTLS13 = []uint16{VersionTLS13}
)

// CipherSuites returns a list of cipher suites currently implemented by this
// package, excluding those with security issues, which are returned by
// [InsecureCipherSuites].
//
// The list is sorted by ID. Note that the default cipher suites selected by
// this package might depend on logic that can't be captured by a static list,
// and might not match those returned by this function.
func CipherSuites() []*CipherSuite {
	return []*CipherSuite{
		{TLS_AES_128_GCM_SHA256, "TLS_AES_128_GCM_SHA256", supportedOnlyTLS13, false},
		{TLS_AES_256_GCM_SHA384, "TLS_AES_256_GCM_SHA384", supportedOnlyTLS13, false},
		{TLS_CHACHA20_POLY1305_SHA256, "TLS_CHACHA20_POLY1305_SHA256", supportedOnlyTLS13, false},

		{TLS_ECDHE_ECDSA_WITH_AES_128_CBC_SHA, "TLS_ECDHE_ECDSA_WITH_AES_128_CBC_SHA", supportedUpToTLS12, false},
		{TLS_ECDHE_ECDSA_WITH_AES_256_CBC_SHA, "TLS_ECDHE_ECDSA_WITH_AES_256_CBC_SHA", supportedUpToTLS12, false},
		{TLS_ECDHE_RSA_WITH_AES_128_CBC_SHA, "TLS_ECDHE_RSA_WITH_AES_128_CBC_SHA", supportedUpToTLS12, false},
		{TLS_ECDHE_RSA_WITH_AES_256_CBC_SHA, "TLS_ECDHE_RSA_WITH_AES_256_CBC_SHA", supportedUpToTLS12, false},
		{TLS_ECDHE_ECDSA_WITH_AES_128_GCM_SHA256, "TLS_ECDHE_ECDSA_WITH_AES_128_GCM_SHA256", supportedOnlyTLS12, false},
		{TLS_ECDHE_ECDSA_WITH_AES_256_GCM_SHA384, "TLS_ECDHE_ECDSA_WITH_AES_256_GCM_SHA384", supportedOnlyTLS12, false},
		{TLS_ECDHE_RSA_WITH_AES_128_GCM_SHA256, "TLS_ECDHE_RSA_WITH_AES_128_GCM_SHA256", supportedOnlyTLS12, false},
		{TLS_ECDHE_RSA_WITH_AES_256_GCM_SHA384, "TLS_ECDHE_RSA_WITH_AES_256_GCM_SHA384", supportedOnlyTLS12, false},
		{TLS_ECDHE_RSA_WITH_CHACHA20_POLY1305_SHA256, "TLS_ECDHE_RSA_WITH_CHACHA20_POLY1305_SHA256", supportedOnlyTLS12, false},
		{TLS_ECDHE_ECDSA_WITH_CHACHA20_POLY1305_SHA256, "TLS_ECDHE_ECDSA_WITH_CHACHA20_POLY1305_SHA256", supportedOnlyTLS12, false},
	}
}

// InsecureCipherSuites returns a list of cipher suites currently implemented by
// this package and which have security issues.
//
// Most applications should not use the cipher suites in this list, and should
// only use those returned by [CipherSuites].
func InsecureCipherSuites() []*CipherSuite {
	// This list includes RC4, CBC_SHA256, and 3DES cipher suites. See
	// cipherSuitesPreferenceOrder for details.
	return []*CipherSuite{
		{TLS_RSA_WITH_RC4_128_SHA, "TLS_RSA_WITH_RC4_128_SHA", supportedUpToTLS12, true},
		{TLS_RSA_WITH_3DES_EDE_CBC_SHA, "TLS_RSA_WITH_3DES_EDE_CBC_SHA", supportedUpToTLS12, true},
		{TLS_RSA_WITH_AES_128_CBC_SHA, "TLS_RSA_WITH_AES_128_CBC_SHA", supportedUpToTLS12, true},
		{TLS_RSA_WITH_AES_256_CBC_SHA, "TLS_RSA_WITH_AES_256_CBC_SHA", supportedUpToTLS12, true},
		{TLS_RSA_WITH_AES_128_CBC_SHA256, "TLS_RSA_WITH_AES_128_CBC_SHA256", supportedOnlyTLS12, true},
		{TLS_RSA_WITH_AES_128_GCM_SHA256, "TLS_RSA_WITH_AES_128_GCM_SHA256", supportedOnlyTLS12, true},
		{TLS_RSA_WITH_AES_256_GCM_SHA384, "TLS_RSA_WITH_AES_256_GCM_SHA384", supportedOnlyTLS12, true},
		{TLS_ECDHE_ECDSA_WITH_RC4_128_SHA, "TLS_ECDHE_ECDSA_WITH_RC4_128_SHA", supportedUpToTLS12, true},
		{TLS_ECDHE_RSA_WITH_RC4_128_SHA, "TLS_ECDHE_RSA_WITH_RC4_128_SHA", supportedUpToTLS12, true},
		{TLS_ECDHE_RSA_WITH_3DES_EDE_CBC_SHA, "TLS_ECDHE_RSA_WITH_3DES_EDE_CBC_SHA", supportedUpToTLS12, true},
		{TLS_ECDHE_ECDSA_WITH_AES_128_CBC_SHA256, "TLS_ECDHE_ECDSA_WITH_AES_128_CBC_SHA256", supportedOnlyTLS12, true},
		{TLS_ECDHE_RSA_WITH_AES_128_CBC_SHA256, "TLS_ECDHE_RSA_WITH_AES_128_CBC_SHA256", supportedOnlyTLS12, true},
	}
}

// CipherSuiteName returns the standard name for the passed cipher suite ID
// (e.g. "TLS_ECDHE_ECDSA_WITH_AES_128_GCM_SHA256"), or a fallback representation
// of the ID value if the cipher suite is not implemented by this package.
func CipherSuiteName(id uint16) string {
	for _, c := range CipherSuites() {
		if c.ID == id {
			return c.Name
		}
	}
	for _, c := range InsecureCipherSuites() {
		if c.ID == id {
			return c.Name
		}
	}
	return fmt.Sprintf("0x%04X", id)
}

const (
	// suiteECDHE indicates that the cipher suite involves elliptic curve
	// Diffie-Hellman. This means that it should only be selected when the
	// client indicates that it supports ECC with a curve and point format
	// that we're happy with.
	suiteECDHE = 1 << iota
	// suiteECSign indicates that the cipher suite involves an ECDSA or
	// EdDSA signature and therefore may only be selected when the server's
	// certificate is ECDSA or EdDSA. If this is not set then the cipher suite
	// is RSA based.
	suiteECSign
	// suiteTLS12 indicates that the cipher suite should only be advertised
	// and accepted when using TLS 1.2.
	suiteTLS12
	// suiteSHA384 indicates that the cipher suite uses SHA384 as the
	// handshake hash.
	suiteSHA384
)

// A cipherSuite is a TLS 1.0–1.2 cipher suite, and defines the key exchange
// mechanism, as well as the cipher+MAC pair or the AEAD.
type cipherSuite struct {
	id uint16
	// the lengths, in bytes, of the key material needed for each component.
	keyLen int
	macLen int
	ivLen  int
	ka     func(version uint16) keyAgreement
	// flags is a bitmask of the suite* values, above.
	flags  int
	cipher func(key, iv []byte, isRead bool) any
	mac    func(key []byte) hash.Hash
	aead   func(key, fixedNonce []byte) aead
}

var cipherSuites = []*cipherSuite{ // TODO: replace with a map, since the order doesn't matter.
	{TLS_ECDHE_RSA_WITH_CHACHA20_POLY1305, 32, 0, 12, ecdheRSAKA, suiteECDHE | suiteTLS12, nil, nil, aeadChaCha20Poly1305},
	{TLS_ECDHE_ECDSA_WITH_CHACHA20_POLY1305, 32, 0, 12, ecdheECDSAKA, suiteECDHE | suiteECSign | suiteTLS12, nil, nil, aeadChaCha20Poly1305},
	{TLS_ECDHE_RSA_WITH_AES_128_GCM_SHA256, 16, 0, 4, ecdheRSAKA, suiteECDHE | suiteTLS12, nil, nil, aeadAESGCM},
	{TLS_ECDHE_ECDSA_WITH_AES_128_GCM_SHA256, 16, 0, 4, ecdheECDSAKA, suiteECDHE | suiteECSign | suiteTLS12, nil, nil, aeadAESGCM},
	{TLS_ECDHE_RSA_WITH_AES_256_GCM_SHA384, 32, 0, 4, ecdheRSAKA, suiteECDHE | suiteTLS12 | suiteSHA384, nil, nil, aeadAESGCM},
	{TLS_ECDHE_ECDSA_WITH_AES_256_GCM_SHA384, 32, 0, 4, ecdheECDSAKA, suiteECDHE | suiteECSign | suiteTLS12 | suiteSHA384, nil, nil, aeadAESGCM},
	{TLS_ECDHE_RSA_WITH_AES_128_CBC_SHA256, 16, 32, 16, ecdheRSAKA, suiteECDHE | suiteTLS12, cipherAES, macSHA256, nil},
	{TLS_ECDHE_RSA_WITH_AES_128_CBC_SHA, 16, 20, 16, ecdheRSAKA, suiteECDHE, cipherAES, macSHA1, nil},
	{TLS_ECDHE_ECDSA_WITH_AES_128_CBC_SHA256, 16, 32, 16, ecdheECDSAKA, suiteECDHE | suiteECSign | suiteTLS12, cipherAES, macSHA256, nil},
	{TLS_ECDHE_ECDSA_WITH_AES_128_CBC_SHA, 16, 20, 16, ecdheECDSAKA, suiteECDHE | suiteECSign, cipherAES, macSHA1, nil},
	{TLS_ECDHE_RSA_WITH_AES_256_CBC_SHA, 32, 20, 16, ecdheRSAKA, suiteECDHE, cipherAES, macSHA1, nil},
	{TLS_ECDHE_ECDSA_WITH_AES_256_CBC_SHA, 32, 20, 16, ecdheECDSAKA, suiteECDHE | suiteECSign, cipherAES, macSHA1, nil},
	{TLS_RSA_WITH_AES_128_GCM_SHA256, 16, 0, 4, rsaKA, suiteTLS12, nil, nil, aeadAESGCM},
	{TLS_RSA_WITH_AES_256_GCM_SHA384, 32, 0, 4, rsaKA, suiteTLS12 | suiteSHA384, nil, nil, aeadAESGCM},
	{TLS_RSA_WITH_AES_128_CBC_SHA256, 16, 32, 16, rsaKA, suiteTLS12, cipherAES, macSHA256, nil},
	{TLS_RSA_WITH_AES_128_CBC_SHA, 16, 20, 16, rsaKA, 0, cipherAES, macSHA1, nil},
	{TLS_RSA_WITH_AES_256_CBC_SHA, 32, 20, 16, rsaKA, 0, cipherAES, macSHA1, nil},
	{TLS_ECDHE_RSA_WITH_3DES_EDE_CBC_SHA, 24, 20, 8, ecdheRSAKA, suiteECDHE, cipher3DES, macSHA1, nil},
	{TLS_RSA_WITH_3DES_EDE_CBC_SHA, 24, 20, 8, rsaKA, 0, cipher3DES, macSHA1, nil},
	{TLS_RSA_WITH_RC4_128_SHA, 16, 20, 0, rsaKA, 0, cipherRC4, macSHA1, nil},
	{TLS_ECDHE_RSA_WITH_RC4_128_SHA, 16, 20, 0, ecdheRSAKA, suiteECDHE, cipherRC4, macSHA1, nil},
	{TLS_ECDHE_ECDSA_WITH_RC4_128_SHA, 16, 20, 0, ecdheECDSAKA, suiteECDHE | suiteECSign, cipherRC4, macSHA1, nil},
}

// selectCipherSuite returns the first TLS 1.0–1.2 cipher suite from ids which
// is also in supportedIDs and passes the ok filter.
func selectCipherSuite(ids, supportedIDs []uint16, ok func(*cipherSuite) bool) *cipherSuite {
	for _, id := range ids {
		candidate := cipherSuiteByID(id)
		if candidate == nil || !ok(candidate) {
			continue
		}

		for _, suppID := range supportedIDs {
			if id == suppID {
				return candidate
			}
		}
	}
	return nil
}

// A cipherSuiteTLS13 defines only the pair of the AEAD algorithm and hash
// algorithm to be used with HKDF. See RFC 8446, Appendix B.4.
type cipherSuiteTLS13 struct {
	id     uint16
	keyLen int
	aead   func(key, fixedNonce []byte) aead
	hash   crypto.Hash
}

// cipherSuitesTLS13 should be an internal detail,
// but widely used packages access it using linkname.
// Notable members of the hall of shame include:
//   - github.com/quic-go/quic-go
//   - github.com/sagernet/quic-go
//
// Do not remove or change the type signature.
// See go.dev/issue/67401.
//
//go:linkname cipherSuitesTLS13
var cipherSuitesTLS13 = []*cipherSuiteTLS13{ // TODO: replace with a map.
	{TLS_AES_128_GCM_SHA256, 16, aeadAESGCMTLS13, crypto.SHA256},
	{TLS_CHACHA20_POLY1305_SHA256, 32, aeadChaCha20Poly1305, crypto.SHA256},
	{TLS_AES_256_GCM_SHA384, 32, aeadAESGCMTLS13, crypto.SHA384},
}

// cipherSuitesPreferenceOrder is the order in which we'll select (on the
// server) or advertise (on the client) TLS 1.0–1.2 cipher suites.
//
// Cipher suites are filtered but not reordered based on the application and
// peer's preferences, meaning we'll never select a suite lower in this list if
// any higher one is available. This makes it more defensible to keep weaker
// cipher suites enabled, especially on the server side where we get the last
// word, since there are no known downgrade attacks on cipher suites selection.
//
// The list is sorted by applying the following priority rules, stopping at the
// first (most important) applicable one:
//
//   - Anything else comes before RC4
//
//     RC4 has practically exploitable biases. See https://www.rc4nomore.com.
//
//   - Anything else comes before CBC_SHA256
//
//     SHA-256 variants of the CBC ciphersuites don't implement any Lucky13
//     countermeasures. See https://www.isg.rhul.ac.uk/tls/Lucky13.html and
//     https://www.imperialviolet.org/2013/02/04/luckythirteen.html.
//
//   - Anything else comes before 3DES
//
//     3DES has 64-bit blocks, which makes it fundamentally susceptible to
//     birthday attacks. See https://sweet32.info.
//
//   - ECDHE comes before anything else
//
//     Once we got the broken stuff out of the way, the most important
//     property a cipher suite can have is forward secrecy. We don't
//     implement FFDHE, so that means ECDHE.
//
//   - AEADs come before CBC ciphers
//
//     Even with Lucky13 countermeasures, MAC-then-Encrypt CBC cipher suites
//     are fundamentally fragile, and suffered from an endless sequence of
//     padding oracle attacks. See https://eprint.iacr.org/2015/1129,
//     https://www.imperialviolet.org/2014/12/08/poodleagain.html, and
//     https://blog.cloudflare.com/yet-another-padding-oracle-in-openssl-cbc-ciphersuites/.
//
//   - AES comes before ChaCha20
//
//     When AES hardware is available, AES-128-GCM and AES-256-GCM are faster
//     than ChaCha20Poly1305.
//
//     When AES hardware is not available, AES-128-GCM is one or more of: much
//     slower, way more complex, and less safe (because not constant time)
//     than ChaCha20Poly1305.
//
//     We use this list if we think both peers have AES hardware, and
//     cipherSuitesPreferenceOrderNoAES otherwise.
//
//   - AES-128 comes before AES-256
//
//     The only potential advantages of AES-256 are better multi-target
//     margins, and hypothetical post-quantum properties. Neither apply to
//     TLS, and AES-256 is slower due to its four extra rounds (which don't
//     contribute to the advantages above).
//
//   - ECDSA comes before RSA
//
//     The relative order of ECDSA and RSA cipher suites doesn't matter,
//     as they depend on the certificate. Pick one to get a stable order.
var cipherSuitesPreferenceOrder = []uint16{
	// AEADs w/ ECDHE
	TLS_ECDHE_ECDSA_WITH_AES_128_GCM_SHA256, TLS_ECDHE_RSA_WITH_AES_128_GCM_SHA256,
	TLS_ECDHE_ECDSA_WITH_AES_256_GCM_SHA384, TLS_ECDHE_RSA_WITH_AES_256_GCM_SHA384,
	TLS_ECDHE_ECDSA_WITH_CHACHA20_POLY1305, TLS_ECDHE_RSA_WITH_CHACHA20_POLY1305,

	// CBC w/ ECDHE
	TLS_ECDHE_ECDSA_WITH_AES_128_CBC_SHA, TLS_ECDHE_RSA_WITH_AES_128_CBC_SHA,
	TLS_ECDHE_ECDSA_WITH_AES_256_CBC_SHA, TLS_ECDHE_RSA_WITH_AES_256_CBC_SHA,

	// AEADs w/o ECDHE
	TLS_RSA_WITH_AES_128_GCM_SHA256,
	TLS_RSA_WITH_AES_256_GCM_SHA384,

	// CBC w/o ECDHE
	TLS_RSA_WITH_AES_128_CBC_SHA,
	TLS_RSA_WITH_AES_256_CBC_SHA,

	// 3DES
	TLS_ECDHE_RSA_WITH_3DES_EDE_CBC_SHA,
	TLS_RSA_WITH_3DES_EDE_CBC_SHA,

	// CBC_SHA256
	TLS_ECDHE_ECDSA_WITH_AES_128_CBC_SHA256, TLS_ECDHE_RSA_WITH_AES_128_CBC_SHA256,
	TLS_RSA_WITH_AES_128_CBC_SHA256,

	// RC4
	TLS_ECDHE_ECDSA_WITH_RC4_128_SHA, TLS_ECDHE_RSA_WITH_RC4_128_SHA,
	TLS_RSA_WITH_RC4_128_SHA,
}

var cipherSuitesPreferenceOrderNoAES = []uint16{
	// ChaCha20Poly1305
	TLS_ECDHE_ECDSA_WITH_CHACHA20_POLY1305, TLS_ECDHE_RSA_WITH_CHACHA20_POLY1305,

	// AES-GCM w/ ECDHE
	TLS_ECDHE_ECDSA_WITH_AES_128_GCM_SHA256, TLS_ECDHE_RSA_WITH_AES_128_GCM_SHA256,
	TLS_ECDHE_ECDSA_WITH_AES_256_GCM_SHA384, TLS_ECDHE_RSA_WITH_AES_256_GCM_SHA384,

	// The rest of cipherSuitesPreferenceOrder.
	TLS_ECDHE_ECDSA_WITH_AES_128_CBC_SHA, TLS_ECDHE_RSA_WITH_AES_128_CBC_SHA,
	TLS_ECDHE_ECDSA_WITH_AES_256_CBC_SHA, TLS_ECDHE_RSA_WITH_AES_256_CBC_SHA,
	TLS_RSA_WITH_AES_128_GCM_SHA256,
	TLS_RSA_WITH_AES_256_GCM_SHA384,
	TLS_RSA_WITH_AES_128_CBC_SHA,
	TLS_RSA_WITH_AES_256_CBC_SHA,
	TLS_ECDHE_RSA_WITH_3DES_EDE_CBC_SHA,
	TLS_RSA_WITH_3DES_EDE_CBC_SHA,
	TLS_ECDHE_ECDSA_WITH_AES_128_CBC_SHA256, TLS_ECDHE_RSA_WITH_AES_128_CBC_SHA256,
	TLS_RSA_WITH_AES_128_CBC_SHA256,
	TLS_ECDHE_ECDSA_WITH_RC4_128_SHA, TLS_ECDHE_RSA_WITH_RC4_128_SHA,
	TLS_RSA_WITH_RC4_128_SHA,
}

// disabledCipherSuites are not used unless explicitly listed in Config.CipherSuites.
var disabledCipherSuites = map[uint16]bool{
	// CBC_SHA256
	TLS_ECDHE_ECDSA_WITH_AES_128_CBC_SHA256: true,
	TLS_ECDHE_RSA_WITH_AES_128_CBC_SHA256:   true,
	TLS_RSA_WITH_AES_128_CBC_SHA256:         true,

	// RC4
	TLS_ECDHE_ECDSA_WITH_RC4_128_SHA: true,
	TLS_ECDHE_RSA_WITH_RC4_128_SHA:   true,
	TLS_RSA_WITH_RC4_128_SHA:         true,
}

// rsaKexCiphers contains the ciphers which use RSA based key exchange,
// which we also disable by default unless a GODEBUG is set.
var rsaKexCiphers = map[uint16]bool{
	TLS_RSA_WITH_RC4_128_SHA:        true,
	TLS_RSA_WITH_3DES_EDE_CBC_SHA:   true,
	TLS_RSA_WITH_AES_128_CBC_SHA:    true,
	TLS_RSA_WITH_AES_256_CBC_SHA:    true,
	TLS_RSA_WITH_AES_128_CBC_SHA256: true,
	TLS_RSA_WITH_AES_128_GCM_SHA256: true,
	TLS_RSA_WITH_AES_256_GCM_SHA384: true,
}

// tdesCiphers contains 3DES ciphers,
// which we also disable by default unless a GODEBUG is set.
var tdesCiphers = map[uint16]bool{
	TLS_ECDHE_RSA_WITH_3DES_EDE_CBC_SHA: true,
	TLS_RSA_WITH_3DES_EDE_CBC_SHA:       true,
}

var (
	// Keep in sync with crypto/internal/fips140/aes/gcm.supportsAESGCM.
	hasGCMAsmAMD64 = cpu.X86.HasAES && cpu.X86.HasPCLMULQDQ && cpu.X86.HasSSE41 && cpu.X86.HasSSSE3
	hasGCMAsmARM64 = cpu.ARM64.HasAES && cpu.ARM64.HasPMULL
	hasGCMAsmS390X = cpu.S390X.HasAES && cpu.S390X.HasAESCTR && cpu.S390X.HasGHASH
	hasGCMAsmPPC64 = runtime.GOARCH == "ppc64" || runtime.GOARCH == "ppc64le"

	hasAESGCMHardwareSupport = hasGCMAsmAMD64 || hasGCMAsmARM64 || hasGCMAsmS390X || hasGCMAsmPPC64
)

var aesgcmCiphers = map[uint16]bool{
	// TLS 1.2
	TLS_ECDHE_RSA_WITH_AES_128_GCM_SHA256:   true,
	TLS_ECDHE_RSA_WITH_AES_256_GCM_SHA384:   true,
	TLS_ECDHE_ECDSA_WITH_AES_128_GCM_SHA256: true,
	TLS_ECDHE_ECDSA_WITH_AES_256_GCM_SHA384: true,
	// TLS 1.3
	TLS_AES_128_GCM_SHA256: true,
	TLS_AES_256_GCM_SHA384: true,
}

// aesgcmPreferred returns whether the first known cipher in the preference list
// is an AES-GCM cipher, implying the peer has hardware support for it.
func aesgcmPreferred(ciphers []uint16) bool {
	for _, cID := range ciphers {
		if c := cipherSuiteByID(cID); c != nil {
			return aesgcmCiphers[cID]
		}
		if c := cipherSuiteTLS13ByID(cID); c != nil {
			return aesgcmCiphers[cID]
		}
	}
	return false
}

func cipherRC4(key, iv []byte, isRead bool) any {
	cipher, _ := rc4.NewCipher(key)
	return cipher
}

func cipher3DES(key, iv []byte, isRead bool) any {
	block, _ := des.NewTripleDESCipher(key)
	if isRead {
		return cipher.NewCBCDecrypter(block, iv)
	}
	return cipher.NewCBCEncrypter(block, iv)
}

func cipherAES(key, iv []byte, isRead bool) any {
	block, _ := aes.NewCipher(key)
	if isRead {
		return cipher.NewCBCDecrypter(block, iv)
	}
	return cipher.NewCBCEncrypter(block, iv)
}

// macSHA1 returns a SHA-1 based constant time MAC.
func macSHA1(key []byte) hash.Hash {
	h := sha1.New
	// The BoringCrypto SHA1 does not have a constant-time
	// checksum function, so don't try to use it.
	if !boring.Enabled {
		h = newConstantTimeHash(h)
	}
	return hmac.New(h, key)
}

// macSHA256 returns a SHA-256 based MAC. This is only supported in TLS 1.2 and
// is currently only used in disabled-by-default cipher suites.
func macSHA256(key []byte) hash.Hash {
	return hmac.New(sha256.New, key)
}

type aead interface {
	cipher.AEAD

	// explicitNonceLen returns the number of bytes of explicit nonce
	// included in each record. This is eight for older AEADs and
	// zero for modern ones.
	explicitNonceLen() int
}

const (
	aeadNonceLength   = 12
	noncePrefixLength = 4
)

// prefixNonceAEAD wraps an AEAD and prefixes a fixed portion of the nonce to
// each call.
type prefixNonceAEAD struct {
	// nonce contains the fixed part of the nonce in the first four bytes.
	nonce [aeadNonceLength]byte
	aead  cipher.AEAD
}

func (f *prefixNonceAEAD) NonceSize() int        { return aeadNonceLength - noncePrefixLength }
func (f *prefixNonceAEAD) Overhead() int         { return f.aead.Overhead() }
func (f *prefixNonceAEAD) explicitNonceLen() int { return f.NonceSize() }

func (f *prefixNonceAEAD) Seal(out, nonce, plaintext, additionalData []byte) []byte {
	copy(f.nonce[4:], nonce)
	return f.aead.Seal(out, f.nonce[:], plaintext, additionalData)
}

func (f *prefixNonceAEAD) Open(out, nonce, ciphertext, additionalData []byte) ([]byte, error) {
	copy(f.nonce[4:], nonce)
	return f.aead.Open(out, f.nonce[:], ciphertext, additionalData)
}

// xorNonceAEAD wraps an AEAD by XORing in a fixed pattern to the nonce
// before each call.
type xorNonceAEAD struct {
	nonceMask [aeadNonceLength]byte
	aead      cipher.AEAD
}

func (f *xorNonceAEAD) NonceSize() int        { return 8 } // 64-bit sequence number
func (f *xorNonceAEAD) Overhead() int         { return f.aead.Overhead() }
func (f *xorNonceAEAD) explicitNonceLen() int { return 0 }

func (f *xorNonceAEAD) Seal(out, nonce, plaintext, additionalData []byte) []byte {
	for i, b := range nonce {
		f.nonceMask[4+i] ^= b
	}
	result := f.aead.Seal(out, f.nonceMask[:], plaintext, additionalData)
	for i, b := range nonce {
		f.nonceMask[4+i] ^= b
	}

	return result
}

func (f *xorNonceAEAD) Open(out, nonce, ciphertext, additionalData []byte) ([]byte, error) {
	for i, b := range nonce {
		f.nonceMask[4+i] ^= b
	}
	result, err := f.aead.Open(out, f.nonceMask[:], ciphertext, additionalData)
	for i, b := range nonce {
		f.nonceMask[4+i] ^= b
	}

	return result, err
}

func aeadAESGCM(key, noncePrefix []byte) aead {
	if len(noncePrefix) != noncePrefixLength {
		panic("tls: internal error: wrong nonce length")
	}
	aes, err := aes.NewCipher(key)
	if err != nil {
		panic(err)
	}
	var aead cipher.AEAD
	if boring.Enabled {
		aead, err = boring.NewGCMTLS(aes)
	} else {
		boring.Unreachable()
		// [uTLS] SECTION BEGIN
		// aead, err = gcm.NewGCMForTLS12(aes.(*fipsaes.Block))
		aead, err = cipher.NewGCM(aes)
		// [uTLS] SECTION END
	}
	if err != nil {
		panic(err)
	}

	ret := &prefixNonceAEAD{aead: aead}
	copy(ret.nonce[:], noncePrefix)
	return ret
}

// aeadAESGCMTLS13 should be an internal detail,
// but widely used packages access it using linkname.
// Notable members of the hall of shame include:
//   - github.com/xtls/xray-core
//   - github.com/v2fly/v2ray-core
//
// Do not remove or change the type signature.
// See go.dev/issue/67401.
//
//go:linkname aeadAESGCMTLS13
func aeadAESGCMTLS13(key, nonceMask []byte) aead {
	if len(nonceMask) != aeadNonceLength {
		panic("tls: internal error: wrong nonce length")
	}
	aes, err := aes.NewCipher(key)
	if err != nil {
		panic(err)
	}
	var aead cipher.AEAD
	if boring.Enabled {
		aead, err = boring.NewGCMTLS13(aes)
	} else {
		boring.Unreachable()
		// [uTLS] SECTION BEGIN
		// aead, err = gcm.NewGCMForTLS13(aes.(*fipsaes.Block))
		aead, err = cipher.NewGCM(aes)
		// [uTLS] SECTION END
	}
	if err != nil {
		panic(err)
	}

	ret := &xorNonceAEAD{aead: aead}
	copy(ret.nonceMask[:], nonceMask)
	return ret
}

func aeadChaCha20Poly1305(key, nonceMask []byte) aead {
	if len(nonceMask) != aeadNonceLength {
		panic("tls: internal error: wrong nonce length")
	}
	aead, err := chacha20poly1305.New(key)
	if err != nil {
		panic(err)
	}

	ret := &xorNonceAEAD{aead: aead}
	copy(ret.nonceMask[:], nonceMask)
	return ret
}

type constantTimeHash interface {
	hash.Hash
	ConstantTimeSum(b []byte) []byte
}

// cthWrapper wraps any hash.Hash that implements ConstantTimeSum, and replaces
// with that all calls to Sum. It's used to obtain a ConstantTimeSum-based HMAC.
type cthWrapper struct {
	h constantTimeHash
}

func (c *cthWrapper) Size() int                   { return c.h.Size() }
func (c *cthWrapper) BlockSize() int              { return c.h.BlockSize() }
func (c *cthWrapper) Reset()                      { c.h.Reset() }
func (c *cthWrapper) Write(p []byte) (int, error) { return c.h.Write(p) }
func (c *cthWrapper) Sum(b []byte) []byte         { return c.h.ConstantTimeSum(b) }

func newConstantTimeHash(h func() hash.Hash) func() hash.Hash {
	boring.Unreachable()
	return func() hash.Hash {
		return &cthWrapper{h().(constantTimeHash)}
	}
}

// tls10MAC implements the TLS 1.0 MAC function. RFC 2246, Section 6.2.3.
func tls10MAC(h hash.Hash, out, seq, header, data, extra []byte) []byte {
	h.Reset()
	h.Write(seq)
	h.Write(header)
	h.Write(data)
	res := h.Sum(out)
	if extra != nil {
		h.Write(extra)
	}
	return res
}

func rsaKA(version uint16) keyAgreement {
	return rsaKeyAgreement{}
}

func ecdheECDSAKA(version uint16) keyAgreement {
	return &ecdheKeyAgreement{
		isRSA:   false,
		version: version,
	}
}

func ecdheRSAKA(version uint16) keyAgreement {
	return &ecdheKeyAgreement{
		isRSA:   true,
		version: version,
	}
}

// mutualCipherSuite returns a cipherSuite given a list of supported
// ciphersuites and the id requested by the peer.
func mutualCipherSuite(have []uint16, want uint16) *cipherSuite {
	for _, id := range have {
		if id == want {
			return cipherSuiteByID(id)
		}
	}
	return nil
}

func cipherSuiteByID(id uint16) *cipherSuite {
	for _, cipherSuite := range utlsSupportedCipherSuites {
		if cipherSuite.id == id {
			return cipherSuite
		}
	}
	return nil
}

func mutualCipherSuiteTLS13(have []uint16, want uint16) *cipherSuiteTLS13 {
	for _, id := range have {
		if id == want {
			return cipherSuiteTLS13ByID(id)
		}
	}
	return nil
}

func cipherSuiteTLS13ByID(id uint16) *cipherSuiteTLS13 {
	for _, cipherSuite := range cipherSuitesTLS13 {
		if cipherSuite.id == id {
			return cipherSuite
		}
	}
	return nil
}

// A list of cipher suite IDs that are, or have been, implemented by this
// package.
//
// See https://www.iana.org/assignments/tls-parameters/tls-parameters.xml
const (
	// TLS 1.0 - 1.2 cipher suites.
	TLS_RSA_WITH_RC4_128_SHA                      uint16 = 0x0005
	TLS_RSA_WITH_3DES_EDE_CBC_SHA                 uint16 = 0x000a
	TLS_RSA_WITH_AES_128_CBC_SHA                  uint16 = 0x002f
	TLS_RSA_WITH_AES_256_CBC_SHA                  uint16 = 0x0035
	TLS_RSA_WITH_AES_128_CBC_SHA256               uint16 = 0x003c
	TLS_RSA_WITH_AES_128_GCM_SHA256               uint16 = 0x009c
	TLS_RSA_WITH_AES_256_GCM_SHA384               uint16 = 0x009d
	TLS_ECDHE_ECDSA_WITH_RC4_128_SHA              uint16 = 0xc007
	TLS_ECDHE_ECDSA_WITH_AES_128_CBC_SHA          uint16 = 0xc009
	TLS_ECDHE_ECDSA_WITH_AES_256_CBC_SHA          uint16 = 0xc00a
	TLS_ECDHE_RSA_WITH_RC4_128_SHA                uint16 = 0xc011
	TLS_ECDHE_RSA_WITH_3DES_EDE_CBC_SHA           uint16 = 0xc012
	TLS_ECDHE_RSA_WITH_AES_128_CBC_SHA            uint16 = 0xc013
	TLS_ECDHE_RSA_WITH_AES_256_CBC_SHA            uint16 = 0xc014
	TLS_ECDHE_ECDSA_WITH_AES_128_CBC_SHA256       uint16 = 0xc023
	TLS_ECDHE_RSA_WITH_AES_128_CBC_SHA256         uint16 = 0xc027
	TLS_ECDHE_RSA_WITH_AES_128_GCM_SHA256         uint16 = 0xc02f
	TLS_ECDHE_ECDSA_WITH_AES_128_GCM_SHA256       uint16 = 0xc02b
	TLS_ECDHE_RSA_WITH_AES_256_GCM_SHA384         uint16 = 0xc030
	TLS_ECDHE_ECDSA_WITH_AES_256_GCM_SHA384       uint16 = 0xc02c
	TLS_ECDHE_RSA_WITH_CHACHA20_POLY1305_SHA256   uint16 = 0xcca8
	TLS_ECDHE_ECDSA_WITH_CHACHA20_POLY1305_SHA256 uint16 = 0xcca9

	// TLS 1.3 cipher suites.
	TLS_AES_128_GCM_SHA256       uint16 = 0x1301
	TLS_AES_256_GCM_SHA384       uint16 = 0x1302
	TLS_CHACHA20_POLY1305_SHA256 uint16 = 0x1303

	// TLS_FALLBACK_SCSV isn't a standard cipher suite but an indicator
	// that the client is doing version fallback. See RFC 7507.
	TLS_FALLBACK_SCSV uint16 = 0x5600

	// Legacy names for the corresponding cipher suites with the correct _SHA256
	// suffix, retained for backward compatibility.
	TLS_ECDHE_RSA_WITH_CHACHA20_POLY1305   = TLS_ECDHE_RSA_WITH_CHACHA20_POLY1305_SHA256
	TLS_ECDHE_ECDSA_WITH_CHACHA20_POLY1305 = TLS_ECDHE_ECDSA_WITH_CHACHA20_POLY1305_SHA256
)
