// Copyright 2023 The Go Authors. All rights reserved.
// Use of this source code is governed by a BSD-style
// license that can be found in the LICENSE file.

package refsrv

import (
	"context"
	"errors"
	"fmt"
)

// QUICEncryptionLevel represents a QUIC encryption level used to transmit
// handshake messages.
type QUICEncryptionLevel int

const (
	QUICEncryptionLevelInitial = QUICEncryptionLevel(iota)
	QUICEncryptionLevelEarly
	QUICEncryptionLevelHandshake
	QUICEncryptionLevelApplication
)

func (l QUICEncryptionLevel) String() string {
	switch l {
	case QUICEncryptionLevelInitial:
		return "Initial"
	case QUICEncryptionLevelEarly:
		return "Early"
	case QUICEncryptionLevelHandshake:
		return "Handshake"
	case QUICEncryptionLevelApplication:
		return "Application"
	default:
		return fmt.Sprintf("QUICEncryptionLevel(%v)", int(l))
	}
}

// A QUICConn represents a connection which uses a QUIC implementation as the underlying
// transport as described in RFC 9001.
//
// Methods of QUICConn are not safe for concurrent use.
type QUICConn struct {
	conn *Conn

	sessionTicketSent bool
}

// A QUICConfig configures a [QUICConn].
type QUICConfig struct {
	TLSConfig *Config

	// EnableSessionEvents may be set to true to enable the
	// [QUICStoreSession] and [QUICResumeSession] events for client connections.
	// When this event is enabled, sessions are not automatically
	// stored in the client session cache.
	// The application should use [QUICConn.StoreSession] to store sessions.
	EnableSessionEvents bool
}

// A QUICEventKind is a type of operation on a QUIC connection.
type QUICEventKind int

const (
	// QUICNoEvent indicates that there are no events available.
	QUICNoEvent QUICEventKind = iota

	// QUICSetReadSecret and QUICSetWriteSecret provide the read and write
	// secrets for a given encryption level.
	// QUICEvent.Level, QUICEvent.Data, and QUICEvent.Suite are set.
	//
	// Secrets for the Initial encryption level are derived from the initial
	// destination connection ID, and are not provided by the QUICConn.
	QUICSetReadSecret
	QUICSetWriteSecret

	// QUICWriteData provides data to send to the peer in CRYPTO frames.
	// QUICEvent.Data is set.
	QUICWriteData

	// QUICTransportParameters provides the peer's QUIC transport parameters.
	// QUICEvent.Data is set.
	QUICTransportParameters

	// QUICTransportParametersRequired indicates that the caller must provide
	// QUIC transport parameters to send to the peer. The caller should set
	// the transport parameters with QUICConn.SetTransportParameters and call
	// QUICConn.NextEvent again.
	//
	// If transport parameters are set before calling QUICConn.Start, the
	// connection will never generate a QUICTransportParametersRequired event.
	QUICTransportParametersRequired

	// QUICRejectedEarlyData indicates that the server rejected 0-RTT data even
	// if we offered it. It's returned before QUICEncryptionLevelApplication
	// keys are returned.
	// This event only occurs on client connections.
	QUICRejectedEarlyData

	// QUICHandshakeDone indicates that the TLS handshake has completed.
	QUICHandshakeDone

	// QUICResumeSession indicates that a client is attempting to resume a previous session.
	// [QUICEvent.SessionState] is set.
	//
	// For client connections, this event occurs when the session ticket is selected.
	// For server connections, this event occurs when receiving the client's session ticket.
	//
	// The application may set [QUICEvent.SessionState.EarlyData] to false before the
	// next call to [QUICConn.NextEvent] to decline 0-RTT even if the session supports it.
	QUICResumeSession

	// QUICStoreSession indicates that the server has provided state permitting
	// the client to resume the session.
	// [QUICEvent.SessionState] is set.
	// The application should use [QUICConn.StoreSession] session to store the [SessionState].
	// The application may modify the [SessionState] before storing it.
	// This event only occurs on client connections.
	QUICStoreSession
)

// A QUICEvent is an event occurring on a QUIC connection.
//
// The type of event is specified by the Kind field.
// The contents of the other fields are kind-specific.
type QUICEvent struct {
	Kind QUICEventKind

	// Set for QUICSetReadSecret, QUICSetWriteSecret, and QUICWriteData.
	Level QUICEncryptionLevel

	// Set for QUICTransportParameters, QUICSetReadSecret, QUICSetWriteSecret, and QUICWriteData.
	// The contents are owned by crypto/tls, and are valid until the next NextEvent call.
	Data []byte

	// Set for QUICSetReadSecret and QUICSetWriteSecret.
	Suite uint16

	// Set for QUICResumeSession and QUICStoreSession.
	SessionState *SessionState
}

type quicState struct {
	events    []QUICEvent
	nextEvent int

	// eventArr is a statically allocated event array, large enough to handle
	// the usual maximum number of events resulting from a single call: transport
	// parameters, Initial data, Early read secret, Handshake write and read
	// secrets, Handshake data, Application write secret, Application data.
	eventArr [8]QUICEvent

	started  bool
	signalc  chan struct{}   // handshake data is available to be read
	blockedc chan struct{}   // handshake is waiting for data, closed when done
	cancelc  <-chan struct{} // handshake has been canceled
	cancel   context.CancelFunc

	waitingForDrain bool

	// readbuf is shared between HandleData and the handshake goroutine.
	// HandshakeCryptoData passes ownership to the handshake goroutine by
	// reading from signalc, and reclaims ownership by reading from blockedc.
	readbuf []byte

	transportParams []byte // to send to the peer

	enableSessionEvents bool
}

// QUICClient returns a new TLS client side connection using QUICTransport as the
// underlying transport. The config cannot be nil.
//
// The config's MinVersion must be at least TLS 1.3.
func QUICClient(config *QUICConfig) *QUICConn {
	return newQUICConn(Client(nil, config.TLSConfig), config)
}

// QUICServer returns a new TLS server side connection using QUICTransport as the
// underlying transport. The config cannot be nil.
//
// The config's MinVersion must be at least TLS 1.3.
func QUICServer(config *QUICConfig) *QUICConn {
	return newQUICConn(Server(nil, config.TLSConfig), config)
}

func newQUICConn(conn *Conn, config *QUICConfig) *QUICConn {
	conn.quic = &quicState{
		signalc:             make(chan struct{}),
		blockedc:            make(chan struct{}),
		enableSessionEvents: config.EnableSessionEvents,
	}
	conn.quic.events = conn.quic.eventArr[:0]
	return &QUICConn{
		conn: conn,
	}
}

// Start starts the client or server handshake protocol.
// It may produce connection events, which may be read with [QUICConn.NextEvent].
//
// Start must be called at most once.
func (q *QUICConn) Start(ctx context.Context) error {
	if q.conn.quic.started {
		return quicError(errors.New("tls: Start called more than once"))
	}
	q.conn.quic.started = true
	if q.conn.config.MinVersion < VersionTLS13 {
		return quicError(errors.New("tls: Config MinVersion must be at least TLS 1.3"))
	}
	go q.conn.HandshakeContext(ctx)
	if _, ok := <-q.conn.quic.blockedc; !ok {
		return q.conn.handshakeErr
	}
	return nil
}

// NextEvent returns the next event occurring on the connection.
// It returns an event with a Kind of [QUICNoEvent] when no events are available.
func (q *QUICConn) NextEvent() QUICEvent {
	qs := q.conn.quic
	if last := qs.nextEvent - 1; last >= 0 && len(qs.events[last].Data) > 0 {
		// Write over some of the previous event's data,
		// to catch callers erroniously retaining it.
		qs.events[last].Data[0] = 0
	}
	if qs.nextEvent >= len(qs.events) && qs.waitingForDrain {
		qs.waitingForDrain = false
		<-qs.signalc
		<-qs.blockedc
	}
	if qs.nextEvent >= len(qs.events) {
		qs.events = qs.events[:0]
		qs.nextEvent = 0
		return QUICEvent{Kind: QUICNoEvent}
	}
	e := qs.events[qs.nextEvent]
	qs.events[qs.nextEvent] = QUICEvent{} // zero out references to data
	qs.nextEvent++
	return e
}

// Close closes the connection and stops any in-progress handshake.
func (q *QUICConn) Close() error {
	if q.conn.quic.cancel == nil {
		return nil // never started
	}
	q.conn.quic.cancel()
	for range q.conn.quic.blockedc {
		// Wait for the handshake goroutine to return.
	}
	return q.conn.handshakeErr
}

// HandleData handles handshake bytes received from the peer.
// It may produce connection events, which may be read with [QUICConn.NextEvent].
func (q *QUICConn) HandleData(level QUICEncryptionLevel, data []byte) error {
	c := q.conn
	if c.in.level != level {
		return quicError(c.in.setErrorLocked(errors.New("tls: handshake data received at wrong level")))
	}
	c.quic.readbuf = data
	<-c.quic.signalc
	_, ok := <-c.quic.blockedc
	if ok {
		// The handshake goroutine is waiting for more data.
		return nil
	}
	// The handshake goroutine has exited.
	c.handshakeMutex.Lock()
	defer c.handshakeMutex.Unlock()
	c.hand.Write(c.quic.readbuf)
	c.quic.readbuf = nil
	for q.conn.hand.Len() >= 4 && q.conn.handshakeErr == nil {
		b := q.conn.hand.Bytes()
		n := int(b[1])<<16 | int(b[2])<<8 | int(b[3])
		if n > maxHandshake {
			q.conn.handshakeErr = fmt.Errorf("tls: handshake message of length %d bytes exceeds maximum of %d bytes", n, maxHandshake)
			break
		}
		if len(b) < 4+n {
			return nil
		}
		if err := q.conn.handlePostHandshakeMessage(); err != nil {
			q.conn.handshakeErr = err
		}
	}
	if q.conn.handshakeErr != nil {
		return quicError(q.conn.handshakeErr)
	}
	return nil
}

type QUICSessionTicketOptions struct {
	// EarlyData specifies whether the ticket may be used for 0-RTT.
	EarlyData bool
	Extra     [][]byte
}

// SendSessionTicket sends a session ticket to the client.
// It produces connection events, which may be read with [QUICConn.NextEvent].
// Currently, it can only be called once.
func (q *QUICConn) SendSessionTicket(opts QUICSessionTicketOptions) error {
	c := q.conn
	if !c.isHandshakeComplete.Load() {
		return quicError(errors.New("tls: SendSessionTicket called before handshake completed"))
	}
	if c.isClient {
		return quicError(errors.New("tls: SendSessionTicket called on the client"))
	}
	if q.sessionTicketSent {
		return quicError(errors.New("tls: SendSessionTicket called multiple times"))
	}
	q.sessionTicketSent = true
	return quicError(c.sendSessionTicket(opts.EarlyData, opts.Extra))
}

// StoreSession stores a session previously received in a QUICStoreSession event
// in the ClientSessionCache.
// The application may process additional events or modify the SessionState
// before storing the session.
func (q *QUICConn) StoreSession(session *SessionState) error {
	c := q.conn
	if !c.isClient {
		return quicError(errors.New("tls: StoreSessionTicket called on the server"))
	}
	cacheKey := c.clientSessionCacheKey()
	if cacheKey == "" {
		return nil
	}
	cs := &ClientSessionState{session: session}
	c.config.ClientSessionCache.Put(cacheKey, cs)
	return nil
}

// ConnectionState returns basic TLS details about the connection.
func (q *QUICConn) ConnectionState() ConnectionState {
	return q.conn.ConnectionState()
}

// SetTransportParameters sets the transport parameters to send to the peer.
//
// Server connections may delay setting the transport parameters until after
// receiving the client's transport parameters. See [QUICTransportParametersRequired].
func (q *QUICConn) SetTransportParameters(params []byte) {
	if params == nil {
		params = []byte{}
	}
	q.conn.quic.transportParams = params
	if q.conn.quic.started {
		<-q.conn.quic.signalc
		<-q.conn.quic.blockedc
	}
}

// quicError ensures err is an AlertError.
// If err is not already, quicError wraps it with alertInternalError.
func quicError(err error) error {
	if err == nil {
		return nil
	}
	var ae AlertError
	if errors.As(err, &ae) {
		return err
	}
	var a alert
	if !errors.As(err, &a) {
		a = alertInternalError
	}
	// Return an error wrapping the original error and an AlertError.
	// Truncate the text of the alert to 0 characters.
	return fmt.Errorf("%w%.0w", err, AlertError(a))
}

func (c *Conn) quicReadHandshakeBytes(n int) error {
	for c.hand.Len() < n {
		if err := c.quicWaitForSignal(); err != nil {
			return err
		}
	}
	return nil
}

func (c *Conn) quicSetReadSecret(level QUICEncryptionLevel, suite uint16, secret []byte) {
	c.quic.events = append(c.quic.events, QUICEvent{
		Kind:  QUICSetReadSecret,
		Level: level,
		Suite: suite,
		Data:  secret,
	})
}

func (c *Conn) quicSetWriteSecret(level QUICEncryptionLevel, suite uint16, secret []byte) {
	c.quic.events = append(c.quic.events, QUICEvent{
		Kind:  QUICSetWriteSecret,
		Level: level,
		Suite: suite,
		Data:  secret,
	})
}

func (c *Conn) quicWriteCryptoData(level QUICEncryptionLevel, data []byte) {
	var last *QUICEvent
	if len(c.quic.events) > 0 {
		last = &c.quic.events[len(c.quic.events)-1]
	}
	if last == nil || last.Kind != QUICWriteData || last.Level != level {
		c.quic.events = append(c.quic.events, QUICEvent{
			Kind:  QUICWriteData,
			Level: level,
		})
		last = &c.quic.events[len(c.quic.events)-1]
	}
	last.Data = append(last.Data, data...)
}

func (c *Conn) quicResumeSession(session *SessionState) error {
	c.quic.events = append(c.quic.events, QUICEvent{
		Kind:         QUICResumeSession,
		SessionState: session,
	})
	c.quic.waitingForDrain = true
	for c.quic.waitingForDrain {
		if err := c.quicWaitForSignal(); err != nil {
			return err
		}
	}
	return nil
}

func (c *Conn) quicStoreSession(session *SessionState) {
	c.quic.events = append(c.quic.events, QUICEvent{
		Kind:         QUICStoreSession,
		SessionState: session,
	})
}

func (c *Conn) quicSetTransportParameters(params []byte) {
	c.quic.events = append(c.quic.events, QUICEvent{
		Kind: QUICTransportParameters,
		Data: params,
	})
}

func (c *Conn) quicGetTransportParameters() ([]byte, error) {
	if c.quic.transportParams == nil {
		c.quic.events = append(c.quic.events, QUICEvent{
			Kind: QUICTransportParametersRequired,
		})
	}
	for c.quic.transportParams == nil {
		if err := c.quicWaitForSignal(); err != nil {
			return nil, err
		}
	}
	return c.quic.transportParams, nil
}

func (c *Conn) quicHandshakeComplete() {
	c.quic.events = append(c.quic.events, QUICEvent{
		Kind: QUICHandshakeDone,
	})
}

func (c *Conn) quicRejectedEarlyData() {
	c.quic.events = append(c.quic.events, QUICEvent{
		Kind: QUICRejectedEarlyData,
	})
}

// quicWaitForSignal notifies the QUICConn that handshake progress is blocked,
// and waits for a signal that the handshake should proceed.
//
// The handshake may become blocked waiting for handshake bytes
// or for the user to provide transport parameters.
func (c *Conn) quicWaitForSignal() error {
	// Drop the handshake mutex while blocked to allow the user
	// to call ConnectionState before the handshake completes.
	c.handshakeMutex.Unlock()
	defer c.handshakeMutex.Lock()
	// Send on blockedc to notify the QUICConn that the handshake is blocked.
	// Exported methods of QUICConn wait for the handshake to become blocked
	// before returning to the user.
	select {
	case c.quic.blockedc <- struct{}{}:
	case <-c.quic.cancelc:
		return c.sendAlertLocked(alertCloseNotify)
	}
	// The QUICConn reads from signalc to notify us that the handshake may
	// be able to proceed. (The QUICConn reads, because we close signalc to
	// indicate that the handshake has completed.)
	select {
	case c.quic.signalc <- struct{}{}:
		c.hand.Write(c.quic.readbuf)
		c.quic.readbuf = nil
	case <-c.quic.cancelc:
		return c.sendAlertLocked(alertCloseNotify)
	}
	return nil
}
