// Copyright 2018 The Go Authors. All rights reserved.
// Use of this source code is governed by a BSD-style
// license that can be found in the LICENSE file.

package refsrv

import (
	"crypto/sha3"
	"bytes"
	"context"
	"crypto"
	"crypto/hmac"
	"crypto/mlkem"
	"crypto/rsa"
	"errors"
	"hash"
	"io"
	"slices"
	"sort"
	"time"

	"github.com/refraction-networking/utls/internal/byteorder"
	"github.com/refraction-networking/utls/internal/fips140tls"
	"github.com/refraction-networking/utls/internal/hkdf"
	"github.com/refraction-networking/utls/internal/hpke"
	"github.com/refraction-networking/utls/internal/tls13"
)

// maxClientPSKIdentities is the number of client PSK identities the server will
// attempt to validate. It will ignore the rest not to let cheap ClientHello
// messages cause too much work in session ticket decryption attempts.
const maxClientPSKIdentities = 5

type echServerContext struct {
	hpkeContext *hpke.Receipient
	configID    uint8
	ciphersuite echCipher
	transcript  hash.Hash
	// inner indicates that the initial client_hello we recieved contained an
	// encrypted_client_hello extension that indicated it was an "inner" hello.
	// We don't do any additional processing of the hello in this case, so all
	// fields above are unset.
	inner bool
}

type serverHandshakeStateTLS13 struct {
	deferredErr      error // harness: a write error that is reported only after the client Finished was checked
	pendingClientMsg any // harness: a client message read ahead while looking for the ALPS EncryptedExtensions
	c               *Conn
	ctx             context.Context
	clientHello     *clientHelloMsg
	hello           *serverHelloMsg
	sentDummyCCS    bool
	usingPSK        bool
	earlyData       bool
	suite           *cipherSuiteTLS13
	cert            *Certificate
	sigAlg          SignatureScheme
	earlySecret     *tls13.EarlySecret
	sharedKey       []byte
	handshakeSecret *tls13.HandshakeSecret
	masterSecret    *tls13.MasterSecret
	trafficSecret   []byte // client_application_traffic_secret_0
	transcript      hash.Hash
	clientFinished  []byte
	echContext      *echServerContext
}

func (hs *serverHandshakeStateTLS13) handshake() error {
	c := hs.c

	// For an overview of the TLS 1.3 handshake, see RFC 8446, Section 2.
	if err := hs.processClientHello(); err != nil {
		return err
	}
	if err := hs.checkForResumption(); err != nil {
		return err
	}
	if err := hs.pickCertificate(); err != nil {
		return err
	}
	c.buffering = true
	if err := hs.sendServerParameters(); err != nil {
		return err
	}
	if err := hs.sendServerCertificate(); err != nil {
		return err
	}
	if err := hs.sendServerFinished(); err != nil {
		return err
	}
	// Note that at this point we could start sending application data without
	// waiting for the client's second flight, but the application might not
	// expect the lack of replay protection of the ClientHello parameters.
	if _, err := c.flush(); err != nil {
		return err
	}
	if err := hs.readClientCertificate(); err != nil {
		return err
	}
	if err := hs.readClientFinished(); err != nil {
		return err
	}

	c.isHandshakeComplete.Store(true)

	return nil
}

func (hs *serverHandshakeStateTLS13) processClientHello() error {
	c := hs.c

	hs.hello = new(serverHelloMsg)

	// TLS 1.3 froze the ServerHello.legacy_version field, and uses
	// supported_versions instead. See RFC 8446, sections 4.1.3 and 4.2.1.
	hs.hello.vers = VersionTLS12
	hs.hello.supportedVersion = c.vers

	if len(hs.clientHello.supportedVersions) == 0 {
		c.sendAlert(alertIllegalParameter)
		return errors.New("tls: client used the legacy version field to negotiate TLS 1.3")
	}

	// Abort if the client is doing a fallback and landing lower than what we
	// support. See RFC 7507, which however does not specify the interaction
	// with supported_versions. The only difference is that with
	// supported_versions a client has a chance to attempt a [TLS 1.2, TLS 1.4]
	// handshake in case TLS 1.3 is broken but 1.2 is not. Alas, in that case,
	// it will have to drop the TLS_FALLBACK_SCSV protection if it falls back to
	// TLS 1.2, because a TLS 1.3 server would abort here. The situation before
	// supported_versions was not better because there was just no way to do a
	// TLS 1.4 handshake without risking the server selecting TLS 1.3.
	for _, id := range hs.clientHello.cipherSuites {
		if id == TLS_FALLBACK_SCSV {
			// Use c.vers instead of max(supported_versions) because an attacker
			// could defeat this by adding an arbitrary high version otherwise.
			if c.vers < c.config.maxSupportedVersion(roleServer) {
				c.sendAlert(alertInappropriateFallback)
				return errors.New("tls: client using inappropriate protocol fallback")
			}
			break
		}
	}

	if len(hs.clientHello.compressionMethods) != 1 ||
		hs.clientHello.compressionMethods[0] != compressionNone {
		c.sendAlert(alertIllegalParameter)
		return errors.New("tls: TLS 1.3 client supports illegal compression methods")
	}

	hs.hello.random = make([]byte, 32)
	if _, err := io.ReadFull(c.config.rand(), hs.hello.random); err != nil {
		c.sendAlert(alertInternalError)
		return err
	}

	if len(hs.clientHello.secureRenegotiation) != 0 {
		c.sendAlert(alertHandshakeFailure)
		return errors.New("tls: initial handshake had non-empty renegotiation extension")
	}

	if hs.clientHello.earlyData && c.quic != nil {
		if len(hs.clientHello.pskIdentities) == 0 {
			c.sendAlert(alertIllegalParameter)
			return errors.New("tls: early_data without pre_shared_key")
		}
	} else if hs.clientHello.earlyData {
		// See RFC 8446, Section 4.2.10 for the complicated behavior required
		// here. The scenario is that a different server at our address offered
		// to accept early data in the past, which we can't handle. For now, all
		// 0-RTT enabled session tickets need to expire before a Go server can
		// replace a server or join a pool. That's the same requirement that
		// applies to mixing or replacing with any TLS 1.2 server.
		c.sendAlert(alertUnsupportedExtension)
		return errors.New("tls: client sent unexpected early data")
	}

	hs.hello.sessionId = hs.clientHello.sessionId
	hs.hello.compressionMethod = compressionNone
	if byz := c.config.Byz; byz != nil {
		if byz.WrongSessionID {
			sid := make([]byte, 32)
			for i := range sid {
				sid[i] = byte(0xa0 + i)
			}
			hs.hello.sessionId = sid
		}
		hs.hello.compressionMethod = byz.CompressionMethod
	}

	preferenceList := defaultCipherSuitesTLS13
	if !hasAESGCMHardwareSupport || !aesgcmPreferred(hs.clientHello.cipherSuites) {
		preferenceList = defaultCipherSuitesTLS13NoAES
	}
	if fips140tls.Required() {
		preferenceList = defaultCipherSuitesTLS13FIPS
	}
	for _, suiteID := range preferenceList {
		hs.suite = mutualCipherSuiteTLS13(hs.clientHello.cipherSuites, suiteID)
		if hs.suite != nil {
			break
		}
	}
	if hs.suite == nil {
		c.sendAlert(alertHandshakeFailure)
		return errors.New("tls: no cipher suite supported by both client and server")
	}
	if byz := c.config.Byz; byz != nil && byz.ForceSuite != 0 {
		if s := cipherSuiteTLS13ByID(byz.ForceSuite); s != nil {
			hs.suite = s // a real TLS 1.3 suite, possibly not offered: the whole key schedule follows it
		}
	}
	c.cipherSuite = hs.suite.id
	hs.hello.cipherSuite = hs.suite.id
	if byz := c.config.Byz; byz != nil && byz.ForceSuite != 0 {
		hs.hello.cipherSuite = byz.ForceSuite // may be a non-1.3 or GREASE id: only announced
	}
	hs.transcript = hs.suite.hash.New()

	// First, if a post-quantum key exchange is available, use one. See
	// draft-ietf-tls-key-share-prediction-01, Section 4 for why this must be
	// first.
	//
	// Second, if the client sent a key share for a group we support, use that,
	// to avoid a HelloRetryRequest round-trip.
	//
	// Finally, pick in our fixed preference order.
	preferredGroups := c.config.curvePreferences(c.vers)
	preferredGroups = slices.DeleteFunc(preferredGroups, func(group CurveID) bool {
		return !slices.Contains(hs.clientHello.supportedCurves, group)
	})
	if byz := c.config.Byz; byz != nil && byz.HRRGroup != 0 {
		preferredGroups = []CurveID{byz.HRRGroup} // possibly unoffered or already shared
	}
	if len(preferredGroups) == 0 {
		c.sendAlert(alertHandshakeFailure)
		return errors.New("tls: no key exchanges supported by both client and server")
	}
	hasKeyShare := func(group CurveID) bool {
		for _, ks := range hs.clientHello.keyShares {
			if ks.group == group {
				return true
			}
		}
		return false
	}
	sort.SliceStable(preferredGroups, func(i, j int) bool {
		return hasKeyShare(preferredGroups[i]) && !hasKeyShare(preferredGroups[j])
	})
	sort.SliceStable(preferredGroups, func(i, j int) bool {
		return isPQKeyExchange(preferredGroups[i]) && !isPQKeyExchange(preferredGroups[j])
	})
	selectedGroup := preferredGroups[0]
	if byz := c.config.Byz; byz != nil && byz.KyberDraft {
		for _, ks := range hs.clientHello.keyShares {
			if ks.group == X25519Kyber768Draft00 {
				selectedGroup = X25519Kyber768Draft00 // harness: draft-tls-westerbaan-xyber768d00 server side
			}
		}
	}

	var clientKeyShare *keyShare
	for _, ks := range hs.clientHello.keyShares {
		if ks.group == selectedGroup {
			clientKeyShare = &ks
			break
		}
	}
	if byz := c.config.Byz; clientKeyShare == nil || (byz != nil && byz.HRRGroup != 0 && (byz.HRRAlways || clientKeyShare == nil)) || (byz != nil && len(byz.HRRCookie) > 0 && byz.HRRAlways) {
		ks, err := hs.doHelloRetryRequest(selectedGroup)
		if err != nil {
			return err
		}
		clientKeyShare = ks
	}
	c.curveID = selectedGroup

	ecdhGroup := selectedGroup
	ecdhData := clientKeyShare.data
	if selectedGroup == X25519MLKEM768 {
		ecdhGroup = X25519
		if len(ecdhData) != mlkem.EncapsulationKeySize768+x25519PublicKeySize {
			c.sendAlert(alertIllegalParameter)
			return errors.New("tls: invalid X25519MLKEM768 client key share")
		}
		ecdhData = ecdhData[mlkem.EncapsulationKeySize768:]
	}
	if selectedGroup == X25519Kyber768Draft00 {
		// draft-tls-westerbaan-xyber768d00: client share = X25519 public key || Kyber768 public key
		ecdhGroup = X25519
		if len(ecdhData) != x25519PublicKeySize+mlkem.EncapsulationKeySize768 {
			c.sendAlert(alertIllegalParameter)
			return errors.New("tls: invalid X25519Kyber768Draft00 client key share")
		}
		ecdhData = ecdhData[:x25519PublicKeySize]
	}
	if _, ok := curveForCurveID(ecdhGroup); !ok {
		c.sendAlert(alertInternalError)
		return errors.New("tls: CurvePreferences includes unsupported curve")
	}
	key, err := generateECDHEKey(c.config.rand(), ecdhGroup)
	if err != nil {
		c.sendAlert(alertInternalError)
		return err
	}
	hs.hello.serverShare = keyShare{group: selectedGroup, data: key.PublicKey().Bytes()}
	peerKey, err := key.Curve().NewPublicKey(ecdhData)
	if err != nil {
		c.sendAlert(alertIllegalParameter)
		return errors.New("tls: invalid client key share")
	}
	hs.sharedKey, err = key.ECDH(peerKey)
	if err != nil {
		c.sendAlert(alertIllegalParameter)
		return errors.New("tls: invalid client key share")
	}
	if selectedGroup == X25519MLKEM768 {
		k, err := mlkem.NewEncapsulationKey768(clientKeyShare.data[:mlkem.EncapsulationKeySize768])
		if err != nil {
			c.sendAlert(alertIllegalParameter)
			return errors.New("tls: invalid X25519MLKEM768 client key share")
		}
		mlkemSharedSecret, ciphertext := k.Encapsulate()
		// draft-kwiatkowski-tls-ecdhe-mlkem-02, Section 3.1.3: "For
		// X25519MLKEM768, the shared secret is the concatenation of the ML-KEM
		// shared secret and the X25519 shared secret. The shared secret is 64
		// bytes (32 bytes for each part)."
		hs.sharedKey = append(mlkemSharedSecret, hs.sharedKey...)
		// draft-kwiatkowski-tls-ecdhe-mlkem-02, Section 3.1.2: "When the
		// X25519MLKEM768 group is negotiated, the server's key exchange value
		// is the concatenation of an ML-KEM ciphertext returned from
		// encapsulation to the client's encapsulation key, and the server's
		// ephemeral X25519 share."
		hs.hello.serverShare.data = append(ciphertext, hs.hello.serverShare.data...)
	}

	if selectedGroup == X25519Kyber768Draft00 {
		k, err := mlkem.NewEncapsulationKey768(clientKeyShare.data[x25519PublicKeySize:])
		if err != nil {
			c.sendAlert(alertIllegalParameter)
			return errors.New("tls: invalid X25519Kyber768Draft00 client key share")
		}
		K, ciphertext := k.Encapsulate()
		// Kyber768 round 3 shared secret from an ML-KEM encapsulation: KDF(K || H(c)) = SHAKE-256(K || SHA3-256(c), 32)
		hc := sha3.Sum256(ciphertext)
		kyberShared := sha3.SumSHAKE256(append(append([]byte(nil), K...), hc[:]...), 32)
		// the shared secret is the X25519 secret followed by the Kyber secret; the server share is the
		// X25519 public key followed by the ciphertext (the draft's order, opposite of X25519MLKEM768)
		hs.sharedKey = append(hs.sharedKey, kyberShared...)
		hs.hello.serverShare.data = append(hs.hello.serverShare.data, ciphertext...)
	}

	if byz := c.config.Byz; byz != nil && byz.ForceSHGroup != 0 {
		// announce a share of another group; the key schedule keeps the real one (the client
		// must refuse before it needs the secret)
		eg := byz.ForceSHGroup
		if eg == X25519MLKEM768 {
			eg = X25519
		}
		if fk, err := generateECDHEKey(c.config.rand(), eg); err == nil {
			data := fk.PublicKey().Bytes()
			if byz.ForceSHGroup == X25519MLKEM768 {
				data = append(make([]byte, mlkem.CiphertextSize768), data...)
			}
			hs.hello.serverShare = keyShare{group: byz.ForceSHGroup, data: data}
		}
	}

	selectedProto, err := negotiateALPN(c.config.NextProtos, hs.clientHello.alpnProtocols, c.quic != nil)
	if err != nil {
		c.sendAlert(alertNoApplicationProtocol)
		return err
	}
	c.clientProtocol = selectedProto
	if byz := c.config.Byz; byz != nil && byz.ForceALPN != "" {
		c.clientProtocol = byz.ForceALPN
	}

	if c.quic != nil {
		// RFC 9001 Section 4.2: Clients MUST NOT offer TLS versions older than 1.3.
		for _, v := range hs.clientHello.supportedVersions {
			if v < VersionTLS13 {
				c.sendAlert(alertProtocolVersion)
				return errors.New("tls: client offered TLS version older than TLS 1.3")
			}
		}
		// RFC 9001 Section 8.2.
		if hs.clientHello.quicTransportParameters == nil {
			c.sendAlert(alertMissingExtension)
			return errors.New("tls: client did not send a quic_transport_parameters extension")
		}
		c.quicSetTransportParameters(hs.clientHello.quicTransportParameters)
	} else {
		if hs.clientHello.quicTransportParameters != nil {
			c.sendAlert(alertUnsupportedExtension)
			return errors.New("tls: client sent an unexpected quic_transport_parameters extension")
		}
	}

	c.serverName = hs.clientHello.serverName
	return nil
}

func (hs *serverHandshakeStateTLS13) checkForResumption() error {
	c := hs.c

	if c.config.SessionTicketsDisabled {
		return nil
	}

	modeOK := false
	for _, mode := range hs.clientHello.pskModes {
		if mode == pskModeDHE {
			modeOK = true
			break
		}
	}
	if !modeOK {
		return nil
	}

	if len(hs.clientHello.pskIdentities) != len(hs.clientHello.pskBinders) {
		c.sendAlert(alertIllegalParameter)
		return errors.New("tls: invalid or missing PSK binders")
	}
	if len(hs.clientHello.pskIdentities) == 0 {
		return nil
	}

	for i, identity := range hs.clientHello.pskIdentities {
		if i >= maxClientPSKIdentities {
			break
		}

		var sessionState *SessionState
		if c.config.UnwrapSession != nil {
			var err error
			sessionState, err = c.config.UnwrapSession(identity.label, c.connectionStateLocked())
			if err != nil {
				return err
			}
			if sessionState == nil {
				continue
			}
		} else {
			plaintext := c.config.decryptTicket(identity.label, c.ticketKeys)
			if plaintext == nil {
				continue
			}
			var err error
			sessionState, err = ParseSessionState(plaintext)
			if err != nil {
				continue
			}
		}

		if sessionState.version != VersionTLS13 {
			continue
		}

		createdAt := time.Unix(int64(sessionState.createdAt), 0)
		if c.config.time().Sub(createdAt) > maxSessionTicketLifetime {
			continue
		}

		pskSuite := cipherSuiteTLS13ByID(sessionState.cipherSuite)
		if pskSuite == nil || pskSuite.hash != hs.suite.hash {
			continue
		}

		// PSK connections don't re-establish client certificates, but carry
		// them over in the session ticket. Ensure the presence of client certs
		// in the ticket is consistent with the configured requirements.
		sessionHasClientCerts := len(sessionState.peerCertificates) != 0
		needClientCerts := requiresClientCert(c.config.ClientAuth)
		if needClientCerts && !sessionHasClientCerts {
			continue
		}
		if sessionHasClientCerts && c.config.ClientAuth == NoClientCert {
			continue
		}
		if sessionHasClientCerts && c.config.time().After(sessionState.peerCertificates[0].NotAfter) {
			continue
		}
		if sessionHasClientCerts && c.config.ClientAuth >= VerifyClientCertIfGiven &&
			len(sessionState.verifiedChains) == 0 {
			continue
		}

		if c.quic != nil && c.quic.enableSessionEvents {
			if err := c.quicResumeSession(sessionState); err != nil {
				return err
			}
		}

		hs.earlySecret = tls13.NewEarlySecret(hs.suite.hash.New, sessionState.secret)
		binderKey := hs.earlySecret.ResumptionBinderKey()
		// Clone the transcript in case a HelloRetryRequest was recorded.
		transcript := cloneHash(hs.transcript, hs.suite.hash)
		if transcript == nil {
			c.sendAlert(alertInternalError)
			return errors.New("tls: internal error: failed to clone hash")
		}
		clientHelloBytes, err := hs.clientHello.marshalWithoutBinders()
		if err != nil {
			c.sendAlert(alertInternalError)
			return err
		}
		transcript.Write(clientHelloBytes)
		pskBinder := hs.suite.finishedHash(binderKey, transcript)
		if !hmac.Equal(hs.clientHello.pskBinders[i], pskBinder) {
			c.sendAlert(alertDecryptError)
			return errors.New("tls: invalid PSK binder")
		}

		if c.quic != nil && hs.clientHello.earlyData && i == 0 &&
			sessionState.EarlyData && sessionState.cipherSuite == hs.suite.id &&
			sessionState.alpnProtocol == c.clientProtocol {
			hs.earlyData = true

			transcript := hs.suite.hash.New()
			if err := transcriptMsg(hs.clientHello, transcript); err != nil {
				return err
			}
			earlyTrafficSecret := hs.earlySecret.ClientEarlyTrafficSecret(transcript)
			c.quicSetReadSecret(QUICEncryptionLevelEarly, hs.suite.id, earlyTrafficSecret)
		}

		c.didResume = true
		c.peerCertificates = sessionState.peerCertificates
		c.ocspResponse = sessionState.ocspResponse
		c.scts = sessionState.scts
		c.verifiedChains = sessionState.verifiedChains

		hs.hello.selectedIdentityPresent = true
		hs.hello.selectedIdentity = uint16(i)
		hs.usingPSK = true
		return nil
	}

	return nil
}

// cloneHash uses the encoding.BinaryMarshaler and encoding.BinaryUnmarshaler
// interfaces implemented by standard library hashes to clone the state of in
// to a new instance of h. It returns nil if the operation fails.
func cloneHash(in hash.Hash, h crypto.Hash) hash.Hash {
	// Recreate the interface to avoid importing encoding.
	type binaryMarshaler interface {
		MarshalBinary() (data []byte, err error)
		UnmarshalBinary(data []byte) error
	}
	marshaler, ok := in.(binaryMarshaler)
	if !ok {
		return nil
	}
	state, err := marshaler.MarshalBinary()
	if err != nil {
		return nil
	}
	out := h.New()
	unmarshaler, ok := out.(binaryMarshaler)
	if !ok {
		return nil
	}
	if err := unmarshaler.UnmarshalBinary(state); err != nil {
		return nil
	}
	return out
}

func (hs *serverHandshakeStateTLS13) pickCertificate() error {
	c := hs.c

	// Only one of PSK and certificates are used at a time.
	if hs.usingPSK {
		return nil
	}

	// signature_algorithms is required in TLS 1.3. See RFC 8446, Section 4.2.3.
	if len(hs.clientHello.supportedSignatureAlgorithms) == 0 {
		return c.sendAlert(alertMissingExtension)
	}

	certificate, err := c.config.getCertificate(clientHelloInfo(hs.ctx, c, hs.clientHello))
	if err != nil {
		if err == errNoCertificates {
			c.sendAlert(alertUnrecognizedName)
		} else {
			c.sendAlert(alertInternalError)
		}
		return err
	}
	hs.sigAlg, err = selectSignatureScheme(c.vers, certificate, hs.clientHello.supportedSignatureAlgorithms)
	if err != nil {
		// getCertificate returned a certificate that is unsupported or
		// incompatible with the client's signature algorithms.
		c.sendAlert(alertHandshakeFailure)
		return err
	}
	hs.cert = certificate

	return nil
}

// sendDummyChangeCipherSpec sends a ChangeCipherSpec record for compatibility
// with middleboxes that didn't implement TLS correctly. See RFC 8446, Appendix D.4.
func (hs *serverHandshakeStateTLS13) sendDummyChangeCipherSpec() error {
	if hs.c.quic != nil {
		return nil
	}
	if hs.sentDummyCCS {
		return nil
	}
	hs.sentDummyCCS = true

	return hs.c.writeChangeCipherRecord()
}

func (hs *serverHandshakeStateTLS13) doHelloRetryRequest(selectedGroup CurveID) (*keyShare, error) {
	c := hs.c

	// The first ClientHello gets double-hashed into the transcript upon a
	// HelloRetryRequest. See RFC 8446, Section 4.4.1.
	if err := transcriptMsg(hs.clientHello, hs.transcript); err != nil {
		return nil, err
	}
	chHash := hs.transcript.Sum(nil)
	hs.transcript.Reset()
	hs.transcript.Write([]byte{typeMessageHash, 0, 0, uint8(len(chHash))})
	hs.transcript.Write(chHash)

	helloRetryRequest := &serverHelloMsg{
		vers:              hs.hello.vers,
		random:            helloRetryRequestRandom,
		sessionId:         hs.hello.sessionId,
		cipherSuite:       hs.hello.cipherSuite,
		compressionMethod: hs.hello.compressionMethod,
		supportedVersion:  hs.hello.supportedVersion,
		selectedGroup:     selectedGroup,
	}
	cookieOnly := false
	if byz := c.config.Byz; byz != nil && len(byz.HRRCookie) > 0 {
		helloRetryRequest.cookie = byz.HRRCookie
		if byz.HRRCookieOnly {
			cookieOnly = true
			helloRetryRequest.selectedGroup = 0
		}
	}
	if byz := c.config.Byz; byz != nil && byz.AfterHRR {
		helloRetryRequest.sessionId = hs.clientHello.sessionId
		helloRetryRequest.compressionMethod = compressionNone
	}

	if hs.echContext != nil {
		// Compute the acceptance message.
		helloRetryRequest.encryptedClientHello = make([]byte, 8)
		confTranscript := cloneHash(hs.transcript, hs.suite.hash)
		if err := transcriptMsg(helloRetryRequest, confTranscript); err != nil {
			return nil, err
		}
		acceptConfirmation := tls13.ExpandLabel(hs.suite.hash.New,
			hkdf.Extract(hs.suite.hash.New, hs.clientHello.random, nil),
			"hrr ech accept confirmation",
			confTranscript.Sum(nil),
			8,
		)
		helloRetryRequest.encryptedClientHello = acceptConfirmation
	}

	if _, err := hs.c.writeHandshakeRecord(helloRetryRequest, hs.transcript); err != nil {
		return nil, err
	}

	if err := hs.sendDummyChangeCipherSpec(); err != nil {
		return nil, err
	}

	// clientHelloMsg is not included in the transcript.
	msg, err := c.readHandshake(nil)
	if err != nil {
		return nil, err
	}

	clientHello, ok := msg.(*clientHelloMsg)
	if !ok {
		c.sendAlert(alertUnexpectedMessage)
		return nil, unexpectedMessageError(clientHello, msg)
	}

	if hs.echContext != nil {
		if len(clientHello.encryptedClientHello) == 0 {
			c.sendAlert(alertMissingExtension)
			return nil, errors.New("tls: second client hello missing encrypted client hello extension")
		}

		echType, echCiphersuite, configID, encap, payload, err := parseECHExt(clientHello.encryptedClientHello)
		if err != nil {
			c.sendAlert(alertDecodeError)
			return nil, errors.New("tls: client sent invalid encrypted client hello extension")
		}

		if echType == outerECHExt && hs.echContext.inner || echType == innerECHExt && !hs.echContext.inner {
			c.sendAlert(alertDecodeError)
			return nil, errors.New("tls: unexpected switch in encrypted client hello extension type")
		}

		if echType == outerECHExt {
			if echCiphersuite != hs.echContext.ciphersuite || configID != hs.echContext.configID || len(encap) != 0 {
				c.sendAlert(alertIllegalParameter)
				return nil, errors.New("tls: second client hello encrypted client hello extension does not match")
			}

			encodedInner, err := decryptECHPayload(hs.echContext.hpkeContext, clientHello.original, payload)
			if err != nil {
				c.sendAlert(alertDecryptError)
				return nil, errors.New("tls: failed to decrypt second client hello encrypted client hello extension payload")
			}

			echInner, err := decodeInnerClientHello(clientHello, encodedInner)
			if err != nil {
				c.sendAlert(alertIllegalParameter)
				return nil, errors.New("tls: client sent invalid encrypted client hello extension")
			}

			clientHello = echInner
		}
	}

	if byz := c.config.Byz; byz != nil {
		byz.SecondHelloSeen = true
		byz.SecondHelloCookie = append([]byte(nil), clientHello.cookie...)
		if len(byz.HRRCookie) > 0 && !bytes.Equal(clientHello.cookie, byz.HRRCookie) {
			c.sendAlert(alertIllegalParameter)
			return nil, errors.New("tls: second ClientHello does not echo the cookie")
		}
		if len(byz.HRRCookie) > 0 {
			// the echoed cookie is the one legal difference this server introduced itself
			hs.clientHello.cookie = clientHello.cookie
		}
	}
	var ks *keyShare
	if cookieOnly {
		// no key_share in the HelloRetryRequest: the shares must be those of the first hello
		if len(clientHello.keyShares) != len(hs.clientHello.keyShares) {
			c.sendAlert(alertIllegalParameter)
			return nil, errors.New("tls: client changed its key shares after a cookie-only HelloRetryRequest")
		}
		for i := range clientHello.keyShares {
			if clientHello.keyShares[i].group != hs.clientHello.keyShares[i].group || !bytes.Equal(clientHello.keyShares[i].data, hs.clientHello.keyShares[i].data) {
				c.sendAlert(alertIllegalParameter)
				return nil, errors.New("tls: client changed its key shares after a cookie-only HelloRetryRequest")
			}
			if clientHello.keyShares[i].group == selectedGroup && ks == nil {
				ks = &clientHello.keyShares[i]
			}
		}
		if ks == nil {
			c.sendAlert(alertIllegalParameter)
			return nil, errors.New("tls: second ClientHello lacks the share of the selected group")
		}
	} else {
		if len(clientHello.keyShares) != 1 {
			c.sendAlert(alertIllegalParameter)
			return nil, errors.New("tls: client didn't send one key share in second ClientHello")
		}
		ks = &clientHello.keyShares[0]

		if ks.group != selectedGroup {
			c.sendAlert(alertIllegalParameter)
			return nil, errors.New("tls: client sent unexpected key share in second ClientHello")
		}
	}

	if clientHello.earlyData {
		c.sendAlert(alertIllegalParameter)
		return nil, errors.New("tls: client indicated early data in second ClientHello")
	}

	if illegalClientHelloChange(clientHello, hs.clientHello) {
		c.sendAlert(alertIllegalParameter)
		return nil, errors.New("tls: client illegally modified second ClientHello")
	}

	c.didHRR = true
	hs.clientHello = clientHello
	return ks, nil
}

// illegalClientHelloChange reports whether the two ClientHello messages are
// different, with the exception of the changes allowed before and after a
// HelloRetryRequest. See RFC 8446, Section 4.1.2.
func illegalClientHelloChange(ch, ch1 *clientHelloMsg) bool {
	if len(ch.supportedVersions) != len(ch1.supportedVersions) ||
		len(ch.cipherSuites) != len(ch1.cipherSuites) ||
		len(ch.supportedCurves) != len(ch1.supportedCurves) ||
		len(ch.supportedSignatureAlgorithms) != len(ch1.supportedSignatureAlgorithms) ||
		len(ch.supportedSignatureAlgorithmsCert) != len(ch1.supportedSignatureAlgorithmsCert) ||
		len(ch.alpnProtocols) != len(ch1.alpnProtocols) {
		return true
	}
	for i := range ch.supportedVersions {
		if ch.supportedVersions[i] != ch1.supportedVersions[i] {
			return true
		}
	}
	for i := range ch.cipherSuites {
		if ch.cipherSuites[i] != ch1.cipherSuites[i] {
			return true
		}
	}
	for i := range ch.supportedCurves {
		if ch.supportedCurves[i] != ch1.supportedCurves[i] {
			return true
		}
	}
	for i := range ch.supportedSignatureAlgorithms {
		if ch.supportedSignatureAlgorithms[i] != ch1.supportedSignatureAlgorithms[i] {
			return true
		}
	}
	for i := range ch.supportedSignatureAlgorithmsCert {
		if ch.supportedSignatureAlgorithmsCert[i] != ch1.supportedSignatureAlgorithmsCert[i] {
			return true
		}
	}
	for i := range ch.alpnProtocols {
		if ch.alpnProtocols[i] != ch1.alpnProtocols[i] {
			return true
		}
	}
	return ch.vers != ch1.vers ||
		!bytes.Equal(ch.random, ch1.random) ||
		!bytes.Equal(ch.sessionId, ch1.sessionId) ||
		!bytes.Equal(ch.compressionMethods, ch1.compressionMethods) ||
		ch.serverName != ch1.serverName ||
		ch.ocspStapling != ch1.ocspStapling ||
		!bytes.Equal(ch.supportedPoints, ch1.supportedPoints) ||
		ch.ticketSupported != ch1.ticketSupported ||
		!bytes.Equal(ch.sessionTicket, ch1.sessionTicket) ||
		ch.secureRenegotiationSupported != ch1.secureRenegotiationSupported ||
		!bytes.Equal(ch.secureRenegotiation, ch1.secureRenegotiation) ||
		ch.scts != ch1.scts ||
		!bytes.Equal(ch.cookie, ch1.cookie) ||
		!bytes.Equal(ch.pskModes, ch1.pskModes)
}

func (hs *serverHandshakeStateTLS13) sendServerParameters() error {
	c := hs.c

	if hs.echContext != nil {
		copy(hs.hello.random[32-8:], make([]byte, 8))
		echTranscript := cloneHash(hs.transcript, hs.suite.hash)
		echTranscript.Write(hs.clientHello.original)
		if err := transcriptMsg(hs.hello, echTranscript); err != nil {
			return err
		}
		// compute the acceptance message
		acceptConfirmation := tls13.ExpandLabel(hs.suite.hash.New,
			hkdf.Extract(hs.suite.hash.New, hs.clientHello.random, nil),
			"ech accept confirmation",
			echTranscript.Sum(nil),
			8,
		)
		copy(hs.hello.random[32-8:], acceptConfirmation)
	}

	if err := transcriptMsg(hs.clientHello, hs.transcript); err != nil {
		return err
	}

	if byz := c.config.Byz; byz != nil && byz.ForcePSK && !hs.usingPSK {
		hs.hello.selectedIdentityPresent = true
		hs.hello.selectedIdentity = byz.ForcePSKIndex
	}
	if byz := c.config.Byz; byz != nil && byz.SelectedIdentitySet && hs.usingPSK {
		byz.note("announcing selected_identity %d instead of %d", byz.SelectedIdentity, hs.hello.selectedIdentity)
		hs.hello.selectedIdentity = byz.SelectedIdentity
	}
	if _, err := hs.c.writeHandshakeRecord(hs.hello, hs.transcript); err != nil {
		return err
	}

	if err := hs.sendDummyChangeCipherSpec(); err != nil {
		return err
	}

	earlySecret := hs.earlySecret
	if earlySecret == nil {
		earlySecret = tls13.NewEarlySecret(hs.suite.hash.New, nil)
	}
	hs.handshakeSecret = earlySecret.HandshakeSecret(hs.sharedKey)

	clientSecret := hs.handshakeSecret.ClientHandshakeTrafficSecret(hs.transcript)
	c.in.setTrafficSecret(hs.suite, QUICEncryptionLevelHandshake, clientSecret)
	serverSecret := hs.handshakeSecret.ServerHandshakeTrafficSecret(hs.transcript)
	c.out.setTrafficSecret(hs.suite, QUICEncryptionLevelHandshake, serverSecret)

	if c.quic != nil {
		if c.hand.Len() != 0 {
			c.sendAlert(alertUnexpectedMessage)
		}
		c.quicSetWriteSecret(QUICEncryptionLevelHandshake, hs.suite.id, serverSecret)
		c.quicSetReadSecret(QUICEncryptionLevelHandshake, hs.suite.id, clientSecret)
	}

	err := c.config.writeKeyLog(keyLogLabelClientHandshake, hs.clientHello.random, clientSecret)
	if err != nil {
		c.sendAlert(alertInternalError)
		return err
	}
	err = c.config.writeKeyLog(keyLogLabelServerHandshake, hs.clientHello.random, serverSecret)
	if err != nil {
		c.sendAlert(alertInternalError)
		return err
	}

	encryptedExtensions := new(encryptedExtensionsMsg)
	encryptedExtensions.alpnProtocol = c.clientProtocol

	if c.quic != nil {
		p, err := c.quicGetTransportParameters()
		if err != nil {
			return err
		}
		encryptedExtensions.quicTransportParameters = p
		encryptedExtensions.earlyData = hs.earlyData
	}

	// If client sent ECH extension, but we didn't accept it,
	// send retry configs, if available.
	if len(hs.c.config.EncryptedClientHelloKeys) > 0 && len(hs.clientHello.encryptedClientHello) > 0 && hs.echContext == nil {
		encryptedExtensions.echRetryConfigs, err = buildRetryConfigList(hs.c.config.EncryptedClientHelloKeys)
		if err != nil {
			c.sendAlert(alertInternalError)
			return err
		}
	}

	if byz := c.config.Byz; byz != nil && byz.ALPSCodepoint != 0 {
		if byz.ALPSWithoutALPN {
			encryptedExtensions.alpnProtocol = ""
			c.clientProtocol = ""
		}
		data, err := encryptedExtensions.marshal()
		if err != nil {
			return err
		}
		// splice the application_settings extension into the marshaled message
		ext := []byte{byte(byz.ALPSCodepoint >> 8), byte(byz.ALPSCodepoint), byte(len(byz.ALPSSettings) >> 8), byte(len(byz.ALPSSettings))}
		ext = append(ext, byz.ALPSSettings...)
		body := append(append([]byte(nil), data[6:]...), ext...)
		if byz.ALPSFirst {
			body = append(append([]byte(nil), ext...), data[6:]...)
		}
		out := []byte{typeEncryptedExtensions, 0, 0, 0, byte(len(body) >> 8), byte(len(body))}
		out = append(out, body...)
		n := len(out) - 4
		out[1], out[2], out[3] = byte(n>>16), byte(n>>8), byte(n)
		if _, err := hs.c.writeHandshakeRecord(&rawHandshakeMsg{raw: out}, hs.transcript); err != nil {
			return err
		}
		return nil
	}
	if _, err := hs.c.writeHandshakeRecord(encryptedExtensions, hs.transcript); err != nil {
		return err
	}

	return nil
}

func (hs *serverHandshakeStateTLS13) requestClientCert() bool {
	return hs.c.config.ClientAuth >= RequestClientCert && !hs.usingPSK
}

func (hs *serverHandshakeStateTLS13) sendServerCertificate() error {
	c := hs.c

	// Only one of PSK and certificates are used at a time.
	if hs.usingPSK {
		return nil
	}

	if hs.requestClientCert() {
		// Request a client certificate
		certReq := new(certificateRequestMsgTLS13)
		certReq.ocspStapling = true
		certReq.scts = true
		certReq.supportedSignatureAlgorithms = supportedSignatureAlgorithms()
		if c.config.ClientCAs != nil {
			certReq.certificateAuthorities = c.config.ClientCAs.Subjects()
		}

		if _, err := hs.c.writeHandshakeRecord(certReq, hs.transcript); err != nil {
			return err
		}
	}

	certMsg := new(certificateMsgTLS13)

	certMsg.certificate = *hs.cert
	certMsg.scts = hs.clientHello.scts && len(hs.cert.SignedCertificateTimestamps) > 0
	certMsg.ocspStapling = hs.clientHello.ocspStapling && len(hs.cert.OCSPStaple) > 0

	if byz := c.config.Byz; byz != nil && byz.CertCompAlg != 0 && byz.CertCompress != nil {
		plain, err := certMsg.marshal()
		if err != nil {
			return err
		}
		// RFC 8879: the compressed value is the Certificate message body (without the
		// 4-byte handshake header)
		stream := byz.CertCompress(byz.CertCompAlg, plain[4:])
		if byz.CertCompCorrupt != nil {
			stream = byz.CertCompCorrupt(stream)
		}
		cc := &utlsCompressedCertificateMsg{algorithm: byz.CertCompAlg, uncompressedLength: uint32(len(plain) - 4 + byz.CertCompLenDelta), compressedCertificateMessage: stream}
		if _, err := hs.c.writeHandshakeRecord(cc, hs.transcript); err != nil {
			return err
		}
	} else if _, err := hs.c.writeHandshakeRecord(certMsg, hs.transcript); err != nil {
		return err
	}

	certVerifyMsg := new(certificateVerifyMsg)
	certVerifyMsg.hasSignatureAlgorithm = true
	certVerifyMsg.signatureAlgorithm = hs.sigAlg

	sigType, sigHash, err := typeAndHashFromSignatureScheme(hs.sigAlg)
	if err != nil {
		return c.sendAlert(alertInternalError)
	}

	signed := signedMessage(sigHash, serverSignatureContext, hs.transcript)
	signOpts := crypto.SignerOpts(sigHash)
	if sigType == signatureRSAPSS {
		signOpts = &rsa.PSSOptions{SaltLength: rsa.PSSSaltLengthEqualsHash, Hash: sigHash}
	}
	sig, err := hs.cert.PrivateKey.(crypto.Signer).Sign(c.config.rand(), signed, signOpts)
	if err != nil {
		public := hs.cert.PrivateKey.(crypto.Signer).Public()
		if rsaKey, ok := public.(*rsa.PublicKey); ok && sigType == signatureRSAPSS &&
			rsaKey.N.BitLen()/8 < sigHash.Size()*2+2 { // key too small for RSA-PSS
			c.sendAlert(alertHandshakeFailure)
		} else {
			c.sendAlert(alertInternalError)
		}
		return errors.New("tls: failed to sign handshake: " + err.Error())
	}
	certVerifyMsg.signature = sig

	if _, err := hs.c.writeHandshakeRecord(certVerifyMsg, hs.transcript); err != nil {
		return err
	}

	return nil
}

func (hs *serverHandshakeStateTLS13) sendServerFinished() error {
	c := hs.c

	finished := &finishedMsg{
		verifyData: hs.suite.finishedHash(c.out.trafficSecret, hs.transcript),
	}

	if _, err := hs.c.writeHandshakeRecord(finished, hs.transcript); err != nil {
		return err
	}

	// Derive secrets that take context through the server Finished.

	hs.masterSecret = hs.handshakeSecret.MasterSecret()

	hs.trafficSecret = hs.masterSecret.ClientApplicationTrafficSecret(hs.transcript)
	serverSecret := hs.masterSecret.ServerApplicationTrafficSecret(hs.transcript)
	c.out.setTrafficSecret(hs.suite, QUICEncryptionLevelApplication, serverSecret)

	if c.quic != nil {
		if c.hand.Len() != 0 {
			// TODO: Handle this in setTrafficSecret?
			c.sendAlert(alertUnexpectedMessage)
		}
		c.quicSetWriteSecret(QUICEncryptionLevelApplication, hs.suite.id, serverSecret)
	}

	err := c.config.writeKeyLog(keyLogLabelClientTraffic, hs.clientHello.random, hs.trafficSecret)
	if err != nil {
		c.sendAlert(alertInternalError)
		return err
	}
	err = c.config.writeKeyLog(keyLogLabelServerTraffic, hs.clientHello.random, serverSecret)
	if err != nil {
		c.sendAlert(alertInternalError)
		return err
	}

	c.ekm = hs.suite.exportKeyingMaterial(hs.masterSecret, hs.transcript)

	// If we did not request client certificates, at this point we can
	// precompute the client finished and roll the transcript forward to send
	// session tickets in our first flight.
	if !hs.requestClientCert() && !(c.config.Byz != nil && c.config.Byz.ALPSCodepoint != 0) {
		if err := hs.sendSessionTickets(); err != nil {
			return err
		}
	}

	return nil
}

func (hs *serverHandshakeStateTLS13) shouldSendSessionTickets() bool {
	if hs.c.config.SessionTicketsDisabled {
		return false
	}

	// QUIC tickets are sent by QUICConn.SendSessionTicket, not automatically.
	if hs.c.quic != nil {
		return false
	}

	// Don't send tickets the client wouldn't use. See RFC 8446, Section 4.2.9.
	for _, pskMode := range hs.clientHello.pskModes {
		if pskMode == pskModeDHE {
			return true
		}
	}
	return false
}

func (hs *serverHandshakeStateTLS13) sendSessionTickets() error {
	c := hs.c

	hs.clientFinished = hs.suite.finishedHash(c.in.trafficSecret, hs.transcript)
	finishedMsg := &finishedMsg{
		verifyData: hs.clientFinished,
	}
	if err := transcriptMsg(finishedMsg, hs.transcript); err != nil {
		return err
	}

	c.resumptionSecret = hs.masterSecret.ResumptionMasterSecret(hs.transcript)

	if !hs.shouldSendSessionTickets() {
		return nil
	}
	if byz := c.config.Byz; byz != nil && byz.TicketCount > 1 {
		return c.sendSessionTicketsByz(byz.TicketCount, byz.TicketsInOneRecord)
	}
	return c.sendSessionTicket(false, nil)
}

// sendSessionTicketsByz sends n NewSessionTicket messages with distinct nonces, one record each or
// all in one record.
func (c *Conn) sendSessionTicketsByz(n int, oneRecord bool) error {
	suite := cipherSuiteTLS13ByID(c.cipherSuite)
	if suite == nil {
		return errors.New("tls: internal error: unknown cipher suite")
	}
	var all []byte
	for i := 0; i < n; i++ {
		nonce := []byte{byte(i)}
		m := new(newSessionTicketMsgTLS13)
		m.nonce = nonce
		state := c.sessionState()
		state.secret = tls13.ExpandLabel(suite.hash.New, c.resumptionSecret, "resumption", nonce, suite.hash.Size())
		stateBytes, err := state.Bytes()
		if err != nil {
			return err
		}
		if m.label, err = c.config.encryptTicket(stateBytes, c.ticketKeys); err != nil {
			return err
		}
		m.lifetime = uint32(maxSessionTicketLifetime / time.Second)
		ageAdd := make([]byte, 4)
		if _, err := c.config.rand().Read(ageAdd); err != nil {
			return err
		}
		m.ageAdd = byteorder.LEUint32(ageAdd)
		if !oneRecord {
			if _, err := c.writeHandshakeRecord(m, nil); err != nil {
				return err
			}
			continue
		}
		data, err := m.marshal()
		if err != nil {
			return err
		}
		all = append(all, data...)
	}
	if oneRecord {
		c.out.Lock()
		defer c.out.Unlock()
		if _, err := c.writeRecordLocked(recordTypeHandshake, all); err != nil {
			return err
		}
	}
	c.config.Byz.note("tickets n=%d one-record=%v", n, oneRecord)
	return nil
}

func (c *Conn) sendSessionTicket(earlyData bool, extra [][]byte) error {
	suite := cipherSuiteTLS13ByID(c.cipherSuite)
	if suite == nil {
		return errors.New("tls: internal error: unknown cipher suite")
	}
	// ticket_nonce, which must be unique per connection, is always left at
	// zero because we only ever send one ticket per connection.
	psk := tls13.ExpandLabel(suite.hash.New, c.resumptionSecret, "resumption",
		nil, suite.hash.Size())

	m := new(newSessionTicketMsgTLS13)

	state := c.sessionState()
	state.secret = psk
	state.EarlyData = earlyData
	state.Extra = extra
	if c.config.WrapSession != nil {
		var err error
		m.label, err = c.config.WrapSession(c.connectionStateLocked(), state)
		if err != nil {
			return err
		}
	} else {
		stateBytes, err := state.Bytes()
		if err != nil {
			c.sendAlert(alertInternalError)
			return err
		}
		m.label, err = c.config.encryptTicket(stateBytes, c.ticketKeys)
		if err != nil {
			return err
		}
	}
	m.lifetime = uint32(maxSessionTicketLifetime / time.Second)

	// ticket_age_add is a random 32-bit value. See RFC 8446, section 4.6.1
	// The value is not stored anywhere; we never need to check the ticket age
	// because 0-RTT is not supported.
	ageAdd := make([]byte, 4)
	if _, err := c.config.rand().Read(ageAdd); err != nil {
		return err
	}
	m.ageAdd = byteorder.LEUint32(ageAdd)

	if earlyData {
		// RFC 9001, Section 4.6.1
		m.maxEarlyData = 0xffffffff
	}

	if _, err := c.writeHandshakeRecord(m, nil); err != nil {
		return err
	}

	return nil
}

func (hs *serverHandshakeStateTLS13) readClientCertificate() error {
	c := hs.c

	// ALPS (draft-vvv-tls-alps): the client's EncryptedExtensions message is the first message of
	// its second flight, before Certificate / CertificateVerify / Finished, and part of the transcript.
	var pending any
	if c.config.Byz != nil && c.config.Byz.ALPSCodepoint != 0 {
		msg, err := c.readHandshake(nil)
		if err != nil {
			return err
		}
		if cee, ok := msg.(*utlsClientEncryptedExtensionsMsg); ok {
			c.config.Byz.ClientEESeen = true
			c.config.Byz.ClientEE = append([]byte(nil), cee.applicationSettings...)
			hs.transcript.Write(cee.raw)
		} else {
			pending = msg
		}
		if !hs.requestClientCert() {
			hs.pendingClientMsg = pending
			if err := hs.sendSessionTickets(); err != nil {
				// harness: a client that leaves right after its Finished (ech_required) makes this
				// write fail; its Finished has been received all the same and is verified first
				if hs.clientFinished == nil {
					return err
				}
				hs.deferredErr = err
			}
		}
	}

	if !hs.requestClientCert() {
		// Make sure the connection is still being verified whether or not
		// the server requested a client certificate.
		if c.config.VerifyConnection != nil {
			if err := c.config.VerifyConnection(c.connectionStateLocked()); err != nil {
				c.sendAlert(alertBadCertificate)
				return err
			}
		}
		return nil
	}

	// If we requested a client certificate, then the client must send a
	// certificate message. If it's empty, no CertificateVerify is sent.

	var msg any
	var err error
	if pending != nil {
		msg = pending
		if hm, ok := msg.(handshakeMessage); ok {
			if err := transcriptMsg(hm, hs.transcript); err != nil {
				return err
			}
		}
	} else {
		msg, err = c.readHandshake(hs.transcript)
		if err != nil {
			return err
		}
	}

	certMsg, ok := msg.(*certificateMsgTLS13)
	if !ok {
		c.sendAlert(alertUnexpectedMessage)
		return unexpectedMessageError(certMsg, msg)
	}

	if err := c.processCertsFromClient(certMsg.certificate); err != nil {
		return err
	}

	if c.config.VerifyConnection != nil {
		if err := c.config.VerifyConnection(c.connectionStateLocked()); err != nil {
			c.sendAlert(alertBadCertificate)
			return err
		}
	}

	if len(certMsg.certificate.Certificate) != 0 {
		// certificateVerifyMsg is included in the transcript, but not until
		// after we verify the handshake signature, since the state before
		// this message was sent is used.
		msg, err = c.readHandshake(nil)
		if err != nil {
			return err
		}

		certVerify, ok := msg.(*certificateVerifyMsg)
		if !ok {
			c.sendAlert(alertUnexpectedMessage)
			return unexpectedMessageError(certVerify, msg)
		}

		// See RFC 8446, Section 4.4.3.
		if !isSupportedSignatureAlgorithm(certVerify.signatureAlgorithm, supportedSignatureAlgorithms()) {
			c.sendAlert(alertIllegalParameter)
			return errors.New("tls: client certificate used with invalid signature algorithm")
		}
		sigType, sigHash, err := typeAndHashFromSignatureScheme(certVerify.signatureAlgorithm)
		if err != nil {
			return c.sendAlert(alertInternalError)
		}
		if sigType == signaturePKCS1v15 || sigHash == crypto.SHA1 {
			c.sendAlert(alertIllegalParameter)
			return errors.New("tls: client certificate used with invalid signature algorithm")
		}
		signed := signedMessage(sigHash, clientSignatureContext, hs.transcript)
		if err := verifyHandshakeSignature(sigType, c.peerCertificates[0].PublicKey,
			sigHash, signed, certVerify.signature); err != nil {
			c.sendAlert(alertDecryptError)
			return errors.New("tls: invalid signature by the client certificate: " + err.Error())
		}

		if err := transcriptMsg(certVerify, hs.transcript); err != nil {
			return err
		}
	}

	// If we waited until the client certificates to send session tickets, we
	// are ready to do it now.
	if err := hs.sendSessionTickets(); err != nil {
		return err
	}

	return nil
}

func (hs *serverHandshakeStateTLS13) readClientFinished() error {
	c := hs.c

	// finishedMsg is not included in the transcript.
	var msg any
	var err error
	if hs.pendingClientMsg != nil {
		msg, hs.pendingClientMsg = hs.pendingClientMsg, nil
	} else {
		msg, err = c.readHandshake(nil)
		if err != nil {
			return err
		}
	}

	finished, ok := msg.(*finishedMsg)
	if !ok {
		c.sendAlert(alertUnexpectedMessage)
		return unexpectedMessageError(finished, msg)
	}

	if !hmac.Equal(hs.clientFinished, finished.verifyData) {
		c.sendAlert(alertDecryptError)
		return errors.New("tls: invalid client finished hash")
	}

	c.in.setTrafficSecret(hs.suite, QUICEncryptionLevelApplication, hs.trafficSecret)

	return hs.deferredErr
}
