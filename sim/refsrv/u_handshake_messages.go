// Copyright 2022 uTLS Authors. All rights reserved.
// Use of this source code is governed by a BSD-style
// license that can be found in the LICENSE file.

package refsrv

import (
	"golang.org/x/crypto/cryptobyte"
)

// Only implemented client-side, for server certificates.
// Alternate certificate message formats (https://datatracker.ietf.org/doc/html/rfc7250) are not
// supported.
// https://datatracker.ietf.org/doc/html/rfc8879
type utlsCompressedCertificateMsg struct {
	raw []byte

	algorithm                    uint16
	uncompressedLength           uint32 // uint24
	compressedCertificateMessage []byte
}

func (m *utlsCompressedCertificateMsg) marshal() ([]byte, error) {
	if m.raw != nil {
		return m.raw, nil
	}

	var b cryptobyte.Builder
	b.AddUint8(utlsTypeCompressedCertificate)
	b.AddUint24LengthPrefixed(func(b *cryptobyte.Builder) {
		b.AddUint16(m.algorithm)
		b.AddUint24(m.uncompressedLength)
		b.AddUint24LengthPrefixed(func(b *cryptobyte.Builder) {
			b.AddBytes(m.compressedCertificateMessage)
		})
	})

	var err error
	m.raw, err = b.Bytes()
	return m.raw, err
}

func (m *utlsCompressedCertificateMsg) unmarshal(data []byte) bool {
	*m = utlsCompressedCertificateMsg{raw: data}
	s := cryptobyte.String(data)

	if !s.Skip(4) || // message type and uint24 length field
		!s.ReadUint16(&m.algorithm) ||
		!s.ReadUint24(&m.uncompressedLength) ||
		!readUint24LengthPrefixed(&s, &m.compressedCertificateMessage) {
		return false
	}
	return true
}

type utlsEncryptedExtensionsMsgExtraFields struct {
	applicationSettings          []byte
	applicationSettingsCodepoint uint16
	customExtension              []byte
}

func (m *encryptedExtensionsMsg) utlsUnmarshal(extension uint16, extData cryptobyte.String) bool {
	switch extension {
	case utlsExtensionApplicationSettings:
		fallthrough
	case utlsExtensionApplicationSettingsNew:
		m.utls.applicationSettingsCodepoint = extension
		m.utls.applicationSettings = []byte(extData)
	}
	return true // success/unknown extension
}

type utlsClientEncryptedExtensionsMsg struct {
	raw                          []byte
	applicationSettings          []byte
	applicationSettingsCodepoint uint16
	customExtension              []byte
}

func (m *utlsClientEncryptedExtensionsMsg) marshal() (x []byte, err error) {
	if m.raw != nil {
		return m.raw, nil
	}

	var builder cryptobyte.Builder
	builder.AddUint8(typeEncryptedExtensions)
	builder.AddUint24LengthPrefixed(func(body *cryptobyte.Builder) {
		body.AddUint16LengthPrefixed(func(extensions *cryptobyte.Builder) {
			if m.applicationSettingsCodepoint != 0 {
				extensions.AddUint16(m.applicationSettingsCodepoint)
				extensions.AddUint16LengthPrefixed(func(msg *cryptobyte.Builder) {
					msg.AddBytes(m.applicationSettings)
				})
			}
			if len(m.customExtension) > 0 {
				extensions.AddUint16(utlsFakeExtensionCustom)
				extensions.AddUint16LengthPrefixed(func(msg *cryptobyte.Builder) {
					msg.AddBytes(m.customExtension)
				})
			}
		})
	})

	m.raw, err = builder.Bytes()
	return m.raw, err
}

func (m *utlsClientEncryptedExtensionsMsg) unmarshal(data []byte) bool {
	*m = utlsClientEncryptedExtensionsMsg{raw: data}
	s := cryptobyte.String(data)

	var extensions cryptobyte.String
	if !s.Skip(4) || // message type and uint24 length field
		!s.ReadUint16LengthPrefixed(&extensions) || !s.Empty() {
		return false
	}

	for !extensions.Empty() {
		var extension uint16
		var extData cryptobyte.String
		if !extensions.ReadUint16(&extension) ||
			!extensions.ReadUint16LengthPrefixed(&extData) {
			return false
		}

		switch extension {
		case utlsExtensionApplicationSettings:
			fallthrough
		case utlsExtensionApplicationSettingsNew:
			m.applicationSettingsCodepoint = extension
			m.applicationSettings = []byte(extData)
		default:
			// Unknown extensions are illegal in EncryptedExtensions.
			return false
		}
	}
	return true
}
