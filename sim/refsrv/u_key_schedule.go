package refsrv

import (
	"crypto/mlkem"

	"golang.org/x/crypto/sha3"
)

// kyberDecapsulate implements decapsulation according to Kyber Round 3.
func kyberDecapsulate(dk *mlkem.DecapsulationKey768, c []byte) ([]byte, error) {
	K, err := dk.Decapsulate(c)
	if err != nil {
		return nil, err
	}
	return kyberSharedSecret(c, K), nil
}

func kyberSharedSecret(c, K []byte) []byte {
	// Package mlkem implements ML-KEM, which compared to Kyber removed a
	// final hashing step. Compute SHAKE-256(K || SHA3-256(c), 32) to match Kyber.
	// See https://words.filippo.io/mlkem768/#bonus-track-using-a-ml-kem-implementation-as-kyber-v3.
	h := sha3.NewShake256()
	h.Write(K)
	ch := sha3.New256()
	ch.Write(c)
	h.Write(ch.Sum(nil))
	out := make([]byte, 32)
	h.Read(out)
	return out
}
