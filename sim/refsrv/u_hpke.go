package refsrv

import (
	"github.com/refraction-networking/utls/internal/hpke"
)

type HPKERawPublicKey = []byte
type HPKE_KEM_ID = uint16  // RFC 9180
type HPKE_KDF_ID = uint16  // RFC 9180
type HPKE_AEAD_ID = uint16 // RFC 9180

type HPKESymmetricCipherSuite struct {
	KdfId  HPKE_KDF_ID
	AeadId HPKE_AEAD_ID
}

const defaultHpkeKdf = hpke.KDF_HKDF_SHA256
const defaultHpkeKem = hpke.DHKEM_X25519_HKDF_SHA256
const defaultHpkeAead = hpke.AEAD_AES_128_GCM

var dummyX25519PublicKey = []byte{
	143, 38, 37, 36, 12, 6, 229, 30, 140, 27, 167, 73, 26, 100, 203, 107, 216,
	81, 163, 222, 52, 211, 54, 210, 46, 37, 78, 216, 157, 97, 241, 244,
}

// cipherLen returns the length of a ciphertext corresponding to a message of
// length mLen.
func cipherLen(a uint16, mLen int) int {
	switch a {
	case hpke.AEAD_AES_128_GCM, hpke.AEAD_AES_256_GCM, hpke.AEAD_ChaCha20Poly1305:
		return mLen + 16
	default:
		panic("hpke: invalid AEAD identifier")
	}
}
