// Copyright 2024 The Go Authors. All rights reserved.
// Use of this source code is governed by a BSD-style
// license that can be found in the LICENSE file.

package refsrv

import (
	"slices"
	_ "unsafe" // for linkname
)

// Defaults are collected in this file to allow distributions to more easily patch
// them to apply local policies.

// var tlsmlkem = godebug.New("tlsmlkem") [uTLS]

// defaultCurvePreferences is the default set of supported key exchanges, as
// well as the preference order.
func defaultCurvePreferences() []CurveID {
	// [uTLS section begins]
	// if tlsmlkem.Value() == "0" {
	// 	return []CurveID{X25519, CurveP256, CurveP384, CurveP521}
	// }
	// [uTLS section ends]

	return []CurveID{X25519MLKEM768, X25519, CurveP256, CurveP384, CurveP521}
}

// defaultSupportedSignatureAlgorithms contains the signature and hash algorithms that
// the code advertises as supported in a TLS 1.2+ ClientHello and in a TLS 1.2+
// CertificateRequest. The two fields are merged to match with TLS 1.3.
// Note that in TLS 1.2, the ECDSA algorithms are not constrained to P-256, etc.
var defaultSupportedSignatureAlgorithms = []SignatureScheme{
	PSSWithSHA256,
	ECDSAWithP256AndSHA256,
	Ed25519,
	PSSWithSHA384,
	PSSWithSHA512,
	PKCS1WithSHA256,
	PKCS1WithSHA384,
	PKCS1WithSHA512,
	ECDSAWithP384AndSHA384,
	ECDSAWithP521AndSHA512,
	PKCS1WithSHA1,
	ECDSAWithSHA1,
}

// [uTLS section begins]
// var tlsrsakex = godebug.New("tlsrsakex")
// var tls3des = godebug.New("tls3des")
// [uTLS section ends]

func defaultCipherSuites() []uint16 {
	suites := slices.Clone(cipherSuitesPreferenceOrder)
	return slices.DeleteFunc(suites, func(c uint16) bool {
		return disabledCipherSuites[c] ||
			// [uTLS section begins]
			// tlsrsakex.Value() != "1" && rsaKexCiphers[c] ||
			// tls3des.Value() != "1" && tdesCiphers[c]
			rsaKexCiphers[c] ||
			tdesCiphers[c]
		// [uTLS section ends]
	})
}

// defaultCipherSuitesTLS13 is also the preference order, since there are no
// disabled by default TLS 1.3 cipher suites. The same AES vs ChaCha20 logic as
// cipherSuitesPreferenceOrder applies.
//
// defaultCipherSuitesTLS13 should be an internal detail,
// but widely used packages access it using linkname.
// Notable members of the hall of shame include:
//   - github.com/quic-go/quic-go
//   - github.com/sagernet/quic-go
//
// Do not remove or change the type signature.
// See go.dev/issue/67401.
//
//go:linkname defaultCipherSuitesTLS13
var defaultCipherSuitesTLS13 = []uint16{
	TLS_AES_128_GCM_SHA256,
	TLS_AES_256_GCM_SHA384,
	TLS_CHACHA20_POLY1305_SHA256,
}

// defaultCipherSuitesTLS13NoAES should be an internal detail,
// but widely used packages access it using linkname.
// Notable members of the hall of shame include:
//   - github.com/quic-go/quic-go
//   - github.com/sagernet/quic-go
//
// Do not remove or change the type signature.
// See go.dev/issue/67401.
//
//go:linkname defaultCipherSuitesTLS13NoAES
var defaultCipherSuitesTLS13NoAES = []uint16{
	TLS_CHACHA20_POLY1305_SHA256,
	TLS_AES_128_GCM_SHA256,
	TLS_AES_256_GCM_SHA384,
}

// The FIPS-only policies below match BoringSSL's
// ssl_compliance_policy_fips_202205, which is based on NIST SP 800-52r2.
// https://cs.opensource.google/boringssl/boringssl/+/master:ssl/ssl_lib.cc;l=3289;drc=ea7a88fa

var defaultSupportedVersionsFIPS = []uint16{
	VersionTLS12,
	VersionTLS13,
}

// defaultCurvePreferencesFIPS are the FIPS-allowed curves,
// in preference order (most preferable first).
var defaultCurvePreferencesFIPS = []CurveID{CurveP256, CurveP384}

// defaultSupportedSignatureAlgorithmsFIPS currently are a subset of
// defaultSupportedSignatureAlgorithms without Ed25519 and SHA-1.
var defaultSupportedSignatureAlgorithmsFIPS = []SignatureScheme{
	PSSWithSHA256,
	PSSWithSHA384,
	PSSWithSHA512,
	PKCS1WithSHA256,
	ECDSAWithP256AndSHA256,
	PKCS1WithSHA384,
	ECDSAWithP384AndSHA384,
	PKCS1WithSHA512,
}

// defaultCipherSuitesFIPS are the FIPS-allowed cipher suites.
var defaultCipherSuitesFIPS = []uint16{
	TLS_ECDHE_RSA_WITH_AES_128_GCM_SHA256,
	TLS_ECDHE_RSA_WITH_AES_256_GCM_SHA384,
	TLS_ECDHE_ECDSA_WITH_AES_128_GCM_SHA256,
	TLS_ECDHE_ECDSA_WITH_AES_256_GCM_SHA384,
}

// defaultCipherSuitesTLS13FIPS are the FIPS-allowed cipher suites for TLS 1.3.
var defaultCipherSuitesTLS13FIPS = []uint16{
	TLS_AES_128_GCM_SHA256,
	TLS_AES_256_GCM_SHA384,
}
