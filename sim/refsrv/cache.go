// Copyright 2022 The Go Authors. All rights reserved.
// Use of this source code is governed by a BSD-style
// license that can be found in the LICENSE file.

package refsrv

import (
	"crypto/x509"
	"runtime"
	"sync"
	"sync/atomic"
)

type cacheEntry struct {
	refs atomic.Int64
	cert *x509.Certificate
}

// certCache implements an intern table for reference counted x509.Certificates,
// implemented in a similar fashion to BoringSSL's CRYPTO_BUFFER_POOL. This
// allows for a single x509.Certificate to be kept in memory and referenced from
// multiple Conns. Returned references should not be mutated by callers. Certificates
// are still safe to use after they are removed from the cache.
//
// Certificates are returned wrapped in an activeCert struct that should be held by
// the caller. When references to the activeCert are freed, the number of references
// to the certificate in the cache is decremented. Once the number of references
// reaches zero, the entry is evicted from the cache.
//
// The main difference between this implementation and CRYPTO_BUFFER_POOL is that
// CRYPTO_BUFFER_POOL is a more  generic structure which supports blobs of data,
// rather than specific structures. Since we only care about x509.Certificates,
// certCache is implemented as a specific cache, rather than a generic one.
//
// See https://boringssl.googlesource.com/boringssl/+/master/include/openssl/pool.h
// and https://boringssl.googlesource.com/boringssl/+/master/crypto/pool/pool.c
// for the BoringSSL reference.
type certCache struct {
	sync.Map
}

var globalCertCache = new(certCache)

// activeCert is a handle to a certificate held in the cache. Once there are
// no alive activeCerts for a given certificate, the certificate is removed
// from the cache by a finalizer.
type activeCert struct {
	cert *x509.Certificate
}

// active increments the number of references to the entry, wraps the
// certificate in the entry in an activeCert, and sets the finalizer.
//
// Note that there is a race between active and the finalizer set on the
// returned activeCert, triggered if active is called after the ref count is
// decremented such that refs may be > 0 when evict is called. We consider this
// safe, since the caller holding an activeCert for an entry that is no longer
// in the cache is fine, with the only side effect being the memory overhead of
// there being more than one distinct reference to a certificate alive at once.
func (cc *certCache) active(e *cacheEntry) *activeCert {
	e.refs.Add(1)
	a := &activeCert{e.cert}
	runtime.SetFinalizer(a, func(_ *activeCert) {
		if e.refs.Add(-1) == 0 {
			cc.evict(e)
		}
	})
	return a
}

// evict removes a cacheEntry from the cache.
func (cc *certCache) evict(e *cacheEntry) {
	cc.Delete(string(e.cert.Raw))
}

// newCert returns a x509.Certificate parsed from der. If there is already a copy
// of the certificate in the cache, a reference to the existing certificate will
// be returned. Otherwise, a fresh certificate will be added to the cache, and
// the reference returned. The returned reference should not be mutated.
func (cc *certCache) newCert(der []byte) (*activeCert, error) {
	if entry, ok := cc.Load(string(der)); ok {
		return cc.active(entry.(*cacheEntry)), nil
	}

	cert, err := x509.ParseCertificate(der)
	if err != nil {
		return nil, err
	}

	entry := &cacheEntry{cert: cert}
	if entry, loaded := cc.LoadOrStore(string(der), entry); loaded {
		return cc.active(entry.(*cacheEntry)), nil
	}
	return cc.active(entry), nil
}
