package refsrv

import (
	"net"
	"sync"
	"time"
)

type Roller struct {
	HelloIDs            []ClientHelloID
	HelloIDMu           sync.Mutex
	WorkingHelloID      *ClientHelloID
	TcpDialTimeout      time.Duration
	TlsHandshakeTimeout time.Duration
	r                   *prng
}

// NewRoller creates Roller object with default range of HelloIDs to cycle through until a
// working/unblocked one is found.
func NewRoller() (*Roller, error) {
	r, err := newPRNG()
	if err != nil {
		return nil, err
	}

	tcpDialTimeoutInc := r.Intn(14)
	tcpDialTimeoutInc = 7 + tcpDialTimeoutInc

	tlsHandshakeTimeoutInc := r.Intn(20)
	tlsHandshakeTimeoutInc = 11 + tlsHandshakeTimeoutInc

	return &Roller{
		HelloIDs: []ClientHelloID{
			HelloChrome_Auto,
			HelloFirefox_Auto,
			HelloIOS_Auto,
			HelloRandomized,
		},
		TcpDialTimeout:      time.Second * time.Duration(tcpDialTimeoutInc),
		TlsHandshakeTimeout: time.Second * time.Duration(tlsHandshakeTimeoutInc),
		r:                   r,
	}, nil
}

// Dial attempts to establish connection to given address using different HelloIDs.
// If a working HelloID is found, it is used again for subsequent Dials.
// If tcp connection fails or all HelloIDs are tried, returns with last error.
//
// Usage examples:
//    Dial("tcp4", "google.com:443", "google.com")
//    Dial("tcp", "10.23.144.22:443", "mywebserver.org")
func (c *Roller) Dial(network, addr, serverName string) (*UConn, error) {
	helloIDs := make([]ClientHelloID, len(c.HelloIDs))
	copy(helloIDs, c.HelloIDs)
	c.r.rand.Shuffle(len(c.HelloIDs), func(i, j int) {
		helloIDs[i], helloIDs[j] = helloIDs[j], helloIDs[i]
	})

	c.HelloIDMu.Lock()
	workingHelloId := c.WorkingHelloID // keep using same helloID, if it works
	c.HelloIDMu.Unlock()
	if workingHelloId != nil {
		helloIDFound := false
		for i, ID := range helloIDs {
			if ID == *workingHelloId {
				helloIDs[i] = helloIDs[0]
				helloIDs[0] = *workingHelloId // push working hello ID first
				helloIDFound = true
				break
			}
		}
		if !helloIDFound {
			helloIDs = append([]ClientHelloID{*workingHelloId}, helloIDs...)
		}
	}

	var tcpConn net.Conn
	var err error
	for _, helloID := range helloIDs {
		tcpConn, err = net.DialTimeout(network, addr, c.TcpDialTimeout)
		if err != nil {
			return nil, err // on tcp Dial failure return with error right away
		}

		client := UClient(tcpConn, nil, helloID)
		client.SetSNI(serverName)
		client.SetDeadline(time.Now().Add(c.TlsHandshakeTimeout))
		err = client.Handshake()
		client.SetDeadline(time.Time{}) // unset timeout
		if err != nil {
			continue // on tls Dial error keep trying HelloIDs
		}

		c.HelloIDMu.Lock()
		c.WorkingHelloID = &client.ClientHelloID
		c.HelloIDMu.Unlock()
		return client, err
	}
	return nil, err
}
