// Package simatomic replaces "sync/atomic" in the scratch copy of the utls package: the
// typed atomics the package uses wrap the real ones and may yield to the scheduler before
// an operation, so Load…CompareAndSwap windows are explorable. Pass-through outside a world.
package simatomic

import (
	"sync/atomic"
	"time"

	"github.com/refraction-networking/utls/zz_verif/simrt"
)

type atomRes struct{}

func (atomRes) Name() string                                             { return "atomic" }
func (atomRes) Ready(w *simrt.World, r *simrt.Req) (bool, time.Time)     { return true, time.Time{} }
func (atomRes) Do(w *simrt.World, r *simrt.Req) (int, error)             { return 0, nil }
func (atomRes) Note(w *simrt.World, r *simrt.Req)                        {}

var theAtomRes simrt.Resource = atomRes{}

func yield() {
	if w := simrt.Cur(); w != nil && w.Cfg.AtomicYield {
		w.Park(&simrt.Req{Kind: simrt.KYield, Res: theAtomRes})
	}
}

type Bool struct{ v atomic.Bool }

func (x *Bool) Load() bool                        { yield(); return x.v.Load() }
func (x *Bool) Store(val bool)                    { yield(); x.v.Store(val) }
func (x *Bool) Swap(new bool) bool                { yield(); return x.v.Swap(new) }
func (x *Bool) CompareAndSwap(old, new bool) bool { yield(); return x.v.CompareAndSwap(old, new) }

type Int32 struct{ v atomic.Int32 }

func (x *Int32) Load() int32                        { yield(); return x.v.Load() }
func (x *Int32) Store(val int32)                    { yield(); x.v.Store(val) }
func (x *Int32) Swap(new int32) int32               { yield(); return x.v.Swap(new) }
func (x *Int32) Add(d int32) int32                  { yield(); return x.v.Add(d) }
func (x *Int32) CompareAndSwap(old, new int32) bool { yield(); return x.v.CompareAndSwap(old, new) }

type Int64 struct{ v atomic.Int64 }

func (x *Int64) Load() int64                        { yield(); return x.v.Load() }
func (x *Int64) Store(val int64)                    { yield(); x.v.Store(val) }
func (x *Int64) Swap(new int64) int64               { yield(); return x.v.Swap(new) }
func (x *Int64) Add(d int64) int64                  { yield(); return x.v.Add(d) }
func (x *Int64) CompareAndSwap(old, new int64) bool { yield(); return x.v.CompareAndSwap(old, new) }

type Uint32 struct{ v atomic.Uint32 }

func (x *Uint32) Load() uint32                        { yield(); return x.v.Load() }
func (x *Uint32) Store(val uint32)                    { yield(); x.v.Store(val) }
func (x *Uint32) Add(d uint32) uint32                 { yield(); return x.v.Add(d) }
func (x *Uint32) CompareAndSwap(old, new uint32) bool { yield(); return x.v.CompareAndSwap(old, new) }

type Uint64 struct{ v atomic.Uint64 }

func (x *Uint64) Load() uint64                        { yield(); return x.v.Load() }
func (x *Uint64) Store(val uint64)                    { yield(); x.v.Store(val) }
func (x *Uint64) Add(d uint64) uint64                 { yield(); return x.v.Add(d) }
func (x *Uint64) CompareAndSwap(old, new uint64) bool { yield(); return x.v.CompareAndSwap(old, new) }

type Value = atomic.Value

type Pointer[T any] struct{ v atomic.Pointer[T] }

func (x *Pointer[T]) Load() *T                        { yield(); return x.v.Load() }
func (x *Pointer[T]) Store(val *T)                    { yield(); x.v.Store(val) }
func (x *Pointer[T]) Swap(new *T) *T                  { yield(); return x.v.Swap(new) }
func (x *Pointer[T]) CompareAndSwap(old, new *T) bool { yield(); return x.v.CompareAndSwap(old, new) }
