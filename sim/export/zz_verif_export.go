package tls

// This file is added to the scratch copy of package tls by the verification build. It
// re-exports unexported values a harness outside the package cannot reach. It adds symbols
// and changes none.

func VerifCurveID(cs ConnectionState) CurveID { return cs.testingOnlyCurveID }
func VerifDidHRR(cs ConnectionState) bool     { return cs.testingOnlyDidHRR }

// VerifPRNG exposes the unexported seeded PRNG (property C30).
type VerifPRNG struct{ p *prng }

func VerifNewPRNGWithSeed(seed *PRNGSeed) (*VerifPRNG, error) {
	p, err := newPRNGWithSeed(seed)
	if err != nil {
		return nil, err
	}
	return &VerifPRNG{p}, nil
}

func VerifNewPRNGWithSaltedSeed(seed *PRNGSeed, salt string) (*VerifPRNG, error) {
	p, err := newPRNGWithSaltedSeed(seed, salt)
	if err != nil {
		return nil, err
	}
	return &VerifPRNG{p}, nil
}

func VerifNewSaltedPRNGSeed(seed *PRNGSeed, salt string) (*PRNGSeed, error) {
	return newSaltedPRNGSeed(seed, salt)
}

func (v *VerifPRNG) Read(b []byte) (int, error)        { return v.p.Read(b) }
func (v *VerifPRNG) Int63() int64                      { return v.p.Int63() }
func (v *VerifPRNG) Uint64() uint64                    { return v.p.Uint64() }
func (v *VerifPRNG) Intn(n int) int                    { return v.p.Intn(n) }
func (v *VerifPRNG) Int63n(n int64) int64              { return v.p.Int63n(n) }
func (v *VerifPRNG) Range(min, max int) int            { return v.p.Range(min, max) }
func (v *VerifPRNG) FlipWeightedCoin(w float64) bool   { return v.p.FlipWeightedCoin(w) }
func (v *VerifPRNG) Perm(n int) []int                  { return v.p.Perm(n) }

// VerifSetSeq moves a connection's record sequence numbers (property C28 quantifies over sequence
// positions that cannot be reached by sending records one by one). Negative values leave a side alone.
func VerifSetSeq(c *Conn, out, in int64) {
	put := func(dst *[8]byte, v uint64) {
		for i := 7; i >= 0; i-- {
			dst[i] = byte(v)
			v >>= 8
		}
	}
	if out >= 0 {
		c.out.Lock()
		put(&c.out.seq, uint64(out))
		c.out.Unlock()
	}
	if in >= 0 {
		put(&c.in.seq, uint64(in)) // the reader holds c.in while it waits for the next record
	}
}
