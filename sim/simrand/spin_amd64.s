#include "textflag.h"

// func tryLock(p *uint32) bool
TEXT ·tryLock(SB), NOSPLIT, $0-9
	MOVQ p+0(FP), BX
	MOVL $1, AX
	XCHGL AX, 0(BX)
	TESTL AX, AX
	SETEQ ret+8(FP)
	RET

// func unlock(p *uint32)
TEXT ·unlock(SB), NOSPLIT, $0-8
	MOVQ p+0(FP), BX
	MOVL $0, AX
	XCHGL AX, 0(BX)
	RET
