// Package simrand owns both random sources of a world: the ambient crypto/rand stream
// (through crypto/internal/rand.SetTestingReader, the hook testing/cryptotest uses) and
// Config.Rand readers. Streams are splitmix64 keyed from the run's decision tape.
// Reader state is touched in //go:norace code under an assembly spin lock: io.Reader
// implementations handed to crypto code must be safe for concurrent use, and the lock must
// not add happens-before edges for the race detector.
package simrand

import (
	"errors"
	"io"
	"runtime"
	"strings"
	_ "unsafe"
)

//go:linkname setTestingReader crypto/internal/rand.SetTestingReader
func setTestingReader(r io.Reader)

func tryLock(p *uint32) bool
func unlock(p *uint32)

// Stream is a deterministic io.Reader.
type Stream struct {
	lk    uint32
	state uint64
	Bytes int64
	Reads int64
	// FailAt: the FailAt-th Read (1-based) returns ErrInjected with a short count; 0: never.
	FailAt int64
	Failed bool
	// MaxChunk > 0: a Read returns at most MaxChunk bytes (a legal short read without error,
	// as a pipe- or hardware-backed source may do).
	MaxChunk int
	Short    int64
}

var ErrInjected = errors.New("simrand: injected random source failure")

func NewStream(seed uint64) *Stream { return &Stream{state: seed ^ 0x5eed5eed5eed5eed} }

//go:norace
func (s *Stream) Read(p []byte) (int, error) {
	if len(p) == 1 && calledFromMaybeReadByte() {
		// crypto/internal/randutil.MaybeReadByte reads one byte at random (runtime fastrand);
		// it must not perturb the stream.
		p[0] = 0
		return 1, nil
	}
	for !tryLock(&s.lk) {
		runtime.Gosched()
	}
	s.Reads++
	if s.FailAt != 0 && s.Reads == s.FailAt {
		s.Failed = true
		unlock(&s.lk)
		return 0, ErrInjected
	}
	if s.MaxChunk > 0 && len(p) > s.MaxChunk {
		p = p[:s.MaxChunk]
		s.Short++
	}
	var z uint64
	for i := 0; i < len(p); i++ {
		if i%8 == 0 {
			s.state += 0x9e3779b97f4a7c15
			z = s.state
			z = (z ^ (z >> 30)) * 0xbf58476d1ce4e5b9
			z = (z ^ (z >> 27)) * 0x94d049bb133111eb
			z ^= z >> 31
		}
		p[i] = byte(z >> (8 * (i % 8)))
	}
	s.Bytes += int64(len(p))
	unlock(&s.lk)
	return len(p), nil
}

func calledFromMaybeReadByte() bool {
	var pcs [6]uintptr
	n := runtime.Callers(2, pcs[:])
	fr := runtime.CallersFrames(pcs[:n])
	for {
		f, more := fr.Next()
		if strings.HasSuffix(f.Function, "randutil.MaybeReadByte") {
			return true
		}
		if !more {
			return false
		}
	}
}

var global *Stream

// InstallGlobal makes s the ambient randomness of the process (crypto/rand.Read,
// crypto/rand.Reader in its default form, key generation, signing nonces).
func InstallGlobal(s *Stream) {
	global = s
	setTestingReader(s)
}

// UninstallGlobal restores the system DRBG.
func UninstallGlobal() {
	global = nil
	setTestingReader(nil)
}

// Faulty wraps a random source such as the assignable crypto/rand.Reader variable: the FailAt-th
// Read (1-based) returns ErrInjected. Used from one task at a time.
type Faulty struct {
	Under  io.Reader
	FailAt int64
	Reads  int64
	Failed bool
}

func (f *Faulty) Read(p []byte) (int, error) {
	if len(p) == 1 && calledFromMaybeReadByte() {
		p[0] = 0
		return 1, nil
	}
	f.Reads++
	if f.FailAt != 0 && f.Reads == f.FailAt {
		f.Failed = true
		return 0, ErrInjected
	}
	return f.Under.Read(p)
}
