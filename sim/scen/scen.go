// Package scen holds one scenario generator + oracle per property. A scenario runs on the
// root goroutine of a synctest bubble: it draws its parameters from the world's chooser,
// builds nodes and links, spawns tasks, runs the scheduler and evaluates the oracle.
package scen

import (
	"fmt"
	"sort"
	"time"

	"github.com/refraction-networking/utls/zz_verif/simrt"
)

// Violation is a stable description of what failed (never a seed).
type Violation struct {
	Class  string `json:"class"`
	Detail string `json:"detail"`
}

// Result of one world.
type Result struct {
	Prop       string         `json:"prop"`
	Run        int64          `json:"run"`
	Class      string         `json:"class"`
	NonTrivial bool           `json:"nontrivial"`
	Violation  *Violation     `json:"violation,omitempty"`
	Sched      uint64         `json:"sched"`
	Trace      uint64         `json:"trace"`
	Steps      int            `json:"steps"`
	Picks      int            `json:"picks"`
	Overlaps   int            `json:"overlaps"`
	SimTimeMs  int64          `json:"sim_ms"`
	Faults     map[string]int `json:"faults,omitempty"`
	Probes     map[string]int `json:"probes,omitempty"`
	Sample     any            `json:"sample,omitempty"`
	Tape       []uint32       `json:"tape,omitempty"`
	Harness    string         `json:"harness_error,omitempty"`
	Events     []string       `json:"events,omitempty"`
	Known      string         `json:"known,omitempty"`
	ProcMode   int            `json:"procmode"`
}

// ProcMode is a per-process mode (VERIF_PROCMODE, 0 or 1) for properties whose subject includes
// process-global state that can be set up only once per process; it is recorded in every result
// and restored by a replay.
var ProcMode int

// Ctx is what a scenario gets.
type Ctx struct {
	Prop  string
	Tier  string
	Run   int64
	Ch    *simrt.Chooser
	R     *Result
	Trace int // keep last N events
	W     *simrt.World
}

func (c *Ctx) Fault(kind string, n int) {
	if n == 0 {
		return
	}
	if c.R.Faults == nil {
		c.R.Faults = map[string]int{}
	}
	c.R.Faults[kind] += n
}

func (c *Ctx) Probe(name string) {
	if c.R.Probes == nil {
		c.R.Probes = map[string]int{}
	}
	c.R.Probes[name]++
}

// Violate records the first violation of the world.
func (c *Ctx) Violate(class, format string, a ...any) {
	if c.R.Violation == nil {
		c.R.Violation = &Violation{Class: class, Detail: fmt.Sprintf(format, a...)}
	}
}

// NewWorld creates the world with knobs drawn from the chooser.
func (c *Ctx) NewWorld(cfg simrt.Config) *simrt.World {
	w := simrt.NewWorld(c.Ch, cfg)
	w.KeepTrace = c.Trace
	c.W = w
	return w
}

// Finish copies world statistics into the result and classifies scheduler-level failures.
// deadlockIsViolation: the property forbids hangs.
func (c *Ctx) Finish(w *simrt.World, deadlockIsViolation bool) {
	c.R.Sched = w.SchedHash()
	c.R.Trace = w.TraceHash()
	c.R.Steps = w.Steps
	c.R.Picks = w.Picks
	c.R.Overlaps = w.Overlaps
	c.R.SimTimeMs = int64(w.Now() / time.Millisecond)
	c.R.Events = w.Events
	if w.Deadlock {
		if deadlockIsViolation {
			c.Violate("deadlock "+stuckClass(w.Stuck), "world deadlocked; stuck: %v", w.Stuck)
		} else {
			c.R.Harness = fmt.Sprintf("deadlock: %v", w.Stuck)
		}
	}
	if w.StepCapHit {
		if deadlockIsViolation {
			c.Violate("step-cap", "step/time cap hit: steps=%d sim=%v stuck=%v", w.Steps, w.Now(), w.Stuck)
		} else {
			c.R.Harness = fmt.Sprintf("step cap: %v", w.Stuck)
		}
	}
	for _, t := range w.Tasks() {
		if t.Panic != nil {
			c.Violate("panic task="+t.Name+" "+firstLine(fmt.Sprint(t.Panic)), "task %s panicked: %v\n%s", t.Name, t.Panic, t.PanicStack)
		}
	}
}

func stuckClass(s []string) string {
	m := map[string]bool{}
	for _, x := range s {
		m[x] = true
	}
	var ks []string
	for k := range m {
		ks = append(ks, k)
	}
	sort.Strings(ks)
	if len(ks) > 4 {
		ks = ks[:4]
	}
	return fmt.Sprint(ks)
}

func firstLine(s string) string {
	for i := 0; i < len(s); i++ {
		if s[i] == '\n' {
			return s[:i]
		}
	}
	if len(s) > 120 {
		return s[:120]
	}
	return s
}

// Scenario runs one world.
type Scenario func(c *Ctx)

// Info describes a property's scenario for the driver.
type Info struct {
	Run   Scenario
	Race  bool   // build with -race
	Rule  string // non-triviality / distinctness rule (evidence)
	Quick int    // worlds in quick tier
	Thor  int    // worlds in thorough tier
	// wall-clock budgets in seconds (0: driver default) and worker count (0: 16)
	QuickWallS, ThorWallS int
	Workers               int
	// Assumptions and components for the evidence file.
	Assumptions []string
	Real        []string
	Stub        []string
}

var Registry = map[string]*Info{}

func Register(id string, i *Info) { Registry[id] = i }

// stamp is the world's global event sequence number for history recording. Tasks are
// serialised by the scheduler, so a plain counter in //go:norace code is exact.
var stampCtr int64

//go:norace
func Stamp() int64 { stampCtr++; return stampCtr }

//go:norace
func ResetStamp() { stampCtr = 0 }
