package scen

import (
	"fmt"

	tls "github.com/refraction-networking/utls"
	"github.com/refraction-networking/utls/zz_verif/refsrv"
	"github.com/refraction-networking/utls/zz_verif/simnet"
	"github.com/refraction-networking/utls/zz_verif/simrt"
	"github.com/refraction-networking/utls/zz_verif/wire"
)

// C13: the client never settles on a protocol version it did not advertise.

func init() {
	Register("C13", &Info{
		Run:   runC13,
		Quick: 9000, Thor: 1200000,
		Rule: "a world = one fingerprint (every parrot by stratum, randomized, generated specs, fingerprinted copies; HelloGolang with Config version bounds left at zero or set explicitly) with a caller Config that may carry its own MinVersion/MaxVersion/ALPN/curves or was used before by a connection of another fingerprint; against (a) the repository or std server capped at each version 1.0-1.3, (b) the reference server acting as a legacy server that negotiates from legacy_version only and ignores supported_versions, at 1.0 / 1.1 / 1.2, (c) the reference server negotiating TLS 1.2 or lower with the RFC 8446 downgrade sentinel in its random, in half of these worlds on a resumed handshake (a first, honest connection cached a ticket); oracle: whenever the client completes, the negotiated version is one its ON-WIRE hello advertised - a member of supported_versions when that extension is present, otherwise within [spec minimum, legacy_version]; with the sentinel and TLS 1.3 on offer the client must abort; non-trivial = the server negotiated (or tried) a version below the client's maximum; distinct = (fingerprint, server kind, version, sentinel)",
		Assumptions: []string{"the spec minimum of a parrot is read from UTLSIdToSpec (TLSVersMin, or the lowest supported_versions entry, or TLS 1.0)"},
		Real:        []string{"utls client from /repo", "utls or std server for (a)"},
		Stub:        []string{"reference server (sim/refsrv) as legacy / sentinel-setting server", "transport, clock, crypto/rand"},
	})
}

func runC13(c *Ctx) {
	ch := c.Ch
	stratum := int64(-1)
	if c.Run%2 == 0 {
		stratum = c.Run / 2
	}
	w := c.NewWorld(simrt.Config{})
	f := PickFingerprint(ch, stratum, negCfg)
	// HelloGolang: the hello is defined by the caller's Config, whose version bounds may be left at
	// their zero defaults (maximum = TLS 1.3) or set explicitly
	negCfg := negCfg
	golang := ""
	if stratum < 0 && ch.Bool(12, "golang") {
		f = &Fingerprint{Kind: "golang", IDI: IDInfo{"Golang", tls.HelloGolang}}
		gmax := []uint16{0, 0, tls.VersionTLS13, tls.VersionTLS12}[ch.Pick(4, "golang-max")]
		gmin := []uint16{0, tls.VersionTLS10, tls.VersionTLS12}[ch.Pick(3, "golang-min")]
		golang = fmt.Sprintf(" golang-min=%x-max=%x", gmin, gmax)
		negCfg = func() *tls.Config {
			cfg := (&tls.Config{ServerName: "example.test", RootCAs: Roots(), OmitEmptyPsk: true, PreferSkipResumptionOnNilExtension: true})
			cfg.MinVersion, cfg.MaxVersion = gmin, gmax
			return cfg
		}
	}
	// a tenth of the free worlds: the fingerprint is imported in the tlsfingerprint.io format
	// (ClientHelloSpec.ImportTLSClientHello) into a spec whose version bounds the caller set
	// beforehand - the documented order; the imported supported_versions must then be what counts
	if stratum < 0 && golang == "" && ch.Bool(10, "imported") {
		src := []IDInfo{{"Chrome_100", tls.HelloChrome_100}, {"Chrome_120", tls.HelloChrome_120}, {"Chrome_102", tls.HelloChrome_102}, {"Chrome_106_Shuffle", tls.HelloChrome_106_Shuffle}, {"Safari_16_0", tls.HelloSafari_16_0}, {"Chrome_83", tls.HelloChrome_83}}[ch.Pick(6, "import-src")] // (the format has no field for Firefox' delegated_credentials list)
		bounds := [][2]uint16{{0, 0}, {tls.VersionTLS10, tls.VersionTLS13}, {tls.VersionTLS10, tls.VersionTLS12}, {tls.VersionTLS12, tls.VersionTLS13}, {tls.VersionTLS11, tls.VersionTLS12}}[ch.Pick(5, "import-bounds")]
		if h0, err := DryHello(negCfg(), src.ID, nil); err == nil {
			data := importData(h0)
			mk := func() *tls.ClientHelloSpec {
				sp := &tls.ClientHelloSpec{TLSVersMin: bounds[0], TLSVersMax: bounds[1]}
				if err := sp.ImportTLSClientHello(data); err != nil {
					return nil
				}
				return sp
			}
			if mk() != nil {
				f = &Fingerprint{Kind: "imported", IDI: IDInfo{"Custom", tls.HelloCustom}, NewSpec: mk, Desc: fmt.Sprintf("%s bounds=%x-%x", src.Name, bounds[0], bounds[1])}
				c.Probe("imported-fingerprint")
			} else {
				c.Probe("import-refused")
			}
		}
	}
	var dry *wire.ClientHello
	if golang == "" {
		var err error
		if dry, err = DryHello(negCfg(), f.IDI.ID, f.Spec()); err != nil {
			c.R.Harness = "dry build: " + err.Error()
			return
		}
	}
	var specMin uint16
	if sp0 := f.Spec(); sp0 != nil {
		specMin = sp0.TLSVersMin
	} else if s, err := tls.UTLSIdToSpec(f.IDI.ID); err == nil {
		specMin = s.TLSVersMin
	}
	of := &Offer{}
	if dry != nil {
		of = OfferOf(dry, specMin)
	}
	kind := []string{"capped", "legacy", "legacy", "sentinel"}[ch.Pick(4, "kind")]
	ver := []uint16{0x0301, 0x0302, 0x0303, 0x0304}[ch.Pick(4, "ver")]
	peer := ch.Pick(2, "peer")
	plan := &NegPlan{Peer: peer, Version: ver}
	scfg, stdcfg := ServerConfigs(plan)
	rcfg := refCfg()
	switch kind {
	case "legacy":
		if ver == 0x0304 {
			ver = 0x0303
		}
		peer = PeerRef
		rcfg.MaxVersion = ver
		rcfg.Byz.IgnoreSupportedVersions = true
		rcfg.Byz.LegacyVersion = ver
		rcfg.Byz.OmitDowngradeSentinel = true
	case "sentinel":
		if ver == 0x0304 {
			ver = 0x0303
		}
		peer = PeerRef
		rcfg.MaxVersion = ver
		rcfg.Byz.ForceDowngradeSentinel = true
	}
	// the caller's Config may carry version bounds of its own, or may have been used by an earlier
	// connection of another fingerprint: the fingerprint's range is what counts
	ccfg := negCfg()
	noise := "caller=golang"
	if f.IDI.ID != tls.HelloGolang {
		noise = CallerNoise(ch, ccfg)
		if ch.Bool(20, "shared-config") {
			pol := AllParrots[ch.Pick(len(AllParrots), "polluter")]
			RunConn(c, w, &ConnSpec{Name: "polluter", ID: pol.ID, CCfg: ccfg, Peer: PeerUTLS, SCfg: &tls.Config{Certificates: []tls.Certificate{Cert("ecdsa").U, Cert("rsa").U}, MinVersion: tls.VersionTLS10}, Payload: [][]byte{[]byte("p")}})
			noise += " shared-after-" + pol.Name
			c.Fault("shared-config", 1)
		}
	}
	c.R.Class = fmt.Sprintf("%s/%s %s v=%x peer=%s offered=%x %s%s", f.Kind, f.IDI.Name, kind, ver, peerName(peer), of.Versions, noise, golang)
	// resumed stratum of the sentinel kind: a first connection to the same (then honest, TLS <= 1.2
	// only) reference server caches a ticket; the connection under test offers it, and the server
	// resumes at the old version with the downgrade sentinel in its random
	if kind == "sentinel" && ch.Bool(50, "sentinel-on-resumption") {
		ccfg.ClientSessionCache = tls.NewLRUClientSessionCache(4)
		rcfg.Byz.ForceDowngradeSentinel = false
		o1 := RunConn(c, w, &ConnSpec{Name: "first", ID: f.IDI.ID, Spec: f.Spec(), CCfg: ccfg, Peer: PeerRef, RefCfg: rcfg, Payload: [][]byte{[]byte("first")}})
		rcfg.Byz.ForceDowngradeSentinel = true
		if o1.CDone {
			c.R.Class += " after-a-cached-session"
			c.Probe("sentinel-second-connection")
		}
	}
	sp := &ConnSpec{ID: f.IDI.ID, Spec: f.Spec(), CCfg: ccfg, Peer: peer, SCfg: scfg, StdCfg: stdcfg, RefCfg: rcfg, Payload: [][]byte{[]byte("ping")},
		Setup: func(l *simnet.Link) { l.Frag = ch.Bool(30, "frag") }}
	o := RunConn(c, w, sp)
	c.Finish(w, true)
	if c.R.Violation != nil {
		return
	}
	obs := ObserveHellos(o.Link)
	if len(obs.CH) == 0 {
		c.R.Harness = "no hello on the wire: " + o.Describe()
		return
	}
	// the offer of the hello that was actually sent
	of = OfferOf(obs.CH[0], specMin)
	maxOffered := uint16(0)
	for _, v := range of.Versions {
		if v > maxOffered {
			maxOffered = v
		}
	}
	c.R.NonTrivial = ver < maxOffered
	if o.CDone {
		got := o.CState.Version
		if !has16(of.Versions, got) {
			c.Violate(fmt.Sprintf("completed-at-unadvertised-version v=%x kind=%s %s", got, kind, f.Kind), "%s: the client completed at %x; on-wire supported_versions %x (present=%v), legacy_version %x, spec min %x", c.R.Class, got, obs.CH[0].SupportedVersions, len(obs.CH[0].SupportedVersions) > 0, obs.CH[0].LegacyVersion, specMin)
			return
		}
		if kind == "sentinel" && has16(of.Versions, 0x0304) {
			c.Violate(fmt.Sprintf("downgrade-sentinel-ignored v=%x %s", got, f.Kind), "%s: the server's random carried the downgrade sentinel and the hello offered TLS 1.3, yet the client completed at %x", c.R.Class, got)
			return
		}
		c.Probe(fmt.Sprintf("completed-%x", got))
	} else {
		c.Probe("not-completed")
	}
	if c.R.Run%300 == 0 {
		c.R.Sample = map[string]any{"fingerprint": f.IDI.Name, "kind": kind, "version": ver, "offered": of.Versions, "completed": o.CDone, "client_error": fmt.Sprint(o.CErr)}
	}
	_ = refsrv.VersionTLS12
}

// importData renders a parsed ClientHello in the map format of ClientHelloSpec.ImportTLSClientHello
// (client.tlsfingerprint.io): lists of code points plus the bodies of the extensions that carry
// parameters, with the length prefixes that format keeps or drops.
func importData(h *wire.ClientHello) map[string][]byte {
	be := func(xs []uint16) []byte {
		var b []byte
		for _, x := range xs {
			b = append(b, byte(x>>8), byte(x))
		}
		return b
	}
	d := map[string][]byte{"cipher_suites": be(h.CipherSuites), "compression_methods": append([]byte(nil), h.Compression...)}
	var types []uint16
	for _, e := range h.Extensions {
		types = append(types, e.Type)
		body := append([]byte(nil), e.Data...)
		switch e.Type {
		case 11:
			d["pt_fmts"] = body
		case 13:
			d["sig_algs"] = body
		case 43:
			if len(body) > 0 {
				d["supported_versions"] = body[1:]
			}
		case 10:
			d["curves"] = body
		case 16:
			d["alpn"] = body
		case 51:
			var ks []byte
			for _, k := range h.KeyShares {
				ks = append(ks, byte(k.Group>>8), byte(k.Group), byte(len(k.Data)>>8), byte(len(k.Data)))
			}
			d["key_share"] = ks
		case 45:
			if len(body) > 0 {
				d["psk_key_exchange_modes"] = body[1:]
			}
		case 27:
			if len(body) > 0 {
				d["cert_compression_algs"] = body[1:]
			}
		case 28:
			d["record_size_limit"] = body
		}
	}
	d["extensions"] = be(types)
	return d
}
