package scen

import (
	stdtls "crypto/tls"
	"fmt"
	"io"
	"net"
	"time"

	tls "github.com/refraction-networking/utls"
	"github.com/refraction-networking/utls/zz_verif/refsrv"
	"github.com/refraction-networking/utls/zz_verif/simnet"
	"github.com/refraction-networking/utls/zz_verif/simrt"
)

// Well-keyed hostile peers for C33 / C34: a reference endpoint completes a genuine handshake with
// the endpoint under test and then misbehaves under the negotiated keys (floods of individually legal
// records, KeyUpdate storms, unexpected handshake messages), optionally while the endpoint under
// test meets a transport write fault. The endpoint under test then keeps using the connection
// (Read, Write, Close): every call must return.

type postPlan struct {
	kind       string // empty-flood | keyupdate-storm | raw-handshake | plain
	n          int
	req        bool
	msgType    uint8
	body       []byte
	writeFault string // none | short | reset | stall
	faultOff   int
	refReads   bool
}

func drawPostPlan(ch *simrt.Chooser, tls13 bool) postPlan {
	p := postPlan{}
	kinds := []string{"empty-flood", "raw-handshake", "plain", "keyupdate-storm", "keyupdate-storm", "short-record"}
	if !tls13 {
		kinds = []string{"empty-flood", "raw-handshake", "plain", "hello-request", "hello-request", "cbc-padding-only", "short-record", "short-record"}
	}
	p.kind = kinds[ch.Pick(len(kinds), "post-kind")]
	switch p.kind {
	case "empty-flood":
		p.n = []int{10, 40, 300, 5000, 150000}[ch.PickBiased(5, 60, "flood-n")]
	case "keyupdate-storm":
		p.n = []int{1, 2, 5, 24, 200}[ch.Pick(5, "storm-n")]
		p.req = ch.Bool(75, "update-requested")
	case "hello-request":
		p.n = []int{1, 2, 5, 50}[ch.Pick(4, "hello-requests")]
	case "cbc-padding-only":
		p.n = []int{1, 2, 3, 8, 16}[ch.Pick(5, "padding-blocks")]
	case "short-record":
		// an unprotected record of 0..72 garbage bytes once the keys are on: shorter than a MAC, a
		// cipher block, an explicit nonce plus tag - every record-layer length guard is walked
		p.msgType = []uint8{23, 23, 22, 21}[ch.Pick(4, "record-type")]
		p.body = make([]byte, ch.Range(0, 72, "record-len"))
		if ch.Bool(50, "boundary-len") {
			p.body = make([]byte, []int{0, 1, 7, 8, 15, 16, 19, 20, 21, 23, 24, 31, 32, 35, 36, 39, 40, 47, 48, 51, 52}[ch.Pick(21, "record-len-b")])
		}
		ch.Bytes(p.body, "record-body")
	case "raw-handshake":
		p.msgType = []uint8{25, 8, 4, 24, 13, 0, 1, 2, 11, 15, 20, 254}[ch.Pick(12, "msg-type")]
		p.body = make([]byte, []int{0, 1, 2, 5, 40, 300}[ch.Pick(6, "msg-len")])
		ch.Bytes(p.body, "msg-body")
	}
	p.writeFault = []string{"none", "none", "short", "reset", "stall"}[ch.Pick(5, "write-fault")]
	p.faultOff = ch.Range(0, 40, "fault-off")
	p.refReads = p.writeFault != "stall"
	return p
}

func (p postPlan) String() string {
	return fmt.Sprintf("post=%s n=%d req=%v type=%d len=%d wfault=%s@%d", p.kind, p.n, p.req, p.msgType, len(p.body), p.writeFault, p.faultOff)
}

// armWriteFault arms the transport write fault of the endpoint under test (dir = the direction it writes to).
func (p postPlan) armWriteFault(d *simnet.Dir) {
	switch p.writeFault {
	case "short":
		d.ShortAt = d.Total + int64(p.faultOff) + 1
	case "reset":
		d.ResetAt = d.Total + int64(p.faultOff)
	case "stall":
		d.Cap = 64 // the reference endpoint stops reading: writes block until the deadline
	}
}

// misbehave runs in the reference endpoint's task after its handshake.
func (p postPlan) misbehave(rc *refsrv.Conn) error {
	switch p.kind {
	case "empty-flood":
		if err := rc.WriteEmptyRecords(p.n); err != nil {
			return err
		}
	case "keyupdate-storm":
		for i := 0; i < p.n; i++ {
			if err := rc.SendKeyUpdate(p.req); err != nil {
				return err
			}
		}
	case "cbc-padding-only":
		// TLS <= 1.2 with a CBC suite: a record encrypted under the real key whose plaintext is
		// nothing but valid padding (it covers the place of the MAC)
		if err := rc.SendCBCPaddingOnlyRecord(p.n); err != nil {
			return err
		}
	case "short-record":
		if err := rc.SendUnprotectedRecord(p.msgType, p.body); err != nil {
			return err
		}
	case "hello-request":
		// TLS <= 1.2: the server asks for a renegotiation, n times in a row
		for i := 0; i < p.n; i++ {
			if err := rc.SendRawHandshake([]byte{0, 0, 0, 0}); err != nil {
				return err
			}
		}
	case "raw-handshake":
		msg := append([]byte{p.msgType, byte(len(p.body) >> 16), byte(len(p.body) >> 8), byte(len(p.body))}, p.body...)
		if err := rc.SendRawHandshake(msg); err != nil {
			return err
		}
	}
	_, err := rc.Write([]byte("data-after"))
	return err
}

// useConn is what the endpoint under test does after its handshake: every call must return.
func useConn(conn interface {
	io.ReadWriteCloser
	SetReadDeadline(time.Time) error
}, calls *[]string) {
	buf := make([]byte, 300)
	for i := 0; i < 3; i++ {
		conn.SetReadDeadline(time.Now().Add(4 * time.Second))
		n, err := conn.Read(buf)
		*calls = append(*calls, fmt.Sprintf("read=%d/%v", n, err != nil))
		if err != nil {
			break
		}
	}
	_, err := conn.Write([]byte("still-here"))
	*calls = append(*calls, fmt.Sprintf("write/%v", err != nil))
	conn.SetReadDeadline(time.Now().Add(2 * time.Second))
	_, err = conn.Read(buf)
	*calls = append(*calls, fmt.Sprintf("read2/%v", err != nil))
	err = conn.Close()
	*calls = append(*calls, fmt.Sprintf("close/%v", err != nil))
}

// runC33Post: utls client under test, reference server hostile after a genuine handshake.
func runC33Post(c *Ctx) {
	ch := c.Ch
	f := PickFingerprint(ch, -1, negCfg)
	if ch.Bool(15, "golang") {
		f = &Fingerprint{Kind: "golang", IDI: IDInfo{"Golang", tls.HelloGolang}}
	}
	srvMax := []uint16{tls.VersionTLS13, tls.VersionTLS13, tls.VersionTLS12}[ch.Pick(3, "srvmax")]
	of := &Offer{Versions: []uint16{0x0304, 0x0303}, ALPN: nil}
	if f.IDI.ID != tls.HelloGolang {
		dry, err := DryHello(negCfg(), f.IDI.ID, f.Spec())
		if err != nil {
			c.R.Harness = "dry build: " + err.Error()
			return
		}
		of = OfferOf(dry, 0)
	}
	if !has16(of.Versions, srvMax) {
		if has16(of.Versions, 0x0303) {
			srvMax = tls.VersionTLS12
		} else {
			srvMax = tls.VersionTLS13
		}
	}
	plan := drawPostPlan(ch, srvMax == tls.VersionTLS13)
	cfg := refCfg()
	if plan.kind == "cbc-padding-only" {
		srvMax = []uint16{tls.VersionTLS12, tls.VersionTLS11, tls.VersionTLS10}[ch.Pick(3, "cbc-version")]
		cfg.CipherSuites = []uint16{0xc013, 0xc014, 0xc009, 0xc00a, 0x002f, 0x0035, 0xc012, 0x000a}
	}
	ccfg := negCfg()
	if plan.kind == "short-record" && srvMax != tls.VersionTLS13 && ch.Bool(65, "legacy-suite") {
		// every record protection TLS <= 1.2 has: a HelloGolang client told to offer exactly one suite
		// (RC4 and 3DES are still implemented and reachable through Config.CipherSuites, and through
		// the parrots that list them)
		suite := []uint16{0x0005, 0xc011, 0xc007, 0x000a, 0xc012, 0x002f, 0xc013, 0xc009, 0x003c, 0xc027, 0xc02f, 0xcca8, 0x009c}[ch.Pick(13, "legacy-suite-id")]
		srvMax = []uint16{tls.VersionTLS12, tls.VersionTLS12, tls.VersionTLS11, tls.VersionTLS10}[ch.Pick(4, "legacy-version")]
		if suite == 0x003c || suite == 0xc027 || suite == 0xc02f || suite == 0xcca8 || suite == 0x009c {
			srvMax = tls.VersionTLS12
		}
		f = &Fingerprint{Kind: "golang", IDI: IDInfo{"Golang", tls.HelloGolang}, Desc: fmt.Sprintf("suite=%04x", suite)}
		of = &Offer{Versions: []uint16{srvMax}}
		ccfg.CipherSuites, ccfg.MinVersion, ccfg.MaxVersion = []uint16{suite}, tls.VersionTLS10, srvMax
		cfg.CipherSuites, cfg.MinVersion = []uint16{suite}, tls.VersionTLS10
		c.Probe(fmt.Sprintf("short-record-suite=%04x", suite))
	}
	cfg.MaxVersion = srvMax
	cfg.NextProtos = of.ALPN
	// a third of the worlds have a second client task that writes while the first one reads (one
	// reader and one writer are allowed on a connection); the scheduler may then switch at every lock
	// acquisition, so a post-handshake message is processed by Read in the middle of a Write
	auxWriter := ch.Bool(33, "concurrent-writer")
	wcfg := simrt.Config{StepCap: 80000}
	if auxWriter {
		wcfg = simrt.Config{StepCap: 120000, LockYield: true, UnlockYield: ch.Bool(50, "unlockyield"), PreemptPct: 20 + 20*ch.Pick(3, "preempt")}
	}
	w := c.NewWorld(wcfg)
	var link *simnet.Link
	var calls []string
	var refErr error
	// the caller's Config may allow renegotiation (HelloGolang takes it from the Config, parrots from
	// their renegotiation_info extension)
	ccfg.Renegotiation = []tls.RenegotiationSupport{tls.RenegotiateNever, tls.RenegotiateOnceAsClient, tls.RenegotiateFreelyAsClient}[ch.Pick(3, "client-reneg")]
	sp := &ConnSpec{ID: f.IDI.ID, Spec: f.Spec(), CCfg: ccfg, Peer: PeerRef, RefCfg: cfg, Deadline: 30 * time.Second,
		Setup: func(l *simnet.Link) { link = l; l.Frag = ch.Bool(30, "frag") }}
	sp.ClientFn = func(o *ConnOutcome, conn net.Conn) {
		conn.SetDeadline(time.Now().Add(30 * time.Second))
		u := tls.UClient(conn, sp.CCfg, sp.ID)
		o.U = u
		if sp.Spec != nil {
			if err := u.ApplyPreset(sp.Spec); err != nil {
				o.BuildErr = err
				conn.Close()
				return
			}
		}
		if o.CErr = u.Handshake(); o.CErr != nil {
			u.Close()
			return
		}
		o.CDone = true
		useConn(u, &calls)
	}
	if auxWriter {
		nw, gap := ch.Range(1, 6, "aux-writes"), ch.Range(0, 3, "aux-gap")
		sp.AuxClient = func(o *ConnOutcome) {
			if !simrt.Poll(func() bool { return o.CDone || o.CErr != nil || o.BuildErr != nil || o.CPanic != nil }, 4000) || !o.CDone {
				return
			}
			for i := 0; i < nw; i++ {
				if _, err := o.U.Write([]byte("from-the-writer-task")); err != nil {
					return
				}
				simrt.WaitSteps(1 + gap)
			}
		}
		c.Fault("concurrent-writer", 1)
	}
	sp.ServerFn = func(o *ConnOutcome, conn net.Conn) {
		conn.SetDeadline(time.Now().Add(40 * time.Second))
		sc := refsrv.Server(conn, cfg)
		if o.SErr = sc.Handshake(); o.SErr != nil {
			conn.Close()
			return
		}
		o.SDone = true
		plan.armWriteFault(link.AB)
		refErr = plan.misbehave(sc)
		if plan.refReads {
			buf := make([]byte, 512)
			for {
				if _, err := sc.Read(buf); err != nil {
					break
				}
			}
		} else {
			simrt.Sleep(35 * time.Second)
		}
		sc.Close()
	}
	before := memNow()
	o := RunConn(c, w, sp)
	grown := memNow() - before
	c.Finish(w, true)
	c.R.Class = fmt.Sprintf("%s/%s max=%x wellkeyed %s", f.Kind, f.IDI.Name, srvMax, plan)
	c.R.NonTrivial = o.CDone && o.SDone
	if o.SDone {
		c.Fault("wellkeyed-"+plan.kind, 1)
		if plan.writeFault != "none" {
			c.Fault("client-write-"+plan.writeFault, 1)
		}
	}
	if c.R.Violation != nil {
		c.R.Violation.Class = hostileClass(c.R.Violation.Class, "wellkeyed", plan.kind+" wfault="+plan.writeFault)
		c.R.Violation.Detail += fmt.Sprintf("\n%s calls=%v ref=%v", c.R.Class, calls, refErr)
		return
	}
	if w.Now() > 45*time.Second {
		c.Violate("client-call-returned-after-deadline wellkeyed", "%s: world ended at %v; calls %v", c.R.Class, w.Now(), calls)
	}
	limit := uint64(allocLimit)
	if plan.kind == "empty-flood" {
		limit += uint64(plan.n) * 64 // the harness itself builds the flood
	}
	if plan.kind == "empty-flood" && plan.n > 5000 {
		limit = 1 << 40 // the flood's own buffers (sealing, transport taps) dominate the process-wide figure: only the stack cap and the deadline judge these worlds
	}
	if grown > limit {
		c.Violate("allocation-beyond-protocol-limits wellkeyed "+plan.kind, "%s: %d bytes allocated (limit %d)", c.R.Class, grown, limit)
	}
	if c.R.Run%500 == 4 {
		c.R.Sample = map[string]any{"fingerprint": f.IDI.Name, "plan": plan.String(), "client_calls": calls, "allocated": grown}
	}
}

// mutateOuterExtList edits the ech_outer_extensions list of an encoded inner ClientHello.
func mutateOuterExtList(inner []byte, how int, k int) ([]byte, string) {
	m := append([]byte(nil), inner...)
	for i := 0; i+5 < len(m); i++ {
		if m[i] == 0xfd && m[i+1] == 0x00 {
			el := int(m[i+2])<<8 | int(m[i+3])
			ll := int(m[i+4])
			if el != ll+1 || ll < 2 || ll%2 != 0 || i+5+ll > len(m) {
				continue
			}
			n := ll / 2
			e := func(j int) []byte { return m[i+5+2*j : i+7+2*j] }
			switch how {
			case 0: // a type the outer hello does not carry
				copy(e(k%n), []byte{0xfa, 0xfb})
				return m, "outer-ext-missing"
			case 1: // out of order
				if n >= 2 {
					a, b := k%n, (k+1)%n
					x := append([]byte(nil), e(a)...)
					copy(e(a), e(b))
					copy(e(b), x)
					return m, "outer-ext-swapped"
				}
			case 2: // duplicate
				if n >= 2 {
					copy(e((k+1)%n), e(k%n))
					return m, "outer-ext-duplicated"
				}
			case 3: // the ECH extension itself
				copy(e(k%n), []byte{0xfe, 0x0d})
				return m, "outer-ext-references-ech"
			case 4: // last entry beyond everything the outer hello has
				copy(e(n-1), []byte{0xff, 0xfe})
				return m, "outer-ext-last-missing"
			}
			return m, "outer-ext-untouched"
		}
	}
	return m, "no-outer-ext-list"
}

// runC34Post: utls server under test, reference client hostile (ECH inner hello rewritten before
// sealing; misbehaviour under the negotiated keys after the handshake).
func runC34Post(c *Ctx) {
	ch := c.Ch
	srvMax := []uint16{tls.VersionTLS13, tls.VersionTLS13, tls.VersionTLS12}[ch.Pick(3, "srvmax")]
	scfg := &tls.Config{Certificates: []tls.Certificate{Cert("ecdsa").U, Cert("rsa").U}, MaxVersion: srvMax, MinVersion: tls.VersionTLS10, NextProtos: []string{"h2", "http/1.1"}}
	if ch.Bool(25, "client-auth") {
		scfg.ClientAuth = tls.RequestClientCert
	}
	ccfg := &refsrv.Config{ServerName: "example.test", InsecureSkipVerify: true, MaxVersion: srvMax, MinVersion: refsrv.VersionTLS10, NextProtos: []string{"h2"}}
	ech := srvMax == tls.VersionTLS13 && ch.Bool(50, "ech")
	innerMut := "none"
	var hostile func([]byte) []byte
	if ech {
		ks := simrandStream(ch)
		e, err := buildECH(ks, 9, "public.ech.test", 32, [][2]uint16{{1, 1}})
		if err != nil {
			c.R.Harness = "ech setup: " + err.Error()
			return
		}
		scfg.EncryptedClientHelloKeys = []tls.EncryptedClientHelloKey{{Config: e.cfg, PrivateKey: e.priv, SendAsRetry: true}}
		ccfg.EncryptedClientHelloConfigList = e.list
		ccfg.MinVersion = refsrv.VersionTLS13
		switch k := ch.Pick(4, "inner-mut"); k {
		case 1:
			how, idx := ch.Pick(5, "outer-list-how"), ch.Pick(16, "outer-list-idx")
			hostile = func(in []byte) []byte {
				out, d := mutateOuterExtList(in, how, idx)
				innerMut = d
				return out
			}
		case 2, 3:
			sub := simrt.NewChooser(ch.U64("inner-mut-seed"))
			nm := 1 + k - 2
			hostile = func(in []byte) []byte {
				out := in
				innerMut = ""
				for i := 0; i < nm; i++ {
					var d string
					out, d = mutateBytes(sub, out, false)
					innerMut += d + ";"
				}
				return out
			}
		}
	}
	plan := drawPostPlan(ch, srvMax == tls.VersionTLS13)
	if plan.kind == "cbc-padding-only" {
		v := []uint16{tls.VersionTLS12, tls.VersionTLS11, tls.VersionTLS10}[ch.Pick(3, "cbc-version")]
		scfg.MaxVersion, ccfg.MaxVersion = v, v
		ccfg.CipherSuites = []uint16{0xc013, 0xc014, 0xc009, 0xc00a, 0x002f, 0x0035}
	}
	w := c.NewWorld(simrt.Config{StepCap: 80000})
	l := simnet.NewLink("k")
	l.Frag = ch.Bool(30, "frag")
	var sHS, cHS, refErr error
	var calls []string
	sDone, cDone := false, false
	refsrv.HostileInner = hostile
	defer func() { refsrv.HostileInner = nil }()
	before := memNow()
	w.Go("server", func() {
		var conn net.Conn = l.B
		conn.SetDeadline(time.Now().Add(30 * time.Second))
		sc := tls.Server(conn, scfg)
		if sHS = sc.Handshake(); sHS != nil {
			sc.Close()
			return
		}
		sDone = true
		useConn(sc, &calls)
	})
	w.Go("refclient", func() {
		var conn net.Conn = l.A
		conn.SetDeadline(time.Now().Add(40 * time.Second))
		rc := refsrv.Client(conn, ccfg)
		if cHS = rc.Handshake(); cHS != nil {
			conn.Close()
			return
		}
		cDone = true
		plan.armWriteFault(l.BA)
		refErr = plan.misbehave(rc)
		if plan.refReads {
			buf := make([]byte, 512)
			for {
				if _, err := rc.Read(buf); err != nil {
					break
				}
			}
		} else {
			simrt.Sleep(35 * time.Second)
		}
		rc.Close()
	})
	w.Run()
	w.Join()
	grown := memNow() - before
	c.Finish(w, true)
	c.R.Class = fmt.Sprintf("wellkeyed-client max=%x ech=%v inner=%s %s", srvMax, ech, innerMut, plan)
	c.R.NonTrivial = (sDone && cDone) || (ech && innerMut != "none")
	if sDone && cDone {
		c.Fault("wellkeyed-"+plan.kind, 1)
		if plan.writeFault != "none" {
			c.Fault("server-write-"+plan.writeFault, 1)
		}
	}
	if ech && innerMut != "none" {
		c.Fault("hostile-ech-inner", 1)
	}
	if c.R.Violation != nil {
		c.R.Violation.Class = hostileClass(c.R.Violation.Class, "server-wellkeyed", plan.kind+" wfault="+plan.writeFault+" inner="+firstWord(innerMut))
		c.R.Violation.Detail += fmt.Sprintf("\n%s calls=%v ref=%v shs=%v chs=%v", c.R.Class, calls, refErr, sHS, cHS)
		return
	}
	if innerMut == "none" && hostile == nil && !(sDone && cDone) {
		c.R.Harness = fmt.Sprintf("reference client and server did not complete a clean handshake: server %v client %v (%s)", sHS, cHS, c.R.Class)
		return
	}
	if w.Now() > 45*time.Second {
		c.Violate("server-call-returned-after-deadline wellkeyed", "%s: world ended at %v; calls %v", c.R.Class, w.Now(), calls)
	}
	limit := uint64(allocLimit)
	if plan.kind == "empty-flood" {
		limit += uint64(plan.n) * 64
	}
	if plan.kind == "empty-flood" && plan.n > 5000 {
		limit = 1 << 40
	}
	if grown > limit {
		c.Violate("allocation-beyond-protocol-limits server wellkeyed "+plan.kind, "%s: %d bytes allocated (limit %d)", c.R.Class, grown, limit)
	}
	if c.R.Run%500 == 4 {
		c.R.Sample = map[string]any{"plan": plan.String(), "ech": ech, "inner_mutation": innerMut, "server_calls": calls, "allocated": grown}
	}
}

func firstWord(s string) string {
	for i := 0; i < len(s); i++ {
		if s[i] == ' ' || s[i] == ';' || s[i] == '@' {
			return s[:i]
		}
	}
	return s
}

// runC33Tickets: a server that completes a genuine handshake but hands out odd session tickets
// (zero-length, one byte, huge, or garbage); the client stores what it got, and the NEXT connection
// over the same session cache - to any server - must neither panic nor hang.
func runC33Tickets(c *Ctx) {
	ch := c.Ch
	ids := []IDInfo{{"Chrome_100", tls.HelloChrome_100}, {"Firefox_105", tls.HelloFirefox_105}, {"Chrome_133", tls.HelloChrome_133}, {"Chrome_112_PSK_Shuf", tls.HelloChrome_112_PSK_Shuf}, {"Safari_16_0", tls.HelloSafari_16_0}, {"IOS_14", tls.HelloIOS_14}, {"Golang", tls.HelloGolang}, {"Firefox_65", tls.HelloFirefox_65}}
	first := ids[ch.Pick(len(ids), "first-id")]
	second := first
	if ch.Bool(40, "other-second") {
		second = ids[ch.Pick(len(ids), "second-id")]
	}
	srvMax := []uint16{tls.VersionTLS12, tls.VersionTLS12, tls.VersionTLS13}[ch.Pick(3, "srvmax")]
	shape := []string{"empty", "empty", "one-byte", "huge", "garbage"}[ch.Pick(5, "ticket-shape")]
	garbage := make([]byte, ch.Range(2, 300, "ticket-len"))
	ch.Bytes(garbage, "ticket")
	cfg := refCfg()
	cfg.MaxVersion = srvMax
	cfg.WrapSession = func(refsrv.ConnectionState, *refsrv.SessionState) ([]byte, error) {
		switch shape {
		case "empty":
			return []byte{}, nil
		case "one-byte":
			return []byte{7}, nil
		case "huge":
			return make([]byte, 65000), nil
		}
		return garbage, nil
	}
	w := c.NewWorld(simrt.Config{StepCap: 80000})
	cache := tls.NewLRUClientSessionCache(4)
	mk := func() *tls.Config {
		cc := negCfg()
		cc.ClientSessionCache = cache
		cc.MinVersion = tls.VersionTLS10
		return cc
	}
	c.R.Class = fmt.Sprintf("odd-tickets/%s->%s max=%x shape=%s", first.Name, second.Name, srvMax, shape)
	o1 := RunConn(c, w, &ConnSpec{Name: "first", ID: first.ID, CCfg: mk(), Peer: PeerRef, RefCfg: cfg, Deadline: 30 * time.Second, Payload: [][]byte{[]byte("first")}})
	if o1.CDone {
		c.R.NonTrivial = true
		c.Fault("odd-ticket-"+shape, 1)
	}
	// second connection: the ordinary repository server (it cannot open such a ticket and falls back)
	peer2 := ch.Pick(2, "second-peer")
	scfg := &tls.Config{Certificates: []tls.Certificate{Cert("ecdsa").U, Cert("rsa").U}, MaxVersion: srvMax, MinVersion: tls.VersionTLS10}
	stdcfg := &stdtls.Config{Certificates: []stdtls.Certificate{Cert("ecdsa").S, Cert("rsa").S}, MaxVersion: srvMax, MinVersion: stdtls.VersionTLS10}
	o2 := RunConn(c, w, &ConnSpec{Name: "second", ID: second.ID, CCfg: mk(), Peer: peer2, SCfg: scfg, StdCfg: stdcfg, Deadline: 30 * time.Second, Payload: [][]byte{[]byte("second")}})
	c.Finish(w, true)
	if c.R.Violation != nil {
		return
	}
	if o1.CDone && o2.CDone {
		c.Probe("second-connection-after-odd-ticket-completed")
	}
}
