package scen

import (
	"bytes"
	"compress/zlib"
	"fmt"

	tls "github.com/refraction-networking/utls"
	"github.com/refraction-networking/utls/zz_verif/refsrv"
	"github.com/refraction-networking/utls/zz_verif/simnet"
	"github.com/refraction-networking/utls/zz_verif/simrt"
	"github.com/refraction-networking/utls/zz_verif/wire"
)

// C12: the client rejects any server choice it did not offer on the wire.

func init() {
	Register("C12", &Info{
		Run:   runC12,
		Quick: 10000, Thor: 1200000,
		Rule: "a world = one fingerprint (every predefined parrot by stratum, randomized, generated specs, fingerprinted copies) against the reference server applying exactly one deviation drawn from the complement of what the ON-WIRE hello offers, with a transcript that stays coherent: TLS 1.3 suite not offered, TLS 1.2 suite announced under TLS 1.3, GREASE suite (the wire value and another one), TLS 1.2 suite not offered, suite that is in Config.CipherSuites but not on the wire, suite of a session the caller injected with SetSessionState (fake ticket) but that is not on the wire, key_share group not offered, group listed without a share answered without HelloRetryRequest, HelloRetryRequest for an unoffered group or for a group already shared, ALPN protocol not offered (or ALPN without an offer, or a protocol that is in Config.NextProtos but not on the wire), compression method 1, a PSK selection without/with a bad index, a certificate compressed with an unadvertised algorithm, legacy session id not echoed, TLS 1.2 ECDHE curve not offered; modifiers: the deviating ServerHello follows an honest HelloRetryRequest; the caller's Config value is shared with a second connection of another fingerprint that is built at a drawn scheduler step while the handshake runs; 1 world in 16 is a real resumption in which the server announces a selected_identity beyond the identities on the wire (1 = exactly one past the end, 2, 7, 65535); 1 world in 16 is a TLS 1.2 ticket resumption history: the first connection negotiates a protocol, the second (same cache and name, possibly another fingerprint) offers an ALPN list without it and the resuming server answers with the previous connection's protocol or a never-offered one; 1 world in 8 applies no deviation and must complete (reference-server sanity); oracle: with a deviation the client's Handshake returns an error, no application data is exchanged, and no ConnectionState with HandshakeComplete exposes the unoffered value; non-trivial = a deviation from the complement of the offer was applied; distinct = (fingerprint, deviation, value)",
		Assumptions: []string{"the reference server is a frozen fork of the repository's TLS stack with deviation hooks (sim/refsrv); it is validated in every batch by the no-deviation stratum and, in the self-test, against the standard-library client"},
		Real:        []string{"utls client from /repo"},
		Stub:        []string{"reference/byzantine server (sim/refsrv)", "transport, clock, crypto/rand"},
	})
}

// refCfg builds a reference-server config.
func refCfg(certs ...string) *refsrv.Config {
	if len(certs) == 0 {
		certs = []string{"ecdsa", "rsa"}
	}
	cfg := &refsrv.Config{MinVersion: refsrv.VersionTLS10, Byz: &refsrv.Byz{}}
	for _, n := range certs {
		cfg.Certificates = append(cfg.Certificates, Cert(n).R)
	}
	cfg.CipherSuites = []uint16{0xc02b, 0xc02f, 0xc02c, 0xc030, 0xcca9, 0xcca8, 0xc009, 0xc00a, 0xc013, 0xc014, 0x009c, 0x009d, 0x002f, 0x0035, 0xc023, 0xc027, 0x003c, 0x000a, 0xc012}
	return cfg
}

func zlibCompress(level int, flushEvery int) func(alg uint16, msg []byte) []byte {
	return func(alg uint16, msg []byte) []byte {
		var b bytes.Buffer
		w, _ := zlib.NewWriterLevel(&b, level)
		if flushEvery <= 0 {
			w.Write(msg)
		} else {
			for len(msg) > 0 {
				n := flushEvery
				if n > len(msg) {
					n = len(msg)
				}
				w.Write(msg[:n])
				w.Flush()
				msg = msg[n:]
			}
		}
		w.Close()
		return b.Bytes()
	}
}

type deviation struct {
	name  string
	apply func(of *Offer, h *wire.ClientHello, cfg *refsrv.Config, ccfg *tls.Config, ch *simrt.Chooser) (value string, ok bool)
}

func firstNotIn(cands []uint16, have []uint16) (uint16, bool) {
	for _, c := range cands {
		if !has16(have, c) {
			return c, true
		}
	}
	return 0, false
}

var deviations = []deviation{
	{"suite13-unoffered", func(of *Offer, h *wire.ClientHello, cfg *refsrv.Config, ccfg *tls.Config, ch *simrt.Chooser) (string, bool) {
		if !has16(of.Versions, 0x0304) {
			return "", false
		}
		s, ok := firstNotIn([]uint16{0x1302, 0x1303, 0x1301}, of.Suites)
		if !ok {
			return "", false
		}
		cfg.Byz.ForceSuite = s
		return fmt.Sprintf("%04x", s), true
	}},
	{"suite12-under-tls13", func(of *Offer, h *wire.ClientHello, cfg *refsrv.Config, ccfg *tls.Config, ch *simrt.Chooser) (string, bool) {
		if !has16(of.Versions, 0x0304) {
			return "", false
		}
		for _, s := range of.Suites {
			if _, ok := suites12[s]; ok {
				cfg.Byz.ForceSuite = s
				return fmt.Sprintf("%04x", s), true
			}
		}
		return "", false
	}},
	{"suite-grease", func(of *Offer, h *wire.ClientHello, cfg *refsrv.Config, ccfg *tls.Config, ch *simrt.Chooser) (string, bool) {
		g := uint16(0x3a3a)
		for _, s := range h.CipherSuites {
			if wire.IsGREASE(s) && ch.Bool(50, "wire-grease") {
				g = s
			}
		}
		cfg.Byz.ForceSuite = g
		return fmt.Sprintf("%04x", g), true
	}},
	{"suite12-unoffered", func(of *Offer, h *wire.ClientHello, cfg *refsrv.Config, ccfg *tls.Config, ch *simrt.Chooser) (string, bool) {
		if !has16(of.Versions, 0x0303) {
			return "", false
		}
		s, ok := firstNotIn([]uint16{0xc030, 0xc02c, 0x009d, 0xcca8, 0xc014, 0x0035, 0xc02f, 0x002f}, of.Suites)
		if !ok {
			return "", false
		}
		cfg.MaxVersion = refsrv.VersionTLS12
		cfg.Byz.ForceSuite = s
		return fmt.Sprintf("%04x", s), true
	}},
	{"suite12-of-injected-session", func(of *Offer, h *wire.ClientHello, cfg *refsrv.Config, ccfg *tls.Config, ch *simrt.Chooser) (string, bool) {
		// the caller installs a TLS 1.2 session (fake ticket, as in the library's examples) whose suite
		// the fingerprint does not put on the wire; the server does a full TLS 1.2 handshake with
		// exactly that suite (runC12 installs the session, see below)
		if !has16(of.Versions, 0x0303) {
			return "", false
		}
		hasTicketExt := false
		for _, e := range h.Extensions {
			if e.Type == 35 {
				hasTicketExt = true
			}
		}
		s, ok := firstNotIn([]uint16{0xc027, 0xc030, 0xc02c, 0x009d, 0xcca8, 0xc014, 0x0035, 0xc02f, 0x002f}, of.Suites)
		if !ok || !hasTicketExt {
			return "", false
		}
		cfg.MaxVersion = refsrv.VersionTLS12
		cfg.Byz.ForceSuite = s
		if ccfg.ClientSessionCache == nil {
			ccfg.ClientSessionCache = tls.NewLRUClientSessionCache(2) // session injection requires a cache
		}
		return fmt.Sprintf("%04x", s), true
	}},
	{"suite-in-config-not-on-wire", func(of *Offer, h *wire.ClientHello, cfg *refsrv.Config, ccfg *tls.Config, ch *simrt.Chooser) (string, bool) {
		if !has16(of.Versions, 0x0303) {
			return "", false
		}
		s, ok := firstNotIn([]uint16{0xc030, 0xc02c, 0x009d, 0xcca8, 0xc014, 0x0035, 0xc02f, 0x002f}, of.Suites)
		if !ok {
			return "", false
		}
		ccfg.CipherSuites = append([]uint16{s}, of.Suites...) // the caller's Config allows it; the hello on the wire does not list it
		cfg.MaxVersion = refsrv.VersionTLS12
		cfg.Byz.ForceSuite = s
		return fmt.Sprintf("%04x", s), true
	}},
	{"sh-group-unoffered", func(of *Offer, h *wire.ClientHello, cfg *refsrv.Config, ccfg *tls.Config, ch *simrt.Chooser) (string, bool) {
		if !has16(of.Versions, 0x0304) {
			return "", false
		}
		g, ok := firstNotIn([]uint16{25, 24, 23, 29, 4588}, of.Groups)
		if !ok {
			return "", false
		}
		cfg.Byz.ForceSHGroup = refsrv.CurveID(g)
		return fmt.Sprint(g), true
	}},
	{"sh-group-listed-without-share", func(of *Offer, h *wire.ClientHello, cfg *refsrv.Config, ccfg *tls.Config, ch *simrt.Chooser) (string, bool) {
		if !has16(of.Versions, 0x0304) {
			return "", false
		}
		for _, g := range of.Groups {
			if (g == 23 || g == 24 || g == 25 || g == 29) && !has16(of.Shares, g) {
				cfg.Byz.ForceSHGroup = refsrv.CurveID(g)
				return fmt.Sprint(g), true
			}
		}
		return "", false
	}},
	{"hrr-unoffered-group", func(of *Offer, h *wire.ClientHello, cfg *refsrv.Config, ccfg *tls.Config, ch *simrt.Chooser) (string, bool) {
		if !has16(of.Versions, 0x0304) {
			return "", false
		}
		g, ok := firstNotIn([]uint16{25, 24, 23, 29}, of.Groups)
		if !ok {
			return "", false
		}
		cfg.Byz.HRRGroup = refsrv.CurveID(g)
		cfg.Byz.HRRAlways = true
		return fmt.Sprint(g), true
	}},
	{"hrr-group-already-shared", func(of *Offer, h *wire.ClientHello, cfg *refsrv.Config, ccfg *tls.Config, ch *simrt.Chooser) (string, bool) {
		if !has16(of.Versions, 0x0304) {
			return "", false
		}
		var shared []uint16
		for _, g := range of.Shares {
			if g == 23 || g == 24 || g == 25 || g == 29 {
				shared = append(shared, g)
			}
		}
		if len(shared) == 0 {
			return "", false
		}
		g := shared[ch.Pick(len(shared), "shared-idx")] // any of the shares, not only the first
		cfg.Byz.HRRGroup = refsrv.CurveID(g)
		cfg.Byz.HRRAlways = true
		return fmt.Sprint(g), true
	}},
	{"alpn-unoffered", func(of *Offer, h *wire.ClientHello, cfg *refsrv.Config, ccfg *tls.Config, ch *simrt.Chooser) (string, bool) {
		cfg.Byz.ForceALPN = "zz-unoffered"
		if ch.Bool(30, "tls12") && has16(of.Versions, 0x0303) {
			cfg.MaxVersion = refsrv.VersionTLS12
		}
		return fmt.Sprintf("offered=%d", len(of.ALPN)), true
	}},
	{"alpn-in-config-not-on-wire", func(of *Offer, h *wire.ClientHello, cfg *refsrv.Config, ccfg *tls.Config, ch *simrt.Chooser) (string, bool) {
		// the caller's Config lists a protocol (its own NextProtos, or one left there by an earlier
		// connection); whether this client offered it is decided by the hello on the wire
		ccfg.NextProtos = []string{"cfg-only-proto"}
		cfg.Byz.ForceALPN = "cfg-only-proto"
		if ch.Bool(30, "tls12") && has16(of.Versions, 0x0303) {
			cfg.MaxVersion = refsrv.VersionTLS12
		}
		return fmt.Sprintf("offered=%d", len(of.ALPN)), true
	}},
	{"compression-method", func(of *Offer, h *wire.ClientHello, cfg *refsrv.Config, ccfg *tls.Config, ch *simrt.Chooser) (string, bool) {
		cfg.Byz.CompressionMethod = 1
		if ch.Bool(40, "tls12") && has16(of.Versions, 0x0303) {
			cfg.MaxVersion = refsrv.VersionTLS12
		}
		return "1", true
	}},
	{"psk-selected-without-offer", func(of *Offer, h *wire.ClientHello, cfg *refsrv.Config, ccfg *tls.Config, ch *simrt.Chooser) (string, bool) {
		if !has16(of.Versions, 0x0304) {
			return "", false
		}
		cfg.Byz.ForcePSK = true
		cfg.Byz.ForcePSKIndex = uint16(ch.Pick(3, "psk-index"))
		return fmt.Sprint(cfg.Byz.ForcePSKIndex), true
	}},
	{"certcomp-unadvertised", func(of *Offer, h *wire.ClientHello, cfg *refsrv.Config, ccfg *tls.Config, ch *simrt.Chooser) (string, bool) {
		if !has16(of.Versions, 0x0304) {
			return "", false
		}
		if has16(h.CertCompression, 1) {
			return "", false // zlib is advertised: not a deviation
		}
		cfg.Byz.CertCompAlg = 1
		cfg.Byz.CertCompress = zlibCompress(6, 0)
		return fmt.Sprintf("zlib advertised=%v", h.CertCompression), true
	}},
	{"session-id-not-echoed", func(of *Offer, h *wire.ClientHello, cfg *refsrv.Config, ccfg *tls.Config, ch *simrt.Chooser) (string, bool) {
		if !has16(of.Versions, 0x0304) {
			return "", false
		}
		cfg.Byz.WrongSessionID = true
		return fmt.Sprintf("client-sid-len=%d", len(h.SessionID)), true
	}},
	{"tls12-curve-unoffered", func(of *Offer, h *wire.ClientHello, cfg *refsrv.Config, ccfg *tls.Config, ch *simrt.Chooser) (string, bool) {
		if !has16(of.Versions, 0x0303) {
			return "", false
		}
		g, ok := firstNotIn([]uint16{25, 24, 23, 29}, of.Groups)
		if !ok {
			return "", false
		}
		ecdhe := false
		for _, s := range of.Suites {
			if isECDHE(s) && usable12(of, s, 0x0303) {
				ecdhe = true
			}
		}
		if !ecdhe {
			return "", false
		}
		cfg.MaxVersion = refsrv.VersionTLS12
		cfg.CipherSuites = []uint16{0xc02b, 0xc02f, 0xc02c, 0xc030, 0xcca9, 0xcca8, 0xc009, 0xc00a, 0xc013, 0xc014}
		cfg.Byz.ForceSHGroup = refsrv.CurveID(g)
		return fmt.Sprint(g), true
	}},
}

// runC12PSK: a real resumption in which the server announces a selected_identity the hello did not carry.
func runC12PSK(c *Ctx) {
	ch := c.Ch
	ids := []IDInfo{{"Golang", tls.HelloGolang}}
	for _, p := range AllParrots {
		if isPSKParrot(p.Name) {
			ids = append(ids, p)
		}
	}
	idi := ids[ch.Pick(len(ids), "psk-id")]
	w := c.NewWorld(simrt.Config{})
	cfg := refCfg()
	cache := tls.NewLRUClientSessionCache(4)
	mk := func() *tls.Config {
		cc := negCfg()
		cc.ClientSessionCache = cache
		cc.OmitEmptyPsk = true
		return cc
	}
	o1 := RunConn(c, w, &ConnSpec{Name: "first", ID: idi.ID, CCfg: mk(), Peer: PeerRef, RefCfg: cfg, Payload: [][]byte{[]byte("first")}})
	if !o1.CDone || string(o1.CRead) != "first" {
		c.Finish(w, true)
		c.R.Harness = "psk stratum: first connection failed: " + o1.Describe()
		return
	}
	idx := []uint16{1, 1, 2, 7, 0xffff}[ch.Pick(5, "sel-identity")]
	honest := ch.Bool(15, "honest")
	if !honest {
		cfg.Byz.SelectedIdentity, cfg.Byz.SelectedIdentitySet = idx, true
	}
	o := RunConn(c, w, &ConnSpec{Name: "second", ID: idi.ID, CCfg: mk(), Peer: PeerRef, RefCfg: cfg, Payload: [][]byte{[]byte("must-not-be-sent")},
		Setup: func(l *simnet.Link) { l.Frag = ch.Bool(30, "frag") }})
	c.Finish(w, true)
	c.R.Class = fmt.Sprintf("psk-history/%s selected_identity=%d honest=%v", idi.Name, idx, honest)
	if c.R.Violation != nil {
		return
	}
	obs := ObserveHellos(o.Link)
	if len(obs.CH) == 0 {
		c.R.Harness = "psk stratum: no hello: " + o.Describe()
		return
	}
	n := len(obs.CH[0].PSKIdentities)
	if honest {
		c.Probe("psk-honest")
		if n > 0 && (!o.CDone || !o.CState.DidResume) {
			c.R.Harness = "psk stratum: honest resumption with the reference server failed: " + o.Describe()
		}
		return
	}
	if n == 0 || len(cfg.Byz.Notes) == 0 {
		c.Probe("psk-not-offered-or-not-accepted")
		return
	}
	if int(idx) < n {
		return // an offered index: not a deviation
	}
	c.R.NonTrivial = true
	c.Probe("dev-psk-identity-beyond-offer")
	if o.CDone {
		c.Violate("unoffered-choice-accepted dev=psk-identity-beyond-offer", "%s: %d identities on the wire, server announced %d, handshake completed (DidResume=%v), server read %d bytes", c.R.Class, n, idx, o.CState.DidResume, len(o.SRead))
		return
	}
	if len(o.SRead) > 0 || len(o.CRead) > 0 {
		c.Violate("application-data-after-unoffered-choice dev=psk-identity-beyond-offer", "%s", c.R.Class)
	}
}

// runC12Resumed12: deviations on a *resumed* TLS 1.2 handshake. The first connection negotiates
// protocol X and caches a ticket; the second connection (same cache and name, possibly another
// fingerprint or another NextProtos list) offers an ALPN list without X, or its hello no longer
// lists the session's suite; the reference server resumes and answers with X / with another suite.
func runC12Resumed12(c *Ctx) {
	ch := c.Ch
	ids := []IDInfo{{"Golang", tls.HelloGolang}, {"Firefox_65", tls.HelloFirefox_65}, {"Chrome_83", tls.HelloChrome_83}, {"Firefox_120", tls.HelloFirefox_120}, {"Chrome_100", tls.HelloChrome_100}, {"IOS_14", tls.HelloIOS_14}}
	first := ids[ch.Pick(len(ids), "first-id")]
	second := first
	if ch.Bool(50, "other-second") {
		second = ids[ch.Pick(len(ids), "second-id")]
	}
	dev := []string{"alpn-of-previous-connection", "alpn-of-previous-connection", "alpn-unoffered", "honest"}[ch.Pick(4, "resumed-dev")]
	w := c.NewWorld(simrt.Config{})
	cfg := refCfg()
	cfg.MaxVersion = refsrv.VersionTLS12
	cfg.NextProtos = []string{"proto-a", "h2", "http/1.1", "proto-b"}
	cache := tls.NewLRUClientSessionCache(4)
	mk := func(protos []string) *tls.Config {
		cc := negCfg()
		cc.ClientSessionCache = cache
		cc.NextProtos = protos
		return cc
	}
	// first connection: HelloGolang offers proto-a first; parrots offer their fixed list (h2 first)
	o1 := RunConn(c, w, &ConnSpec{Name: "first", ID: first.ID, CCfg: mk([]string{"proto-a", "proto-b"}), Peer: PeerRef, RefCfg: cfg, Payload: [][]byte{[]byte("first")}})
	if !o1.CDone || string(o1.CRead) != "first" {
		c.Finish(w, true)
		c.R.Harness = "resumed-1.2 stratum: first connection failed: " + o1.Describe()
		return
	}
	prevProto := o1.CState.NegotiatedProtocol
	forced := ""
	switch dev {
	case "alpn-of-previous-connection":
		forced = prevProto
	case "alpn-unoffered":
		forced = "never-offered"
	}
	cfg.Byz.ForceALPN = forced
	// the second hello offers a list without the protocol of the first connection
	protos2 := [][]string{{"proto-b"}, nil, {"proto-b", "zz"}}[ch.Pick(3, "second-protos")]
	o := RunConn(c, w, &ConnSpec{Name: "second", ID: second.ID, CCfg: mk(protos2), Peer: PeerRef, RefCfg: cfg, Payload: [][]byte{[]byte("must-not-be-sent")},
		Setup: func(l *simnet.Link) { l.Frag = ch.Bool(30, "frag") }})
	c.Finish(w, true)
	c.R.Class = fmt.Sprintf("resumed12-history/%s->%s dev=%s prev-proto=%q", first.Name, second.Name, dev, prevProto)
	if c.R.Violation != nil {
		return
	}
	obs := ObserveHellos(o.Link)
	if len(obs.CH) == 0 {
		c.R.Harness = "resumed-1.2 stratum: no hello: " + o.Describe()
		return
	}
	offered := obs.CH[0].ALPN
	ticket := obs.CH[0].HasSessionTicket && len(obs.CH[0].SessionTicket) > 0
	if dev == "honest" {
		c.Probe("resumed12-honest")
		if !o.CDone {
			c.R.Harness = "resumed-1.2 stratum: honest second connection failed: " + o.Describe()
		} else if o.CState.DidResume {
			c.Probe("resumed12-honest-resumed")
		}
		return
	}
	if forced == "" || hasStr(offered, forced) {
		return // nothing forced (no protocol on the first connection) or it happens to be offered: not a deviation
	}
	c.R.NonTrivial = true
	c.Probe("dev-resumed12-" + dev)
	if ticket {
		c.Probe("dev-resumed12-ticket-offered")
	}
	if o.CDone {
		c.Violate("unoffered-choice-accepted dev="+dev+" resumed12", "%s: the hello offered ALPN %v (ticket offered=%v), the server answered %q, handshake completed (DidResume=%v, NegotiatedProtocol=%q), server read %d bytes", c.R.Class, offered, ticket, forced, o.CState.DidResume, o.CState.NegotiatedProtocol, len(o.SRead))
		return
	}
	if len(o.SRead) > 0 || len(o.CRead) > 0 {
		c.Violate("application-data-after-unoffered-choice dev="+dev+" resumed12", "%s", c.R.Class)
	}
}

func runC12(c *Ctx) {
	if c.Run%16 == 5 {
		runC12PSK(c)
		return
	}
	if c.Run%16 == 13 {
		runC12Resumed12(c)
		return
	}
	ch := c.Ch
	stratum := int64(-1)
	if c.Run%2 == 0 {
		stratum = c.Run / 2
	}
	w := c.NewWorld(simrt.Config{})
	f := PickFingerprint(ch, stratum, negCfg)
	ccfg := negCfg()
	dry, err := DryHello(negCfg(), f.IDI.ID, f.Spec())
	if err != nil {
		c.R.Harness = "dry build: " + err.Error()
		return
	}
	of := OfferOf(dry, 0)
	cfg := refCfg()
	devName, devVal := "none", ""
	if c.Run%8 != 7 {
		// the deviation is drawn by run index first (every deviation x fingerprint family), then randomly
		start := int(c.Run/2) % len(deviations)
		if ch.Bool(50, "random-dev") {
			start = ch.Pick(len(deviations), "dev")
		}
		for k := 0; k < len(deviations); k++ {
			d := deviations[(start+k)%len(deviations)]
			if v, ok := d.apply(of, dry, cfg, ccfg, ch); ok {
				devName, devVal = d.name, v
				break
			}
		}
	}
	cfg.NextProtos = of.ALPN
	// modifier: the deviation follows an honest HelloRetryRequest (the client must keep checking the
	// ServerHello that comes after it)
	afterHRR := false
	switch devName {
	case "session-id-not-echoed", "compression-method", "alpn-unoffered", "alpn-in-config-not-on-wire", "psk-selected-without-offer", "certcomp-unadvertised":
		if cfg.MaxVersion != refsrv.VersionTLS12 && has16(of.Versions, 0x0304) && ch.Bool(35, "after-hrr") {
			for _, g := range of.Groups {
				if (g == 23 || g == 24 || g == 25) && !has16(of.Shares, g) {
					cfg.Byz.HRRGroup = refsrv.CurveID(g)
					cfg.Byz.AfterHRR = true
					afterHRR = true
					break
				}
			}
		}
	}
	// modifier: the caller's Config value is shared with another connection of a different
	// fingerprint that is being built while this handshake runs (the answer to "what did this
	// client offer" is the hello on the wire, never the shared Config)
	noise := devName != "none" && ch.Bool(25, "shared-config-noise")
	c.R.Class = fmt.Sprintf("%s/%s dev=%s(%s) afterHRR=%v noise=%v", f.Kind, f.IDI.Name, devName, devVal, afterHRR, noise)
	if noise {
		pol := AllParrots[ch.Pick(len(AllParrots), "noise-id")]
		if ch.Bool(50, "noise-firefox") {
			// a family with a different offer (P-521, ffdhe groups, other suites)
			pol = []IDInfo{{"Firefox_120", tls.HelloFirefox_120}, {"Firefox_105", tls.HelloFirefox_105}, {"Golang", tls.HelloGolang}}[ch.Pick(3, "noise-ff")]
		}
		at := ch.Range(0, 14, "noise-at")
		w.Go("noise", func() {
			simrt.WaitSteps(at)
			u := tls.UClient(simnet.NewLink("noise").A, ccfg, pol.ID)
			u.BuildHandshakeState()
		})
		c.Fault("shared-config", 1)
	}
	sp := &ConnSpec{ID: f.IDI.ID, Spec: f.Spec(), CCfg: ccfg, Peer: PeerRef, RefCfg: cfg, Payload: [][]byte{[]byte("must-not-be-sent")},
		Setup: func(l *simnet.Link) { l.Frag = ch.Bool(30, "frag") }}
	if devName == "suite12-of-injected-session" {
		var suite uint16
		fmt.Sscanf(devVal, "%04x", &suite)
		master := make([]byte, 48)
		ch.Bytes(master, "injected-master")
		ticket := make([]byte, ch.Range(16, 200, "injected-ticket-len"))
		ch.Bytes(ticket, "injected-ticket")
		sp.Prep = func(u *tls.UConn) error {
			return u.SetSessionState(tls.MakeClientSessionState(ticket, tls.VersionTLS12, suite, master, nil, nil))
		}
		c.Probe("injected-session-suite")
	}
	o := RunConn(c, w, sp)
	c.Finish(w, true)
	if c.R.Violation != nil {
		return
	}
	if devName == "none" {
		c.Probe("no-deviation")
		if !o.CDone || !o.SDone || string(o.CRead) != "must-not-be-sent" {
			// the reference server must interoperate when it does not deviate; known client
			// defects (C10) aside this is a harness problem
			r := &NegResult{F: f, Offer: of, O: o, Obs: ObserveHellos(o.Link)}
			sel := selClass(r)
			if sel == "later-classical-share" || sel == "no-classical-share-in-hello" || sel == "hybrid-share-with-non-x25519-first-classical" || sel == "hrr-hybrid" {
				c.Probe("baseline-hit-known-keyshare-defect")
				return
			}
			c.R.Harness = fmt.Sprintf("reference server without deviation did not interoperate: %s sel=%s", o.Describe(), sel)
		}
		return
	}
	if devName == "alpn-in-config-not-on-wire" {
		// fingerprints that build their ALPN list from Config.NextProtos do offer it: no deviation then
		if obs := ObserveHellos(o.Link); len(obs.CH) == 0 || hasStr(obs.CH[0].ALPN, "cfg-only-proto") {
			c.Probe("alpn-in-config-is-on-wire")
			return
		}
	}
	c.R.NonTrivial = true
	c.Probe("dev-" + devName)
	if o.CDone {
		st := o.CState
		c.Violate(fmt.Sprintf("unoffered-choice-accepted dev=%s %s", devName, f.Kind), "%s: the handshake completed; client state: version=%x suite=%04x alpn=%q; server read %d bytes", c.R.Class, st.Version, st.CipherSuite, st.NegotiatedProtocol, len(o.SRead))
		return
	}
	if len(o.SRead) > 0 || len(o.CRead) > 0 {
		c.Violate("application-data-after-unoffered-choice dev="+devName, "%s: server read %d, client read %d", c.R.Class, len(o.SRead), len(o.CRead))
		return
	}
	if o.CErr == nil {
		c.Violate("no-error-after-unoffered-choice dev="+devName, "%s: %s", c.R.Class, o.Describe())
		return
	}
	if o.U != nil {
		st := o.U.ConnectionState()
		if st.HandshakeComplete {
			c.Violate("state-complete-after-unoffered-choice dev="+devName, "%s", c.R.Class)
		}
	}
	if c.R.Run%300 == 0 {
		c.R.Sample = map[string]any{"fingerprint": f.IDI.Name, "kind": f.Kind, "deviation": devName, "value": devVal, "client_error": o.CErr.Error()}
	}
}
