package scen

import (
	"bytes"
	"compress/zlib"

	"github.com/andybalholm/brotli"
	"github.com/klauspost/compress/zstd"
	"runtime/debug"
	"sync"
	stdtls "crypto/tls"
	"fmt"
	"io"
	"net"
	"runtime"
	"strings"
	"time"

	tls "github.com/refraction-networking/utls"
	"github.com/refraction-networking/utls/zz_verif/refsrv"
	"github.com/refraction-networking/utls/zz_verif/simnet"
	"github.com/refraction-networking/utls/zz_verif/simrt"
	"github.com/refraction-networking/utls/zz_verif/wire"
)

// C33: hostile server input never crashes or hangs a uTLS client.
// C34: arbitrary client input never crashes or hangs the server.

func init() {
	Register("C33", &Info{
		Run:   runC33,
		Quick: 10000, Thor: 1000000,
		Rule: "a world = one fingerprint (every parrot by stratum, randomized, generated specs, HelloGolang) and version, whose peer is made hostile in one of two ways: (a) the server's byte stream is corrupted at the transport - bit flips, byte runs overwritten with drawn garbage, truncation, reset, an oversized record header, random records injected - at an offset drawn over the whole server flight and the first application records; (b) the reference server mutates one plaintext handshake message before hashing and encrypting it (ServerHello incl. HelloRetryRequest with cookie, EncryptedExtensions incl. ALPS, Certificate, CompressedCertificate, CertificateVerify, Finished, NewSessionTicket, TLS 1.2 ServerKeyExchange/ServerHelloDone): byte flips, truncation, extension, inner length fields set to extreme values, with the outer length fixed up or not, a well-formed but unsolicited extension of a drawn known type (early_data, cookie, key_share, pre_shared_key, ALPS, ECH, ...) inserted into the extension block of ServerHello / EncryptedExtensions / Certificate entry / CertificateRequest / NewSessionTicket with every enclosing length fixed up, (two worlds in ten form the enumerated truncation stratum (message type in {ServerHello, EncryptedExtensions, Certificate, ServerKeyExchange, CertificateRequest, CertificateVerify, Finished, NewSessionTicket} x 0..127 body bytes kept, handshake length fixed up, so every field boundary of those messages is met); every tenth world enumerates message type x extension code point x body shape by run index) a CompressedCertificate whose stream is valid up to the declared length and then goes on decompressing into 48 MB, or a well-formed zstd frame of raw blocks whose header announces a 16 MiB .. 512 MiB window; (c) every fifth world: the reference server completes a genuine handshake and then misbehaves under the negotiated keys - floods of zero-length application_data records (10 .. 150000), KeyUpdate storms with and without update_requested, HelloRequest runs under TLS 1.2, a correctly keyed CBC record whose plaintext is padding only (TLS 1.0-1.2), (the client's renegotiation support drawn: never / once / freely), unexpected handshake messages of drawn types - optionally while the client's own transport writes fail once, fail for good, or block (peer stops reading); the client then keeps using the connection (Read x3, Write, Read, Close); (d) every twentieth world: the reference server completes a genuine handshake but issues an odd session ticket (zero-length, one byte, 65000 bytes, garbage) and a second connection over the same session cache follows; the client runs Handshake and then Read under a 30 s deadline; oracle: no panic in any task, the world neither deadlocks nor hits the step cap and every client call returns by the deadline, and the bytes allocated while the connection runs stay below 6 MB (the largest legitimate message is a 256 kB certificate message); non-trivial = the mutated bytes were consumed by the client; distinct = (fingerprint, hostile mode, target, mutation, offset class)",
		Assumptions: []string{"mutation-based, not coverage-guided", "the worker process runs with a 32 MB goroutine stack limit (debug.SetMaxStack)", "allocation is measured as runtime.MemStats.TotalAlloc growth of the whole worker process during the world (client, server and harness together)"},
		Real:        []string{"utls client from /repo"},
		Stub:        []string{"hostile peers: corrupted utls/std server streams; reference server with message mutation", "transport, clock, crypto/rand"},
	})
	Register("C34", &Info{
		Run:   runC34,
		Quick: 10000, Thor: 1000000,
		Rule: "a world = the repository's server (TLS 1.0-1.3, optional ECH keys, optional client-certificate request) facing a raw byte-stream client: a genuine ClientHello taken from a parrot / randomized / generated spec (by run index) is mutated (byte flips, truncation, extension, length fields set to extreme values, extensions duplicated or reordered, ECH and PSK bodies damaged) and framed into records with drawn fragmentation; optionally followed or preceded by uTLS-specific plaintext handshake messages (type 8 client EncryptedExtensions, type 25 CompressedCertificate), a second hello, garbage records, or a TLS 1.2 client flight with damaged ClientKeyExchange; every fifth world: a reference client completes a genuine handshake (optionally with ECH, its encoded inner ClientHello rewritten before HPKE sealing: ech_outer_extensions entries missing / out of order / duplicated / naming the ECH extension, or byte mutations) and then misbehaves under the negotiated keys like the hostile server of C33 while the server's transport writes may fail; the server then keeps using the connection; the server runs Handshake and Read under a 30 s deadline; oracle: no panic, no deadlocked world, every server call returns by the deadline, allocation below 6 MB per world; non-trivial = the mutated bytes were consumed by the server; distinct = (source fingerprint, mutation, framing, extra messages)",
		Assumptions: []string{"the raw byte-stream client attacks only the plaintext part of the client's flight; encrypted messages come from the reference client (frozen fork, sim/refsrv)", "mutation-based, not coverage-guided", "the worker process runs with a 32 MB goroutine stack limit (debug.SetMaxStack)"},
		Real:        []string{"utls server (tls.Server, ECH server side) from /repo"},
		Stub:        []string{"raw byte-stream client (harness)", "transport, clock, crypto/rand"},
	})
}

// mutateBytes applies one drawn mutation to a copy of b. fixLen: rewrite the 3-byte
// handshake length so that the outer framing stays valid.
func mutateBytes(ch *simrt.Chooser, b []byte, fixLen bool) ([]byte, string) {
	m := append([]byte(nil), b...)
	if len(m) < 5 {
		return m, "short"
	}
	op := ch.Pick(8, "mut-op")
	pos := 4 + ch.Pick(len(m)-4, "mut-pos")
	if ch.Bool(45, "head-bias") {
		// the first bytes of a message body hold its counts and length fields
		k := len(m) - 4
		if k > 12 {
			k = 12
		}
		pos = 4 + ch.Pick(k, "head-pos")
	}
	desc := ""
	switch op {
	case 0:
		m[pos] ^= byte(1 << uint(ch.Pick(8, "bit")))
		desc = "flip"
	case 1:
		m[pos] = byte(ch.Pick(256, "val"))
		desc = "set"
	case 2:
		m = m[:pos]
		desc = "truncate"
	case 3:
		extra := make([]byte, ch.Range(1, 300, "ext-len"))
		ch.Bytes(extra, "ext")
		m = append(m, extra...)
		desc = "extend"
	case 4:
		// a 16-bit field set to 0xffff / 0x0000
		if pos+1 < len(m) {
			v := byte(0xff * ch.Pick(2, "ffff"))
			m[pos], m[pos+1] = v, v
		}
		desc = "len16"
	case 5:
		// a 24-bit field set to 0xffffff
		if pos+2 < len(m) {
			m[pos], m[pos+1], m[pos+2] = 0xff, 0xff, 0xff
		}
		desc = "len24"
	case 6:
		// duplicate a slice in place
		n := ch.Range(1, 64, "dup-len")
		if pos+n > len(m) {
			n = len(m) - pos
		}
		m = append(m[:pos+n], append(append([]byte(nil), m[pos:pos+n]...), m[pos+n:]...)...)
		desc = "dup"
	case 7:
		n := ch.Range(1, 64, "zero-len")
		for i := pos; i < pos+n && i < len(m); i++ {
			m[i] = 0
		}
		desc = "zero"
	}
	if fixLen && len(m) >= 4 {
		n := len(m) - 4
		m[1], m[2], m[3] = byte(n>>16), byte(n>>8), byte(n)
		desc += "+fixlen"
	}
	return m, desc
}

// knownExtTypes: extension code points the client-side parsers know, plus private ones.
var knownExtTypes = []uint16{0, 1, 5, 10, 11, 13, 16, 17, 18, 21, 22, 23, 27, 28, 34, 35, 41, 42, 43, 44, 45, 47, 49, 50, 51, 57,
	13172, 17513, 17613, 0xfe0d, 0xff01, 0xfd00, 0x0a0a, 0x4444}

// extBlockAt returns the offset of the 2-byte extensions length in handshake message m of type t
// (TLS 1.3 layouts; ServerHello is the same in every version), or -1. For a Certificate message
// it is the extension block of the first entry.
func extBlockAt(t uint8, m []byte) int {
	p := 4
	need := func(n int) bool { return p+n <= len(m) }
	switch t {
	case 2: // ServerHello / HelloRetryRequest
		if !need(2 + 32 + 1) {
			return -1
		}
		p += 2 + 32
		p += 1 + int(m[p])
		p += 2 + 1
		if p == len(m) {
			return p // no extension block yet (TLS <= 1.2): one is appended
		}
	case 8: // EncryptedExtensions
	case 4: // NewSessionTicket (TLS 1.3)
		if !need(4 + 4 + 1) {
			return -1
		}
		p += 8
		p += 1 + int(m[p])
		if !need(2) {
			return -1
		}
		p += 2 + (int(m[p])<<8 | int(m[p+1]))
	case 13: // CertificateRequest (TLS 1.3)
		if !need(1) {
			return -1
		}
		p += 1 + int(m[p])
	case 11: // Certificate (TLS 1.3): first entry
		if !need(1) {
			return -1
		}
		p += 1 + int(m[p])
		p += 3
		if !need(3) {
			return -1
		}
		p += 3 + (int(m[p])<<16 | int(m[p+1])<<8 | int(m[p+2]))
	default:
		return -1
	}
	if p == len(m) && t == 2 {
		return p
	}
	if p+2 > len(m) {
		return -1
	}
	if p+2+(int(m[p])<<8|int(m[p+1])) > len(m) {
		return -1
	}
	return p
}

// addExtension inserts one extension (drawn type, drawn short body) at the front or the end of the
// message's extension block and fixes the block length, the Certificate list length and the
// handshake length.
func addExtension(ch *simrt.Chooser, t uint8, m []byte, forcedType, forcedBody int) ([]byte, string, bool) {
	at := extBlockAt(t, m)
	if at < 0 {
		return nil, "", false
	}
	et := knownExtTypes[ch.Pick(len(knownExtTypes), "ext-type")]
	body := make([]byte, []int{0, 0, 1, 2, 4, 8, 33}[ch.Pick(7, "ext-body-len")])
	ch.Bytes(body, "ext-body")
	if ch.Bool(40, "ext-body-zero") {
		for i := range body {
			body[i] = 0
		}
	}
	if forcedType >= 0 {
		et = uint16(forcedType)
		switch forcedBody {
		case 0:
			body = nil
		case 1:
			body = []byte{0}
		case 2:
			body = []byte{0, 0}
		default:
			body = body[:0]
			body = append(body, 0, 2, byte(et>>8), byte(et)) // a 16-bit vector holding two bytes
		}
	}
	ext := append([]byte{byte(et >> 8), byte(et), byte(len(body) >> 8), byte(len(body))}, body...)
	var out []byte
	if at == len(m) {
		out = append(append([]byte(nil), m...), byte(len(ext)>>8), byte(len(ext)))
		out = append(out, ext...)
	} else {
		bl := int(m[at])<<8 | int(m[at+1])
		ins := at + 2
		if ch.Bool(50, "ext-at-end") {
			ins = at + 2 + bl
		}
		out = append(append(append([]byte(nil), m[:ins]...), ext...), m[ins:]...)
		nl := bl + len(ext)
		out[at], out[at+1] = byte(nl>>8), byte(nl)
		if t == 11 {
			// certificate_list length sits after the request context
			lp := 4 + 1 + int(m[4])
			ll := (int(m[lp])<<16 | int(m[lp+1])<<8 | int(m[lp+2])) + len(ext)
			out[lp], out[lp+1], out[lp+2] = byte(ll>>16), byte(ll>>8), byte(ll)
		}
	}
	n := len(out) - 4
	out[1], out[2], out[3] = byte(n>>16), byte(n>>8), byte(n)
	return out, fmt.Sprintf("add-extension type=%d len=%d", et, len(body)), true
}

func memNow() uint64 {
	var ms runtime.MemStats
	runtime.ReadMemStats(&ms)
	return ms.TotalAlloc
}

const allocLimit = 6 << 20

var stackCapOnce sync.Once

// capStack lowers the goroutine stack limit of the worker process from 1 GB to 32 MB: unbounded
// recursion driven by peer input then ends in the runtime's fatal "stack overflow" within what a
// world can send, and the driver reports the crashed world.
func capStack() {
	stackCapOnce.Do(func() {
		debug.SetMaxStack(32 << 20)
		for _, a := range []uint16{1, 2, 3} {
			bombCompress(a, []byte("warm-up")) // encoders are created once, outside any measured world
		}
	})
}

func runC33(c *Ctx) {
	capStack()
	if c.Run%5 == 4 {
		runC33Post(c)
		return
	}
	if c.Run%20 == 3 {
		runC33Tickets(c)
		return
	}
	ch := c.Ch
	stratum := int64(-1)
	if c.Run%3 == 0 {
		stratum = c.Run / 3
	}
	var f *Fingerprint
	if stratum < 0 && ch.Bool(10, "golang") {
		f = &Fingerprint{Kind: "golang", IDI: IDInfo{"Golang", tls.HelloGolang}}
	} else {
		f = PickFingerprint(ch, stratum, negCfg)
	}
	mode := []string{"transport", "mutate", "mutate"}[ch.Pick(3, "mode")]
	srvMax := []uint16{tls.VersionTLS13, tls.VersionTLS13, tls.VersionTLS12, tls.VersionTLS11}[ch.Pick(4, "srvmax")]
	// one world in forty belongs to the compressed-certificate stratum: a hand-edited browser spec
	// that advertises a drawn set of certificate compression algorithms (no predefined parrot of
	// this tree offers zstd, applications' own specs do), a TLS 1.3 server that compresses with one
	// of them, and the hostile streams below; two thirds of these worlds mutate nothing else
	ccStratum := c.Run%40 == 11
	if ccStratum {
		var algs []tls.CertCompressionAlgo
		for _, a := range []tls.CertCompressionAlgo{tls.CertCompressionZstd, tls.CertCompressionBrotli, tls.CertCompressionZlib} {
			if ch.Bool(60, "cc-alg") {
				algs = append(algs, a)
			}
		}
		if len(algs) == 0 {
			algs = []tls.CertCompressionAlgo{tls.CertCompressionZstd}
		}
		base := []tls.ClientHelloID{tls.HelloChrome_120, tls.HelloFirefox_120, tls.HelloSafari_16_0}[ch.Pick(3, "cc-base")]
		f = &Fingerprint{Kind: "custom", IDI: IDInfo{"Custom", tls.HelloCustom}, Desc: fmt.Sprintf("%s+compress_certificate%v", base.Str(), algs),
			NewSpec: func() *tls.ClientHelloSpec {
				spec, err := tls.UTLSIdToSpec(base)
				if err != nil {
					panic(err)
				}
				found := false
				for _, e := range spec.Extensions {
					if cc, ok := e.(*tls.UtlsCompressCertExtension); ok {
						cc.Algorithms, found = append([]tls.CertCompressionAlgo(nil), algs...), true
					}
				}
				if !found {
					spec.Extensions = append(spec.Extensions[:len(spec.Extensions):len(spec.Extensions)], &tls.UtlsCompressCertExtension{Algorithms: append([]tls.CertCompressionAlgo(nil), algs...)})
				}
				return &spec
			}}
		mode, srvMax = "mutate", tls.VersionTLS13
		c.Probe("compressed-certificate-stratum")
	}
	// every tenth world belongs to the enumerated stratum of structure-aware mutations: message
	// type x extension code point x body shape are taken from the run index, so that every
	// combination occurs in every quick batch
	combo := int64(-1)
	if c.Run%10 == 7 {
		combo = c.Run / 10
		mode = "mutate"
		if [...]uint8{2, 8, 4, 13, 11}[combo%5] != 2 || combo%2 == 0 {
			srvMax = tls.VersionTLS13
		}
	}
	// two worlds in ten belong to the enumerated truncation stratum: message type x number of body
	// bytes kept (0..127) come from the run index; the handshake length is fixed up, so the message
	// is well-framed and ends in the middle of, or exactly at, every one of its fields
	tcombo := int64(-1)
	truncTypes := [...]uint8{2, 8, 11, 12, 13, 15, 20, 4}
	if (c.Run%10 == 1 || c.Run%10 == 6) && !ccStratum && c.Run%20 != 3 {
		tcombo = c.Run / 10 * 2
		if c.Run%10 == 6 {
			tcombo++
		}
		mode = "mutate"
		keep := (tcombo / int64(len(truncTypes))) % 128
		switch truncTypes[truncIdx(tcombo)] {
		case 12:
			srvMax = tls.VersionTLS12
		case 8, 15:
			srvMax = tls.VersionTLS13
		default:
			srvMax = []uint16{tls.VersionTLS13, tls.VersionTLS12}[(keep+tcombo/1024)%2]
		}
	}
	w := c.NewWorld(simrt.Config{StepCap: 50000})
	ccfg := negCfg()
	ccfg.MinVersion = tls.VersionTLS10
	ccfg.ApplicationSettings = map[string][]byte{"h2": []byte("cs")}
	if ch.Bool(30, "cache") {
		ccfg.ClientSessionCache = tls.NewLRUClientSessionCache(4)
	}
	sp := &ConnSpec{ID: f.IDI.ID, Spec: f.Spec(), CCfg: ccfg, Deadline: 30 * time.Second}
	desc := ""
	hugeLen := false
	bombAlg := uint16(0)
	zstdWindow := 0
	decoderWindow := false
	var link *simnet.Link
	var consumedCheck func() bool
	switch mode {
	case "transport":
		sp.Peer = ch.Pick(3, "peer")
		sp.SCfg = &tls.Config{Certificates: []tls.Certificate{Cert("ecdsa").U, Cert("rsa").U}, MaxVersion: srvMax, MinVersion: tls.VersionTLS10, NextProtos: []string{"h2", "http/1.1"}}
		sp.StdCfg = &stdtls.Config{Certificates: []stdtls.Certificate{Cert("ecdsa").S, Cert("rsa").S}, MaxVersion: srvMax, MinVersion: stdtls.VersionTLS10, NextProtos: []string{"h2", "http/1.1"}}
		sp.RefCfg = refCfg()
		sp.RefCfg.MaxVersion = srvMax
		sp.RefCfg.NextProtos = []string{"h2", "http/1.1"}
		kind := []string{"flip", "garbage", "eof", "reset", "bigrecord", "inject"}[ch.Pick(6, "tkind")]
		off := int64(ch.Pick(7000, "toff"))
		glen := ch.Range(1, 200, "glen")
		garbage := make([]byte, glen)
		ch.Bytes(garbage, "garbage")
		desc = fmt.Sprintf("transport/%s@%d peer=%s", kind, off, peerName(sp.Peer))
		sp.Setup = func(l *simnet.Link) {
			link = l
			l.Frag = ch.Bool(40, "frag")
			switch kind {
			case "flip":
				l.BA.FlipAt, l.BA.FlipMask = off, byte(1<<uint(ch.Pick(8, "bit")))
			case "eof":
				l.BA.EOFAt = off
			case "reset":
				l.BA.ResetAt = off
			case "garbage", "bigrecord", "inject":
				done := false
				l.BA.Filter = func(w *simrt.World, d *simnet.Dir, b []byte) [][]byte {
					if done || d.Total < off {
						return [][]byte{b}
					}
					done = true
					d.Fired[kind]++
					switch kind {
					case "garbage":
						nb := append([]byte(nil), b...)
						copy(nb[len(nb)/2:], garbage)
						return [][]byte{nb}
					case "bigrecord":
						// a record header announcing a huge payload, then the real bytes
						return [][]byte{{22, 3, 3, 0xff, 0xff}, b}
					default:
						rec := append([]byte{byte(20 + ch.Pick(5, "rtype")), 3, 3, byte(len(garbage) >> 8), byte(len(garbage))}, garbage...)
						return [][]byte{rec, b}
					}
				}
			}
		}
		consumedCheck = func() bool {
			if link == nil {
				return false
			}
			for _, v := range link.BA.Fired {
				if v > 0 {
					return true
				}
			}
			return false
		}
	case "mutate":
		sp.Peer = PeerRef
		cfg := refCfg()
		cfg.MaxVersion = srvMax
		cfg.NextProtos = []string{"h2", "http/1.1"}
		extras := ch.Pick(5, "extras")
		if ccStratum {
			extras = 2
		}
		switch extras {
		case 1:
			cfg.Byz.HRRCookie = []byte("cookie-cookie")
			cfg.CurvePreferences = []refsrv.CurveID{refsrv.CurveP384}
		case 2:
			cfg.Byz.CertCompAlg = uint16(1 + ch.Pick(3, "compalg"))
			if dry, err := DryHello(negCfg(), f.IDI.ID, f.Spec()); err == nil && len(dry.CertCompression) > 0 && (ccStratum || ch.Bool(60, "advertised-alg")) {
				cfg.Byz.CertCompAlg = dry.CertCompression[ch.Pick(len(dry.CertCompression), "adv")]
				if ch.Bool(pctIf(ccStratum, 20, 50), "huge-declared-length") {
					// a tiny message announcing the largest uncompressed_length the field can hold
					cfg.Byz.CertCompLenDelta = 0xffffff - 2000
					c.Probe("huge-declared-length")
					hugeLen = true
				}
			}
			if cfg.Byz.CertCompLenDelta == 0 && cfg.Byz.CertCompAlg == 3 && ch.Bool(50, "zstd-window") {
				// a well-formed zstd frame (raw blocks holding the real message) whose header announces a
				// window of 16 MiB .. 512 MiB: a decoder that allocates what the header says before it
				// has seen any data pays that much for a message of a few hundred bytes
				wd := []byte{0x70, 0x78, 0x80, 0x88, 0x98}[ch.Pick(5, "window-descriptor")]
				zstdWindow = 10 + int(wd>>3)
				c.Probe(fmt.Sprintf("zstd-window-2^%d", zstdWindow))
			}
			if cfg.Byz.CertCompLenDelta == 0 && zstdWindow == 0 && ch.Bool(35, "bomb") {
				// a stream that is valid up to the declared length and then goes on decompressing
				// into tens of megabytes (reused encoders: the harness allocates next to nothing)
				bombAlg = cfg.Byz.CertCompAlg
				c.Probe("decompression-bomb")
			}
			// stored-block zlib: the real encoders allocate tens of megabytes themselves, which
			// would drown the client's allocations in the process-wide measurement (for algorithm
			// ids 2 and 3 the stream is simply not what the id announces: still hostile input)
			cfg.Byz.CertCompress = zlibCompress(0, 0)
			// whatever reaches a brotli or zstd decoder - also a stream that is not of that format, or
			// a mutated one - may make it allocate the window its first bytes announce
			decoderWindow = cfg.Byz.CertCompAlg == 2 || cfg.Byz.CertCompAlg == 3
			if bombAlg != 0 {
				cfg.Byz.CertCompress = bombCompress // declared length stays that of the real message
			}
			if zstdWindow != 0 {
				zw := zstdWindow
				cfg.Byz.CertCompress = func(alg uint16, msg []byte) []byte { return zstdRawFrame(msg, byte((zw-10)<<3)) }
			}
		case 3:
			cfg.Byz.ALPSCodepoint = []uint16{17513, 17613}[ch.Pick(2, "alpscp")]
			cfg.Byz.ALPSSettings = []byte("server-settings")
		case 4:
			cfg.ClientAuth = refsrv.RequestClientCert
		}
		targets := []uint8{2, 2, 8, 11, 25, 15, 20, 4, 12, 14, 13}
		target := targets[ch.Pick(len(targets), "target")]
		if extras == 2 && ch.Bool(70, "target-cc") {
			target = 25
		}
		if extras == 3 && ch.Bool(50, "target-ee") {
			target = 8
		}
		forcedType, forcedBody := -1, -1
		if combo >= 0 {
			target = [...]uint8{2, 8, 4, 13, 11}[combo%5]
			forcedType = int(knownExtTypes[(combo/5)%int64(len(knownExtTypes))])
			forcedBody = int((combo / 5 / int64(len(knownExtTypes))) % 4)
			if target == 13 {
				cfg.ClientAuth = refsrv.RequestClientCert
			}
		}
		truncKeep := -1
		if tcombo >= 0 {
			target = truncTypes[truncIdx(tcombo)]
			truncKeep = int((tcombo / int64(len(truncTypes))) % 128)
			if target == 13 || target == 15 {
				cfg.ClientAuth = refsrv.RequestClientCert
			}
			c.Probe(fmt.Sprintf("truncation-stratum-type=%d", target))
		}
		nth := ch.Pick(2, "nth") // which occurrence of that type (ServerHello: 0 = HRR when present)
		if tcombo >= 0 {
			nth = 0
		}
		fix := ch.Bool(60, "fixlen")
		// structure-aware mutation: a well-formed extension the client did not ask for is inserted
		// into the message's extension block and every enclosing length is fixed up, so that the
		// message parses and the extension reaches the code that interprets it
		structured := ch.Bool(35, "structured") || combo >= 0
		seen := 0
		mdesc := "unapplied"
		applied := false
		// draw the mutation parameters now (the chooser must not be used from the server task)
		sub := simrt.NewChooser(ch.U64("mut-seed"))
		cfg.Byz.Mutate = func(t uint8, m []byte) []byte {
			if t != target || applied {
				return m
			}
			if seen < nth {
				seen++
				return m
			}
			applied = true
			if truncKeep >= 0 {
				if truncKeep >= len(m)-4 {
					mdesc = fmt.Sprintf("truncate-keep=%d(whole)", truncKeep)
					return m
				}
				out := append([]byte(nil), m[:4+truncKeep]...)
				out[1], out[2], out[3] = byte(truncKeep>>16), byte(truncKeep>>8), byte(truncKeep)
				mdesc = fmt.Sprintf("truncate-keep=%d/%d", truncKeep, len(m)-4)
				return out
			}
			if structured {
				if out, d, ok := addExtension(sub, t, m, forcedType, forcedBody); ok {
					mdesc = d
					return out
				}
			}
			out, d := mutateBytes(sub, m, fix)
			mdesc = d
			return out
		}
		sp.RefCfg = cfg
		sp.Setup = func(l *simnet.Link) { link = l; l.Frag = ch.Bool(40, "frag") }
		desc = fmt.Sprintf("mutate/type=%d nth=%d fix=%v extras=%d", target, nth, fix, extras)
		consumedCheck = func() bool { desc += " " + mdesc; return applied }
		if ccStratum && ch.Bool(66, "cc-only") {
			// nothing but the compressed certificate is hostile in this world
			cfg.Byz.Mutate = nil
			desc = fmt.Sprintf("compressed-certificate alg=%d window=%d bomb=%d hugelen=%v %s", cfg.Byz.CertCompAlg, zstdWindow, bombAlg, hugeLen, f.Desc)
			consumedCheck = func() bool { return true }
		}
	}
	sp.Payload = [][]byte{[]byte("ping")}
	var readAfter error
	sp.After = func(u *tls.UConn) {
		// the subsequent Read: the peer may send anything after the handshake
		buf := make([]byte, 256)
		u.SetReadDeadline(time.Now().Add(5 * time.Second))
		_, readAfter = u.Read(buf)
		u.SetReadDeadline(time.Now().Add(30 * time.Second))
	}
	// in transport mode make the server push data right after its handshake so that the
	// client's first Read meets (possibly corrupted) application records
	if mode == "transport" {
		sp.After = nil
	}
	before := memNow()
	o := RunConn(c, w, sp)
	grown := memNow() - before
	c.Finish(w, true)
	_ = readAfter
	consumed := consumedCheck()
	c.R.Class = fmt.Sprintf("%s/%s max=%x %s", f.Kind, f.IDI.Name, srvMax, desc)
	c.R.NonTrivial = consumed
	for k, v := range o.Link.BA.Fired {
		c.Fault(k, v)
	}
	if mode == "mutate" && consumed {
		c.Fault("mutate-msg", 1)
	}
	if c.R.Violation != nil {
		// panics and deadlocks are classified by Finish; make the class more specific
		c.R.Violation.Class = hostileClass(c.R.Violation.Class, mode, desc)
		return
	}
	if w.Now() > 31*time.Second+5*time.Second {
		c.Violate("client-call-returned-after-deadline "+mode, "%s: world ended at %v", c.R.Class, w.Now())
	}
	limit := uint64(allocLimit)
	if bombAlg != 0 || zstdWindow != 0 || decoderWindow {
		// a real brotli / zstd decoder allocates its window before the first byte comes out: up to
		// 16 MiB for brotli (RFC 7932), and for zstd whatever the frame header announces up to the
		// decoder's cap - 32 MiB (plus a block) is the most a client should grant a certificate
		limit = 40 << 20
	}
	if grown > limit {
		what := strings.SplitN(desc, " ", 2)[0]
		if hugeLen {
			what = "compressed-certificate-declared-length"
		}
		if bombAlg != 0 {
			what = "compressed-certificate-bomb"
		}
		if zstdWindow != 0 {
			what = fmt.Sprintf("zstd-frame-window=2^%d", zstdWindow)
		}
		c.Violate(fmt.Sprintf("allocation-beyond-protocol-limits %s", what), "%s: %d bytes allocated during the connection (limit %d); client error %v", c.R.Class, grown, limit, o.CErr)
	}
	if c.R.Run%500 == 0 {
		c.R.Sample = map[string]any{"fingerprint": f.IDI.Name, "mode": mode, "desc": desc, "client_error": fmt.Sprint(o.CErr), "allocated": grown}
	}
}

func hostileClass(cls, mode, desc string) string {
	head := strings.SplitN(desc, " ", 2)[0]
	if strings.HasPrefix(cls, "panic") {
		// keep the panic message, drop addresses
		return "panic " + mode + " " + head + " " + strings.TrimPrefix(cls, "panic ")
	}
	return cls + " " + mode + " " + head
}

// ---- C34 ----

func frameRecords(ch *simrt.Chooser, msgs []byte, recVersion uint16) []byte {
	var out []byte
	for len(msgs) > 0 {
		n := len(msgs)
		switch ch.Pick(4, "frame") {
		case 1:
			n = 1 + ch.Pick(n, "frag-len")
		case 2:
			if n > 1 {
				n = 1
			}
		}
		if n > 16384 {
			n = 16384
		}
		out = append(out, 22, byte(recVersion>>8), byte(recVersion), byte(n>>8), byte(n))
		out = append(out, msgs[:n]...)
		msgs = msgs[n:]
	}
	return out
}

// helloBytes serialises a ClientHello with the fields of h and the given extensions.
func helloBytes(h *wire.ClientHello, exts []wire.Extension) []byte {
	b := []byte{byte(h.LegacyVersion >> 8), byte(h.LegacyVersion)}
	b = append(b, h.Random...)
	b = append(append(b, byte(len(h.SessionID))), h.SessionID...)
	b = append(b, byte(len(h.CipherSuites)*2>>8), byte(len(h.CipherSuites)*2))
	for _, cs := range h.CipherSuites {
		b = append(b, byte(cs>>8), byte(cs))
	}
	b = append(append(b, byte(len(h.Compression))), h.Compression...)
	var eb []byte
	for _, e := range exts {
		eb = append(eb, byte(e.Type>>8), byte(e.Type), byte(len(e.Data)>>8), byte(len(e.Data)))
		eb = append(eb, e.Data...)
	}
	b = append(append(b, byte(len(eb)>>8), byte(len(eb))), eb...)
	return append([]byte{1, byte(len(b) >> 16), byte(len(b) >> 8), byte(len(b))}, b...)
}

func runC34(c *Ctx) {
	capStack()
	if c.Run%5 == 4 {
		runC34Post(c)
		return
	}
	ch := c.Ch
	// source hello
	stratum := int64(-1)
	if c.Run%2 == 0 {
		stratum = c.Run / 2
	}
	f := PickFingerprint(ch, stratum, negCfg)
	dry, err := DryHello(negCfg(), f.IDI.ID, f.Spec())
	if err != nil {
		c.R.Harness = "dry build: " + err.Error()
		return
	}
	hello := dry.Raw
	nmut := ch.Range(0, 3, "nmut")
	var mdescs []string
	for i := 0; i < nmut; i++ {
		var d string
		hello, d = mutateBytes(ch, hello, ch.Bool(70, "fixlen"))
		mdescs = append(mdescs, d)
	}
	// extra plaintext handshake messages around the hello
	mk := func(t uint8, body []byte) []byte {
		return append([]byte{t, byte(len(body) >> 16), byte(len(body) >> 8), byte(len(body))}, body...)
	}
	gb := make([]byte, ch.Range(0, 120, "extra-len"))
	ch.Bytes(gb, "extra")
	var stream []byte
	var typeSwitch [2][]byte
	extra := []string{"none", "none", "ee-after", "cc-after", "ee-before", "cc-before", "second-hello", "garbage-msg", "ee-structured", "cc-structured", "ech-type-switch"}[ch.Pick(11, "extra")]
	switch extra {
	case "ech-type-switch":
		// two well-formed hellos back to back: the first without key shares (the server answers with a
		// HelloRetryRequest) and with an encrypted_client_hello extension of one type, the second with
		// shares and an extension of the other type whose parameters are drawn small (zero included)
		var base []wire.Extension
		for _, e := range dry.Extensions {
			if e.Type != 0xfe0d && e.Type != 41 {
				base = append(base, e)
			}
		}
		innerExt := wire.Extension{Type: 0xfe0d, Data: []byte{1}}
		pl := make([]byte, ch.Range(0, 40, "ech-payload-len"))
		ch.Bytes(pl, "ech-payload")
		enc := make([]byte, []int{0, 0, 32}[ch.Pick(3, "ech-enc-len")])
		outer := []byte{0, 0, byte(ch.Pick(2, "ech-kdf")), 0, byte(ch.Pick(2, "ech-aead")), byte(ch.Pick(3, "ech-config-id")), byte(len(enc) >> 8), byte(len(enc))}
		outer = append(append(outer, enc...), byte(len(pl)>>8), byte(len(pl)))
		outerExt := wire.Extension{Type: 0xfe0d, Data: append(outer, pl...)}
		first, second := innerExt, outerExt
		if ch.Bool(30, "outer-first") {
			first, second = outerExt, innerExt
		}
		var e1 []wire.Extension
		for _, e := range base {
			if e.Type == 51 {
				e = wire.Extension{Type: 51, Data: []byte{0, 0}}
			}
			e1 = append(e1, e)
		}
		typeSwitch[0], typeSwitch[1] = helloBytes(dry, append(e1, first)), helloBytes(dry, append(append([]wire.Extension(nil), base...), second))
		stream = append(append([]byte(nil), typeSwitch[0]...), typeSwitch[1]...)
		hello = nil
		c.Probe("ech-type-switch")
	case "ee-after":
		stream = append(append(stream, hello...), mk(8, gb)...)
	case "cc-after":
		stream = append(append(stream, hello...), mk(25, gb)...)
	case "ee-before":
		stream = append(append(stream, mk(8, gb)...), hello...)
	case "cc-before":
		stream = append(append(stream, mk(25, gb)...), hello...)
	case "second-hello":
		stream = append(append(stream, hello...), hello...)
	case "garbage-msg":
		stream = append(append(stream, hello...), mk(uint8(ch.Pick(256, "mtype")), gb)...)
	case "ee-structured":
		// a well-formed client EncryptedExtensions with ALPS
		body := []byte{0, byte(4 + len(gb)), 0x44, 0x69, 0, byte(len(gb))}
		body = append(body, gb...)
		stream = append(append(stream, hello...), mk(8, body)...)
	case "cc-structured":
		body := []byte{0, 2, 0xff, 0xff, 0xff, 0, 0, byte(len(gb))}
		body = append(body, gb...)
		stream = append(append(stream, hello...), mk(25, body)...)
	default:
		stream = hello
	}
	wireBytes := frameRecords(ch, stream, []uint16{0x0301, 0x0303, 0x0300, 0x0304}[ch.Pick(4, "recver")])
	if extra == "ech-type-switch" && len(typeSwitch[0]) > 0 {
		// each hello in a record of its own (a second hello in the same record as the first is
		// refused before it is looked at)
		wireBytes = nil
		for _, h := range typeSwitch {
			wireBytes = append(wireBytes, 22, 3, 3, byte(len(h)>>8), byte(len(h)))
			wireBytes = append(wireBytes, h...)
		}
	}
	tail := ch.Pick(3, "tail") // 0: close, 1: more garbage records, 2: wait for the server
	tailBytes := make([]byte, ch.Range(1, 600, "tail-len"))
	ch.Bytes(tailBytes, "tail")

	srvMax := []uint16{tls.VersionTLS13, tls.VersionTLS13, tls.VersionTLS12, tls.VersionTLS10}[ch.Pick(4, "srvmax")]
	scfg := &tls.Config{Certificates: []tls.Certificate{Cert("ecdsa").U, Cert("rsa").U}, MaxVersion: srvMax, MinVersion: tls.VersionTLS10, NextProtos: []string{"h2", "http/1.1"}}
	if ch.Bool(30, "client-auth") {
		scfg.ClientAuth = tls.RequestClientCert
	}
	if ch.Bool(30, "ech-keys") {
		ks := simrandStream(ch)
		if e, err := buildECH(ks, 7, "public.ech.test", 32, [][2]uint16{{1, 1}}); err == nil {
			scfg.EncryptedClientHelloKeys = []tls.EncryptedClientHelloKey{{Config: e.cfg, PrivateKey: e.priv, SendAsRetry: true}}
		}
	}
	w := c.NewWorld(simrt.Config{StepCap: 50000})
	l := simnet.NewLink("h")
	l.Frag = ch.Bool(40, "frag")
	var sHS, sRead error
	var sDone bool
	before := memNow()
	w.Go("server", func() {
		var conn net.Conn = l.B
		conn.SetDeadline(time.Now().Add(30 * time.Second))
		sc := tls.Server(conn, scfg)
		sHS = sc.Handshake()
		if sHS == nil {
			sDone = true
			buf := make([]byte, 512)
			_, sRead = sc.Read(buf)
		}
		sc.Close()
	})
	w.Go("rawclient", func() {
		var conn net.Conn = l.A
		conn.SetDeadline(time.Now().Add(40 * time.Second))
		conn.Write(wireBytes)
		switch tail {
		case 0:
			conn.Close()
			return
		case 1:
			conn.Write(append([]byte{23, 3, 3, byte(len(tailBytes) >> 8), byte(len(tailBytes))}, tailBytes...))
		}
		io.Copy(io.Discard, conn)
		conn.Close()
	})
	w.Run()
	w.Join()
	grown := memNow() - before
	c.Finish(w, true)
	c.R.Class = fmt.Sprintf("%s/%s muts=%v extra=%s tail=%d max=%x", f.Kind, f.IDI.Name, mdescs, extra, tail, srvMax)
	c.R.NonTrivial = nmut > 0 || extra != "none"
	if nmut > 0 {
		c.Fault("mutate-hello", 1)
	}
	if extra != "none" {
		c.Fault("inject-msg", 1)
	}
	if c.R.Violation != nil {
		c.R.Violation.Class = hostileClass(c.R.Violation.Class, "server", extra)
		return
	}
	_ = sRead
	if nmut == 0 && extra == "none" && tail == 2 && sHS != nil && !strings.Contains(sHS.Error(), "EOF") && !strings.Contains(sHS.Error(), "timeout") && !strings.Contains(sHS.Error(), "deadline") {
		// an unmodified hello: the server should at least get past the hello (it then waits
		// for the client's next flight, which never comes)
		c.Probe("clean-hello-rejected")
	}
	_ = sDone
	if w.Now() > 45*time.Second {
		c.Violate("server-call-returned-after-deadline", "%s: world ended at %v", c.R.Class, w.Now())
	}
	if grown > allocLimit {
		c.Violate("allocation-beyond-protocol-limits server", "%s: %d bytes allocated (limit %d); server error %v", c.R.Class, grown, allocLimit, sHS)
	}
	if c.R.Run%500 == 0 {
		c.R.Sample = map[string]any{"source": f.IDI.Name, "mutations": mdescs, "extra": extra, "tail": tail, "server_max": srvMax, "server_error": fmt.Sprint(sHS), "allocated": grown}
	}
}

func simrandStream(ch *simrt.Chooser) *simrandT { return newSimrand(ch.U64("ech-keys")) }

const bombTail = 48 << 20

var (
	bombZ   *zlib.Writer
	bombB   *brotli.Writer
	bombS   *zstd.Encoder
	bombBuf bytes.Buffer
	bombZero = make([]byte, 1<<16)
)

// truncIdx spreads the message types over the run indices so that the runs other strata take away
// do not always remove the same (type, length) cells.
func truncIdx(tcombo int64) int64 { return (tcombo + tcombo/8 + tcombo/1024) % 8 }

func pctIf(c bool, a, b int) int {
	if c {
		return a
	}
	return b
}

// zstdRawFrame wraps msg in a zstd frame made of raw blocks, with the given Window_Descriptor.
func zstdRawFrame(msg []byte, wd byte) []byte {
	out := []byte{0x28, 0xb5, 0x2f, 0xfd, 0x00, wd}
	for first := true; first || len(msg) > 0; first = false {
		n := len(msg)
		if n > 1<<16 {
			n = 1 << 16
		}
		last := 0
		if n == len(msg) {
			last = 1
		}
		h := n<<3 | last
		out = append(out, byte(h), byte(h>>8), byte(h>>16))
		out = append(out, msg[:n]...)
		msg = msg[n:]
	}
	return out
}

// bombCompress compresses msg followed by bombTail zero bytes with the announced algorithm, using
// one encoder per process (Reset between uses).
func bombCompress(alg uint16, msg []byte) []byte {
	bombBuf.Reset()
	var w io.Writer
	var done func()
	switch alg {
	case 2:
		if bombB == nil {
			bombB = brotli.NewWriterLevel(&bombBuf, 1)
		} else {
			bombB.Reset(&bombBuf)
		}
		w, done = bombB, func() { bombB.Close() }
	case 3:
		if bombS == nil {
			bombS, _ = zstd.NewWriter(&bombBuf, zstd.WithEncoderLevel(zstd.SpeedFastest), zstd.WithEncoderConcurrency(1), zstd.WithWindowSize(1<<17))
		} else {
			bombS.Reset(&bombBuf)
		}
		w, done = bombS, func() { bombS.Close() }
	default:
		if bombZ == nil {
			bombZ, _ = zlib.NewWriterLevel(&bombBuf, 1)
		} else {
			bombZ.Reset(&bombBuf)
		}
		w, done = bombZ, func() { bombZ.Close() }
	}
	w.Write(msg)
	for n := 0; n < bombTail; n += len(bombZero) {
		w.Write(bombZero)
	}
	done()
	return append([]byte(nil), bombBuf.Bytes()...)
}
