package scen

import (
	"bytes"
	"crypto/hkdf"
	"crypto/sha3"
	"encoding/binary"
	"fmt"
	"math"
	"strings"
	"time"

	"github.com/anishathalye/porcupine"
	tls "github.com/refraction-networking/utls"
	"github.com/refraction-networking/utls/zz_verif/simrt"
)

// C30: the seeded PRNG is one deterministic SHAKE256 stream, safe for concurrent use; salted
// seeds are deterministic in (seed, salt); helpers stay in range.

func init() {
	Register("C30", &Info{
		Run:  runC30,
		Race: true,
		Quick: 8000, Thor: 1000000,
		Rule: "a world = one seed, 1-3 tasks sharing one prng and issuing Read(n)/Int63/Uint64 (stream-consuming, checked with porcupine against an independent SHAKE256 stream computed with the standard library) plus Intn/Int63n/Range/FlipWeightedCoin with boundary arguments (range post-conditions), scheduled at every mutex acquisition; plus salted-seed determinism against an independent HKDF-SHA3-256; non-trivial = >=2 tasks overlapped on the prng, or a single task consumed >=2 stream segments; distinct = (seed, op lists, schedule hash)",
		Assumptions: []string{"helper post-conditions are pure functions; only the concurrent-stream and cross-run determinism parts owe anything to the simulator",
			"FlipWeightedCoin(weight>=1) may be false with probability 2^-63 per the statement; such a draw would be reported (it does not occur for sampled seeds)"},
		Real: []string{"utls prng (u_prng.go) through an added export file", "Go race detector"},
		Stub: []string{"sync.Mutex shim"},
	})
}

type prIn struct {
	Op int // 0 Read(n) 1 Int63 2 Uint64
	N  int
}
type prOut struct{ B string }

type prRec struct {
	in        prIn
	out       prOut
	call, ret int64
}

func runC30(c *Ctx) {
	ch := c.Ch
	var seed tls.PRNGSeed
	ch.Bytes(seed[:], "seed")
	ntasks := ch.Range(1, 3, "ntasks")
	type op struct {
		kind int // 0..2 stream ops, 3 Intn 4 Int63n 5 Range 6 Flip
		n    int
		a, b int64
		w    float64
	}
	bounds := []int64{-5, 0, 1, 2, 3, 7, 1000, math.MaxInt32, math.MaxInt32 + 1, 1<<62 + 1, math.MaxInt64}
	weights := []float64{-1, 0, 0.5, 1, 1.5, math.Inf(1), math.Inf(-1), 1e-30, 0.999999}
	plans := make([][]op, ntasks)
	var desc []string
	for i := range plans {
		n := ch.Range(1, 5, "nops")
		for j := 0; j < n; j++ {
			o := op{kind: ch.Pick(7, "kind")}
			switch o.kind {
			case 0:
				o.n = ch.Range(0, 40, "len")
			case 3, 4:
				o.a = bounds[ch.Pick(len(bounds), "bound")]
				if ch.Bool(15, "extreme-n") {
					o.a = []int64{math.MinInt64, math.MinInt64 + 1, -(1 << 62), math.MaxInt64 - 1}[ch.Pick(4, "ext-n")]
				}
			case 5:
				o.a = bounds[ch.Pick(len(bounds), "min")] % 100000
				o.b = bounds[ch.Pick(len(bounds), "max")] % 100000
				if ch.Bool(30, "neg") {
					o.a = -o.a
				}
				if ch.Bool(40, "extreme-range") {
					// bounds at both ends of the int range, also more than 2^63 apart (empty and huge intervals)
					ext := []int64{math.MinInt64, math.MinInt64 + 1, -(1 << 62), -3, 0, 2, 1 << 62, math.MaxInt64 - 1, math.MaxInt64}
					o.a = ext[ch.Pick(len(ext), "ext-min")]
					o.b = ext[ch.Pick(len(ext), "ext-max")]
				}
			case 6:
				o.w = weights[ch.Pick(len(weights), "w")]
			}
			plans[i] = append(plans[i], o)
		}
		desc = append(desc, fmt.Sprint(plans[i]))
	}
	w := c.NewWorld(simrt.Config{LockYield: true, UnlockYield: ch.Bool(50, "unlockyield"), PreemptPct: 10 + 20*ch.Pick(4, "preempt")})
	ResetStamp()
	// the constructor gets a scratch copy of the seed that is overwritten right afterwards: the
	// stream must depend on the seed value at construction, not on the caller's buffer later
	scratch := seed
	p, err := tls.VerifNewPRNGWithSeed(&scratch)
	if err != nil {
		c.Violate("constructor-error", "%v", err)
		return
	}
	for i := range scratch {
		scratch[i] ^= 0xff
	}
	// helpers consume an implementation-defined number of stream bytes (rejection sampling),
	// so they run on a second shared instance and the stream model covers only p
	ph, _ := tls.VerifNewPRNGWithSeed(&seed)
	recs := make([][]prRec, ntasks)
	bad := make([]string, ntasks)
	for i := range plans {
		i := i
		w.Go(fmt.Sprintf("t%d", i), func() {
			for _, o := range plans[i] {
				simrt.Yield()
				switch o.kind {
				case 0:
					r := prRec{in: prIn{0, o.n}, call: Stamp()}
					b := make([]byte, o.n)
					n, err := p.Read(b)
					if n != o.n || err != nil {
						bad[i] = fmt.Sprintf("Read(%d) returned (%d,%v)", o.n, n, err)
					}
					r.out.B = string(b)
					r.ret = Stamp()
					recs[i] = append(recs[i], r)
				case 1:
					r := prRec{in: prIn{1, 8}, call: Stamp()}
					v := p.Int63()
					if v < 0 {
						bad[i] = "Int63 negative"
					}
					var b [8]byte
					binary.BigEndian.PutUint64(b[:], uint64(v))
					r.out.B = string(b[:])
					r.ret = Stamp()
					recs[i] = append(recs[i], r)
				case 2:
					r := prRec{in: prIn{2, 8}, call: Stamp()}
					v := p.Uint64()
					var b [8]byte
					binary.BigEndian.PutUint64(b[:], v)
					r.out.B = string(b[:])
					r.ret = Stamp()
					recs[i] = append(recs[i], r)
				case 3:
					n := int(o.a)
					v := ph.Intn(n)
					if n <= 0 && v != 0 || n > 0 && (v < 0 || v >= n) {
						bad[i] = fmt.Sprintf("Intn(%d)=%d", n, v)
					}
				case 4:
					v := ph.Int63n(o.a)
					if o.a <= 0 && v != 0 || o.a > 0 && (v < 0 || v >= o.a) {
						bad[i] = fmt.Sprintf("Int63n(%d)=%d", o.a, v)
					}
				case 5:
					mn, mx := int(o.a), int(o.b)
					v := ph.Range(mn, mx)
					lo := mn
					if lo < 0 {
						lo = 0
					}
					if mx < lo && v != lo || mx >= lo && (v < lo || v > mx) {
						bad[i] = fmt.Sprintf("Range(%d,%d)=%d", mn, mx, v)
					}
				case 6:
					v := ph.FlipWeightedCoin(o.w)
					if o.w <= 0 && v || o.w >= 1 && !v {
						bad[i] = fmt.Sprintf("FlipWeightedCoin(%v)=%v", o.w, v)
					}
				}
			}
		})
	}
	w.Run()
	w.Join()
	c.Finish(w, true)
	c.R.Class = fmt.Sprintf("%x %s", seed[:4], strings.Join(desc, ";"))
	if c.R.Violation != nil {
		return
	}
	for i, b := range bad {
		if b != "" {
			c.Violate("helper-out-of-range "+strings.SplitN(b, "(", 2)[0], "task %d: %s", i, b)
		}
	}
	// reference stream: standard-library SHAKE256 (the package under test uses x/crypto)
	ref := sha3.NewSHAKE256()
	ref.Write(seed[:])
	stream := make([]byte, 4096)
	ref.Read(stream)
	var ops []porcupine.Operation
	nstream := 0
	for i, rs := range recs {
		for _, r := range rs {
			ops = append(ops, porcupine.Operation{ClientId: i, Input: r.in, Call: r.call, Output: r.out, Return: r.ret})
			nstream++
		}
	}
	model := porcupine.Model{
		Init: func() interface{} { return 0 },
		Step: func(state, input, output interface{}) (bool, interface{}) {
			off := state.(int)
			in := input.(prIn)
			out := output.(prOut)
			want := stream[off : off+in.N]
			if in.Op == 1 {
				var b [8]byte
				copy(b[:], want)
				b[0] &= 0x7f
				want = b[:]
			}
			if !bytes.Equal([]byte(out.B), want) {
				return false, off
			}
			return true, off + in.N
		},
		DescribeOperation: func(input, output interface{}) string {
			return fmt.Sprintf("%v->%x", input, output.(prOut).B)
		},
	}
	if nstream > 0 {
		res := porcupine.CheckOperationsTimeout(model, ops, 20*time.Second)
		if res == porcupine.Illegal {
			var hs []string
			for _, o := range ops {
				hs = append(hs, fmt.Sprintf("c%d[%d,%d]%s", o.ClientId, o.Call, o.Return, model.DescribeOperation(o.Input, o.Output)))
			}
			c.Violate("stream-not-linearizable-to-SHAKE256(seed)", "seed %x history %v", seed, hs)
		} else if res == porcupine.Unknown {
			c.Probe("porcupine-unknown")
		}
	}
	// same seed, second instance, sequential: identical stream prefix
	scratch2 := seed
	p2, _ := tls.VerifNewPRNGWithSeed(&scratch2)
	scratch2 = tls.PRNGSeed{}
	b2 := make([]byte, 64)
	p2.Read(b2)
	if !bytes.Equal(b2, stream[:64]) {
		c.Violate("same-seed-different-stream", "second instance of seed %x differs from SHAKE256(seed)", seed)
	}
	// salted seeds
	salts := []string{"", "a", "ALPS", "salt-" + fmt.Sprint(ch.Pick(1000, "salt"))}
	var prev []*tls.PRNGSeed
	for _, s := range salts {
		s1, e1 := tls.VerifNewSaltedPRNGSeed(&seed, s)
		s2, e2 := tls.VerifNewSaltedPRNGSeed(&seed, s)
		if e1 != nil || e2 != nil || *s1 != *s2 {
			c.Violate("salted-seed-not-deterministic", "salt %q: %v %v", s, e1, e2)
			break
		}
		want, err := hkdf.Key(sha3.New256, seed[:], []byte(s), "", 32)
		if err != nil || !bytes.Equal(want, s1[:]) {
			c.Violate("salted-seed-not-hkdf-sha3-256", "salt %q got %x want %x (%v)", s, s1[:], want, err)
			break
		}
		for _, q := range prev {
			if *q == *s1 {
				c.Violate("salted-seeds-collide", "two salts give the same seed")
			}
		}
		prev = append(prev, s1)
		scratch3 := seed
		ps, _ := tls.VerifNewPRNGWithSaltedSeed(&scratch3, s)
		scratch3 = tls.PRNGSeed{}
		refS := sha3.NewSHAKE256()
		refS.Write(s1[:])
		x, y := make([]byte, 32), make([]byte, 32)
		ps.Read(x)
		refS.Read(y)
		if !bytes.Equal(x, y) {
			c.Violate("salted-prng-stream-mismatch", "salt %q", s)
		}
	}
	overl := false
	for i := range ops {
		for j := range ops {
			if ops[i].ClientId != ops[j].ClientId && ops[i].Call < ops[j].Call && ops[j].Call < ops[i].Return {
				overl = true
			}
		}
	}
	c.R.NonTrivial = overl || nstream >= 2
	if c.R.Run%500 == 0 {
		c.R.Sample = map[string]any{"seed": fmt.Sprintf("%x", seed), "tasks": desc}
	}
}
