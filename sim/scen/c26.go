package scen

import (
	"bytes"
	"context"
	stdtls "crypto/tls"
	"errors"
	"fmt"
	"io"
	"sort"
	"strings"
	"time"

	tls "github.com/refraction-networking/utls"
	"github.com/refraction-networking/utls/zz_verif/refsrv"
	"github.com/refraction-networking/utls/zz_verif/simnet"
	"github.com/refraction-networking/utls/zz_verif/simrt"
)

// C26: concurrent use of a UConn is race-free, deadlock-free and consistent (DESIGN 4 C26).

func init() {
	Register("C26", &Info{
		Run:  runC26,
		Race: true,
		Quick: 2400, Thor: 150000, QuickWallS: 45,
		Rule: "a world = one UConn shared by 1-3 Handshake/HandshakeContext callers (each context may be cancelled at a drawn scheduler step, before or after its call returned), a reader, a writer, optionally a closer (Close/CloseWrite at a drawn step, 40% followed by the other of the two a few steps later) and optionally a transport fault; a quarter of the TLS 1.3 worlds use the reference server, which sends KeyUpdate(update_requested) between its echo writes; 40% of the TLS 1.2 worlds use the reference server, which sends a HelloRequest after its handshake or between its echo writes (client renegotiation support drawn: never/once/freely) - the renegotiation then fails, only safety is asserted; after the first phase two further tasks call ConnectionState().ExportKeyingMaterial concurrently with different contexts (compared with the server's values); every mutex acquisition, atomic operation and transport operation is a scheduling point; non-trivial = >=2 client tasks overlapped (one was granted between another's invoke and return); distinct = (task set, parrot, peer, fault kind, schedule hash)",
		Assumptions: []string{
			"the race detector sees only program synchronisation because scheduler hand-off uses a no-op-Locker sync.Cond and //go:norace state (DESIGN 2.7); races that need true parallelism inside one library call are outside the simulator",
			"'every call returns within the I/O deadline' is checked against the 20 s connection deadline the scenario sets plus the library's own 5 s close_notify allowance",
		},
		Real: []string{"utls UConn (client) from /repo", "utls tls.Server or Go std crypto/tls server as peer", "Go race detector"},
		Stub: []string{"transport (simnet)", "clock (synctest bubble)", "crypto/rand (seeded stream)", "sync/sync/atomic shims around the real primitives"},
	})
}

type hsCaller struct {
	useCtx    bool
	cancelAt  int // scheduler steps after start; <0: never
	err       error
	retStamp  int64
	retAt     time.Duration
	ctxErrAtReturn error
	cancelStamp int64
	returned  bool
}

func runC26(c *Ctx) {
	ch := c.Ch
	parrots := []IDInfo{{"Golang", tls.HelloGolang}, {"Chrome_133", tls.HelloChrome_133}, {"Firefox_120", tls.HelloFirefox_120}, {"Chrome_100", tls.HelloChrome_100}, {"Safari_16_0", tls.HelloSafari_16_0}, {"Firefox_65", tls.HelloFirefox_65}}
	idi := parrots[ch.Pick(len(parrots), "parrot")]
	peer := ch.Pick(2, "peer")
	tls12 := ch.Bool(25, "tls12")
	ncall := ch.Range(1, 3, "ncallers")
	callers := make([]*hsCaller, ncall)
	anyCancel := false
	for i := range callers {
		hc := &hsCaller{cancelAt: -1}
		hc.useCtx = ch.Bool(60, "usectx")
		if hc.useCtx && ch.Bool(60, "cancel") {
			// a handshake takes roughly 150-600 scheduler steps with lock/atomic yields
			switch ch.Pick(3, "cancel-when") {
			case 0:
				hc.cancelAt = ch.Range(0, 80, "cancel-step")
			case 1:
				hc.cancelAt = ch.Range(0, 700, "cancel-step")
			default:
				hc.cancelAt = ch.Range(300, 2500, "cancel-step")
			}
			anyCancel = true
		}
		callers[i] = hc
	}
	withReader := ch.Bool(70, "reader")
	withWriter := ch.Bool(70, "writer")
	if !withWriter {
		// a reader with nothing to read would sit until the connection deadline and make every
		// later operation time out legitimately
		withReader = false
	}
	closer := 0 // 0 none, 1 Close, 2 CloseWrite
	closeAt := 0
	closer2, closeGap := false, 0
	if ch.Bool(35, "closer") {
		closer = 1 + ch.Pick(2, "closer-kind")
		closeAt = ch.Range(0, 1500, "close-step")
		closer2, closeGap = ch.Bool(40, "second-closer"), ch.Range(0, 6, "second-closer-gap")
	}
	fault := ch.Pick(6, "fault") // 0,1,2: none; 3 reset s->c; 4 eof s->c; 5 stall
	faultOff := int64(ch.Range(0, 4000, "fault-off"))
	frag := ch.Bool(50, "frag")
	lockYield := ch.Bool(70, "lockyield")
	atomYield := ch.Bool(50, "atomyield")
	var payload [][]byte
	total := 0
	if withWriter {
		n := ch.Range(1, 3, "nwrites")
		for i := 0; i < n; i++ {
			sz := []int{1, 100, 5000, 20000}[ch.Pick(4, "wsize")]
			b := make([]byte, sz)
			for j := range b {
				b[j] = byte(total + j)
			}
			payload = append(payload, b)
			total += sz
		}
	}
	// no-deadline stratum and a stalled server with a small send buffer: a Write genuinely
	// blocked in the transport that only Close can break
	noDeadline := ch.Bool(30, "no-deadline")
	var serverStall time.Duration
	sendCap := 0
	if withWriter && ch.Bool(35, "server-stall") {
		if closer == 1 && ch.Bool(60, "stall-long") {
			serverStall = time.Hour
		} else {
			serverStall = 30 * time.Second
		}
		sendCap = []int{1024, 16384}[ch.Pick(2, "send-cap")]
		big := make([]byte, 40000)
		payload = append(payload, big)
		total += len(big)
	}
	disrupt := closer != 0 || fault >= 3 || (serverStall > 0 && !noDeadline)

	w := c.NewWorld(simrt.Config{LockYield: lockYield, UnlockYield: lockYield && ch.Bool(50, "unlockyield"), AtomicYield: atomYield, PreemptPct: 5 + 15*ch.Pick(4, "preempt")})
	ResetStamp()
	l := simnet.NewLink("c")
	l.Frag = frag
	l.AB.Cap = sendCap
	switch fault {
	case 3:
		l.BA.ResetAt = faultOff
	case 4:
		l.BA.EOFAt = faultOff
	case 5:
		l.BA.StallAt = faultOff
		l.BA.StallFor = time.Duration(ch.Range(1, 40, "stall-s")) * time.Second
	}
	ccfg := &tls.Config{ServerName: "example.test", RootCAs: Roots()}
	scfg := &tls.Config{Certificates: []tls.Certificate{Cert("ecdsa").U}}
	stdcfg := &stdtls.Config{Certificates: []stdtls.Certificate{Cert("ecdsa").S}}
	if tls12 {
		scfg.MaxVersion = tls.VersionTLS12
		stdcfg.MaxVersion = stdtls.VersionTLS12
	}
	const connDeadline = 20 * time.Second
	u := tls.UClient(l.A, ccfg, idi.ID)
	if !noDeadline {
		u.SetDeadline(time.Now().Add(connDeadline))
	}

	// a quarter of the TLS 1.3 worlds talk to the reference server, which sends KeyUpdate messages
	// (update_requested) between its echo writes: the reader then answers and switches the sending key
	// while the writer task is writing
	var rcfg *refsrv.Config
	kuEvery := 0
	if !tls12 && ch.Bool(25, "key-updates") {
		peer = PeerRef
		rcfg = refCfg("ecdsa")
		kuEvery = 1 + ch.Pick(2, "ku-every")
	}
	// 40% of the TLS 1.2 worlds: the reference server sends a HelloRequest (right after its handshake
	// or before one of its echo writes), so the reader starts a renegotiation - rebuilding the hello
	// and taking the handshake mutex - while the other tasks are in Write / Handshake / Close. No Go
	// server implements renegotiation, so the connection then ends with an error: only the safety
	// clauses (no race, no deadlock, every call returns, never wrong data) are asserted there.
	helloReqAt := -2
	if tls12 && ch.Bool(40, "hello-request") {
		peer = PeerRef
		rcfg = refCfg("ecdsa")
		rcfg.MaxVersion = refsrv.VersionTLS12
		helloReqAt = ch.Pick(3, "hello-request-at") - 1
		ccfg.Renegotiation = []tls.RenegotiationSupport{tls.RenegotiateNever, tls.RenegotiateOnceAsClient, tls.RenegotiateFreelyAsClient}[ch.Pick(3, "client-reneg")]
		disrupt = true
	}
	o := &ConnOutcome{Spec: &ConnSpec{ID: idi.ID, Peer: peer, SCfg: scfg, StdCfg: stdcfg, RefCfg: rcfg, Deadline: 60 * time.Second, ServerStall: serverStall}, Link: l}
	if helloReqAt >= -1 {
		sent := false
		o.Spec.ServerHelloRequest = func(n int) bool {
			if !sent && n >= helloReqAt {
				sent = true
				return true
			}
			return false
		}
	}
	if kuEvery > 0 {
		o.Spec.ServerKeyUpdate = func(n int) (bool, bool) { return n%kuEvery == 0, true }
	}
	srv := w.Go("server", func() { defaultServer(o, l.B) })

	var phase1 []*simrt.Task
	type ioRes struct {
		data  []byte
		err   error
		retAt time.Duration
		n     int
	}
	var rd, wr ioRes
	var closeErr error
	var closeAtT, closeInvoke time.Duration
	closed := false
	for i, hc := range callers {
		i, hc := i, hc
		ctx := context.Background()
		var cancel context.CancelFunc
		if hc.useCtx {
			ctx, cancel = context.WithCancel(context.Background())
		}
		phase1 = append(phase1, w.Go(fmt.Sprintf("hs%d", i), func() {
			hc.err = u.HandshakeContext(ctx)
			hc.ctxErrAtReturn = ctx.Err()
			hc.retStamp = Stamp()
			hc.retAt = w.Now()
			hc.returned = true
		}))
		if hc.cancelAt >= 0 {
			phase1 = append(phase1, w.Go(fmt.Sprintf("cancel%d", i), func() {
				simrt.WaitSteps(hc.cancelAt)
				hc.cancelStamp = Stamp()
				cancel()
			}))
		}
	}
	if withReader {
		phase1 = append(phase1, w.Go("reader", func() {
			buf := make([]byte, 4096)
			for len(rd.data) < total || total == 0 {
				n, err := u.Read(buf)
				rd.data = append(rd.data, buf[:n]...)
				if err != nil {
					rd.err = err
					break
				}
				if total == 0 {
					break
				}
			}
			rd.retAt = w.Now()
		}))
	}
	if withWriter {
		phase1 = append(phase1, w.Go("writer", func() {
			for _, p := range payload {
				n, err := u.Write(p)
				wr.n += n
				if err != nil {
					wr.err = err
					break
				}
			}
			wr.retAt = w.Now()
		}))
	}
	if closer != 0 {
		phase1 = append(phase1, w.Go("closer", func() {
			simrt.WaitSteps(closeAt)
			closeInvoke = w.Now()
			if closer == 1 {
				closeErr = u.Close()
			} else {
				closeErr = u.CloseWrite()
			}
			closed = true
			closeAtT = w.Now()
		}))
	}
	// a second closer: the other of Close / CloseWrite at a nearby step (both may overlap inside
	// closeNotify; exactly one close_notify may go out - the data race, if any, is the detector's)
	if closer != 0 && closer2 {
		phase1 = append(phase1, w.Go("closer2", func() {
			simrt.WaitSteps(closeAt + closeGap)
			if closer == 1 {
				u.CloseWrite()
			} else {
				u.Close()
			}
		}))
	}
	w.RunUntil(phase1...)
	transportClosedAfterPhase1 := l.A.Closed()

	// phase 2: the connection must still be usable if nothing legitimately closed it
	H := false
	classA := false
	for _, hc := range callers {
		if hc.returned && hc.err == nil {
			H = true
		}
	}
	// exporters: two tasks derive keying material from the same connection at once, each with its
	// own context; every value must equal what the server derives for the same arguments
	type ekmRes struct {
		ctx  []byte
		vals [][]byte
		err  error
	}
	ekm := []*ekmRes{{ctx: []byte("ctx-A")}, {ctx: []byte("context-B-is-longer")}}
	var ekmTasks []*simrt.Task
	if !w.Deadlock && !w.StepCapHit && !transportClosedAfterPhase1 && u.ConnectionState().HandshakeComplete {
		for i, e := range ekm {
			e := e
			ekmTasks = append(ekmTasks, w.Go(fmt.Sprintf("ekm%d", i), func() {
				for k := 0; k < 3; k++ {
					simrt.Yield()
					st := u.ConnectionState()
					v, err := st.ExportKeyingMaterial("EXPORTER-verif-c26", e.ctx, 32)
					if err != nil {
						e.err = err
						return
					}
					e.vals = append(e.vals, v)
				}
			}))
		}
		w.RunUntil(ekmTasks...)
	}
	var finalErr error
	finalOK := false
	var fin *simrt.Task
	if !w.Deadlock && !w.StepCapHit {
		fin = w.Go("final", func() {
			st := u.ConnectionState()
			if st.HandshakeComplete {
				H = true
			}
			msg := []byte("final-ping")
			if _, err := u.Write(msg); err != nil {
				finalErr = err
			} else {
				got := make([]byte, 0, len(msg))
				buf := make([]byte, 64)
				// the reader may not have consumed everything the server echoed
				want := total - len(rd.data) + len(msg)
				if wr.n < total {
					want = -1
				}
				for want > 0 && len(got) < want {
					n, err := u.Read(buf)
					got = append(got, buf[:n]...)
					if err != nil {
						finalErr = err
						break
					}
				}
				if finalErr == nil && want > 0 && bytes.HasSuffix(got, msg) {
					finalOK = true
				}
			}
			u.Close()
		})
		w.RunUntil(fin, srv)
	}
	w.Run()
	w.Join()
	c.Finish(w, true)
	for k, v := range l.AB.Fired {
		c.Fault(k, v)
	}
	for k, v := range l.BA.Fired {
		c.Fault(k, v)
	}
	if anyCancel {
		c.Fault("cancel", 1)
	}
	if closer != 0 {
		c.Fault("close", 1)
	}

	var names []string
	for _, t := range w.Tasks() {
		if t.Name != "server" && t.Name != "final" {
			names = append(names, strings.TrimRight(t.Name, "0123456789"))
		}
	}
	sort.Strings(names)
	c.R.Class = fmt.Sprintf("%s/%s/tls12=%v %v fault=%d ly=%v ay=%v nodl=%v stall=%v helloreq=%d", idi.Name, peerName(peer), tls12, names, fault, lockYield, atomYield, noDeadline, serverStall, helloReqAt)
	if serverStall > 0 {
		c.Fault("server-stall", 1)
	}
	if o.KeyUpdates > 0 {
		c.Fault("key-update", o.KeyUpdates)
	}
	if o.HelloRequests > 0 {
		c.Fault("hello-request", o.HelloRequests)
	}
	c.R.NonTrivial = len(phase1) >= 2 && w.Overlaps > 0
	if c.R.Run%400 == 0 {
		c.R.Sample = map[string]any{"parrot": idi.Name, "peer": peerName(peer), "tasks": names, "fault": fault, "closer": closer, "payload_bytes": total, "lock_yield": lockYield, "atomic_yield": atomYield}
	}
	if c.R.Violation != nil {
		return
	}

	// (O2) every call returned, and by the deadline (+ close_notify allowance)
	limit := connDeadline + 5*time.Second + time.Second
	if noDeadline {
		// without a connection deadline only Close bounds the calls: Close itself must return
		// within the library's 5 s close_notify allowance and thereby end every other call
		limit = 0
		if closer == 1 && closed {
			limit = closeInvoke + 5*time.Second + time.Second
			if fault == 5 {
				limit += 41 * time.Second
			}
		}
	}
	for i, hc := range callers {
		if !hc.returned {
			c.Violate("handshake-call-never-returned", "caller %d never returned", i)
			return
		}
		if limit > 0 && hc.retAt > limit {
			c.Violate("call-returned-after-deadline handshake", "caller %d returned at %v > %v", i, hc.retAt, limit)
		}
	}
	if limit > 0 && (rd.retAt > limit || wr.retAt > limit || closeAtT > limit) {
		c.Violate(fmt.Sprintf("call-returned-after-deadline io nodeadline=%v", noDeadline), "reader %v writer %v closer %v (invoked %v) limit %v stall=%v cap=%d", rd.retAt, wr.retAt, closeAtT, closeInvoke, limit, serverStall, sendCap)
	}

	// (O3) handshake outcomes
	var bErr error
	bSet := false
	for i, hc := range callers {
		if hc.err == nil {
			continue
		}
		isA := hc.useCtx && hc.ctxErrAtReturn != nil && errors.Is(hc.err, hc.ctxErrAtReturn)
		if isA {
			classA = true
			if !transportClosedAfterPhase1 {
				c.Violate("ctx-error-but-connection-open", "caller %d returned %v but the transport was never closed", i, hc.err)
			}
			continue
		}
		if H && o.HelloRequests > 0 {
			continue // a caller that arrived during or after the failed renegotiation reports its outcome
		}
		if H {
			// the handshake completed, so every caller not reporting its own context error must
			// have returned nil ... unless it called after the connection had been closed/failed
			// by a closer or a fault (then the stored outcome is still nil: handshakeErr stays nil).
			c.Violate("handshake-error-although-complete", "caller %d returned %v although the handshake completed (other callers: %s)", i, hc.err, describeCallers(callers))
			continue
		}
		if !bSet {
			bErr, bSet = hc.err, true
		} else if bErr.Error() != hc.err.Error() {
			c.Violate("handshake-callers-disagree", "callers returned different handshake errors: %q vs %q", bErr, hc.err)
		}
	}
	// (O3b) the library closes the transport on behalf of a cancelled context only together with
	// reporting that context's error: if no caller reported one and nothing else closed the
	// connection, a client transport found closed after the first phase was closed behind the back
	// of callers that were told "nil"
	if transportClosedAfterPhase1 && closer == 0 && !classA && H && o.HelloRequests == 0 {
		allNil := true
		for _, hc := range callers {
			if hc.err != nil {
				allNil = false
			}
		}
		if allNil {
			c.Violate("nil-but-connection-closed-by-library", "every Handshake caller returned nil, there is no closer task, yet the client transport was closed when the first phase ended: %s", describeCallers(callers))
		}
	}
	for i, hc := range callers {
		if hc.err == nil && !H {
			c.Violate("nil-without-completion", "caller %d returned nil but the handshake never completed", i)
		}
	}

	// (O6) concurrent exporters agree with the server
	if o.SDone && o.S.EKM != nil {
		for i, e := range ekm {
			if e.err != nil || len(e.vals) == 0 {
				continue
			}
			want, err := o.S.EKM("EXPORTER-verif-c26", e.ctx, 32)
			if err != nil {
				continue
			}
			c.Probe("concurrent-exporters-compared")
			for _, v := range e.vals {
				if !bytes.Equal(v, want) {
					c.Violate("concurrent-exporter-mismatch", "exporter task %d (context %q) got %x, the server derives %x", i, e.ctx, v, want)
					break
				}
			}
		}
	}

	// (O5) stream model: what the reader got is a prefix of what the writer wrote (echo)
	var all []byte
	for _, p := range payload {
		all = append(all, p...)
	}
	if !bytes.HasPrefix(all, rd.data) {
		c.Violate("reader-got-wrong-bytes", "reader received %d bytes that are not a prefix of the %d written", len(rd.data), len(all))
	}
	if !bytes.HasPrefix(all, o.SRead) && !bytes.HasPrefix(append(append([]byte{}, all...), []byte("final-ping")...), o.SRead) {
		c.Violate("server-got-wrong-bytes", "server received %d bytes that are not a prefix of what was written", len(o.SRead))
	}
	if wr.err == nil && withWriter && wr.n != total {
		c.Violate("short-write-without-error", "Write returned nil with %d of %d bytes", wr.n, total)
	}
	if closed && closer == 1 && closeErr == nil {
		// after Close returned, writes must fail
	}

	// positive claims only where nothing may legitimately disturb the connection
	if !disrupt && !classA {
		cancelledBeforeH := false
		for _, hc := range callers {
			if hc.cancelAt >= 0 && hc.returned && hc.cancelStamp < hc.retStamp {
				cancelledBeforeH = true
			}
		}
		if !cancelledBeforeH {
			if !H {
				c.Violate("handshake-failed-undisturbed", "no fault, no closer, no cancellation before return, yet the handshake failed: %s server=%v", describeCallers(callers), o.SErr)
			} else {
				// (O4) cancelling a context after its call returned has no effect
				if !finalOK {
					c.Violate("connection-unusable-after-late-cancel", "handshake completed, nothing closed the connection, yet the final echo failed: %v (reader err %v, writer err %v, cancels after return: %v)", finalErr, rd.err, wr.err, anyCancel)
				}
				if withReader && total > 0 && (rd.err != nil && rd.err != io.EOF || len(rd.data) != total) {
					c.Violate("reader-failed-undisturbed", "reader got %d/%d err=%v", len(rd.data), total, rd.err)
				}
				if withWriter && wr.err != nil {
					c.Violate("writer-failed-undisturbed", "writer err=%v", wr.err)
				}
			}
		}
	}
}

func describeCallers(cs []*hsCaller) string {
	var s []string
	for i, hc := range cs {
		s = append(s, fmt.Sprintf("#%d ctx=%v cancelAt=%d err=%v", i, hc.useCtx, hc.cancelAt, hc.err))
	}
	return strings.Join(s, "; ")
}
