package scen

import (
	"fmt"
	"strings"
	"time"

	"github.com/anishathalye/porcupine"
	tls "github.com/refraction-networking/utls"
	"github.com/refraction-networking/utls/zz_verif/simrt"
)

// C36: NewLRUClientSessionCache(n) is linearizable w.r.t. a sequential LRU map of capacity n.

type lruIn struct {
	Op  int // 0 get, 1 put, 2 put-nil
	Key int
	Val int // unique per put
}
type lruOut struct {
	Val int // 0: nil state
	Ok  bool
}

type lruEntry struct{ k, v int }
type lruState struct {
	cap int
	q   []lruEntry // front = most recently used
}

func (s lruState) clone() lruState {
	q := make([]lruEntry, len(s.q))
	copy(q, s.q)
	return lruState{s.cap, q}
}

func (s lruState) key() string {
	var b strings.Builder
	fmt.Fprintf(&b, "%d", s.cap)
	for _, e := range s.q {
		fmt.Fprintf(&b, "|%d=%d", e.k, e.v)
	}
	return b.String()
}

// lruStep is the reference model: a bounded LRU map in which Put(k, nil) deletes.
func lruStep(st lruState, in lruIn) (lruState, lruOut) {
	idx := -1
	for i, e := range st.q {
		if e.k == in.Key {
			idx = i
		}
	}
	switch in.Op {
	case 0:
		if idx < 0 {
			return st, lruOut{0, false}
		}
		n := st.clone()
		e := n.q[idx]
		copy(n.q[1:idx+1], n.q[0:idx])
		n.q[0] = e
		return n, lruOut{e.v, true}
	case 1:
		n := st.clone()
		if idx >= 0 {
			copy(n.q[1:idx+1], n.q[0:idx])
			n.q[0] = lruEntry{in.Key, in.Val}
			return n, lruOut{}
		}
		if len(n.q) >= n.cap {
			n.q = n.q[:n.cap-1]
		}
		n.q = append([]lruEntry{{in.Key, in.Val}}, n.q...)
		return n, lruOut{}
	default:
		if idx < 0 {
			return st, lruOut{}
		}
		n := st.clone()
		n.q = append(n.q[:idx], n.q[idx+1:]...)
		return n, lruOut{}
	}
}

func lruModel(capacity int) porcupine.Model {
	return porcupine.Model{
		Init: func() interface{} { return lruState{cap: capacity} },
		Step: func(state, input, output interface{}) (bool, interface{}) {
			st := state.(lruState)
			in := input.(lruIn)
			out := output.(lruOut)
			ns, exp := lruStep(st, in)
			if in.Op == 0 && exp != out {
				return false, st
			}
			return true, ns
		},
		Equal: func(a, b interface{}) bool { return a.(lruState).key() == b.(lruState).key() },
		DescribeOperation: func(input, output interface{}) string {
			in := input.(lruIn)
			out := output.(lruOut)
			switch in.Op {
			case 0:
				return fmt.Sprintf("get(k%d)->(%d,%v)", in.Key, out.Val, out.Ok)
			case 1:
				return fmt.Sprintf("put(k%d,v%d)", in.Key, in.Val)
			}
			return fmt.Sprintf("put(k%d,nil)", in.Key)
		},
	}
}

type lruRec struct {
	in        lruIn
	out       lruOut
	call, ret int64
}

func init() {
	Register("C36", &Info{
		Run:   runC36,
		Race:  true,
		Quick: 12000, Thor: 1500000,
		Rule: "a world = capacity 1-3, 1-4 tasks, <=5 ops per task over <=4 keys with unique values (a fifth of the Puts store an already used *ClientSessionState again); schedule chosen at every mutex acquisition; non-trivial = >=2 operations of different tasks overlapped (one invoked before the other returned) or a multi-op single-task history reaching eviction; distinct = (capacity, op-sequence per task, schedule hash)",
		Assumptions: []string{
			"races need two tasks touching the cache in the same world; weak-memory effects and intra-call parallelism are outside the simulator (DESIGN 2.7)",
			"porcupine result Unknown (timeout) is counted inconclusive, never a violation",
		},
		Real: []string{"utls lruSessionCache (NewLRUClientSessionCache) from /repo", "Go race detector"},
		Stub: []string{"sync.Mutex replaced by simsync.Mutex (real mutex taken after the scheduler admits the goroutine)"},
	})
}

func runC36(c *Ctx) {
	ch := c.Ch
	capacity := ch.Range(1, 3, "cap")
	ntasks := ch.Range(1, 4, "ntasks")
	nkeys := ch.Range(1, 4, "nkeys")
	type plan struct{ ops []lruIn }
	plans := make([]plan, ntasks)
	val := 0
	total := 0
	var desc []string
	for i := range plans {
		n := ch.Range(1, 5, "nops")
		for j := 0; j < n; j++ {
			op := ch.Pick(3, "op")
			in := lruIn{Op: op, Key: ch.Pick(nkeys, "key")}
			if op == 1 {
				if val > 0 && ch.Bool(20, "re-put") {
					// the same *ClientSessionState is stored again (a session refreshed in place, or the
					// same ticket kept under a second key): a Put like any other
					in.Val = 1 + ch.Pick(val, "re-put-val")
				} else {
					val++
					in.Val = val
				}
			}
			plans[i].ops = append(plans[i].ops, in)
			total++
		}
		desc = append(desc, fmt.Sprint(plans[i].ops))
	}
	w := c.NewWorld(simrt.Config{LockYield: true, UnlockYield: ch.Bool(50, "unlockyield"), PreemptPct: 10 + 20*ch.Pick(4, "preempt")})
	defer w.Close()
	ResetStamp()
	cache := tls.NewLRUClientSessionCache(capacity)
	states := make([]*tls.ClientSessionState, val+1)
	ids := map[*tls.ClientSessionState]int{}
	for i := 1; i <= val; i++ {
		states[i] = &tls.ClientSessionState{}
		ids[states[i]] = i
	}
	recs := make([][]lruRec, ntasks)
	unknown := make([]int, ntasks)
	for i := range plans {
		i := i
		w.Go(fmt.Sprintf("t%d", i), func() {
			for _, in := range plans[i].ops {
				r := lruRec{in: in}
				simrt.Yield()
				r.call = Stamp()
				switch in.Op {
				case 0:
					s, ok := cache.Get(fmt.Sprintf("k%d", in.Key))
					r.out.Ok = ok
					if s != nil {
						id, found := ids[s]
						if !found {
							unknown[i]++
						}
						r.out.Val = id
					}
				case 1:
					cache.Put(fmt.Sprintf("k%d", in.Key), states[in.Val])
				case 2:
					cache.Put(fmt.Sprintf("k%d", in.Key), nil)
				}
				r.ret = Stamp()
				recs[i] = append(recs[i], r)
			}
		})
	}
	w.Run()
	w.Join()
	c.Finish(w, true)
	var ops []porcupine.Operation
	overl := false
	for i, rs := range recs {
		for _, r := range rs {
			ops = append(ops, porcupine.Operation{ClientId: i, Input: r.in, Call: r.call, Output: r.out, Return: r.ret})
		}
		if unknown[i] > 0 {
			c.Violate("get-returned-foreign-value", "Get returned a state that was never Put")
		}
	}
	for i := range ops {
		for j := range ops {
			if ops[i].ClientId != ops[j].ClientId && ops[i].Call < ops[j].Call && ops[j].Call < ops[i].Return {
				overl = true
			}
		}
	}
	c.R.Class = fmt.Sprintf("cap=%d %s", capacity, strings.Join(desc, ";"))
	c.R.NonTrivial = overl || (ntasks == 1 && total > capacity)
	if w.Deadlock || w.StepCapHit || len(ops) != total {
		if c.R.Violation == nil {
			c.Violate("incomplete-history", "only %d of %d operations returned", len(ops), total)
		}
		return
	}
	res, info := porcupine.CheckOperationsVerbose(lruModel(capacity), ops, 20*time.Second)
	_ = info
	switch res {
	case porcupine.Illegal:
		var hs []string
		for _, o := range ops {
			hs = append(hs, fmt.Sprintf("c%d[%d,%d]%s", o.ClientId, o.Call, o.Return, lruModel(capacity).DescribeOperation(o.Input, o.Output)))
		}
		c.Violate("not-linearizable "+lruWitnessClass(capacity, recs), "capacity %d history %v", capacity, hs)
	case porcupine.Unknown:
		c.Probe("porcupine-unknown")
	}
	if c.R.Run%500 == 0 {
		c.R.Sample = map[string]any{"capacity": capacity, "tasks": desc}
	}
}

// lruWitnessClass summarises which kind of read disagreed with the model: it replays the
// history in return order against the model and names the first mismatching Get.
func lruWitnessClass(capacity int, recs [][]lruRec) string {
	var all []lruRec
	for _, rs := range recs {
		all = append(all, rs...)
	}
	for i := range all {
		for j := i + 1; j < len(all); j++ {
			if all[j].call < all[i].call {
				all[i], all[j] = all[j], all[i]
			}
		}
	}
	st := lruState{cap: capacity}
	var prev lruIn
	for _, r := range all {
		ns, exp := lruStep(st, r.in)
		if r.in.Op == 0 && exp != r.out {
			got := "miss"
			if r.out.Ok {
				got = "hit"
				if r.out.Val == 0 {
					got = "hit-nil"
				}
			}
			want := "miss"
			if exp.Ok {
				want = "hit"
			}
			return fmt.Sprintf("get want=%s got=%s after-op=%d", want, got, prev.Op)
		}
		prev = r.in
		st = ns
	}
	return "order"
}
