package scen

import (
	"errors"
	"bytes"
	"io"
	"compress/flate"
	"compress/zlib"
	"fmt"
	"strings"

	"github.com/andybalholm/brotli"
	"github.com/klauspost/compress/zstd"
	tls "github.com/refraction-networking/utls"
	"github.com/refraction-networking/utls/zz_verif/refsrv"
	"github.com/refraction-networking/utls/zz_verif/simnet"
	"github.com/refraction-networking/utls/zz_verif/simrand"
	"github.com/refraction-networking/utls/zz_verif/simrt"
)

// C21: compressed server certificates are recovered exactly.
// C22: application settings (ALPS) are exchanged consistently.

func init() {
	Register("C21", &Info{
		Run:   runC21,
		Quick: 2500, Thor: 300000,
		Rule: "a world = one fingerprint advertising compress_certificate (parrots by stratum, generated specs with each algorithm set) against the reference server (optionally requesting a client certificate, so that a CertificateRequest precedes it in the transcript), which sends its Certificate message as CompressedCertificate with an advertised algorithm (brotli, zlib, zstd) encoded by the real encoders at a drawn level, with a drawn flush/block structure (single block, flush every n bytes, stored blocks, several concatenated zstd frames) and a drawn chain (small ECDSA leaf, RSA leaf, a 16 kB leaf with 400 SANs) carrying a drawn OCSP staple; narrowing stratum: the hello is built, the advertised list is narrowed (or the whole extension removed), the server answers with the dropped algorithm; fault stratum: declared uncompressed_length shorter or longer than the real one, stream truncated, byte flipped (at a drawn position, or directed into the staple where the stream carries it verbatim), trailing garbage appended; oracle: a valid encoding => the handshake completes, data echoes and PeerCertificates equal the chain the server compressed; an invalid one => the client aborts (never completes with any chain) and the server sees the bad_certificate alert; non-trivial = a CompressedCertificate message was processed by the client; distinct = (fingerprint, algorithm, encoder settings, chain, fault)",
		Assumptions: []string{"'any valid compressed encoding' is sampled through the real encoders' levels, flush points and framing; hand-crafted exotic bit streams are not generated",
			"trailing bytes after a complete compressed stream count as a decompressed-length mismatch only when they decode to additional output (declared length shorter than the actual output)"},
		Real: []string{"utls client decompression path from /repo", "brotli / zlib / zstd libraries on both sides"},
		Stub: []string{"reference server (sim/refsrv) sending CompressedCertificate", "transport, clock, crypto/rand"},
	})
	Register("C22", &Info{
		Run:   runC22,
		Quick: 7500, Thor: 1000000,
		Rule: "a world = one ALPS-capable fingerprint (parrots whose spec carries application_settings on either code point, generated specs) with a drawn Config.ApplicationSettings map (with PSK-capable parrots optionally as the resumed second connection of a history) against the reference server, which negotiates an ALPN protocol and answers with application_settings on the old (17513) or new (17613) code point with drawn server settings, placed after or before the ALPN extension of EncryptedExtensions; client authentication requested or not (client with and without a certificate); Config.VerifyConnection must be shown the same peer settings as the final ConnectionState; strata: normal, a client with a real ECH config that the server rejects while negotiating ALPS on the outer hello (ECHRejectionError on the client, a completed handshake with client EncryptedExtensions on the server), server omits ALPN but sends ALPS, TLS 1.2 server that puts an application_settings extension into its ServerHello, code point different from the one the client offered; oracle: normal => handshake completes, ConnectionState.PeerApplicationSettings equals the server's bytes, the server received a client EncryptedExtensions message carrying exactly the settings configured for the negotiated protocol and verified the client Finished over a transcript including it; without ALPN or below TLS 1.3 => nothing is exposed (TLS 1.3 without ALPN: abort); non-trivial = ALPS extension in the server's EncryptedExtensions (or ServerHello); distinct = (fingerprint, code point, protocol, settings, stratum)",
		Assumptions: []string{"'rejects application settings under TLS below 1.3' is read as 'never exposes or answers them'; an application_settings extension in a TLS 1.2 ServerHello is otherwise an unknown extension"},
		Real:        []string{"utls client ALPS path from /repo"},
		Stub:        []string{"reference server (sim/refsrv) with ALPS support", "transport, clock, crypto/rand"},
	})
}

// compressors with structure knobs; every output is a valid encoding of msg
func makeCompressor(ch *simrt.Chooser) (func(alg uint16, msg []byte) []byte, string) {
	level := ch.Pick(10, "level")
	structure := ch.Pick(4, "structure") // 0 single, 1 flush every n, 2 tiny flushes, 3 alg-specific framing
	n := []int{64, 500, 4000}[ch.Pick(3, "flush-n")]
	desc := fmt.Sprintf("level=%d structure=%d n=%d", level, structure, n)
	return func(alg uint16, msg []byte) []byte {
		var b bytes.Buffer
		chunks := [][]byte{msg}
		if structure == 1 || structure == 2 {
			step := n
			if structure == 2 {
				step = 7
			}
			chunks = nil
			for m := msg; len(m) > 0; {
				k := step
				if k > len(m) {
					k = len(m)
				}
				chunks = append(chunks, m[:k])
				m = m[k:]
			}
		}
		switch alg {
		case 1: // zlib
			lv := level
			if structure == 3 {
				lv = flate.NoCompression // stored blocks
			}
			w, _ := zlib.NewWriterLevel(&b, lv%10)
			for _, c := range chunks {
				w.Write(c)
				if len(chunks) > 1 {
					w.Flush()
				}
			}
			w.Close()
		case 2: // brotli
			w := brotli.NewWriterLevel(&b, level%12)
			for _, c := range chunks {
				w.Write(c)
				if len(chunks) > 1 {
					w.Flush()
				}
			}
			w.Close()
		case 3: // zstd
			if structure == 3 && len(msg) > 10 {
				// several concatenated frames
				half := len(msg) / 2
				for _, part := range [][]byte{msg[:half], msg[half:]} {
					w, _ := zstd.NewWriter(&b, zstd.WithEncoderLevel(zstd.EncoderLevel(1+level%4)), zstd.WithEncoderConcurrency(1))
					w.Write(part)
					w.Close()
				}
			} else {
				w, _ := zstd.NewWriter(&b, zstd.WithEncoderLevel(zstd.EncoderLevel(1+level%4)), zstd.WithEncoderConcurrency(1))
				for _, c := range chunks {
					w.Write(c)
					if len(chunks) > 1 {
						w.Flush()
					}
				}
				w.Close()
			}
		}
		return b.Bytes()
	}, desc
}

var compParrots []IDInfo

func compAlgsOfSpec(s *tls.ClientHelloSpec) []uint16 {
	for _, e := range s.Extensions {
		if c, ok := e.(*tls.UtlsCompressCertExtension); ok {
			var out []uint16
			for _, a := range c.Algorithms {
				out = append(out, uint16(a))
			}
			return out
		}
	}
	return nil
}

func runC21(c *Ctx) {
	ch := c.Ch
	if compParrots == nil {
		for _, p := range AllParrots {
			if s, err := tls.UTLSIdToSpec(p.ID); err == nil && len(compAlgsOfSpec(&s)) > 0 {
				compParrots = append(compParrots, p)
			}
		}
	}
	var idi IDInfo
	var newSpec func() *tls.ClientHelloSpec
	kind := "id"
	if ch.Bool(40, "custom") {
		for try := 0; try < 40; try++ {
			f, _ := GenSpecFactory(ch, true)
			if len(compAlgsOfSpec(f())) > 0 {
				newSpec = f
				break
			}
		}
	}
	if newSpec != nil {
		kind = "custom"
		idi = IDInfo{"Custom", tls.HelloCustom}
	} else {
		idi = compParrots[int(c.Run)%len(compParrots)]
	}
	dry, err := DryHello(negCfg(), idi.ID, freshSpec(newSpec))
	if err != nil {
		c.R.Harness = "dry build: " + err.Error()
		return
	}
	adv := dry.CertCompression
	if len(adv) == 0 || !has16(OfferOf(dry, 0).Versions, 0x0304) {
		return
	}
	// keep clear of the known key-share defects (C10/C18): the server selects the first
	// classical share of the hello
	prefs := firstClassicalShare(OfferOf(dry, 0))
	if prefs == 0 {
		return
	}
	alg := adv[ch.Pick(len(adv), "alg")]
	compress, cdesc := makeCompressor(ch)
	chain := []string{"ecdsa", "rsa", "big"}[ch.Pick(3, "chain")]
	fault := []string{"none", "none", "none", "len-short", "len-long", "truncate", "flip", "trailing"}[ch.Pick(8, "fault")]
	delta := ch.Range(1, 300, "delta")
	fpos := ch.Pick(1<<16, "fault-pos")
	cfg := refCfg(chain)
	cfg.CurvePreferences = []refsrv.CurveID{refsrv.CurveID(prefs)}
	// an OCSP staple (unvalidated payload of the certificate message): a certificate message that
	// differs only there still is "another message than the one the server compressed"
	staple := make([]byte, ch.Range(40, 1500, "staple-len"))
	ch.Bytes(staple, "staple")
	hasStaple := false
	if _, ok := dry.Ext(5); ok {
		rc := cfg.Certificates[0]
		rc.OCSPStaple = staple
		cfg.Certificates[0] = rc
		hasStaple = true
	}
	// narrowing stratum: the hello is built, then the advertised algorithm list is narrowed, then the
	// handshake runs; the server answers with the algorithm that was dropped (not on the wire)
	narrowed := false
	if len(adv) >= 2 && fault == "none" && ch.Bool(20, "narrow") {
		narrowed = true
	}
	// ... or the whole compress_certificate extension is removed after the build (then any
	// CompressedCertificate is unsolicited, whatever an earlier build of this UConn advertised)
	removedExt := false
	if !narrowed && fault == "none" && ch.Bool(8, "remove-ext") {
		narrowed, removedExt = true, true
	}
	cfg.Byz.CertCompAlg = alg
	msgLen := -1
	cfg.Byz.CertCompress = func(a uint16, m []byte) []byte { msgLen = len(m); return compress(a, m) }
	var truncated []byte
	switch fault {
	case "len-short":
		cfg.Byz.CertCompLenDelta = -delta
	case "len-long":
		cfg.Byz.CertCompLenDelta = delta
	case "truncate":
		cfg.Byz.CertCompCorrupt = func(s []byte) []byte {
			if len(s) < 2 {
				return s
			}
			truncated = append([]byte(nil), s[:1+fpos%(len(s)-1)]...)
			return truncated
		}
	case "flip":
		cfg.Byz.CertCompCorrupt = func(s []byte) []byte {
			s = append([]byte(nil), s...)
			pos := fpos % len(s)
			if hasStaple && fpos%2 == 0 {
				// directed: inside the staple when the stream carries it verbatim (stored / raw blocks)
				if k := bytes.Index(s, staple[:8]); k >= 0 {
					pos = k + (fpos/2)%min(len(staple), len(s)-k)
				}
			}
			s[pos] ^= 0x20
			return s
		}
	case "trailing":
		// a second valid stream's worth of data appended after the first stream ends
		cfg.Byz.CertCompCorrupt = func(s []byte) []byte { return append(append([]byte(nil), s...), s...) }
	}
	// client authentication: a CertificateRequest precedes the (compressed) Certificate in the
	// server's flight; the client may or may not have a certificate to answer with
	cauth := ch.Pick(4, "client-auth") // 0,1: none; 2: requested, client has none; 3: requested, client sends one
	ccfg := negCfg()
	if cauth >= 2 {
		cfg.ClientAuth = refsrv.RequestClientCert
		if cauth == 3 {
			ccfg.Certificates = []tls.Certificate{Cert("ecdsa").U}
		}
	}
	w := c.NewWorld(simrt.Config{})
	c.R.Class = fmt.Sprintf("%s/%s alg=%d %s chain=%s fault=%s cauth=%d", kind, idi.Name, alg, cdesc, chain, fault, cauth)
	sp := &ConnSpec{ID: idi.ID, Spec: freshSpec(newSpec), CCfg: ccfg, Peer: PeerRef, RefCfg: cfg, Payload: [][]byte{[]byte("ping")},
		Setup: func(l *simnet.Link) { l.Frag = ch.Bool(40, "frag") }}
	if narrowed {
		sp.Prep = func(u *tls.UConn) error {
			if err := u.BuildHandshakeState(); err != nil {
				return err
			}
			if removedExt {
				var keepExt []tls.TLSExtension
				for _, e := range u.Extensions {
					if _, ok := e.(*tls.UtlsCompressCertExtension); !ok {
						keepExt = append(keepExt, e)
					}
				}
				u.Extensions = keepExt
				return nil
			}
			for _, e := range u.Extensions {
				if cc, ok := e.(*tls.UtlsCompressCertExtension); ok {
					var keep []tls.CertCompressionAlgo
					for _, a := range cc.Algorithms {
						if uint16(a) != alg {
							keep = append(keep, a)
						}
					}
					cc.Algorithms = keep
				}
			}
			return nil
		}
		c.R.Class += fmt.Sprintf(" narrowed removed=%v", removedExt)
	}
	o := RunConn(c, w, sp)
	c.Finish(w, true)
	if c.R.Violation != nil {
		return
	}
	c.R.NonTrivial = true
	want := Cert(chain).DER
	if narrowed {
		obs := ObserveHellos(o.Link)
		if len(obs.CH) == 0 {
			c.R.Harness = "narrowed: no hello: " + o.Describe()
			return
		}
		if has16(obs.CH[0].CertCompression, alg) {
			c.Probe("narrowing-not-effective") // the edit did not reach the wire (C01's subject): no claim here
			return
		}
		if o.CDone {
			c.Violate(fmt.Sprintf("unadvertised-algorithm-accepted alg=%d", alg), "%s: the wire hello advertises %v, the server compressed with %d and the handshake completed", c.R.Class, obs.CH[0].CertCompression, alg)
			return
		}
		if removedExt {
			c.Probe("rejected-unsolicited-compressed-certificate") // (an unexpected message: any fatal alert will do)
			return
		}
		if o.SErr == nil || !strings.Contains(o.SErr.Error(), "bad certificate") {
			c.Violate(fmt.Sprintf("no-bad_certificate-alert fault=unadvertised alg=%d", alg), "%s: server saw %v, client error %v", c.R.Class, o.SErr, o.CErr)
		}
		c.Probe("rejected-unadvertised")
		return
	}
	switch fault {
	case "none":
		if !o.CDone || !o.SDone {
			c.Violate(fmt.Sprintf("valid-compressed-certificate-rejected alg=%d structure=%s", alg, structureOf(cdesc)), "%s: %s", c.R.Class, o.Describe())
			return
		}
		if len(o.CState.PeerCertificates) != len(want) || !bytes.Equal(o.CState.PeerCertificates[0].Raw, want[0]) {
			c.Violate(fmt.Sprintf("recovered-certificate-differs alg=%d", alg), "%s", c.R.Class)
			return
		}
		if string(o.CRead) != "ping" {
			c.Violate("echo-failed-after-compressed-certificate", "%s: %s", c.R.Class, o.Describe())
		}
		if hasStaple && !bytes.Equal(o.CState.OCSPResponse, staple) {
			c.Violate(fmt.Sprintf("recovered-certificate-message-differs alg=%d", alg), "%s: OCSP staple differs", c.R.Class)
		}
		c.Probe(fmt.Sprintf("recovered-alg-%d", alg))
	case "flip":
		// a flipped bit may still decode to the same bytes only in pathological cases; the safety
		// claim is: never a different certificate
		if o.CDone && (len(o.CState.PeerCertificates) == 0 || !bytes.Equal(o.CState.PeerCertificates[0].Raw, want[0])) {
			c.Violate(fmt.Sprintf("corrupted-stream-yields-other-certificate alg=%d", alg), "%s", c.R.Class)
		}
		// zlib (Adler-32) and zstd (frame checksum written by the encoder used here) streams carry an
		// integrity check: a flipped byte makes the stream invalid. A brotli stream has none: the
		// flipped stream is a valid encoding of another message, which the server then "compressed".
		if o.CDone && hasStaple && alg != 2 && !bytes.Equal(o.CState.OCSPResponse, staple) {
			c.Violate(fmt.Sprintf("corrupted-stream-yields-other-certificate-message alg=%d structure=%s", alg, structureOf(cdesc)), "%s: the handshake completed and the client holds a staple that differs from the one the server compressed", c.R.Class)
		}
		if o.CDone {
			c.Probe("flip-harmless")
		} else {
			c.Probe("rejected-flip")
		}
	default:
		if fault == "truncate" && truncated != nil && msgLen >= 0 && decodedLen(alg, truncated) >= msgLen {
			// only trailing framing was cut off (e.g. brotli's final empty meta-block): every byte of the
			// message still comes out, so nothing the statement speaks about has changed; the claim
			// that remains is "never another certificate message"
			if o.CDone && (len(o.CState.PeerCertificates) == 0 || !bytes.Equal(o.CState.PeerCertificates[0].Raw, want[0])) {
				c.Violate(fmt.Sprintf("corrupted-stream-yields-other-certificate alg=%d", alg), "%s", c.R.Class)
			}
			c.Probe("truncation-of-framing-only")
			break
		}
		if fault == "trailing" && alg != 3 {
			// zlib and brotli readers stop at the end of the first stream: the declared length is
			// met and trailing bytes are not part of the compressed value's output; no claim
			c.Probe("trailing-noclaim")
			break
		}
		if o.CDone {
			c.Violate(fmt.Sprintf("invalid-compressed-certificate-accepted fault=%s alg=%d", fault, alg), "%s: the handshake completed", c.R.Class)
			return
		}
		if o.SErr == nil || !strings.Contains(o.SErr.Error(), "bad certificate") {
			c.Violate(fmt.Sprintf("no-bad_certificate-alert fault=%s alg=%d", fault, alg), "%s: server saw %v, client error %v", c.R.Class, o.SErr, o.CErr)
		}
		c.Probe("rejected-" + fault)
	}
	if c.R.Run%300 == 0 {
		c.R.Sample = map[string]any{"fingerprint": idi.Name, "algorithm": alg, "encoder": cdesc, "chain": chain, "fault": fault}
	}
}

func structureOf(d string) string {
	i := strings.Index(d, "structure=")
	if i < 0 {
		return "?"
	}
	return d[i+10 : i+11]
}

var alpsParrots []IDInfo

func alpsOfSpec(s *tls.ClientHelloSpec) (uint16, []string) {
	for _, e := range s.Extensions {
		switch a := e.(type) {
		case *tls.ApplicationSettingsExtension:
			return 17513, a.SupportedProtocols
		case *tls.ApplicationSettingsExtensionNew:
			return 17613, a.SupportedProtocols
		}
	}
	return 0, nil
}

func runC22(c *Ctx) {
	ch := c.Ch
	if alpsParrots == nil {
		for _, p := range AllParrots {
			if s, err := tls.UTLSIdToSpec(p.ID); err == nil {
				if cp, _ := alpsOfSpec(&s); cp != 0 {
					alpsParrots = append(alpsParrots, p)
				}
			}
		}
	}
	var idi IDInfo
	var newSpec func() *tls.ClientHelloSpec
	kind := "id"
	if ch.Bool(35, "custom") {
		for try := 0; try < 40; try++ {
			f, _ := GenSpecFactory(ch, true)
			if cp, _ := alpsOfSpec(f()); cp != 0 {
				newSpec = f
				break
			}
		}
	}
	if newSpec != nil {
		kind = "custom"
		idi = IDInfo{"Custom", tls.HelloCustom}
	} else {
		idi = alpsParrots[int(c.Run)%len(alpsParrots)]
	}
	dry, err := DryHello(negCfg(), idi.ID, freshSpec(newSpec))
	if err != nil {
		c.R.Harness = "dry build: " + err.Error()
		return
	}
	if len(dry.ALPS) == 0 || len(dry.ALPN) == 0 {
		return
	}
	proto := dry.ALPS[ch.Pick(len(dry.ALPS), "proto")]
	if !hasStr(dry.ALPN, proto) {
		return
	}
	offeredCP := dry.ALPSCodepoint
	stratum := []string{"normal", "normal", "normal", "no-alpn", "tls12", "other-codepoint", "client-has-no-settings", "ech-rejected"}[ch.Pick(8, "stratum")]
	if stratum == "ech-rejected" {
		// only fingerprints with an encrypted_client_hello extension can be given a real ECH config
		hasECH := false
		if sp0 := freshSpec(newSpec); sp0 != nil {
			for _, e := range sp0.Extensions {
				if _, ok := e.(tls.EncryptedClientHelloExtension); ok {
					hasECH = true
				}
			}
		} else if s0, err := tls.UTLSIdToSpec(idi.ID); err == nil {
			for _, e := range s0.Extensions {
				if _, ok := e.(tls.EncryptedClientHelloExtension); ok {
					hasECH = true
				}
			}
		}
		if !hasECH {
			stratum = "normal"
		}
	}
	serverSettings := make([]byte, ch.Range(0, 200, "srv-settings-len"))
	ch.Bytes(serverSettings, "srv-settings")
	clientSettings := make([]byte, ch.Range(0, 200, "cli-settings-len"))
	ch.Bytes(clientSettings, "cli-settings")
	ccfg := negCfg()
	ccfg.ApplicationSettings = map[string][]byte{proto: clientSettings, "other-proto": []byte("not-for-this-connection")}
	if stratum == "client-has-no-settings" {
		ccfg.ApplicationSettings = map[string][]byte{"other-proto": []byte("x")}
	}
	// what Config.VerifyConnection is shown (the server's EncryptedExtensions have been processed by then)
	var vcSettings []byte
	vcSeen := false
	ccfg.VerifyConnection = func(cs tls.ConnectionState) error {
		vcSettings, vcSeen = append([]byte(nil), cs.PeerApplicationSettings...), true
		return nil
	}
	if stratum == "ech-rejected" {
		// a real ECH config the server has no key for: the server carries on with the outer hello and
		// negotiates application settings there; the client owes its EncryptedExtensions (covered by
		// the transcript of the handshake that is actually completed) and then reports the rejection
		e, err := buildECH(simrand.NewStream(ch.U64("ech-keys")), uint8(ch.Pick(256, "ech-cid")), "public.ech.test", 32, [][2]uint16{{1, 1}})
		if err != nil {
			c.R.Harness = "ech setup: " + err.Error()
			return
		}
		ccfg.EncryptedClientHelloConfigList = e.list
		ccfg.MinVersion = tls.VersionTLS13
	}
	cfg := refCfg()
	if g := firstClassicalShare(OfferOf(dry, 0)); g != 0 {
		cfg.CurvePreferences = []refsrv.CurveID{refsrv.CurveID(g)}
	} else {
		return
	}
	cfg.NextProtos = []string{proto}
	cfg.Byz.ALPSCodepoint = offeredCP
	cfg.Byz.ALPSSettings = serverSettings
	// the order of extensions inside EncryptedExtensions is the server's business (RFC 8446 4.2):
	// application_settings may come before application_layer_protocol_negotiation
	if cfg.Byz.ALPSFirst = ch.Bool(40, "alps-before-alpn"); cfg.Byz.ALPSFirst {
		c.Probe("alps-before-alpn")
	}
	switch stratum {
	case "no-alpn":
		cfg.Byz.ALPSWithoutALPN = true
	case "other-codepoint":
		if offeredCP == 17513 {
			cfg.Byz.ALPSCodepoint = 17613
		} else {
			cfg.Byz.ALPSCodepoint = 17513
		}
	case "tls12":
		cfg.MaxVersion = refsrv.VersionTLS12
		cfg.Byz.ALPSCodepoint = 0
		cp := offeredCP
		cfg.Byz.Mutate = func(t uint8, m []byte) []byte {
			if t != 2 {
				return m
			}
			return spliceServerHelloExt(m, cp, serverSettings)
		}
	}
	// client authentication: the server may ask for a certificate (the client's EncryptedExtensions
	// message still comes first in its flight), and the client may or may not have one
	cauth := ch.Pick(4, "client-auth") // 0,1: none; 2: requested, client has none; 3: requested, client sends one
	if cauth >= 2 && stratum != "tls12" {
		cfg.ClientAuth = refsrv.RequestClientCert
		if cauth == 3 {
			ccfg.Certificates = []tls.Certificate{Cert("ecdsa").U}
		}
	}
	w := c.NewWorld(simrt.Config{})
	c.R.Class = fmt.Sprintf("%s/%s cp=%d proto=%s stratum=%s srv=%d cli=%d cauth=%d", kind, idi.Name, offeredCP, proto, stratum, len(serverSettings), len(clientSettings), cauth)
	var peerSettings []byte
	var peerSet bool
	sp := &ConnSpec{ID: idi.ID, Spec: freshSpec(newSpec), CCfg: ccfg, Peer: PeerRef, RefCfg: cfg, Payload: [][]byte{[]byte("ping")},
		Setup: func(l *simnet.Link) { l.Frag = ch.Bool(30, "frag") }}
	sp.After = func(u *tls.UConn) {
		st := u.ConnectionState()
		peerSettings = st.PeerApplicationSettings
		peerSet = true
	}
	// resumption: with a PSK-capable parrot the connection under test may be the second one of a
	// history - the server accepts the PSK and negotiates application settings again; the client's
	// EncryptedExtensions are owed on a resumed handshake too
	resumedALPS := (stratum == "normal" || stratum == "client-has-no-settings") && isPSKParrot(idi.Name) && ch.Bool(60, "resumed-alps")
	if resumedALPS {
		cache := tls.NewLRUClientSessionCache(4)
		ccfg.ClientSessionCache = cache
		first := ccfg.Clone()
		o1 := RunConn(c, w, &ConnSpec{Name: "first", ID: idi.ID, Spec: freshSpec(newSpec), CCfg: first, Peer: PeerRef, RefCfg: cfg, Payload: [][]byte{[]byte("first")}})
		if !o1.CDone || string(o1.CRead) != "first" {
			c.Finish(w, true)
			if c.R.Violation == nil {
				c.Violate(fmt.Sprintf("alps-handshake-failed cp=%d stratum=%s first-of-history %s", offeredCP, stratum, negErrClass(o1)), "%s: %s", c.R.Class, o1.Describe())
			}
			return
		}
		cfg.Byz.ClientEESeen, cfg.Byz.ClientEE = false, nil
		c.R.Class += " second-of-history"
	}
	o := RunConn(c, w, sp)
	c.Finish(w, true)
	if c.R.Violation != nil {
		return
	}
	c.R.NonTrivial = true
	if resumedALPS && o.CDone && o.CState.DidResume {
		c.Probe("alps-on-resumed-handshake")
	}
	switch stratum {
	case "normal", "client-has-no-settings":
		if !o.CDone || !o.SDone {
			c.Violate(fmt.Sprintf("alps-handshake-failed cp=%d stratum=%s %s", offeredCP, stratum, negErrClass(o)), "%s: %s", c.R.Class, o.Describe())
			return
		}
		if !bytes.Equal(peerSettings, serverSettings) {
			c.Violate(fmt.Sprintf("peer-application-settings-differ cp=%d", offeredCP), "%s: client exposes %x, server sent %x", c.R.Class, peerSettings, serverSettings)
		}
		if vcSeen && !bytes.Equal(vcSettings, serverSettings) {
			c.Violate(fmt.Sprintf("peer-application-settings-missing-in-VerifyConnection cp=%d", offeredCP), "%s: Config.VerifyConnection was shown %x, the server sent %x", c.R.Class, vcSettings, serverSettings)
		}
		if !cfg.Byz.ClientEESeen {
			c.Violate(fmt.Sprintf("client-encrypted-extensions-missing cp=%d", offeredCP), "%s", c.R.Class)
		} else {
			want := clientSettings
			if stratum == "client-has-no-settings" {
				want = nil
			}
			if !bytes.Equal(cfg.Byz.ClientEE, want) {
				c.Violate(fmt.Sprintf("client-settings-differ cp=%d stratum=%s", offeredCP, stratum), "%s: server received %x, configured for %q: %x", c.R.Class, cfg.Byz.ClientEE, proto, want)
			}
		}
		if string(o.CRead) != "ping" {
			c.Violate("echo-failed-after-alps", "%s: %s", c.R.Class, o.Describe())
		}
		c.Probe(fmt.Sprintf("alps-exchanged-%d", offeredCP))
	case "ech-rejected":
		var rej *tls.ECHRejectionError
		if !errors.As(o.CErr, &rej) {
			c.Violate(fmt.Sprintf("alps-with-rejected-ech-not-reported cp=%d %s", offeredCP, negErrClass(o)), "%s: client error %v (want ECHRejectionError); server: %v", c.R.Class, o.CErr, o.SErr)
			return
		}
		// (the client leaves with an ech_required alert right after its Finished: the server may see
		// that alert or a closed transport while it writes its tickets - but nothing else)
		benign := func(e error) bool {
			if e == nil {
				return true
			}
			m := e.Error()
			return strings.Contains(m, "broken pipe") || strings.Contains(m, "EOF") || strings.Contains(m, "closed") || strings.Contains(m, "reset") || strings.Contains(m, "encrypted client hello required") || strings.Contains(m, "alert(121)")
		}
		if !o.SDone && !benign(o.SErr) {
			c.Violate(fmt.Sprintf("alps-with-rejected-ech-server-handshake-failed cp=%d", offeredCP), "%s: the server could not complete the outer handshake: %v (client EncryptedExtensions seen=%v)", c.R.Class, o.SErr, cfg.Byz.ClientEESeen)
			return
		}
		if !cfg.Byz.ClientEESeen {
			c.Violate(fmt.Sprintf("client-encrypted-extensions-missing cp=%d ech-rejected", offeredCP), "%s", c.R.Class)
		}
		c.Probe("alps-with-rejected-ech")
	case "no-alpn":
		if o.CDone {
			c.Violate("alps-accepted-without-alpn", "%s: handshake completed; exposed settings %x", c.R.Class, peerSettings)
		}
		c.Probe("no-alpn-rejected")
	case "tls12":
		if o.CDone && peerSet && len(peerSettings) > 0 {
			c.Violate("alps-exposed-under-tls12", "%s: PeerApplicationSettings=%x", c.R.Class, peerSettings)
		}
		if cfg.Byz.ClientEESeen {
			c.Violate("alps-answered-under-tls12", "%s", c.R.Class)
		}
		c.Probe("tls12-alps-ignored")
	case "other-codepoint":
		// the server answers on a code point the client did not offer: an unsolicited extension
		// (the statement makes no claim about a reply on the other code point: observed only)
		if o.CDone && peerSet && len(peerSettings) > 0 {
			c.Probe("other-codepoint-accepted")
		}
		c.Probe("other-codepoint")
	}
	if c.R.Run%300 == 0 {
		c.R.Sample = map[string]any{"fingerprint": idi.Name, "codepoint": offeredCP, "protocol": proto, "stratum": stratum, "server_settings_len": len(serverSettings), "client_settings_len": len(clientSettings)}
	}
}

// spliceServerHelloExt appends an extension to a marshaled ServerHello message.
func spliceServerHelloExt(m []byte, typ uint16, data []byte) []byte {
	// header(4) version(2) random(32) sid(1+n) suite(2) comp(1) extlen(2) exts
	if len(m) < 4+2+32+1 {
		return m
	}
	p := 4 + 2 + 32
	p += 1 + int(m[p])
	p += 3
	ext := []byte{byte(typ >> 8), byte(typ), byte(len(data) >> 8), byte(len(data))}
	ext = append(ext, data...)
	var out []byte
	if p+2 > len(m) {
		out = append(append([]byte(nil), m...), byte(len(ext)>>8), byte(len(ext)))
		out = append(out, ext...)
	} else {
		el := int(m[p])<<8 | int(m[p+1])
		out = append([]byte(nil), m[:p]...)
		nl := el + len(ext)
		out = append(out, byte(nl>>8), byte(nl))
		out = append(out, m[p+2:]...)
		out = append(out, ext...)
	}
	n := len(out) - 4
	out[1], out[2], out[3] = byte(n>>16), byte(n>>8), byte(n)
	return out
}

func firstClassicalShare(of *Offer) uint16 {
	for _, g := range of.Shares {
		if g == 23 || g == 24 || g == 25 || g == 29 {
			return g
		}
	}
	return 0
}

// decodedLen decompresses as much of a (possibly truncated) stream as an independent decoder of
// the same format yields and returns the number of bytes that came out.
func decodedLen(alg uint16, stream []byte) int {
	var r io.Reader
	switch alg {
	case 1:
		zr, err := zlib.NewReader(bytes.NewReader(stream))
		if err != nil {
			return 0
		}
		r = zr
	case 2:
		r = brotli.NewReader(bytes.NewReader(stream))
	case 3:
		zr, err := zstd.NewReader(bytes.NewReader(stream), zstd.WithDecoderConcurrency(1))
		if err != nil {
			return 0
		}
		defer zr.Close()
		r = zr
	default:
		return 0
	}
	n, _ := io.Copy(io.Discard, r)
	return int(n)
}
