package scen

import (
	stdtls "crypto/tls"
	"fmt"

	tls "github.com/refraction-networking/utls"
	"github.com/refraction-networking/utls/zz_verif/simnet"
	"github.com/refraction-networking/utls/zz_verif/simrt"
)

// C05: padding makes the ClientHello length follow the declared padding policy.

func init() {
	Register("C05", &Info{
		Run:   runC05,
		Quick: 9000, Thor: 1200000,
		Rule: "a world = one fingerprint whose spec carries a BoringSSL-style padding extension (every such predefined parrot by stratum, randomized seeds, generated specs with padding) x server-name length swept 0..255 by run index x ALPN list x optional cached session (ticket / real PSK change the unpadded length) x optional HelloRetryRequest; every hello on the wire is checked against the BoringSSL rule recomputed from the wire bytes; second half: a padded capture is fingerprinted and replayed with a different server name of equal length and must reproduce the captured total length; non-trivial = the spec has a padding extension and a hello reached the wire; distinct = (fingerprint, unpadded length)",
		Assumptions: []string{"'unpadded length' is the handshake message including its 4-byte header minus the padding extension, as in BoringSSL's ssl_add_clienthello_tlsext"},
		Real:        []string{"utls client from /repo", "utls or std server"},
		Stub:        []string{"transport, clock, crypto/rand"},
	})
}

func hasBoringPadding(spec *tls.ClientHelloSpec) bool {
	for _, e := range spec.Extensions {
		if _, ok := e.(*tls.UtlsPaddingExtension); ok {
			return true
		}
	}
	return false
}

var paddedParrots []IDInfo

func runC05(c *Ctx) {
	ch := c.Ch
	if paddedParrots == nil {
		for _, p := range AllParrots {
			if s, err := tls.UTLSIdToSpec(p.ID); err == nil && hasBoringPadding(&s) {
				paddedParrots = append(paddedParrots, p)
			}
		}
	}
	var idi IDInfo
	var newSpec func() *tls.ClientHelloSpec
	kind := "id"
	switch k := ch.Pick(10, "kind"); {
	case k < 6:
		idi = paddedParrots[int(c.Run/256+int64(ch.Pick(len(paddedParrots), "pp")))%len(paddedParrots)]
	case k < 8:
		kind = "custom"
		for try := 0; try < 20; try++ {
			newSpec, _ = GenSpecFactory(ch, true)
			if hasBoringPadding(newSpec()) {
				break
			}
		}
		if !hasBoringPadding(newSpec()) {
			inner := newSpec
			newSpec = func() *tls.ClientHelloSpec {
				sp := inner()
				sp.Extensions = append(sp.Extensions, &tls.UtlsPaddingExtension{GetPaddingLen: tls.BoringPaddingStyle})
				return sp
			}
		}
		idi = IDInfo{"Custom", tls.HelloCustom}
	default:
		kind = "randomized"
		idi, _ = RandomizedID(ch)
	}
	snLen := int(c.Run % 256)
	sn := ""
	if snLen > 0 {
		sn = longName(snLen)
	}
	var protos []string
	switch ch.Pick(3, "protos") {
	case 1:
		protos = []string{"h2", "http/1.1"}
	case 2:
		protos = []string{"h2"}
	}
	history := ch.Bool(35, "history")
	srvMax := []uint16{tls.VersionTLS13, tls.VersionTLS12}[ch.Pick(2, "srvmax")]
	forceHRR := ch.Bool(20, "hrr")
	peer := ch.Pick(2, "peer")
	replay := ch.Bool(40, "fp-replay")

	w := c.NewWorld(simrt.Config{})
	cache := tls.NewLRUClientSessionCache(8)
	mk := func(name string) *tls.Config {
		cfg := &tls.Config{ServerName: name, InsecureSkipVerify: true, NextProtos: protos, OmitEmptyPsk: true, PreferSkipResumptionOnNilExtension: true}
		if history {
			cfg.ClientSessionCache = cache
		}
		return cfg
	}
	scfg := &tls.Config{Certificates: []tls.Certificate{Cert("ecdsa").U, Cert("rsa").U}, MaxVersion: srvMax, NextProtos: []string{"h2", "http/1.1"}}
	stdcfg := &stdtls.Config{Certificates: []stdtls.Certificate{Cert("ecdsa").S, Cert("rsa").S}, MaxVersion: srvMax, NextProtos: []string{"h2", "http/1.1"}, MinVersion: stdtls.VersionTLS10}
	if forceHRR {
		scfg.CurvePreferences = []tls.CurveID{tls.CurveP384}
		stdcfg.CurvePreferences = []stdtls.CurveID{stdtls.CurveP384}
	}
	c.R.Class = fmt.Sprintf("%s/%s", kind, idi.Name)
	nconn := 1
	if history {
		nconn = 2
	}
	var capRaw []byte
	capPad := 0
	for i := 0; i < nconn; i++ {
		sp := &ConnSpec{Name: fmt.Sprintf("c%d", i), ID: idi.ID, Spec: freshSpec(newSpec), CCfg: mk(sn), Peer: peer, SCfg: scfg, StdCfg: stdcfg,
			Payload: [][]byte{[]byte("x")}, Setup: func(l *simnet.Link) {}}
		o := RunConn(c, w, sp)
		obs := ObserveHellos(o.Link)
		if obs.CHErr != nil {
			c.Violate("malformed-clienthello "+idi.Name+" "+errClass(obs.CHErr), "conn %d: %v", i, obs.CHErr)
			break
		}
		if len(obs.CH) == 0 {
			if o.BuildErr == nil && o.CErr == nil {
				c.R.Harness = "no hello on the wire: " + o.Describe()
			}
			break
		}
		// randomized specs may come without padding; the rule applies when the spec has one
		specHasPadding := kind != "randomized"
		if kind == "randomized" && o.U != nil {
			for _, e := range o.U.Extensions {
				if _, ok := e.(*tls.UtlsPaddingExtension); ok {
					specHasPadding = true
				}
			}
		}
		if !specHasPadding {
			break
		}
		c.R.NonTrivial = true
		for k, h := range obs.CH {
			if err := CheckBoringPadding(h); err != nil {
				c.Violate("padding-rule "+kind+" "+errClass(err), "%s conn %d hello %d snlen=%d protos=%v: %v", c.R.Class, i, k, snLen, protos, err)
			}
			if k > 0 {
				c.Probe("padding-checked-after-hrr")
			}
			if len(h.PSKIdentities) > 0 {
				c.Probe("padding-checked-with-psk")
			}
			unp := len(h.Raw)
			if h.HasPadding {
				unp -= 4 + h.PaddingLen
				c.Probe("padded-hello")
			}
			if k == 0 && i == 0 {
				c.R.Class += fmt.Sprintf(" unpadded=%d", unp)
				if unp >= 505 && unp <= 513 || unp >= 254 && unp <= 257 {
					c.Probe("boundary-length")
				}
				if h.HasPadding && h.PaddingLen > 0 {
					capRaw, capPad = obs.CHRaw[0], h.PaddingLen
				}
			}
		}
	}
	// fingerprint a padded capture and replay it with another name of the same length
	if replay && capRaw != nil && c.R.Violation == nil && snLen > 2 && !history {
		f := &tls.Fingerprinter{AllowBluntMimicry: ch.Bool(50, "blunt")}
		fs, err := f.FingerprintClientHello(AsRecord(capRaw))
		if err != nil {
			c.Probe("fingerprint-error")
		} else {
			other := "b" + sn[1:]
			sp := &ConnSpec{Name: "replay", ID: tls.HelloCustom, Spec: fs, CCfg: mk(other), Peer: peer, SCfg: scfg, StdCfg: stdcfg, Payload: [][]byte{[]byte("x")}}
			o := RunConn(c, w, sp)
			obs := ObserveHellos(o.Link)
			if obs.CHErr != nil {
				c.Violate("malformed-clienthello fingerprinted "+errClass(obs.CHErr), "%v", obs.CHErr)
			} else if len(obs.CH) > 0 {
				c.Probe("fingerprinted-replay")
				if len(obs.CH[0].Raw) != len(capRaw) {
					c.Violate("fingerprinted-padding-length-mismatch "+kind, "%s: captured hello %d bytes (padding %d), replay with an equal-length server name %d bytes (padding %d, present=%v)", c.R.Class, len(capRaw), capPad, len(obs.CH[0].Raw), obs.CH[0].PaddingLen, obs.CH[0].HasPadding)
				}
			}
		}
	}
	c.Finish(w, true)
	if c.R.Run%500 == 0 {
		c.R.Sample = map[string]any{"fingerprint": idi.Name, "kind": kind, "sni_len": snLen, "protos": protos, "history": history, "hrr": forceHRR, "class": c.R.Class}
	}
}
