package scen

import (
	stdtls "crypto/tls"
	"fmt"
	"strings"

	tls "github.com/refraction-networking/utls"
	"github.com/refraction-networking/utls/zz_verif/refsrv"
	"github.com/refraction-networking/utls/zz_verif/simnet"
	"github.com/refraction-networking/utls/zz_verif/simrand"
	"github.com/refraction-networking/utls/zz_verif/simrt"
	"github.com/refraction-networking/utls/zz_verif/wire"
)

// ---- wire monitors shared by several properties ----

// CheckGREASE applies the within-hello GREASE rules of C04 to one on-wire ClientHello.
func CheckGREASE(ch *wire.ClientHello) error {
	var gext []uint16
	for _, e := range ch.Extensions {
		if wire.IsGREASE(e.Type) {
			gext = append(gext, e.Type)
		}
	}
	if len(gext) == 2 && gext[0] == gext[1] {
		return fmt.Errorf("the two GREASE extensions share code point %#04x", gext[0])
	}
	var ggroup []uint16
	for _, g := range ch.SupportedGroups {
		if wire.IsGREASE(g) {
			ggroup = append(ggroup, g)
		}
	}
	for _, k := range ch.KeyShares {
		if wire.IsGREASE(k.Group) {
			if len(ggroup) == 0 || ggroup[0] != k.Group {
				return fmt.Errorf("key_share GREASE group %#04x differs from supported_groups GREASE %v", k.Group, ggroup)
			}
		}
	}
	return nil
}

// GREASEValues extracts the per-connection GREASE draws: cipher, group, first extension, version.
func GREASEValues(ch *wire.ClientHello) (vals [4]uint16, have [4]bool) {
	for _, s := range ch.CipherSuites {
		if wire.IsGREASE(s) {
			vals[0], have[0] = s, true
			break
		}
	}
	for _, g := range ch.SupportedGroups {
		if wire.IsGREASE(g) {
			vals[1], have[1] = g, true
			break
		}
	}
	for _, e := range ch.Extensions {
		if wire.IsGREASE(e.Type) {
			vals[2], have[2] = e.Type, true
			break
		}
	}
	for _, v := range ch.SupportedVersions {
		if wire.IsGREASE(v) {
			vals[3], have[3] = v, true
			break
		}
	}
	return
}

// CheckBoringPadding applies the BoringSSL padding rule of C05 to one on-wire ClientHello
// whose spec uses BoringPaddingStyle (hasPaddingExt: the spec carries a padding extension).
func CheckBoringPadding(ch *wire.ClientHello) error {
	n := 0
	for _, e := range ch.Extensions {
		if e.Type == 21 {
			n++
		}
	}
	if n > 1 {
		return fmt.Errorf("padding extension appears %d times", n)
	}
	total := len(ch.Raw)
	unpadded := total
	if ch.HasPadding {
		unpadded -= 4 + ch.PaddingLen
	}
	if unpadded > 255 && unpadded < 512 {
		if !ch.HasPadding {
			return fmt.Errorf("unpadded length %d is in (255,512) but there is no padding extension", unpadded)
		}
		want := 512 - unpadded - 4
		if 512-unpadded < 5 {
			want = 1
		}
		if ch.PaddingLen != want {
			return fmt.Errorf("unpadded length %d: padding body is %d bytes, BoringSSL rule gives %d (total %d)", unpadded, ch.PaddingLen, want, total)
		}
	} else if ch.HasPadding {
		return fmt.Errorf("unpadded length %d is outside (255,512) but a %d-byte padding extension was sent", unpadded, ch.PaddingLen)
	}
	return nil
}

// ---- C02 ----

func init() {
	Register("C02", &Info{
		Run:   runC02,
		Quick: 12000, Thor: 2000000,
		Rule: "a world = one fingerprint (every predefined parrot by stratum, randomized seeds, HelloGolang, generated custom specs, fingerprinted copies of a parrot's own wire hello under each Fingerprinter flag combination) x Config shape (ServerName: empty/IPv4/IPv6/bracketed/trailing dots/1-253 chars/over-long; NextProtos; OmitEmptyPsk; optional cached TLS1.2/1.3 session from a first connection (also with a cookie-bearing HelloRetryRequest that selects a suite of the other hash, so the offered PSK becomes unusable); Config.Rand failing at its n-th read) against a real server; every ClientHello reassembled from the wire tap (first hello, hello after HelloRetryRequest, resumption hello) is parsed by the strict independent grammar; non-trivial = a ClientHello reached the wire or the library returned an error; distinct = (fingerprint, config shape, hello length)",
		Assumptions: []string{"the grammar in sim/wire is my reading of RFC 8446/6066/7301/7685/8879/9001, the ECH and ALPS drafts; it was validated against every parrot and by mutation tests, and cross-checked by the standard-library server's parser",
			"no schedule is involved in this property: the simulator contributes ownership of both random sources (replayable draws) and the wire tap of real connections (DESIGN 0)"},
		Real: []string{"utls client from /repo", "utls or Go std crypto/tls server"},
		Stub: []string{"transport, clock, crypto/rand, Config.Rand"},
	})
}

var snShapes = []string{"example.test", "", "192.0.2.7", "2001:db8::1", "[2001:db8::1]", "example.test.", "example.test..", "a", "xn--nxasmq6b.test", "UPPER.example.test"}

func genServerName(ch *simrt.Chooser) string {
	k := ch.Pick(len(snShapes)+3, "sn-shape")
	if k < len(snShapes) {
		return snShapes[k]
	}
	n := 0
	switch k - len(snShapes) {
	case 0:
		n = ch.Range(1, 253, "sn-len")
	case 1:
		n = ch.Range(240, 253, "sn-len")
	default:
		n = ch.Range(254, 300, "sn-len")
	}
	return longName(n)
}

// longName builds a syntactically plausible host name of exactly n bytes.
func longName(n int) string {
	var b strings.Builder
	for b.Len() < n {
		rem := n - b.Len()
		l := 63
		if rem <= 63 {
			l = rem
		} else if rem == 64 {
			l = 62
		}
		b.WriteString(strings.Repeat("a", l))
		if b.Len() < n {
			b.WriteByte('.')
		}
	}
	s := b.String()
	if strings.HasSuffix(s, ".") {
		s = s[:len(s)-1] + "a"
	}
	return s
}

func runC02(c *Ctx) {
	ch := c.Ch
	stratum := int64(-1)
	if c.Run%3 == 0 {
		stratum = c.Run / 3
	}
	kind := "id"
	var idi IDInfo
	var newSpec func() *tls.ClientHelloSpec
	specDesc := ""
	if stratum < 0 && ch.Bool(35, "custom") {
		kind = "custom"
		newSpec, specDesc = GenSpecFactory(ch, false)
		idi = IDInfo{"Custom", tls.HelloCustom}
	} else {
		idi = PickID(ch, stratum, true)
	}
	fingerprint := stratum < 0 && kind == "id" && idi.Name != "Golang" && ch.Bool(25, "fingerprinted")
	fpFlags := ch.Pick(8, "fp-flags")
	sn := genServerName(ch)
	var protos []string
	switch ch.Pick(4, "protos") {
	case 1:
		protos = []string{"h2", "http/1.1"}
	case 2:
		protos = []string{strings.Repeat("q", 255)}
	case 3:
		protos = []string{"a", "bb", "ccc", "dddd", "h2"}
	}
	omit := ch.Bool(70, "omitpsk")
	history := ch.Bool(30, "history")
	srvMax := []uint16{tls.VersionTLS13, tls.VersionTLS12}[ch.Pick(2, "srvmax")]
	forceHRR := ch.Bool(25, "hrr")
	peer := ch.Pick(2, "peer")
	randFail := int64(0)
	if ch.Bool(10, "randfail") {
		randFail = int64(ch.Range(1, 6, "randfail-at"))
	}
	frag := ch.Bool(30, "frag")

	w := c.NewWorld(simrt.Config{})
	cache := tls.NewLRUClientSessionCache(8)
	mkCfg := func() *tls.Config {
		// PreferSkipResumptionOnNilExtension: a custom spec without session extensions plus a
		// session cache is a documented misconfiguration that panics by design (common.go:722)
		cfg := &tls.Config{ServerName: sn, InsecureSkipVerify: true, NextProtos: protos, OmitEmptyPsk: omit, PreferSkipResumptionOnNilExtension: true}
		if history {
			cfg.ClientSessionCache = cache
		}
		return cfg
	}
	scfg := &tls.Config{Certificates: []tls.Certificate{Cert("ecdsa").U, Cert("rsa").U}, MaxVersion: srvMax, NextProtos: []string{"h2", "http/1.1", "a"}}
	stdcfg := &stdtls.Config{Certificates: []stdtls.Certificate{Cert("ecdsa").S, Cert("rsa").S}, MaxVersion: srvMax, NextProtos: []string{"h2", "http/1.1", "a"}, MinVersion: stdtls.VersionTLS10}
	if forceHRR {
		scfg.CurvePreferences = []tls.CurveID{tls.CurveP384}
		stdcfg.CurvePreferences = []stdtls.CurveID{stdtls.CurveP384}
	}
	// a third of the HelloRetryRequest worlds use the reference server, whose
	// HelloRetryRequest carries a cookie that the second ClientHello has to echo
	rcfg := refCfg()
	otherHash := ch.Bool(50, "other-hash")
	if forceHRR && ch.Bool(35, "hrr-cookie") {
		peer = PeerRef
		ck := make([]byte, []int{1, 16, 300}[ch.Pick(3, "cookie-len")])
		ch.Bytes(ck, "cookie")
		rcfg.Byz.HRRCookie = ck
		rcfg.MaxVersion = srvMax
		rcfg.CurvePreferences = []refsrv.CurveID{refsrv.CurveP384}
		rcfg.NextProtos = []string{"h2", "http/1.1", "a"}
	}
	nconn := 1
	if history {
		nconn = 2
	}
	c.R.Class = fmt.Sprintf("%s/%s%s sn=%d protos=%d omit=%v hist=%v max=%x hrr=%v fp=%v/%d randfail=%d", kind, idi.Name, specDesc, len(sn), len(protos), omit, history, srvMax, forceHRR, fingerprint, fpFlags, randFail)
	var firstRaw []byte
	for i := 0; i < nconn; i++ {
		cfg := mkCfg()
		var rs *simrand.Stream
		if randFail > 0 && i == nconn-1 {
			rs = simrand.NewStream(ch.U64("cfg-rand"))
			rs.FailAt = randFail
			cfg.Rand = rs
		}
		if i == nconn-1 && history && peer == PeerRef && otherHash {
			// the resumption hello meets a HelloRetryRequest (with cookie) that selects a suite of the
			// other hash: the offered PSK can no longer be used, yet pre_shared_key stays last
			rcfg.Byz.ForceSuite = 0x1302
			c.Probe("resumption-hrr-cookie-other-hash")
		}
		sp := &ConnSpec{Name: fmt.Sprintf("c%d", i), ID: idi.ID, Spec: freshSpec(newSpec), CCfg: cfg, Peer: peer, SCfg: scfg, StdCfg: stdcfg, RefCfg: rcfg,
			Payload: [][]byte{[]byte("ping")}, Setup: func(l *simnet.Link) { l.Frag = frag }}
		if fingerprint {
			// fingerprint this parrot's own hello (taken from a throw-away build) and re-apply it
			raw := firstRaw
			if raw == nil {
				tmp := tls.UClient(nil, mkCfg(), idi.ID)
				if err := tmp.BuildHandshakeState(); err == nil {
					raw = tmp.HandshakeState.Hello.Raw
				}
			}
			if raw != nil {
				if pch, err := wire.ParseClientHello(raw); err == nil && ch.Bool(60, "vary-capture") {
					// vary the capture: ECH-GREASE payload 1..300 bytes, padding length, an unknown extension
					plen := ch.Range(1, 300, "ech-payload-len")
					padlen := ch.Range(0, 300, "pad-len")
					unk := ch.Bool(30, "unknown-ext")
					raw = Reserialize(pch, func(es []wire.Extension) []wire.Extension {
						for i := range es {
							if es[i].Type == 0xfe0d && pch.ECH != nil {
								d := append([]byte{}, es[i].Data[:6]...) // type, kdf, aead, config id
								d = append(d, byte(len(pch.ECH.Enc)>>8), byte(len(pch.ECH.Enc)))
								d = append(d, pch.ECH.Enc...)
								d = append(d, byte(plen>>8), byte(plen))
								d = append(d, make([]byte, plen)...)
								es[i].Data = d
								c.Probe("capture-ech-payload-varied")
							}
							if es[i].Type == 21 {
								es[i].Data = make([]byte, padlen)
							}
						}
						for _, e := range es {
							if e.Type == 0x3b3c {
								unk = false // already carried over from an earlier fingerprinted copy
							}
						}
						if unk {
							k := len(es)
							if k > 0 && es[k-1].Type == 41 {
								k--
							}
							ne := wire.Extension{Type: 0x3b3b + 1, Data: []byte{1, 2, 3}}
							es = append(es[:k], append([]wire.Extension{ne}, es[k:]...)...)
						}
						return es
					})
				}
				rec := AsRecord(raw)
				f := &tls.Fingerprinter{AllowBluntMimicry: fpFlags&1 != 0, AlwaysAddPadding: fpFlags&2 != 0, RealPSKResumption: fpFlags&4 != 0}
				fs, err := f.FingerprintClientHello(rec)
				if err == nil {
					sp.ID = tls.HelloCustom
					sp.Spec = fs
					c.Probe("fingerprinted-spec-applied")
				} else {
					c.Probe("fingerprint-error")
				}
			}
		}
		o := RunConn(c, w, sp)
		obs := ObserveHellos(o.Link)
		if i == 0 && len(obs.CHRaw) > 0 {
			firstRaw = obs.CHRaw[0]
		}
		if rs != nil && rs.Failed {
			c.Fault("randfail", 1)
		}
		if len(obs.CH) > 1 {
			c.Probe("hello-after-hrr")
			if obs.CH[1].Cookie != nil {
				c.Probe("hello-with-cookie")
			}
		}
		for _, h := range obs.CH {
			if len(h.PSKIdentities) > 0 {
				c.Probe("hello-with-psk")
			}
			if h.HasSessionTicket && len(h.SessionTicket) > 0 {
				c.Probe("hello-with-ticket")
			}
		}
		if len(obs.CHRaw) > 0 || o.BuildErr != nil || o.CErr != nil {
			c.R.NonTrivial = true
		}
		if obs.CHErr != nil {
			c.Violate("malformed-clienthello "+idi.Name+" "+errClass(obs.CHErr), "conn %d %s: %v; build=%v cerr=%v", i, c.R.Class, obs.CHErr, o.BuildErr, o.CErr)
			break
		}
		// anything the client put on the wire must be whole records
		if _, rest, _ := wire.ParseRecords(o.Link.AB.Sent); len(rest) != 0 {
			c.Violate("partial-record-on-wire "+idi.Name, "conn %d: %d trailing bytes after the last complete record; cerr=%v", i, len(rest), o.CErr)
		}
		// second opinion: a server that calls the hello undecodable although the grammar accepted it
		if o.SErr != nil && (strings.Contains(o.SErr.Error(), "malformed") || strings.Contains(o.SErr.Error(), "decode error") || strings.Contains(o.SErr.Error(), "unmarshal")) && len(obs.CH) > 0 && o.Link.AB.FlipAt < 0 {
			c.Violate("server-cannot-parse-hello "+idi.Name, "conn %d %s: server error %v", i, c.R.Class, o.SErr)
		}
		if len(obs.CH) > 0 {
			c.R.Class += fmt.Sprintf(" len=%d", len(obs.CH[0].Raw))
		}
	}
	c.Finish(w, true)
	if c.R.Run%600 == 0 {
		c.R.Sample = map[string]any{"fingerprint": idi.Name, "kind": kind, "spec": specDesc, "server_name": sn, "protos": protos, "history": history, "peer": peerName(peer), "server_max": srvMax, "force_hrr": forceHRR}
	}
}

// errClass keeps the stable head of an error message for violation classes.
func errClass(err error) string {
	s := err.Error()
	if i := strings.Index(s, ": "); i >= 0 && i < 40 {
		rest := s[i+2:]
		if j := strings.IndexAny(rest, "0123456789"); j > 8 {
			rest = rest[:j]
		}
		if len(rest) > 70 {
			rest = rest[:70]
		}
		return s[:i] + ": " + strings.TrimSpace(rest)
	}
	if len(s) > 80 {
		s = s[:80]
	}
	return s
}
