package scen

import (
	"bytes"
	stdtls "crypto/tls"
	"fmt"

	tls "github.com/refraction-networking/utls"
	"github.com/refraction-networking/utls/zz_verif/refsrv"
	"github.com/refraction-networking/utls/zz_verif/simnet"
	"github.com/refraction-networking/utls/zz_verif/simrand"
	"github.com/refraction-networking/utls/zz_verif/simrt"
	"github.com/refraction-networking/utls/zz_verif/wire"
)

// C16: GREASE ECH extensions look like real outer ECH extensions.
// C17: a HelloRetryRequest changes only what RFC 8446 allows.
// C18: key shares are fresh, correctly sized, and backed by the matching private key.

func init() {
	Register("C16", &Info{
		Run:   runC16,
		Quick: 2400, Thor: 300000,
		Rule: "a world = one parrot whose spec carries a GREASE ECH extension (Chrome 120/120_PQ/131/133, Firefox 120, generated specs with BoringGREASEECH) and no real ECH config, one real connection against a plain or HelloRetryRequest-forcing server (repository, std, or the reference server whose HelloRetryRequest also carries a cookie; hellos taken from the wire), optionally while 10-60 other hellos are built by another task of the same process at a drawn scheduler step, plus 11 further hellos built in the same world; oracle: outer type, KDF/AEAD pair from the spec's candidate list, 32-byte encapsulated key, payload length = candidate + 16, identical extension bytes in CH1 and CH2, config id / key / payload not all equal across the 12 connections; non-trivial = GREASE ECH extension on the wire (HRR stratum: CH2 exists); distinct = (parrot, kdf, aead, payload length, hrr)",
		Assumptions: []string{"the candidate lists are read from the public fields of the spec's GREASEEncryptedClientHelloExtension (they are the definition of the expected values)",
			"freshness: 12 draws of an 8-bit config id all equal has probability 256^-11 for a uniform source"},
		Real: []string{"utls client from /repo", "utls or std server"},
		Stub: []string{"transport, clock, crypto/rand"},
	})
	Register("C17", &Info{
		Run:   runC17,
		Quick: 7500, Thor: 1000000,
		Rule: "a world = one TLS 1.3 fingerprint (parrots by stratum, randomized, generated specs; no PSK, no real ECH) x one classical group the hello lists but sent no share for, forced by the server's single-entry CurvePreferences (repository server, std server, or the reference server which also puts a cookie of 1..4000 bytes, including the lengths around 255/256/511/512, into the HelloRetryRequest); 15% of the worlds send a HelloRetryRequest the client must refuse (group of any share already sent, or unlisted group; with or without cookie); oracle: structural diff of CH1 and CH2 taken from the wire (everything equal except key_share, cookie, padding), key_share = exactly one share of the requested group with the right size, handshake completes and echoes; non-trivial = CH2 exists; distinct = (fingerprint, group, peer)",
		Assumptions: []string{"a refused HelloRetryRequest = no second ClientHello on the wire and no completed handshake"},
		Real:        []string{"utls client from /repo", "utls or std server"},
		Stub:        []string{"transport, clock, crypto/rand"},
	})
	Register("C18", &Info{
		Run:   runC18,
		Quick: 6000, Thor: 800000,
		Rule: "a world = one fingerprint x 3 real connections in which the server is configured to select one of the shares the hello carries (each offered share in turn, by run index) + 6 further hellos built in the same world; oracle: every non-GREASE share on the wire has the size its group requires (X25519 32, P-256 65, P-384 97, P-521 133, hybrids 1216), no key share / client random / non-empty session id repeats among the world's hellos, the handshake completes for the selected share (equal secrets = Finished verifies and data echoes); non-trivial = the server selected a share the hello carried; distinct = (fingerprint, selected group, share index)",
		Assumptions: []string{"QUIC hellos (empty legacy session id) are checked under C23"},
		Real:        []string{"utls client from /repo", "utls or std server"},
		Stub:        []string{"transport, clock, crypto/rand"},
	})
}

var echParrots []IDInfo

func greaseECHOf(spec *tls.ClientHelloSpec) *tls.GREASEEncryptedClientHelloExtension {
	for _, e := range spec.Extensions {
		if g, ok := e.(*tls.GREASEEncryptedClientHelloExtension); ok {
			return g
		}
	}
	return nil
}

func runC16(c *Ctx) {
	ch := c.Ch
	if echParrots == nil {
		for _, p := range AllParrots {
			if s, err := tls.UTLSIdToSpec(p.ID); err == nil && greaseECHOf(&s) != nil {
				echParrots = append(echParrots, p)
			}
		}
	}
	var idi IDInfo
	var newSpec func() *tls.ClientHelloSpec
	kind := "id"
	if ch.Bool(20, "custom") {
		for try := 0; try < 30; try++ {
			newSpec, _ = GenSpecFactory(ch, true)
			if greaseECHOf(newSpec()) != nil {
				break
			}
		}
		if greaseECHOf(newSpec()) == nil {
			newSpec = nil
		} else {
			kind = "custom"
			idi = IDInfo{"Custom", tls.HelloCustom}
		}
	}
	if newSpec == nil {
		idi = echParrots[int(c.Run)%len(echParrots)]
	}
	var cand *tls.GREASEEncryptedClientHelloExtension
	if newSpec != nil {
		cand = greaseECHOf(newSpec())
	} else {
		s, _ := tls.UTLSIdToSpec(idi.ID)
		cand = greaseECHOf(&s)
	}
	forceHRR := ch.Bool(45, "hrr")
	peer := ch.Pick(2, "peer")
	w := c.NewWorld(simrt.Config{})
	mk := func() *tls.Config {
		return &tls.Config{ServerName: "example.test", InsecureSkipVerify: true, OmitEmptyPsk: true, PreferSkipResumptionOnNilExtension: true}
	}
	scfg := &tls.Config{Certificates: []tls.Certificate{Cert("ecdsa").U, Cert("rsa").U}}
	stdcfg := &stdtls.Config{Certificates: []stdtls.Certificate{Cert("ecdsa").S, Cert("rsa").S}}
	if forceHRR {
		scfg.CurvePreferences = []tls.CurveID{tls.CurveP384}
		stdcfg.CurvePreferences = []stdtls.CurveID{stdtls.CurveP384}
	}
	// a third of the HelloRetryRequest worlds use the reference server, whose HelloRetryRequest also
	// carries a cookie (the second hello then gains an extension the spec did not have)
	var rcfg *refsrv.Config
	cookie := false
	if forceHRR && ch.Bool(40, "hrr-cookie") {
		peer = PeerRef
		rcfg = refCfg()
		rcfg.CurvePreferences = []refsrv.CurveID{refsrv.CurveP384}
		ck := make([]byte, ch.Range(1, 300, "cookie-len"))
		ch.Bytes(ck, "cookie")
		rcfg.Byz.HRRCookie = ck
		cookie = true
	}
	// other connections of the same process build their hellos while this one is in flight
	busy := 0
	if ch.Bool(30, "busy-process") {
		busy = ch.Range(10, 60, "busy-n")
		at := ch.Range(0, 14, "busy-at")
		w.Go("others", func() {
			simrt.WaitSteps(at)
			for i := 0; i < busy; i++ {
				DryHello(mk(), idi.ID, freshSpec(newSpec))
			}
		})
	}
	sp := &ConnSpec{ID: idi.ID, Spec: freshSpec(newSpec), CCfg: mk(), Peer: peer, SCfg: scfg, StdCfg: stdcfg, RefCfg: rcfg, Payload: [][]byte{[]byte("x")},
		Setup: func(l *simnet.Link) { l.Frag = ch.Bool(30, "frag") }}
	o := RunConn(c, w, sp)
	c.Finish(w, true)
	obs := ObserveHellos(o.Link)
	c.R.Class = fmt.Sprintf("%s/%s hrr=%v cookie=%v busy=%d", kind, idi.Name, forceHRR, cookie, busy)
	if c.R.Violation != nil {
		return
	}
	if obs.CHErr != nil {
		c.Violate("malformed-clienthello "+idi.Name, "%v", obs.CHErr)
		return
	}
	if len(obs.CH) == 0 {
		c.R.Harness = "no hello on the wire: " + o.Describe()
		return
	}
	check := func(h *wire.ClientHello, where string) bool {
		if h.ECH == nil {
			c.Violate("grease-ech-missing-or-not-outer "+kind, "%s %s: inner=%v", c.R.Class, where, h.ECHInner)
			return false
		}
		e := h.ECH
		okSuite := len(cand.CandidateCipherSuites) == 0
		for _, cs := range cand.CandidateCipherSuites {
			if cs.KdfId == e.KDF && cs.AeadId == e.AEAD {
				okSuite = true
			}
		}
		if !okSuite {
			c.Violate("grease-ech-suite-not-a-candidate "+kind, "%s %s: kdf=%#x aead=%#x candidates=%v", c.R.Class, where, e.KDF, e.AEAD, cand.CandidateCipherSuites)
			return false
		}
		if len(e.Enc) != 32 {
			c.Violate("grease-ech-enc-length "+kind, "%s %s: encapsulated key is %d bytes", c.R.Class, where, len(e.Enc))
			return false
		}
		okLen := false
		cands := cand.CandidatePayloadLens
		if len(cands) == 0 {
			cands = []uint16{128}
		}
		for _, l := range cands {
			if len(e.Payload) == int(l)+16 {
				okLen = true
			}
		}
		if !okLen {
			c.Violate("grease-ech-payload-length "+kind, "%s %s: payload %d bytes, candidates %v (+16)", c.R.Class, where, len(e.Payload), cands)
			return false
		}
		return true
	}
	if !check(obs.CH[0], "CH1") {
		return
	}
	c.R.NonTrivial = !forceHRR || len(obs.CH) > 1
	if len(obs.CH) > 1 {
		c.Probe("hrr")
		if cookie {
			c.Probe("hrr-with-cookie")
		}
		a, _ := obs.CH[0].Ext(0xfe0d)
		b, ok := obs.CH[1].Ext(0xfe0d)
		if !ok || !bytes.Equal(a.Data, b.Data) {
			c.Violate("grease-ech-changed-after-hrr "+kind, "%s: CH1 ext %d bytes, CH2 present=%v equal=false", c.R.Class, len(a.Data), ok)
			return
		}
	}
	e0 := obs.CH[0].ECH
	c.R.Class += fmt.Sprintf(" kdf=%x aead=%x plen=%d", e0.KDF, e0.AEAD, len(e0.Payload))
	ids := map[uint8]bool{e0.ConfigID: true}
	encs := map[string]bool{string(e0.Enc): true}
	pls := map[string]bool{string(e0.Payload): true}
	n := 1
	for i := 0; i < 11; i++ {
		h, err := DryHello(mk(), idi.ID, freshSpec(newSpec))
		if err != nil {
			c.R.Harness = "dry build: " + err.Error()
			return
		}
		if !check(h, fmt.Sprintf("extra%d", i)) {
			return
		}
		ids[h.ECH.ConfigID] = true
		encs[string(h.ECH.Enc)] = true
		pls[string(h.ECH.Payload)] = true
		n++
	}
	if len(ids) < 2 {
		c.Violate("grease-ech-config-id-not-fresh "+kind, "%s: %d connections used config id %v", c.R.Class, n, ids)
	}
	if len(encs) < n {
		c.Violate("grease-ech-key-repeats "+kind, "%s: %d distinct encapsulated keys in %d connections", c.R.Class, len(encs), n)
	}
	if len(pls) < n {
		c.Violate("grease-ech-payload-repeats "+kind, "%s: %d distinct payloads in %d connections", c.R.Class, len(pls), n)
	}
	if c.R.Run%200 == 0 {
		c.R.Sample = map[string]any{"fingerprint": idi.Name, "hrr": forceHRR, "kdf": e0.KDF, "aead": e0.AEAD, "payload_len": len(e0.Payload), "distinct_config_ids": len(ids)}
	}
}

var shareSize = map[uint16]int{29: 32, 23: 65, 24: 97, 25: 133, 4588: 1216, 0x6399: 1216}

func runC17(c *Ctx) {
	ch := c.Ch
	stratum := int64(-1)
	if c.Run%2 == 0 {
		stratum = c.Run / 2
	}
	w := c.NewWorld(simrt.Config{})
	f := PickFingerprint(ch, stratum, negCfg)
	dry, err := DryHello(negCfg(), f.IDI.ID, f.Spec())
	if err != nil {
		c.R.Harness = "dry build: " + err.Error()
		return
	}
	of := OfferOf(dry, 0)
	c.R.Class = fmt.Sprintf("%s/%s", f.Kind, f.IDI.Name)
	if !has16(of.Versions, 0x0304) {
		return // not a TLS 1.3 fingerprint: trivial world
	}
	if ch.Bool(15, "invalid-hrr") {
		// a HelloRetryRequest the client must refuse: for a group it already sent a share for (any of
		// its shares, not only the first) or for a group it does not list; with or without a cookie
		var shared []uint16
		for _, g := range of.Shares {
			if g == 23 || g == 24 || g == 25 || g == 29 {
				shared = append(shared, g)
			}
		}
		rcfg := refCfg()
		rcfg.NextProtos = of.ALPN
		what := "already-shared"
		var g uint16
		if len(shared) > 0 && ch.Bool(70, "already-shared") {
			g = shared[ch.Pick(len(shared), "shared-idx")]
		} else if u, ok := firstNotIn([]uint16{25, 24, 23, 29}, of.Groups); ok {
			g, what = u, "unlisted"
		} else {
			return
		}
		rcfg.Byz.HRRGroup, rcfg.Byz.HRRAlways = refsrv.CurveID(g), true
		if ch.Bool(40, "cookie") {
			rcfg.Byz.HRRCookie = []byte("invalid-hrr-cookie")
		}
		// modifier: the caller's Config value is shared with a second connection of another fingerprint
		// (other groups) that is built while the first ClientHello is in flight - what this client
		// offered is the hello on the wire, never the shared Config
		iccfg := negCfg()
		noise := ch.Bool(30, "shared-config-noise")
		if noise {
			pol := []IDInfo{{"Firefox_120", tls.HelloFirefox_120}, {"Firefox_105", tls.HelloFirefox_105}, {"Chrome_100", tls.HelloChrome_100}, {"Golang", tls.HelloGolang}}[ch.Pick(4, "noise-id")]
			at := ch.Range(0, 14, "noise-at")
			w.Go("noise", func() {
				simrt.WaitSteps(at)
				u := tls.UClient(simnet.NewLink("noise").A, iccfg, pol.ID)
				u.BuildHandshakeState()
			})
			c.Fault("shared-config", 1)
		}
		o := RunConn(c, w, &ConnSpec{ID: f.IDI.ID, Spec: f.Spec(), CCfg: iccfg, Peer: PeerRef, RefCfg: rcfg, Payload: [][]byte{[]byte("no")},
			Setup: func(l *simnet.Link) { l.Frag = ch.Bool(40, "frag") }})
		c.Finish(w, true)
		c.R.Class += fmt.Sprintf(" invalid-hrr=%s g=%d shares=%v cookie=%v noise=%v", what, g, of.Shares, len(rcfg.Byz.HRRCookie) > 0, noise)
		if c.R.Violation != nil {
			return
		}
		obs := ObserveHellos(o.Link)
		if len(obs.SH) == 0 || !obs.SH[0].IsHRR {
			c.R.Harness = "invalid-hrr stratum: no HelloRetryRequest on the wire: " + o.Describe()
			return
		}
		c.R.NonTrivial = true
		c.Probe("invalid-hrr-" + what)
		if len(obs.CH) > 1 || o.CDone {
			c.Violate(fmt.Sprintf("invalid-hrr-followed %s %s", what, f.Kind), "%s: the client answered with a second ClientHello (count=%d, completed=%v) instead of aborting", c.R.Class, len(obs.CH), o.CDone)
		}
		return
	}
	peer := ch.Pick(3, "peer") // 2 = reference server, which adds a cookie to the HelloRetryRequest
	var cands []uint16
	for _, g := range of.Groups {
		if (g == 23 || g == 24 || g == 25 || g == 29 || g == 4588) && !has16(of.Shares, g) {
			cands = append(cands, g) // (4588: a hybrid group listed without a share - some randomized and hand-written specs)
		}
	}
	if len(cands) == 0 {
		return
	}
	g := cands[ch.Pick(len(cands), "group")]
	plan := &NegPlan{Peer: peer, Group: g}
	scfg, stdcfg := ServerConfigs(plan)
	payload := genPayload(ch)
	var cookie []byte
	rcfg := refCfg()
	if peer == PeerRef {
		cookie = make([]byte, []int{1, 2, 32, 200, 253, 254, 255, 256, 257, 510, 511, 512, 1000, 4000}[ch.Pick(14, "cookie-len")])
		ch.Bytes(cookie, "cookie")
		rcfg.CurvePreferences = []refsrv.CurveID{refsrv.CurveID(g)}
		rcfg.Byz.HRRCookie = cookie
		rcfg.NextProtos = of.ALPN
	}
	sp := &ConnSpec{ID: f.IDI.ID, Spec: f.Spec(), CCfg: negCfg(), Peer: peer, SCfg: scfg, StdCfg: stdcfg, RefCfg: rcfg, Payload: payload,
		Setup: func(l *simnet.Link) { l.Frag = ch.Bool(40, "frag") }}
	o := RunConn(c, w, sp)
	c.Finish(w, true)
	obs := ObserveHellos(o.Link)
	c.R.Class += fmt.Sprintf(" g=%d peer=%s", g, peerName(peer))
	if c.R.Violation != nil {
		return
	}
	if obs.CHErr != nil {
		c.Violate("malformed-clienthello "+f.IDI.Name, "%v", obs.CHErr)
		return
	}
	if len(obs.CH) < 2 {
		if len(obs.SH) > 0 && obs.SH[0].IsHRR {
			nc := 0
			for _, s := range of.Shares {
				if s != 4588 && s != 0x6399 {
					nc++
				}
			}
			sel := "hrr-classical"
			if nc == 0 {
				sel = "no-classical-share-in-hello"
			}
			c.Violate(fmt.Sprintf("no-second-hello-after-hrr %s sel=%s %s", f.Kind, sel, negErrClass(o)), "%s: %s", c.R.Class, o.Describe())
		} else {
			c.R.Harness = fmt.Sprintf("server did not send a HelloRetryRequest: %s shares=%v groups=%v", o.Describe(), of.Shares, of.Groups)
		}
		return
	}
	c.R.NonTrivial = true
	a, b := obs.CH[0], obs.CH[1]
	diff := func(what string, format string, args ...any) {
		c.Violate("hrr-changed-"+what+" "+f.Kind, "%s: "+format, append([]any{c.R.Class}, args...)...)
	}
	if a.LegacyVersion != b.LegacyVersion {
		diff("legacy-version", "%x -> %x", a.LegacyVersion, b.LegacyVersion)
	}
	if !bytes.Equal(a.Random, b.Random) {
		diff("random", "client random differs between CH1 and CH2")
	}
	if !bytes.Equal(a.SessionID, b.SessionID) {
		diff("session-id", "%x -> %x", a.SessionID, b.SessionID)
	}
	if fmt.Sprint(a.CipherSuites) != fmt.Sprint(b.CipherSuites) {
		diff("cipher-suites", "%x -> %x", a.CipherSuites, b.CipherSuites)
	}
	if !bytes.Equal(a.Compression, b.Compression) {
		diff("compression", "%x -> %x", a.Compression, b.Compression)
	}
	// extension sequence modulo padding and cookie
	seq := func(h *wire.ClientHello) []uint16 {
		var ts []uint16
		for _, e := range h.Extensions {
			if e.Type != 21 && e.Type != 44 {
				ts = append(ts, e.Type)
			}
		}
		return ts
	}
	if fmt.Sprint(seq(a)) != fmt.Sprint(seq(b)) {
		diff("extension-order", "%v -> %v", seq(a), seq(b))
	}
	for _, e := range a.Extensions {
		if e.Type == 21 || e.Type == 44 || e.Type == 51 {
			continue
		}
		e2, ok := b.Ext(e.Type)
		if !ok {
			continue // reported by the order check
		}
		if !bytes.Equal(e.Data, e2.Data) {
			diff(fmt.Sprintf("extension-%d", e.Type), "body %x -> %x", e.Data, e2.Data)
		}
	}
	if len(b.KeyShares) != 1 || b.KeyShares[0].Group != g {
		var gs []uint16
		for _, k := range b.KeyShares {
			gs = append(gs, k.Group)
		}
		diff("key-share-not-single-requested-group", "CH2 key_share groups %v, requested %d", gs, g)
	} else if len(b.KeyShares[0].Data) != shareSize[g] {
		diff("key-share-size", "group %d share is %d bytes", g, len(b.KeyShares[0].Data))
	} else if bytes.Contains(a.Raw, b.KeyShares[0].Data) {
		// "fresh": the new share is not key material that already went out in the first hello
		// (e.g. the X25519 half of a hybrid share)
		diff("key-share-not-fresh", "the %d-byte share of group %d in CH2 already occurs in CH1", len(b.KeyShares[0].Data), g)
	} else if g == 0x11ec || g == 0x6399 {
		// a hybrid share requested by the HelloRetryRequest: its X25519 half may not be a key that the
		// first hello already sent either (on its own or inside another share)
		d := b.KeyShares[0].Data
		half := d[len(d)-32:]
		if g == 0x6399 {
			half = d[:32]
		}
		if bytes.Contains(a.Raw, half) {
			diff("key-share-not-fresh", "the X25519 half of the group %d share in CH2 already occurs in CH1", g)
		}
		c.Probe("hrr-to-hybrid-group")
	}
	if cookie == nil && b.Cookie != nil {
		diff("cookie-invented", "CH2 carries a cookie although the server sent none")
	}
	if cookie != nil {
		c.Probe("hrr-with-cookie")
		if !bytes.Equal(b.Cookie, cookie) {
			diff("cookie-not-echoed", "server cookie %d bytes, CH2 cookie %d bytes (present=%v)", len(cookie), len(b.Cookie), b.Cookie != nil)
		}
		if a.Cookie != nil {
			diff("cookie-in-first-hello", "CH1 already carries a cookie")
		}
		if i := b.ExtIndex(41); i >= 0 && i != len(b.Extensions)-1 {
			diff("psk-not-last-after-cookie", "pre_shared_key at %d of %d", i, len(b.Extensions))
		}
	}
	if err := CheckBoringPadding(b); err != nil && hasPadding(a, b) {
		c.Probe("ch2-padding-checked")
		if padSpecBoring(f) {
			diff("padding-rule", "%v", err)
		}
	}
	if !(o.CDone && o.SDone) {
		c.Violate(fmt.Sprintf("handshake-failed-after-hrr %s %s", f.Kind, negErrClass(o)), "%s: %s", c.R.Class, o.Describe())
		return
	}
	var sent []byte
	for _, p := range payload {
		sent = append(sent, p...)
	}
	if !bytes.Equal(o.CRead, sent) || !bytes.Equal(o.SRead, sent) {
		c.Violate("echo-mismatch-after-hrr "+f.Kind, "%s: sent %d server %d client %d", c.R.Class, len(sent), len(o.SRead), len(o.CRead))
	}
	if c.R.Run%300 == 0 {
		c.R.Sample = map[string]any{"fingerprint": f.IDI.Name, "kind": f.Kind, "group": g, "peer": peerName(peer), "ch1_len": len(a.Raw), "ch2_len": len(b.Raw)}
	}
}

func hasPadding(a, b *wire.ClientHello) bool { return a.HasPadding || b.HasPadding }

// padSpecBoring: the fingerprint's padding extension follows the BoringSSL rule (not a
// fingerprinted AlwaysPadToLen policy).
func padSpecBoring(f *Fingerprint) bool { return f.Kind != "fingerprinted" }

func runC18(c *Ctx) {
	ch := c.Ch
	stratum := int64(-1)
	if c.Run%2 == 0 {
		stratum = c.Run / 2
	}
	w := c.NewWorld(simrt.Config{})
	// the random source of the world's connections: the ambient one, or a Config.Rand reader that
	// returns legal short reads (fewer bytes than asked for, no error)
	var rs *simrand.Stream
	chunkMode := 0
	if ch.Bool(30, "config-rand") {
		rs = simrand.NewStream(ch.U64("config-rand-seed"))
		chunkMode = []int{0, 1, 5, 16, 31}[ch.Pick(5, "rand-chunk")]
		rs.MaxChunk = chunkMode
	}
	negCfg := func() *tls.Config {
		cfg := negCfg()
		if rs != nil {
			cfg.Rand = rs
		}
		return cfg
	}
	f := PickFingerprint(ch, stratum, negCfg)
	dry, err := DryHello(negCfg(), f.IDI.ID, f.Spec())
	if err != nil {
		c.R.Harness = "dry build: " + err.Error()
		return
	}
	of := OfferOf(dry, 0)
	c.R.Class = fmt.Sprintf("%s/%s rand=%v/%d", f.Kind, f.IDI.Name, rs != nil, chunkMode)
	// a fifth of the worlds: the hellos of the world are built over a session cache that holds a
	// TLS 1.2 ticket of this server (the same ticket is offered by every hello that follows: the
	// server is never reached again) - randoms, session ids and shares must still be fresh
	var ticketCache tls.ClientSessionCache
	if has16(of.Versions, 0x0303) && ch.Bool(20, "cached-tls12-ticket") {
		ticketCache = tls.NewLRUClientSessionCache(4)
		inner := negCfg
		negCfg = func() *tls.Config {
			cfg := inner()
			cfg.ClientSessionCache = ticketCache
			return cfg
		}
		p0 := &NegPlan{Peer: ch.Pick(2, "ticket-peer"), Version: tls.VersionTLS12}
		u0, s0 := ServerConfigs(p0)
		o0 := RunConn(c, w, &ConnSpec{Name: "ticket", ID: f.IDI.ID, Spec: f.Spec(), CCfg: negCfg(), Peer: p0.Peer, SCfg: u0, StdCfg: s0, Payload: [][]byte{[]byte("ping")}})
		if o0.CDone {
			c.Probe("tls12-ticket-cached")
		}
		c.R.Class += " cached-ticket"
	}
	var hellos []*wire.ClientHello
	var connOf []int // which connection each hello belongs to (the two hellos around a HelloRetryRequest share one)
	nextConn := 0
	hellos = append(hellos, dry)
	connOf = append(connOf, nextConn)
	nextConn++
	shareIdx := 0
	if len(of.Shares) > 0 {
		shareIdx = int(c.Run/2) % len(of.Shares)
	}
	for i := 0; i < 3; i++ {
		peer := ch.Pick(2, "peer")
		plan := &NegPlan{Peer: peer}
		sel := uint16(0)
		if len(of.Shares) > 0 && has16(of.Versions, 0x0304) {
			g := of.Shares[(shareIdx+i)%len(of.Shares)]
			// a share whose group is missing from supported_groups is not an offered group
			// (that inconsistency is C09's business)
			if g != 0x6399 && (peer != PeerStd || StdGroups[g]) && has16(of.Groups, g) {
				plan.Group = g
				sel = g
			}
			if g == 0x6399 && has16(of.Groups, g) {
				// X25519Kyber768Draft00: only the reference server implements its server side
				peer, sel = PeerRef, g
				plan.Peer = PeerRef
			}
		}
		scfg, stdcfg := ServerConfigs(plan)
		var rcfg *refsrv.Config
		// a stateless server: HelloRetryRequest with a cookie and no key_share, after which the server
		// selects one of the (unchanged) shares - the private keys of all of them must survive the retry
		cookieOnly := sel != 0 && sel != 0x6399 && ch.Bool(20, "cookie-only-hrr")
		if cookieOnly {
			peer = PeerRef
			plan.Peer = PeerRef
		}
		if peer == PeerRef {
			rcfg = refCfg()
			rcfg.NextProtos = of.ALPN
			rcfg.Byz.KyberDraft = true
			if cookieOnly {
				rcfg.CurvePreferences = []refsrv.CurveID{refsrv.CurveID(sel)}
				rcfg.Byz.HRRCookie = []byte("stateless-cookie")
				rcfg.Byz.HRRAlways, rcfg.Byz.HRRCookieOnly = true, true
			}
		}
		sp := &ConnSpec{Name: fmt.Sprintf("c%d", i), ID: f.IDI.ID, Spec: f.Spec(), CCfg: negCfg(), Peer: peer, SCfg: scfg, StdCfg: stdcfg, RefCfg: rcfg, Payload: [][]byte{[]byte("ping")}}
		// the hello may be built explicitly first (with or without session), once or twice: the keys
		// retained must still be those of the shares that go out
		if pb := ch.Pick(5, "prebuild"); pb > 0 && f.IDI.ID != tls.HelloGolang {
			sp.Prep = func(u *tls.UConn) error {
				if pb == 1 || pb == 3 {
					if err := u.BuildHandshakeStateWithoutSession(); err != nil {
						return err
					}
				}
				if pb == 2 || pb == 3 {
					return u.BuildHandshakeState()
				}
				return nil
			}
			c.R.Class += fmt.Sprintf(" prebuild=%d", pb)
		}
		o := RunConn(c, w, sp)
		obs := ObserveHellos(o.Link)
		if obs.CHErr != nil {
			c.Violate("malformed-clienthello "+f.IDI.Name, "%v", obs.CHErr)
			break
		}
		for _, h := range obs.CH {
			hellos = append(hellos, h)
			connOf = append(connOf, nextConn)
		}
		nextConn++
		if sel != 0 {
			c.R.NonTrivial = true
			c.R.Class += fmt.Sprintf(" sel=%d", sel)
			r := &NegResult{F: f, Plan: plan, Offer: of, O: o, Obs: obs}
			if !(o.CDone && o.SDone) {
				who := "client-aborted"
				if o.ServerRejected() {
					who = "server-rejected"
				}
				c.Violate(fmt.Sprintf("%s %s sel=%s cookie-only-hrr=%v %s", who, f.Kind, selClass(r), cookieOnly, negErrClass(o)), "%s conn %d: selected group %d of shares %v: %s", c.R.Class, i, sel, of.Shares, o.Describe())
			} else {
				if cookieOnly {
					c.Probe("cookie-only-hrr-completed")
				}
				if len(obs.SH) > 0 && obs.SH[0].IsHRR && !cookieOnly {
					c.Violate("hrr-although-share-was-sent "+f.Kind, "%s: server asked for group %d again", c.R.Class, sel)
				}
				if string(o.CRead) != "ping" {
					c.Violate("echo-mismatch "+f.Kind, "%s conn %d", c.R.Class, i)
				}
				c.Probe(fmt.Sprintf("selected-share-%d", sel))
			}
		}
	}
	ndry := 6
	if chunkMode == 1 {
		ndry = 40 // one byte per read: a value derived from a single read has at most 256 outcomes
	}
	for i := 0; i < ndry; i++ {
		h, err := DryHello(negCfg(), f.IDI.ID, f.Spec())
		if err != nil {
			break
		}
		hellos = append(hellos, h)
		connOf = append(connOf, nextConn)
		nextConn++
	}
	c.Finish(w, true)
	sameConn := func(_ []*wire.ClientHello, i, j int) bool { return connOf[i] == connOf[j] }
	if c.R.Violation != nil {
		return
	}
	seenShare := map[string]int{}
	seenRand := map[string]int{}
	seenSid := map[string]int{}
	seenChunk := map[string]int{}
	for i, h := range hellos {
		for _, k := range h.KeyShares {
			if wire.IsGREASE(k.Group) {
				continue
			}
			if want, ok := shareSize[k.Group]; ok && len(k.Data) != want {
				c.Violate(fmt.Sprintf("key-share-size group=%d %s", k.Group, f.Kind), "%s hello %d: share of group %d is %d bytes, want %d", c.R.Class, i, k.Group, len(k.Data), want)
			}
			key := fmt.Sprintf("%d:%x", k.Group, k.Data)
			if j, dup := seenShare[key]; dup && !sameConn(hellos, i, j) {
				c.Violate("key-share-repeats "+f.Kind, "%s: hellos %d and %d carry the same share for group %d", c.R.Class, j, i, k.Group)
			}
			seenShare[key] = i
			// a hybrid share has two independently generated halves: neither may repeat on its own
			// (a half derived from a short read of Config.Rand repeats although the whole share does not)
			if want := shareSize[k.Group]; (k.Group == 0x11ec || k.Group == 0x6399) && len(k.Data) == want {
				cut := 1184
				if k.Group == 0x6399 {
					cut = 32
				}
				for hi, half := range [][]byte{k.Data[:cut], k.Data[cut:]} {
					hk := fmt.Sprintf("%d/%d:%x", k.Group, hi, half)
					if j, dup := seenShare[hk]; dup && !sameConn(hellos, i, j) {
						c.Violate(fmt.Sprintf("key-share-half-repeats group=%d %s chunk=%d", k.Group, f.Kind, chunkMode), "%s: hellos %d and %d carry the same %s half of the hybrid share", c.R.Class, j, i, []string{"first", "second"}[hi])
					}
					seenShare[hk] = i
				}
			}
		}
		if j, dup := seenRand[string(h.Random)]; dup && !sameConn(hellos, i, j) {
			c.Violate("client-random-repeats "+f.Kind, "%s: hellos %d and %d", c.R.Class, j, i)
		}
		seenRand[string(h.Random)] = i
		// no 8-byte window of a client random may be shared by two connections either (chance 2^-64
		// per pair for a working source; a reader's short reads are no excuse)
		for off := 0; off+8 <= len(h.Random); off += 8 {
			key := fmt.Sprintf("%d:%x", off, h.Random[off:off+8])
			if j, dup := seenChunk[key]; dup && !sameConn(hellos, i, j) && !bytes.Equal(hellos[i].Random, hellos[j].Random) {
				c.Violate(fmt.Sprintf("client-random-partly-repeats %s chunk=%d", f.Kind, chunkMode), "%s: hellos %d and %d share bytes %d..%d of their randoms (%x)", c.R.Class, j, i, off, off+8, h.Random[off:off+8])
			}
			seenChunk[key] = i
		}
		if len(h.SessionID) > 0 {
			if j, dup := seenSid[string(h.SessionID)]; dup && !sameConn(hellos, i, j) {
				c.Violate("session-id-repeats "+f.Kind, "%s: hellos %d and %d", c.R.Class, j, i)
			}
			seenSid[string(h.SessionID)] = i
		}
	}
	if c.R.Run%300 == 0 {
		c.R.Sample = map[string]any{"fingerprint": f.IDI.Name, "kind": f.Kind, "shares": of.Shares, "hellos_compared": len(hellos)}
	}
}

// sameConn: CH1/CH2 of one connection legitimately share random and session id.
func sameConn(hs []*wire.ClientHello, i, j int) bool {
	return bytes.Equal(hs[i].Random, hs[j].Random) && i-j == 1 && bytes.Equal(hs[i].SessionID, hs[j].SessionID) && len(hs[i].KeyShares) <= 1
}
