package scen

import (
	"bytes"
	stdtls "crypto/tls"
	"fmt"
	"strings"
	"time"

	tls "github.com/refraction-networking/utls"
	"github.com/refraction-networking/utls/zz_verif/simnet"
	"github.com/refraction-networking/utls/zz_verif/simrt"
	"github.com/refraction-networking/utls/zz_verif/wire"
)

// C19: session resumption works and never breaks the next handshake.

func init() {
	Register("C19", &Info{
		Run:   runC19,
		Quick: 6000, Thor: 1000000,
		Rule: "a world = a history of 2-6 connections over one ClientSessionCache (capacity 16, or exactly the 2-3 entries the two server names need; link latency 0-250 ms so that clocks tick inside a handshake): one fingerprint (session_ticket / pre_shared_key parrots, HelloGolang, any parrot by stratum; optionally a different fingerprint per connection, Roller style, among them a hand-written TLS 1.2 spec with session_ticket but without extended_master_secret), one server (repository or std) at TLS 1.2 or 1.3 with stable ticket keys, optionally forcing HelloRetryRequest, two server names (15% of the worlds fronted: one spoofed SNI and cache key for all connections, the names being InsecureServerNameToVerify values of which the second is covered by no certificate - such a connection must fail and must not offer the other name's session); faults between/inside connections: connection aborted at a drawn byte offset of the server's flight (only the cache and the server's ticket keys survive), client+server clock jump (hours to weeks, past the 7-day ticket lifetime), server ticket-key rotation, a flipped stored byte in the cached session's secret (that connection may fail, the next one may not); connections optionally call BuildHandshakeState explicitly (and SetClientRandom, or reduce Hello.CipherSuites to one TLS 1.3 suite so that a session made under one suite meets a server selecting another) before Handshake; oracle: (R1) every connection without an injected abort completes and echoes - a failed resumption attempt degrades to a full handshake; (R2) after a success to the same name with the same fingerprint, no rotation, clock advance < 6 days and the needed extension in the spec, the next connection resumes on both sides; (R4) a name with no earlier success is never offered a ticket or PSK; (R5) when a PSK is still offered in the second ClientHello after a HelloRetryRequest, that hello differs from the first only in key_share, cookie, padding and the PSK binder (same identity, same binder length) and pre_shared_key stays last; pre_shared_key last and hello well-formed (strict grammar); non-trivial = a later connection offered a ticket/PSK; distinct = (fingerprints, server, fault plan, names)",
		Assumptions: []string{"ticket lifetime boundary: resumption is required only when < 6 days passed since the oldest full handshake the cached session may descend from (since the last key rotation or failed resumption); no claim is made between 6 and 8 days",
			"the TLS 1.3 NewSessionTicket is processed because every connection reads its echoed application data"},
		Real: []string{"utls client and lruSessionCache from /repo", "utls or std server (real ticket sealing)"},
		Stub: []string{"transport (abort at offset), clocks (Config.Time on both nodes), crypto/rand"},
	})
}

const customNoEMS = "Custom12NoEMS"

// noEMSSpec: a TLS 1.2 hello with session_ticket and without extended_master_secret.
func noEMSSpec() *tls.ClientHelloSpec {
	return &tls.ClientHelloSpec{
		CipherSuites:       []uint16{tls.TLS_ECDHE_ECDSA_WITH_AES_128_GCM_SHA256, tls.TLS_ECDHE_RSA_WITH_AES_128_GCM_SHA256, tls.TLS_ECDHE_ECDSA_WITH_CHACHA20_POLY1305, tls.TLS_ECDHE_RSA_WITH_CHACHA20_POLY1305, tls.TLS_ECDHE_RSA_WITH_AES_128_CBC_SHA},
		CompressionMethods: []byte{0},
		TLSVersMin:         tls.VersionTLS10, TLSVersMax: tls.VersionTLS12,
		Extensions: []tls.TLSExtension{&tls.SNIExtension{}, &tls.RenegotiationInfoExtension{Renegotiation: tls.RenegotiateOnceAsClient},
			&tls.SupportedCurvesExtension{Curves: []tls.CurveID{tls.X25519, tls.CurveP256, tls.CurveP384}}, &tls.SupportedPointsExtension{SupportedPoints: []byte{0}},
			&tls.SessionTicketExtension{},
			&tls.SignatureAlgorithmsExtension{SupportedSignatureAlgorithms: []tls.SignatureScheme{tls.ECDSAWithP256AndSHA256, tls.PSSWithSHA256, tls.PKCS1WithSHA256, tls.PKCS1WithSHA1}}},
	}
}

func specHas(id tls.ClientHelloID, what string) bool {
	if id == tls.HelloGolang {
		return true
	}
	if id == tls.HelloCustom {
		return what == "ticket" // the only custom spec of this scenario: noEMSSpec
	}
	s, err := tls.UTLSIdToSpec(id)
	if err != nil {
		return false
	}
	for _, e := range s.Extensions {
		switch e.(type) {
		case *tls.SessionTicketExtension:
			if what == "ticket" {
				return true
			}
		case *tls.UtlsPreSharedKeyExtension, *tls.FakePreSharedKeyExtension:
			if what == "psk" {
				return true
			}
		case *tls.ExtendedMasterSecretExtension:
			if what == "ems" {
				return true
			}
		}
	}
	return false
}

func runC19(c *Ctx) {
	ch := c.Ch
	resumers := []IDInfo{{"Golang", tls.HelloGolang}, {"Chrome_133", tls.HelloChrome_133}, {"Chrome_112_PSK_Shuf", tls.HelloChrome_112_PSK_Shuf},
		{"Chrome_100_PSK", tls.HelloChrome_100_PSK}, {"Chrome_114_Padding_PSK_Shuf", tls.HelloChrome_114_Padding_PSK_Shuf}, {"Chrome_115_PQ_PSK", tls.HelloChrome_115_PQ_PSK},
		{"Firefox_120", tls.HelloFirefox_120}, {"Firefox_65", tls.HelloFirefox_65}, {"Safari_16_0", tls.HelloSafari_16_0}, {"IOS_14", tls.HelloIOS_14}, {"Edge_85", tls.HelloEdge_85}}
	pick := func() IDInfo {
		if ch.Bool(8, "custom-no-ems") {
			// a hand-written TLS 1.2 spec with session_ticket but without extended_master_secret
			return IDInfo{customNoEMS, tls.HelloCustom}
		}
		if ch.Bool(75, "resumer") {
			return resumers[ch.Pick(len(resumers), "id")]
		}
		return AllParrots[ch.Pick(len(AllParrots), "parrot")]
	}
	base := pick()
	if c.Run%5 == 4 {
		base = AllParrots[int(c.Run/5)%len(AllParrots)]
	}
	rolling := ch.Bool(15, "rolling")
	nconn := ch.Range(2, 6, "nconn")
	srvMax := []uint16{tls.VersionTLS13, tls.VersionTLS12}[ch.Pick(2, "srvmax")]
	peer := ch.Pick(2, "peer")
	forceHRR := ch.Bool(20, "hrr")
	names := []string{"a.test", "b.test"}
	// fronted worlds: every connection sends the same (spoofed) SNI, which is then also the cache
	// key, and authenticates the server against its own InsecureServerNameToVerify - the second of
	// which no certificate of the server covers. What keeps a session of the first name away from a
	// connection for the second is the library's re-check of the cached certificate alone.
	fronted := ch.Bool(15, "fronted")
	const frontName, uncovered = "front.test", "nomatch.test"
	if fronted {
		names[1] = uncovered
		c.Probe("fronted-world")
	}
	cacheKey := func(name string) string {
		if fronted {
			return frontName
		}
		return name
	}
	type step struct {
		id      IDInfo
		name    string
		abortAt int64
		jump    time.Duration
		rotate  bool
		corrupt bool // a stored byte of the cached session's secret flips before this connection
		prebuild int // 1: explicit BuildHandshakeState before Handshake; 2: plus SetClientRandom in between; 3: plus Hello.CipherSuites reduced to one TLS 1.3 suite; 4: BuildHandshakeStateWithoutSession, then Handshake
		keepSuite uint16
	}
	steps := make([]step, nconn)
	for i := range steps {
		s := step{id: base, name: names[0], abortAt: -1}
		if rolling && ch.Bool(50, "roll") {
			s.id = pick()
		}
		if ch.Bool(25, "other-name") {
			s.name = names[1]
		}
		if ch.Bool(15, "abort") {
			s.abortAt = int64(ch.Range(0, 5000, "abort-off"))
		}
		if i > 0 {
			s.jump = []time.Duration{0, 0, 0, time.Hour, 2 * 24 * time.Hour, 5 * 24 * time.Hour, 8 * 24 * time.Hour, 30 * 24 * time.Hour}[ch.Pick(8, "jump")]
			s.rotate = ch.Bool(8, "rotate")
			s.corrupt = ch.Bool(8, "corrupt-cached-session")
		}
		if ch.Bool(30, "prebuild") {
			s.prebuild = 1 + ch.Pick(4, "prebuild-kind")
			s.keepSuite = []uint16{tls.TLS_AES_128_GCM_SHA256, tls.TLS_CHACHA20_POLY1305_SHA256, tls.TLS_CHACHA20_POLY1305_SHA256, tls.TLS_AES_256_GCM_SHA384}[ch.Pick(4, "keep-suite")]
		}
		steps[i] = s
	}
	w := c.NewWorld(simrt.Config{})
	// the cache holds as many entries as there are server names, or more: nothing is ever evicted
	// legitimately, whatever was deleted and re-added in between
	cacheCap := []int{16, 2, 3}[ch.Pick(3, "cache-cap")]
	cache := tls.NewLRUClientSessionCache(cacheCap)
	// link latency: the clocks tick while a connection is in progress (ticket ages are computed at
	// different instants of one handshake)
	latency := time.Duration([]int{0, 0, 3, 17, 250}[ch.Pick(5, "latency-ms")]) * time.Millisecond
	var clockOff time.Duration
	now := func() time.Time { return time.Now().Add(clockOff) }
	scfg := &tls.Config{Certificates: []tls.Certificate{Cert("ecdsa").U, Cert("rsa").U}, MaxVersion: srvMax, Time: now}
	stdcfg := &stdtls.Config{Certificates: []stdtls.Certificate{Cert("ecdsa").S, Cert("rsa").S}, MaxVersion: srvMax, MinVersion: stdtls.VersionTLS10, Time: now}
	if forceHRR {
		scfg.CurvePreferences = []tls.CurveID{tls.CurveP384}
		stdcfg.CurvePreferences = []stdtls.CurveID{stdtls.CurveP384}
	}
	type succ struct {
		id     string
		at     time.Duration
		fullAt time.Duration // time of the full handshake the session descends from (ticket lifetime counts from there)
		ver    uint16
		suite  uint16
		suiteEdited bool
	}
	last := map[string]*succ{} // per server name: last successful connection since the last rotation
	everOK := map[string]bool{}
	origin := map[string]time.Duration{} // per name: oldest full handshake since the last key rotation
	pendingCorrupt := map[string]bool{}
	var plan []string
	for i, s := range steps {
		clockOff += s.jump
		if s.jump > 0 {
			c.Fault("clock-jump", 1)
		}
		if s.rotate {
			var k [32]byte
			ch.Bytes(k[:], "ticket-key")
			scfg.SetSessionTicketKeys([][32]byte{k})
			stdcfg.SetSessionTicketKeys([][32]byte{k})
			last = map[string]*succ{}
			origin = map[string]time.Duration{}
			c.Fault("key-rotation", 1)
		}
		corrupted := false
		if s.corrupt {
			if cs, ok := cache.Get(cacheKey(s.name)); ok && cs != nil {
				if m := append([]byte(nil), cs.MasterSecret()...); len(m) > 0 {
					m[ch.Pick(len(m), "corrupt-pos")] ^= 0x40
					cs.SetMasterSecret(m)
					corrupted = true
					c.Fault("stored-byte-flip", 1)
				}
			}
		}
		plan = append(plan, fmt.Sprintf("%s/%s/abort=%d/jump=%v/rot=%v/corrupt=%v/prebuild=%d", s.id.Name, s.name, s.abortAt, s.jump, s.rotate, corrupted, s.prebuild))
		cfg := &tls.Config{ServerName: s.name, RootCAs: Roots(), ClientSessionCache: cache, OmitEmptyPsk: true, Time: now}
		if fronted {
			cfg.ServerName, cfg.InsecureServerNameToVerify = frontName, s.name
		}
		abortAt := s.abortAt
		var cspec *tls.ClientHelloSpec
		if s.id.Name == customNoEMS {
			cspec = noEMSSpec()
		}
		sp := &ConnSpec{Name: fmt.Sprintf("c%d", i), ID: s.id.ID, Spec: cspec, CCfg: cfg, Peer: peer, SCfg: scfg, StdCfg: stdcfg, Payload: [][]byte{[]byte("ping-pong")},
			Setup: func(l *simnet.Link) {
				l.Frag = ch.Bool(25, "frag")
				l.AB.Latency, l.BA.Latency = latency, latency
				if abortAt >= 0 {
					l.BA.ResetAt = abortAt
				}
			}}
		suiteEdited := false
		keep := s.keepSuite
		if pb := s.prebuild; pb > 0 && s.id.ID != tls.HelloGolang {
			var rnd [32]byte
			ch.Bytes(rnd[:], "client-random")
			sp.Prep = func(u *tls.UConn) error {
				if pb == 4 {
					// inspect first: the hello is marshalled once without any session, Handshake then
					// loads the cached session into the same extensions
					return u.BuildHandshakeStateWithoutSession()
				}
				if err := u.BuildHandshakeState(); err != nil {
					return err
				}
				if pb == 2 {
					return u.SetClientRandom(rnd[:]) // documented as allowed after BuildHandshakeState
				}
				if pb == 3 {
					// documented edit of Hello.CipherSuites: only one of the offered TLS 1.3 suites stays, so
					// that the server negotiates it; a session made under one suite is later offered to a
					// server that selects another suite (same hash: it must resume or fall back, never abort)
					cs := u.HandshakeState.Hello.CipherSuites
					has := false
					for _, x := range cs {
						has = has || x == keep
					}
					if has {
						var ns []uint16
						for _, x := range cs {
							if x>>8 != 0x13 || x == keep {
								ns = append(ns, x)
							}
						}
						u.HandshakeState.Hello.CipherSuites = ns
						suiteEdited = true
					}
				}
				return nil
			}
		}
		o := RunConn(c, w, sp)
		obs := ObserveHellos(o.Link)
		aborted := o.Link.BA.Fired["reset"] > 0
		if corrupted {
			pendingCorrupt[s.name] = true
			if fronted {
				pendingCorrupt[names[0]] = true // the one cache entry belongs to the covered name
			}
		}
		if aborted {
			c.Fault("abort-conn", 0) // counted through Fired already
		}
		detail := func() string {
			return fmt.Sprintf("history %v, connection %d: %s (peer=%s max=%x hrr=%v)", plan, i, o.Describe(), peerName(peer), srvMax, forceHRR)
		}
		if obs.CHErr != nil {
			c.Violate("malformed-clienthello "+s.id.Name+" "+errClass(obs.CHErr), "%s: %v", detail(), obs.CHErr)
			break
		}
		if o.BuildErr != nil {
			c.Violate("build-error "+firstLine(o.BuildErr.Error()), "%s", detail())
			break
		}
		offered := false
		if len(obs.CH) > 0 {
			h := obs.CH[0]
			offered = len(h.PSKIdentities) > 0 || (h.HasSessionTicket && len(h.SessionTicket) > 0)
			if offered {
				c.R.NonTrivial = true
				c.Probe("offered-session")
			}
			// (R4) never for a different name
			if offered && !everOK[s.name] {
				c.Violate("session-offered-to-name-without-session", "%s: hello for %s carries a ticket/PSK although no connection to that name ever succeeded", detail(), s.name)
				break
			}
		}
		ok := o.CDone && o.SDone && string(o.CRead) == "ping-pong"
		if fronted && s.name == uncovered {
			// no certificate of this server covers the name: the connection must fail (and, above,
			// must not have offered anything); the sessions of the other name stay where they are,
			// but nothing is demanded of the next connection
			if o.CDone {
				c.Violate("completed-for-a-name-the-certificate-does-not-cover resumed="+fmt.Sprint(o.CState.DidResume), "%s", detail())
				break
			}
			c.Probe("fronted-uncovered-name-refused")
			delete(last, names[0])
			continue
		}
		if pendingCorrupt[s.name] && offered {
			// the handshake that offers the corrupted session may fail; the connection after it may not
			if !(o.CDone && o.SDone) {
				aborted = true
				c.Probe("failed-with-corrupted-session")
			}
			delete(pendingCorrupt, s.name)
		}
		if o.CDone {
			everOK[s.name] = true // the client completed a handshake: a ticket may legitimately have been stored
			// ... also by a connection that was cut right after its handshake (no echo, not a
			// "success" below): a later resumption may descend from it, so the ticket lifetime counts
			// from here at the latest
			if _, ok := origin[s.name]; !ok {
				origin[s.name] = clockOff
			}
		}
		if !ok && offered {
			// a failed resumption attempt makes the client throw the cached session away (RFC 5077 3.2)
			delete(last, s.name)
		}
		if !ok && o.CDone {
			// cut after its handshake: it may have replaced the cached session by its own (another
			// fingerprint's, perhaps one the next hello cannot offer), or not (TLS 1.3 tickets arrive
			// later): nothing is required of the next connection
			delete(last, s.name)
		}
		if !ok && !aborted {
			// (R1)
			hrr := len(obs.SH) > 0 && obs.SH[0].IsHRR
			cls := fmt.Sprintf("connection-failed-without-fault offered=%v hrr=%v %s", offered, hrr, negErrClass(o))
			c.Violate(cls, "%s", detail())
			break
		}
		if ok {
			prev := last[s.name]
			ver := o.S.Version
			need := "ticket"
			if ver == tls.VersionTLS13 {
				need = "psk"
			}
			if suiteEdited {
				c.Probe("suite-edited-connection-ok")
				if prev != nil && prev.suite != 0 && prev.suite != o.S.Suite && o.CState.DidResume {
					c.Probe("resumed-under-another-suite")
				}
			}
			if prev != nil && prev.id == s.id.Name && clockOff-prev.fullAt < 6*24*time.Hour && specHas(s.id.ID, need) && prev.ver == ver && !suiteEdited && !prev.suiteEdited {
				// (R2)
				if !o.CState.DidResume || !o.S.DidResume {
					hrr := len(obs.SH) > 0 && obs.SH[0].IsHRR
					c.Violate(fmt.Sprintf("did-not-resume %s hrr=%v offered=%v", need, hrr, offered), "%s: previous success %v ago; client DidResume=%v server DidResume=%v", detail(), clockOff-prev.at, o.CState.DidResume, o.S.DidResume)
					break
				}
				c.Probe("resumed-as-required")
			}
			if o.CState.DidResume != o.S.DidResume {
				c.Violate("did-resume-disagreement", "%s: client %v server %v", detail(), o.CState.DidResume, o.S.DidResume)
				break
			}
			if o.CState.DidResume {
				c.Probe("resumed")
				if len(obs.SH) > 0 && obs.SH[0].IsHRR {
					c.Probe("resumed-after-hrr")
				}
			}
			// a second ClientHello after a HelloRetryRequest that still offers the session: same
			// identity at the same place (last), binder of the same length, and nothing
			// else changed besides what RFC 8446 4.1.2 allows (key_share, cookie, padding)
			if len(obs.CH) >= 2 && len(obs.CH[0].PSKIdentities) > 0 && len(obs.CH[1].PSKIdentities) > 0 {
				c.Probe("psk-in-second-hello")
				if d := pskHRRDiff(obs.CH[0], obs.CH[1]); d != "" {
					c.Violate("psk-second-hello "+strings.SplitN(d, ":", 2)[0], "%s: %s", detail(), d)
					break
				}
			}
			// the session in the cache may descend from any earlier full handshake to this name since
			// the last key rotation (a connection whose fingerprint carries no ticket extension stores
			// nothing; an aborted connection may or may not have dropped the entry): the ticket
			// lifetime is counted from the oldest candidate
			if og, ok := origin[s.name]; !ok || clockOff < og {
				origin[s.name] = clockOff
			}
			if prev != nil && prev.suite != 0 && prev.suite != o.S.Suite && o.CState.DidResume {
				c.Probe("resumed-under-another-suite")
			}
			ns := &succ{id: s.id.Name, at: clockOff, fullAt: origin[s.name], ver: ver, suite: o.S.Suite, suiteEdited: suiteEdited}
			last[s.name] = ns
			plan[len(plan)-1] += fmt.Sprintf("=>ok,resumed=%v,t=%v,full@%v", o.CState.DidResume, clockOff, ns.fullAt)
		}
	}
	c.Finish(w, true)
	c.R.Class = fmt.Sprintf("%s peer=%s max=%x hrr=%v cap=%d lat=%v", strings.Join(plan, " | "), peerName(peer), srvMax, forceHRR, cacheCap, latency)
	if c.R.Run%300 == 0 {
		c.R.Sample = map[string]any{"history": plan, "peer": peerName(peer), "server_max": srvMax, "hrr": forceHRR}
	}
}

// pskHRRDiff compares the two ClientHellos around a HelloRetryRequest when both offer a PSK.
// It returns "" or "<class>: <detail>".
func pskHRRDiff(a, b *wire.ClientHello) string {
	if !bytes.Equal(a.Random, b.Random) || !bytes.Equal(a.SessionID, b.SessionID) || a.LegacyVersion != b.LegacyVersion ||
		fmt.Sprint(a.CipherSuites) != fmt.Sprint(b.CipherSuites) || !bytes.Equal(a.Compression, b.Compression) {
		return "header-changed: version/random/session id/suites/compression differ between CH1 and CH2"
	}
	seq := func(h *wire.ClientHello) []uint16 {
		var ts []uint16
		for _, e := range h.Extensions {
			if e.Type != 21 && e.Type != 44 {
				ts = append(ts, e.Type)
			}
		}
		return ts
	}
	if fmt.Sprint(seq(a)) != fmt.Sprint(seq(b)) {
		return fmt.Sprintf("extension-order: %v -> %v", seq(a), seq(b))
	}
	for _, e := range a.Extensions {
		if e.Type == 21 || e.Type == 44 || e.Type == 51 || e.Type == 41 {
			continue
		}
		if e2, ok := b.Ext(e.Type); ok && !bytes.Equal(e.Data, e2.Data) {
			return fmt.Sprintf("extension-%d: body %x -> %x", e.Type, e.Data, e2.Data)
		}
	}
	if i := b.ExtIndex(41); i != len(b.Extensions)-1 {
		return fmt.Sprintf("psk-not-last: pre_shared_key at %d of %d in CH2", i, len(b.Extensions))
	}
	if len(a.PSKIdentities) != len(b.PSKIdentities) || len(a.PSKBinders) != len(b.PSKBinders) {
		return fmt.Sprintf("identity-count: %d/%d identities, %d/%d binders", len(a.PSKIdentities), len(b.PSKIdentities), len(a.PSKBinders), len(b.PSKBinders))
	}
	for i := range a.PSKIdentities {
		if !bytes.Equal(a.PSKIdentities[i].Identity, b.PSKIdentities[i].Identity) {
			return fmt.Sprintf("identity-changed: identity %d differs between CH1 and CH2", i)
		}
	}
	for i := range a.PSKBinders {
		if len(a.PSKBinders[i]) != len(b.PSKBinders[i]) {
			return fmt.Sprintf("binder-length: binder %d is %d then %d bytes", i, len(a.PSKBinders[i]), len(b.PSKBinders[i]))
		}
		// (whether the binder was recomputed is not asserted here: when the server's suite has another
		// hash than the PSK's, the PSK can no longer be selected and its stale binder is never
		// looked at; when it can be selected, a stale binder shows up as a failed or non-resumed
		// connection under R1/R2)
	}
	return ""
}
