package scen

import (
	"errors"
	stdtls "crypto/tls"
	"fmt"
	"time"

	tls "github.com/refraction-networking/utls"
	"github.com/refraction-networking/utls/zz_verif/simnet"
	"github.com/refraction-networking/utls/zz_verif/simrand"
	"github.com/refraction-networking/utls/zz_verif/simrt"
)

// C14: server certificates are verified exactly as the Config requests.

func init() {
	Register("C14", &Info{
		Run:   runC14,
		Quick: 10000, Thor: 1500000,
		Rule: "a world = a history of 1-2 connections of one fingerprint (HelloGolang, ticket/PSK-capable parrots, any parrot by stratum) to a server presenting one fixture chain (valid, wrong name, untrusted root, expired, not yet valid, short-lived) at TLS 1.2 or 1.3, each connection with its own Config (ServerName incl. IPv4/IPv6 literals, optionally replaced through SetSNI after an explicit BuildHandshakeState, InsecureServerNameToVerify in {unset, *, matching, other}, InsecureSkipTimeVerify, InsecureSkipVerify) and its own client clock (Config.Time offset; jumps of days/weeks/decades, forwards or backwards, between the connections) over a shared session cache; ECH dimension (ECH-capable fingerprints): no ECH, a TLS 1.2-only server answering an ECH-configured client (no completion with a certificate that does not cover the configured name), an accepting server (verification against the configured name as usual) or a rejecting server (the chain must verify against the config's public name: then and only then the client returns ECHRejectionError), with a certificate valid for every name or for the public name only; oracle: independent truth table - a handshake succeeds iff InsecureSkipVerify or (chain trusted and validity period ok at the client's time unless InsecureSkipTimeVerify and leaf matches the verification name unless it is *); a second (possibly resumed) connection may never succeed where a fresh verification under its own Config and clock would fail; non-trivial = verification actually ran (InsecureSkipVerify unset); distinct = (fingerprint, cert, both configs, clock offsets, version)",
		Assumptions: []string{"trust/validity/name ground truth comes from how the fixtures were generated (tools/genfix), not from x509.Verify",
			"ECH strata (accepted / rejected verifies against the public name) are part of the C15 scenario"},
		Real: []string{"utls client from /repo", "utls or std server"},
		Stub: []string{"transport, clock (bubble clock + per-node Config.Time skew), crypto/rand"},
	})
}

type certTruth struct {
	trusted   bool
	notBefore time.Time
	notAfter  time.Time
	names     []string
}

func d(y int, m time.Month, day int) time.Time { return time.Date(y, m, day, 0, 0, 0, 0, time.UTC) }

var stdNames = []string{"example.test", "www.example.test", "*.wild.test", "public.ech.test", "a.test", "b.test"}

// ground truth of the fixtures (tools/genfix/main.go)
var certTruths = map[string]certTruth{
	"ecdsa":      {true, d(1999, 6, 1), d(2090, 1, 1), stdNames},
	"rsa":        {true, d(1999, 6, 1), d(2090, 1, 1), stdNames},
	"ed25519":    {true, d(1999, 6, 1), d(2090, 1, 1), stdNames},
	"wrongname":  {true, d(1999, 6, 1), d(2090, 1, 1), []string{"other.test"}},
	"expired":    {true, d(1999, 6, 1), d(1999, 12, 1), stdNames},
	"notyet":     {true, d(2050, 1, 1), d(2090, 1, 1), stdNames},
	"untrusted":  {false, d(1999, 6, 1), d(2090, 1, 1), stdNames},
	"shortlived": {true, d(1999, 6, 1), d(2000, 1, 8), stdNames},
	"publiconly": {true, d(1999, 6, 1), d(2090, 1, 1), []string{"public.ech.test"}},
}

func nameMatches(names []string, host string) bool {
	for _, n := range names {
		if n == host {
			return true
		}
		if len(n) > 2 && n[0] == '*' && n[1] == '.' {
			// single-label wildcard
			suffix := n[1:]
			if len(host) > len(suffix) && host[len(host)-len(suffix):] == suffix {
				label := host[:len(host)-len(suffix)]
				dot := false
				for i := 0; i < len(label); i++ {
					if label[i] == '.' {
						dot = true
					}
				}
				if !dot && label != "" {
					return true
				}
			}
		}
	}
	return false
}

type verifyCfg struct {
	// lateSNI: after an explicit BuildHandshakeState the caller calls SetSNI(lateSNI) ("" = not done);
	// SetSNI also replaces Config.ServerName by the host_name form of its argument (empty for IP
	// literals), which is then the default verification name
	lateSNI    string
	serverName string
	toVerify   string
	skipTime   bool
	skipVerify bool
	clockOff   time.Duration
}

func (v verifyCfg) String() string {
	return fmt.Sprintf("sn=%s late=%q verify=%q skiptime=%v skipverify=%v clock=+%v", v.serverName, v.lateSNI, v.toVerify, v.skipTime, v.skipVerify, v.clockOff)
}

// shouldVerify is the truth table.
func shouldVerify(ct certTruth, v verifyCfg) (ok bool, why string) {
	if v.skipVerify {
		return true, "InsecureSkipVerify"
	}
	if !ct.trusted {
		return false, "untrusted root"
	}
	if !v.skipTime {
		now := BubbleEpoch.Add(v.clockOff)
		if now.Before(ct.notBefore) {
			return false, "not yet valid"
		}
		if now.After(ct.notAfter) {
			return false, "expired"
		}
	}
	name := v.serverName
	if v.lateSNI != "" {
		name = v.lateSNI
		if !legalHostName(name) {
			name = "" // SetSNI leaves no default verification name behind
		}
	}
	if v.toVerify != "" {
		name = v.toVerify
	}
	if name == "" {
		return false, "no verification name" // neither ServerName nor an override: the handshake must be refused
	}
	if name != "*" && !nameMatches(ct.names, name) {
		return false, "name mismatch"
	}
	return true, "ok"
}

var clockOffsets = []time.Duration{0, time.Hour, 3 * 24 * time.Hour, 10 * 24 * time.Hour, 40 * 24 * time.Hour, 60 * 365 * 24 * time.Hour, 95 * 365 * 24 * time.Hour}

func drawVerifyCfg(ch *simrt.Chooser, prev *verifyCfg) verifyCfg {
	// IP-literal server names send no SNI and are verified against the certificate's IP SANs (the
	// fixtures carry none, so they match only through InsecureServerNameToVerify)
	v := verifyCfg{serverName: []string{"example.test", "example.test", "x.wild.test", "unrelated.test", "192.0.2.7", "[2001:db8::7]"}[ch.Pick(6, "sn")]}
	v.toVerify = []string{"", "", "*", "example.test", "other.test", "nomatch.test"}[ch.Pick(6, "toverify")]
	if ch.Bool(15, "late-sni") {
		v.lateSNI = []string{"192.0.2.7", "2001:db8::7", "unrelated.test", "example.test", "www.example.test"}[ch.Pick(5, "late-sni-value")]
	}
	v.skipTime = ch.Bool(25, "skiptime")
	v.skipVerify = ch.Bool(12, "skipverify")
	v.clockOff = clockOffsets[ch.Pick(len(clockOffsets), "clock")]
	if prev != nil {
		if ch.Bool(50, "same-name") {
			v.serverName = prev.serverName // same cache key: resumption is attempted
		}
		// the client clock usually moves forward between the connections, but may also step back
		// (a corrected clock): what counts is the time of each connection
		if v.clockOff < prev.clockOff && !ch.Bool(40, "clock-steps-back") {
			v.clockOff = prev.clockOff
		}
	}
	return v
}

func runC14(c *Ctx) {
	ch := c.Ch
	ids := []IDInfo{{"Golang", tls.HelloGolang}, {"Chrome_133", tls.HelloChrome_133}, {"Chrome_112_PSK_Shuf", tls.HelloChrome_112_PSK_Shuf}, {"Firefox_120", tls.HelloFirefox_120}, {"Chrome_100_PSK", tls.HelloChrome_100_PSK}, {"Firefox_65", tls.HelloFirefox_65}}
	var idi IDInfo
	if c.Run%4 == 3 {
		idi = AllParrots[int(c.Run/4)%len(AllParrots)]
	} else {
		idi = ids[ch.Pick(len(ids), "id")]
	}
	certNames := []string{"ecdsa", "wrongname", "untrusted", "expired", "notyet", "shortlived", "rsa"}
	certName := certNames[ch.Pick(len(certNames), "cert")]
	ct := certTruths[certName]
	srvMax := []uint16{tls.VersionTLS13, tls.VersionTLS12}[ch.Pick(2, "srvmax")]
	peer := ch.Pick(2, "peer")
	nconn := ch.Range(1, 2, "nconn")
	cfgs := make([]verifyCfg, nconn)
	for i := range cfgs {
		var prev *verifyCfg
		if i > 0 {
			prev = &cfgs[i-1]
		}
		cfgs[i] = drawVerifyCfg(ch, prev)
		// a fifth of the second connections: the client clock is placed on the other side of the
		// certificate's validity period than it was for the first connection (forwards or backwards),
		// when one of the offsets in use does that
		if prev != nil && ch.Bool(20, "validity-flip") {
			inside := func(off time.Duration) bool {
				now := BubbleEpoch.Add(off)
				return !now.Before(ct.notBefore) && !now.After(ct.notAfter)
			}
			var flips []time.Duration
			for _, off := range clockOffsets {
				if inside(off) != inside(prev.clockOff) {
					flips = append(flips, off)
				}
			}
			if len(flips) > 0 {
				cfgs[i].clockOff = flips[ch.Pick(len(flips), "flip-to")]
				cfgs[i].serverName = prev.serverName
				c.Probe("validity-flip")
			}
		}
	}
	// ECH dimension: no ECH, accepted (verified against the configured name as usual), rejected
	// (verified against the config's public name, then ECHRejectionError)
	echMode := "none"
	var echList []byte
	if c.Run%4 != 3 && ch.Bool(30, "ech") {
		echIDs := []IDInfo{{"Golang", tls.HelloGolang}, {"Chrome_133", tls.HelloChrome_133}, {"Firefox_120", tls.HelloFirefox_120}, {"Chrome_120", tls.HelloChrome_120}}
		idi = echIDs[ch.Pick(len(echIDs), "ech-id")]
		echMode = []string{"accept", "reject", "accept", "reject", "tls12"}[ch.Pick(5, "ech-mode")]
		srvMax = tls.VersionTLS13
		if echMode == "tls12" {
			// a server that knows nothing of ECH and answers TLS 1.2 (the parrots' hellos offer it):
			// there is no acceptance signal in TLS 1.2, so whatever the client does, it may not
			// complete with a certificate that does not cover the configured name
			srvMax = tls.VersionTLS12
		}
		nconn = 1
		cfgs = cfgs[:1]
		if ch.Bool(40, "ech-publiconly") {
			certName = "publiconly"
			ct = certTruths[certName]
		}
		if echMode == "reject" {
			cfgs[0].toVerify = "" // the override's interaction with a rejected offer is not specified
			cfgs[0].skipVerify = false // crypto/tls documents that a rejected offer is verified regardless; the property claims nothing there
		}
	}
	w := c.NewWorld(simrt.Config{})
	cache := tls.NewLRUClientSessionCache(8)
	scfg := &tls.Config{Certificates: []tls.Certificate{Cert(certName).U}, MaxVersion: srvMax}
	stdcfg := &stdtls.Config{Certificates: []stdtls.Certificate{Cert(certName).S}, MaxVersion: srvMax, MinVersion: stdtls.VersionTLS10}
	if echMode != "none" {
		keyRand := simrand.NewStream(ch.U64("ech-keys"))
		good, err := buildECH(keyRand, 7, "public.ech.test", 32, [][2]uint16{{1, 1}})
		if err != nil {
			c.R.Harness = "ech setup: " + err.Error()
			return
		}
		other, _ := buildECH(keyRand, 8, "public.ech.test", 32, [][2]uint16{{1, 1}})
		echList = good.list
		sk := good
		if echMode == "reject" {
			sk = other
		}
		if echMode != "tls12" { // (that server knows nothing of ECH)
			scfg.EncryptedClientHelloKeys = []tls.EncryptedClientHelloKey{{Config: sk.cfg, PrivateKey: sk.priv, SendAsRetry: true}}
			stdcfg.EncryptedClientHelloKeys = []stdtls.EncryptedClientHelloKey{{Config: sk.cfg, PrivateKey: sk.priv, SendAsRetry: true}}
		}
		c.Probe("ech-" + echMode)
	}
	c.R.Class = fmt.Sprintf("%s cert=%s max=%x peer=%s ech=%s", idi.Name, certName, srvMax, peerName(peer), echMode)
	for i, v := range cfgs {
		v := v
		c.R.Class += fmt.Sprintf(" [%s]", v)
		cfg := &tls.Config{ServerName: v.serverName, RootCAs: Roots(), InsecureServerNameToVerify: v.toVerify, InsecureSkipTimeVerify: v.skipTime,
			InsecureSkipVerify: v.skipVerify, ClientSessionCache: cache, OmitEmptyPsk: true,
			Time: func() time.Time { return time.Now().Add(v.clockOff) }}
		sp := &ConnSpec{Name: fmt.Sprintf("c%d", i), ID: idi.ID, CCfg: cfg, Peer: peer, SCfg: scfg, StdCfg: stdcfg, Payload: [][]byte{[]byte("ping")},
			Setup: func(l *simnet.Link) { l.Frag = ch.Bool(25, "frag") }}
		if echMode != "none" {
			cfg.EncryptedClientHelloConfigList = echList
			if echMode != "tls12" {
				cfg.MinVersion = tls.VersionTLS13
			}
			v.lateSNI = ""
			cfgs[i].lateSNI = ""
		}
		if late := v.lateSNI; late != "" && idi.ID != tls.HelloGolang {
			// (a third of these hellos carry no server_name extension at all: the name on the wire and
			// the name to authenticate are then unrelated)
			noSNIExt := ch.Bool(33, "late-sni-without-extension")
			sp.Prep = func(u *tls.UConn) error {
				if noSNIExt {
					if err := u.RemoveSNIExtension(); err != nil {
						return err
					}
				}
				if err := u.BuildHandshakeState(); err != nil {
					return err
				}
				u.SetSNI(late)
				return nil
			}
		} else {
			v.lateSNI = ""
		}
		o := RunConn(c, w, sp)
		want, why := shouldVerify(ct, v)
		if echMode == "reject" {
			pv := v
			pv.serverName = "public.ech.test"
			want, why = shouldVerify(ct, pv)
			var rej *tls.ECHRejectionError
			isRej := errors.As(o.CErr, &rej)
			c.R.NonTrivial = !v.skipVerify
			if o.CDone {
				c.Violate("ech-rejected-but-handshake-succeeded", "%s", c.R.Class)
			} else if want && !isRej {
				c.Violate(fmt.Sprintf("rejected-certificate-that-must-pass cert=%s ech=reject", certName), "%s: certificate verifies against the public name (%s) but the client returned %v instead of ECHRejectionError", c.R.Class, why, o.CErr)
			} else if !want && isRej {
				c.Violate(fmt.Sprintf("accepted-certificate-that-must-fail reason=%q ech=reject", why), "%s: the client reported the ECH rejection (and its retry configs) although the certificate does not verify against the public name: %s", c.R.Class, why)
			}
			break
		}
		if echMode == "tls12" {
			c.R.NonTrivial = !v.skipVerify
			if o.CDone && !want {
				c.Violate(fmt.Sprintf("accepted-certificate-that-must-fail reason=%q ech=tls12-server", why), "%s: an ECH-configured client completed at %x although verification against the configured name must fail: %s", c.R.Class, o.CState.Version, why)
			}
			if o.CDone {
				c.Probe("ech-configured-client-completed-at-tls12")
			} else {
				c.Probe("ech-tls12-refused")
			}
			break
		}
		if !v.skipVerify {
			c.R.NonTrivial = true
		}
		if v.clockOff > 0 {
			c.Fault("clock-skew", 1)
		}
		resumed := o.CDone && o.CState.DidResume
		if resumed {
			c.Probe("resumed")
		}
		if o.BuildErr != nil {
			c.R.Harness = "build: " + o.BuildErr.Error()
			break
		}
		if o.CDone && !want {
			c.Violate(fmt.Sprintf("accepted-certificate-that-must-fail reason=%q resumed=%v", why, resumed), "%s conn %d: handshake succeeded (resumed=%v) but verification must fail: %s", c.R.Class, i, resumed, why)
			break
		}
		if !o.CDone && want {
			// the server has no reason to refuse: any failure is the client's verification
			c.Violate(fmt.Sprintf("rejected-certificate-that-must-pass cert=%s", certName), "%s conn %d: %s; expected success (%s)", c.R.Class, i, o.Describe(), why)
			break
		}
		if !o.CDone && !want && o.CErr != nil {
			c.Probe("rejected-as-expected")
		}
	}
	c.Finish(w, true)
	if c.R.Run%400 == 0 {
		c.R.Sample = map[string]any{"class": c.R.Class}
	}
}
