package scen

import (
	"bytes"
	stdtls "crypto/tls"
	"fmt"
	"strings"
	"io"
	"net"
	"sync"
	"time"

	tls "github.com/refraction-networking/utls"
	"github.com/refraction-networking/utls/zz_verif/refsrv"
	"github.com/refraction-networking/utls/zz_verif/simnet"
	"github.com/refraction-networking/utls/zz_verif/simrt"
)

// C25: application data arrives intact and tampering is detected.

func init() {
	Register("C25", &Info{
		Run:   runC25,
		Quick: 6000, Thor: 500000,
		Rule: "a world = one (version, cipher suite) pair negotiated by a single-suite client spec (TLS 1.3: the three suites; TLS 1.2: every documented suite; the client-only legacy ChaCha20 code points and the EnableWeakCiphers suites against the reference server, which is told to select them; TLS 1.0/1.1: the CBC suites) against the repository or std server or (a third of the worlds) the reference server, which shapes its records in every way the RFCs allow (TLS 1.3 padding, arbitrary fragment sizes, zero-length application_data records) and under TLS 1.3 sends 2-4 NewSessionTicket messages (separately or packed into one record) and KeyUpdate messages with and without update_requested between its echo writes; then a drawn sequence of client writes (0 B .. 40 kB, record boundaries) echoed by the server and read with drawn buffer sizes (1 B .. 32 kB), by one client task or by a writer and a reader task at once under a scheduler that may switch at lock acquisitions and right after unlocks; phase 1 establishes the connection, then the scheduler arms one fault on the live connection: bit flip at a drawn offset of the next application records, truncation (clean EOF mid-record or at a record boundary; or exactly 1-6 or 20 bytes into a record, or in the middle of it, after which the client's Read must return an error other than io.EOF), connection reset, or an on-path attacker dropping / duplicating / swapping whole records; oracle: what each side read is a prefix of what the peer wrote; without a fault it is everything; after a flip/drop/dup/swap inside the data the receiver must return an error and deliver strictly less than everything; non-trivial = >=1 application record each way (fault stratum: the fault fired before the last record); distinct = (version, suite, peer, write sizes, read sizes, fault)",
		Assumptions: []string{"TLS 1.3 key updates are initiated by the reference server (sim/refsrv); client-initiated updates do not exist in this code base",
			"EnableWeakCiphers is process-global: the C25 worker process enables it at start and never runs another property"},
		Real: []string{"utls client record layer (UConn.Read/Write, halfConn) from /repo", "utls or std server"},
		Stub: []string{"transport with attacker faults, clock, crypto/rand"},
	})
}

var weakOnce sync.Once

type suiteCase struct {
	ver   uint16
	suite uint16
	peers []int
}

var suiteCases []suiteCase

func buildSuiteCases() {
	both := []int{PeerUTLS, PeerStd}
	for _, s := range []uint16{0x1301, 0x1302, 0x1303} {
		suiteCases = append(suiteCases, suiteCase{0x0304, s, both})
	}
	for s := range suites12 {
		suiteCases = append(suiteCases, suiteCase{0x0303, s, both})
		if !suiteNeeds12[s] {
			suiteCases = append(suiteCases, suiteCase{0x0302, s, both}, suiteCase{0x0301, s, both})
		}
	}
	// The legacy ChaCha20 code points (0xcc13/0xcc14) and the EnableWeakCiphers suites (0x003d,
	// 0xc024, 0xc028) are client-only in utls and unknown to the std server. The reference server
	// (a frozen fork of the same stack with its own copy of the suite table) is told to select
	// them (Byz.ForceSuite after refsrv.EnableWeakCiphers): a peer of shared ancestry, stated in
	// the evidence; C27 exercises their record protection independently of any handshake.
	for _, s := range []uint16{0xcc13, 0xcc14, 0x003d, 0xc024, 0xc028} {
		suiteCases = append(suiteCases, suiteCase{0x0303, s, []int{PeerRef}})
	}
	// deterministic order
	for i := range suiteCases {
		for j := i + 1; j < len(suiteCases); j++ {
			a, b := suiteCases[i], suiteCases[j]
			if a.ver < b.ver || (a.ver == b.ver && a.suite > b.suite) {
				suiteCases[i], suiteCases[j] = b, a
			}
		}
	}
}

func suiteAuth(s uint16) string {
	if a, ok := suites12[s]; ok {
		return a
	}
	switch s {
	case 0xcc14, 0xc024:
		return "ecdsa"
	}
	return "rsa"
}

func singleSuiteSpec(ver, suite uint16) *tls.ClientHelloSpec {
	sigs := []tls.SignatureScheme{tls.ECDSAWithP256AndSHA256, tls.PSSWithSHA256, tls.PKCS1WithSHA256, tls.ECDSAWithP384AndSHA384, tls.PSSWithSHA384, tls.PKCS1WithSHA384, tls.PSSWithSHA512, tls.PKCS1WithSHA512, tls.PKCS1WithSHA1, tls.ECDSAWithSHA1}
	exts := []tls.TLSExtension{&tls.SNIExtension{}, &tls.ExtendedMasterSecretExtension{},
		&tls.SupportedCurvesExtension{Curves: []tls.CurveID{tls.X25519, tls.CurveP256}}, &tls.SupportedPointsExtension{SupportedPoints: []byte{0}},
		&tls.SignatureAlgorithmsExtension{SupportedSignatureAlgorithms: sigs}}
	spec := &tls.ClientHelloSpec{CipherSuites: []uint16{suite}, CompressionMethods: []byte{0}}
	if ver == 0x0304 {
		exts = append(exts, &tls.KeyShareExtension{KeyShares: []tls.KeyShare{{Group: tls.X25519}}}, &tls.PSKKeyExchangeModesExtension{Modes: []uint8{tls.PskModeDHE}},
			&tls.SupportedVersionsExtension{Versions: []uint16{tls.VersionTLS13}})
	} else {
		spec.TLSVersMax = ver
		spec.TLSVersMin = tls.VersionTLS10
	}
	spec.Extensions = exts
	return spec
}

// recordAttacker is a Dir.Filter acting on whole TLS records of one direction.
type recordAttacker struct {
	buf    []byte
	armed  bool
	kind   string // drop dup swap
	at     int    // index of the affected record counted from arming
	seen   int
	held   []byte
	Fired  bool
	cutKeep int
	cutDone bool
}

func (a *recordAttacker) filter(w *simrt.World, d *simnet.Dir, b []byte) [][]byte {
	a.buf = append(a.buf, b...)
	var out [][]byte
	for len(a.buf) >= 5 {
		n := int(a.buf[3])<<8 | int(a.buf[4])
		if len(a.buf) < 5+n {
			break
		}
		rec := append([]byte(nil), a.buf[:5+n]...)
		a.buf = a.buf[5+n:]
		if !a.armed {
			out = append(out, rec)
			continue
		}
		idx := a.seen
		a.seen++
		switch {
		case a.held != nil:
			out = append(out, rec, a.held)
			a.held = nil
		case idx == a.at && a.kind == "drop":
			a.Fired = true
			d.Fired["drop-record"]++
		case idx == a.at && a.kind == "dup":
			a.Fired = true
			d.Fired["dup-record"]++
			out = append(out, rec, append([]byte(nil), rec...))
		case a.cutDone:
			// behind the cut nothing arrives any more
		case idx == a.at && a.kind == "cut":
			// the stream ends inside this record: after 1-4 bytes of its header, after the header,
			// or in the middle of its body - a clean EOF of the transport, which the receiver must
			// report as an error (it is no end of the TLS stream)
			a.Fired, a.cutDone = true, true
			k := a.cutKeep
			if k >= len(rec) {
				k = len(rec) / 2
			}
			d.Fired["cut-inside-record"]++
			d.CutNow = true
			out = append(out, rec[:k])
		case idx == a.at && a.kind == "swap":
			a.Fired = true
			d.Fired["swap-records"]++
			a.held = rec
		default:
			out = append(out, rec)
		}
	}
	return out
}

func runC25(c *Ctx) {
	ch := c.Ch
	weakOnce.Do(func() { tls.EnableWeakCiphers(); refsrv.EnableWeakCiphers(); buildSuiteCases() })
	sc := suiteCases[int(c.Run)%len(suiteCases)]
	kuStratum := c.Run%4 == 3 // TLS 1.3 with the reference server: key updates, full-duplex client
	if kuStratum {
		sc = suiteCases[int(c.Run/4)%3]
		if sc.ver != 0x0304 {
			c.R.Harness = "suite case order changed"
			return
		}
	}
	peer := sc.peers[ch.Pick(len(sc.peers), "peer")]
	nwrites := ch.Range(1, 5, "nwrites")
	if kuStratum {
		nwrites = ch.Range(3, 14, "nwrites-ku") // a writer that is still busy while key updates arrive
	}
	sizes := []int{0, 1, 2, 100, 1000, 16383, 16384, 16385, 20000, 32768, 40000}
	var payload [][]byte
	total := 0
	for i := 0; i < nwrites; i++ {
		sz := sizes[ch.Pick(len(sizes), "wsize")]
		if kuStratum {
			sz = []int{1, 100, 1000, 3000}[ch.Pick(4, "wsize-ku")]
		}
		b := make([]byte, sz)
		ch.Bytes(b, "payload")
		payload = append(payload, b)
		total += sz
	}
	crs := []int{1, 7, 512, 4096, 32768}[ch.Pick(5, "client-read-size")]
	srs := []int{1, 7, 512, 4096, 32768}[ch.Pick(5, "server-read-size")]
	if total > 3000 && (crs < 512 || srs < 512) {
		// tiny read buffers make the server echo one record per read: keep those worlds small
		crs, srs = 4096, 512
	}
	fault := []string{"none", "none", "flip", "flip", "eof", "reset", "drop", "dup", "swap", "cut"}[ch.Pick(10, "fault")]
	cutKeep := []int{1, 2, 3, 4, 5, 6, 20, 1 << 20}[ch.Pick(8, "cut-keep")]
	dirAB := ch.Bool(50, "fault-dir-c2s")
	foff := int64(0)
	if total > 0 {
		foff = int64(ch.Pick(total, "fault-off"))
	}
	frec := ch.Pick(3, "fault-record")
	frag := ch.Bool(50, "frag")

	w := c.NewWorld(simrt.Config{LockYield: ch.Bool(40, "lockyield"), UnlockYield: ch.Bool(40, "unlockyield"), PreemptPct: 10 + 20*ch.Pick(3, "preempt")})
	l := simnet.NewLink("c")
	l.Frag = frag
	atkAB, atkBA := &recordAttacker{}, &recordAttacker{}
	l.AB.Filter = atkAB.filter
	l.BA.Filter = atkBA.filter
	auth := suiteAuth(sc.suite)
	scfg := &tls.Config{Certificates: []tls.Certificate{Cert(auth).U}, MinVersion: tls.VersionTLS10, MaxVersion: sc.ver}
	stdcfg := &stdtls.Config{Certificates: []stdtls.Certificate{Cert(auth).S}, MinVersion: stdtls.VersionTLS10, MaxVersion: sc.ver}
	if sc.ver < 0x0304 {
		scfg.CipherSuites = []uint16{sc.suite}
		stdcfg.CipherSuites = []uint16{sc.suite}
	}
	ccfg := &tls.Config{ServerName: "example.test", RootCAs: Roots(), MinVersion: tls.VersionTLS10}
	// in a third of the fault-free worlds the server closes immediately after its last echo:
	// its close_notify is then buffered right behind the data the client has not consumed yet
	closeAfter := 0
	if fault == "none" && total > 0 && ch.Bool(60, "server-closes-after-echo") {
		closeAfter = len("warm-up-record") + total
		if srs < total {
			srs = 32768 // echo in few records so that data and close_notify coalesce
		}
	}
	// a third of the worlds use the reference server as the compliant peer: it shapes its records in
	// every way RFC 8446/5246 allow (padding, arbitrary fragment sizes, zero-length application_data
	// records) and, under TLS 1.3, sends 2-4 NewSessionTicket messages (separately or packed into one record) and KeyUpdate messages (with and without update_requested)
	var rcfg *refsrv.Config
	shape := uint64(0)
	kuEvery, kuReq := 0, false
	forcedSuite := len(sc.peers) == 1 && sc.peers[0] == PeerRef
	if ch.Bool(35, "ref-peer") || kuStratum || forcedSuite {
		peer = PeerRef
		rcfg = refCfg(auth)
		rcfg.MaxVersion = sc.ver
		if sc.ver < 0x0304 {
			rcfg.CipherSuites = []uint16{sc.suite}
		}
		if forcedSuite {
			rcfg.CipherSuites = nil
			rcfg.Byz.ForceSuite = sc.suite
		}
		shape = ch.U64("record-shape") | 1
		st := shape
		next := func(n int) int {
			st += 0x9e3779b97f4a7c15
			z := st
			z = (z ^ (z >> 30)) * 0xbf58476d1ce4e5b9
			z = (z ^ (z >> 27)) * 0x94d049bb133111eb
			z ^= z >> 31
			return int(z % uint64(n))
		}
		mode := ch.Pick(4, "shape-mode") // 0 plain, 1 padding, 2 splitting+empty, 3 everything
		if mode == 1 || mode == 3 {
			rcfg.Byz.RecordPad = func(int) int { return []int{0, 0, 1, 17, 255, 1000}[next(6)] }
		}
		if mode >= 2 {
			rcfg.Byz.RecordSplit = func(int) int { return []int{0, 1, 100, 5000}[next(4)] }
			rcfg.Byz.EmptyRecords = func() int { return []int{0, 0, 0, 1, 2}[next(5)] }
		}
		if sc.ver == 0x0304 && ch.Bool(40, "multi-ticket") {
			// several NewSessionTicket messages after the handshake, in separate records or packed
			// into one record: the application data behind them must still arrive
			rcfg.Byz.TicketCount = 2 + ch.Pick(3, "ticket-count")
			rcfg.Byz.TicketsInOneRecord = ch.Bool(60, "tickets-one-record")
		}
		if sc.ver == 0x0304 && (ch.Bool(60, "key-updates") || kuStratum) {
			kuEvery = 1 + ch.Pick(3, "ku-every")
			kuReq = ch.Bool(60, "ku-request")
		}
	}
	pace := ch.U64("writer-pace")
	duplex := ch.Bool(35, "duplex") || (kuStratum && ch.Bool(60, "duplex-ku")) // the client writes and reads in two tasks at once
	o := &ConnOutcome{Spec: &ConnSpec{ID: tls.HelloCustom, Peer: peer, SCfg: scfg, StdCfg: stdcfg, RefCfg: rcfg, ReadSize: srs, ServerCloseAfter: closeAfter}, Link: l}
	if kuEvery > 0 {
		o.Spec.ServerKeyUpdate = func(n int) (bool, bool) { return n > 0 && n%kuEvery == 0, kuReq }
	}

	c.R.Class = fmt.Sprintf("v=%x suite=%04x peer=%s writes=%v crs=%d srs=%d fault=%s/%v/%d/%d closeafter=%v shape=%v ku=%d/%v duplex=%v", sc.ver, sc.suite, peerName(peer), lens(payload), crs, srs, fault, dirAB, foff, frec, closeAfter > 0, shape != 0, kuEvery, kuReq, duplex)
	srv := w.Go("server", func() { defaultServer(o, l.B) })
	var u *tls.UConn
	var cread []byte
	var cioErr error
	warm := []byte("warm-up-record")
	hs := w.Go("client.hs", func() {
		var conn net.Conn = l.A
		conn.SetDeadline(time.Now().Add(120 * time.Second))
		u = tls.UClient(conn, ccfg, tls.HelloCustom)
		if err := u.ApplyPreset(singleSuiteSpec(sc.ver, sc.suite)); err != nil {
			o.BuildErr = err
			return
		}
		o.CErr = u.Handshake()
		if o.CErr != nil {
			u.Close()
			return
		}
		o.CDone = true
		o.CState = u.ConnectionState()
		if _, err := u.Write(warm); err != nil {
			cioErr = err
			return
		}
		got := make([]byte, len(warm))
		if _, err := io.ReadFull(u, got); err != nil || !bytes.Equal(got, warm) {
			cioErr = fmt.Errorf("warm-up echo failed: %v", err)
		}
	})
	w.RunUntil(hs)
	if o.BuildErr != nil || !o.CDone || cioErr != nil {
		w.Go("cleanup", func() {
			if u != nil {
				u.Close()
			} else {
				l.A.Close()
			}
		})
		w.Run()
		w.Join()
		c.Finish(w, true)
		if c.R.Violation == nil {
			c.Violate(fmt.Sprintf("cannot-establish v=%x suite=%04x peer=%s", sc.ver, sc.suite, peerName(peer)), "%s: build=%v cerr=%v serr=%v warm=%v", c.R.Class, o.BuildErr, o.CErr, o.SErr, cioErr)
		}
		return
	}
	if o.CState.Version != sc.ver || o.CState.CipherSuite != sc.suite {
		c.R.Harness = fmt.Sprintf("negotiated %x/%04x instead of %x/%04x", o.CState.Version, o.CState.CipherSuite, sc.ver, sc.suite)
	}
	// arm the fault on the live connection
	d := l.BA
	atk := atkBA
	if dirAB {
		d = l.AB
		atk = atkAB
	}
	switch fault {
	case "flip":
		d.FlipAt = d.Total + foff
		d.FlipMask = byte(1 << uint(ch.Pick(8, "flip-bit")))
	case "eof":
		d.EOFAt = d.Total + foff
	case "reset":
		d.ResetAt = d.Total + foff
	case "drop", "dup", "swap", "cut":
		atk.armed, atk.kind, atk.at, atk.cutKeep = true, fault, frec, cutKeep
	}
	var cwErr error
	var wr *simrt.Task
	writeAll := func() {
		for i, p := range payload {
			if duplex && i > 0 {
				simrt.WaitSteps(int(pace>>(uint(i)%16*4)) & 15) // writes spread over the reader's activity
			}
			if _, err := u.Write(p); err != nil {
				cwErr = err
				break
			}
		}
	}
	left := 1
	finish := func() {
		left--
		if left == 0 {
			u.Close()
		}
	}
	if duplex {
		left = 2
		wr = w.Go("client.writer", func() { writeAll(); finish() })
	}
	io2 := w.Go("client.io", func() {
		if !duplex {
			writeAll()
			cioErr = cwErr
		}
		buf := make([]byte, crs)
		for cioErr == nil && len(cread) < total {
			n, err := u.Read(buf)
			cread = append(cread, buf[:n]...)
			if err != nil {
				cioErr = err
				break
			}
		}
		finish()
	})
	if wr != nil {
		w.RunUntil(io2, wr, srv)
	} else {
		w.RunUntil(io2, srv)
	}
	w.Run()
	w.Join()
	c.Finish(w, true)
	for k, v := range l.AB.Fired {
		c.Fault(k, v)
	}
	for k, v := range l.BA.Fired {
		c.Fault(k, v)
	}
	if rcfg != nil && rcfg.Byz != nil {
		for _, n := range rcfg.Byz.Notes {
			if strings.HasPrefix(n, "tickets ") {
				c.Probe("multi-" + strings.ReplaceAll(n, " ", "-"))
			}
		}
	}
	if o.KeyUpdates > 0 {
		c.Fault("key-update", o.KeyUpdates)
	}
	if shape != 0 {
		c.Probe("reference-peer-record-shapes")
	}
	if duplex {
		c.Probe("duplex-client")
	}
	if c.R.Violation != nil {
		return
	}
	var sent []byte
	for _, p := range payload {
		sent = append(sent, p...)
	}
	sread := o.SRead
	if !bytes.HasPrefix(sread, warm) {
		c.Violate("server-read-wrong-bytes", "%s: warm-up not received intact", c.R.Class)
		return
	}
	sread = sread[len(warm):]
	c.R.NonTrivial = total > 0
	fired := d.Fired["flip"] > 0 || d.Fired["eof"] > 0 || d.Fired["reset"] > 0 || atk.Fired
	// stream model: prefix property always
	if !bytes.HasPrefix(sent, sread) {
		c.Violate(fmt.Sprintf("server-read-altered-data fault=%s v=%x suite=%04x", fault, sc.ver, sc.suite), "%s: server read %d bytes that are not a prefix of the %d written", c.R.Class, len(sread), len(sent))
		return
	}
	if !bytes.HasPrefix(sent, cread) {
		c.Violate(fmt.Sprintf("client-read-altered-data fault=%s v=%x suite=%04x", fault, sc.ver, sc.suite), "%s: client read %d bytes that are not a prefix of the %d written", c.R.Class, len(cread), len(sent))
		return
	}
	if !fired {
		if fault == "none" || true {
			// nothing was injected into the stream: everything must arrive
			if len(sread) != total || len(cread) != total || (cioErr != nil && cioErr != io.EOF) {
				if cioErr == nil {
					cioErr = cwErr
				}
				if fault == "none" {
					c.Violate(fmt.Sprintf("data-lost-without-fault v=%x suite=%04x peer=%s ku=%v duplex=%v", sc.ver, sc.suite, peerName(peer), kuEvery > 0, duplex), "%s: server read %d, client read %d of %d; cio=%v sio=%v", c.R.Class, len(sread), len(cread), total, cioErr, o.SIOErr)
				}
			}
		}
		return
	}
	// a fault fired inside the data stream
	if fault == "cut" && !dirAB {
		// the client's reader met a transport EOF inside a record: never a clean end of stream
		// (when the cut lies behind the data - in the close_notify record - the client has everything
		// and may have stopped reading: no claim then)
		if len(cread) < total && (cioErr == nil || cioErr == io.EOF) {
			c.Violate(fmt.Sprintf("truncation-reported-as-clean-end v=%x suite=%04x keep=%d", sc.ver, sc.suite, cutKeep), "%s: the server's stream was cut %d bytes into a record; the client read %d of %d bytes and its Read returned %v", c.R.Class, cutKeep, len(cread), total, cioErr)
		}
		return
	}
	if fault == "cut" {
		return // (server side: prefix property only, as for eof)
	}
	assertDetect := fault == "flip" || frec == 0 // a later record may be the close_notify or lie beyond the data
	switch {
	case assertDetect && (fault == "flip" || fault == "drop" || fault == "swap"):
		// (a duplicated record is detected only when its second copy is read: the first copy is
		// valid and may already complete the transfer, so "dup" asserts the prefix property only)
		// the receiver of direction d must notice: it may not have received everything without an error
		if dirAB {
			if len(sread) == total && o.SIOErr == nil && total > 0 {
				c.Violate(fmt.Sprintf("tampering-not-detected-by-server fault=%s v=%x suite=%04x", fault, sc.ver, sc.suite), "%s: server read all %d bytes without error although a record was tampered with", c.R.Class, total)
			}
		} else {
			if len(cread) == total && (cioErr == nil || cioErr == io.EOF) && total > 0 {
				c.Violate(fmt.Sprintf("tampering-not-detected-by-client fault=%s v=%x suite=%04x", fault, sc.ver, sc.suite), "%s: client read all %d bytes without error although a record was tampered with", c.R.Class, total)
			}
		}
	}
	if c.R.Run%300 == 0 {
		c.R.Sample = map[string]any{"version": sc.ver, "suite": sc.suite, "peer": peerName(peer), "writes": lens(payload), "client_read_size": crs, "server_read_size": srs, "fault": fault, "fault_dir_c2s": dirAB}
	}
}

func lens(p [][]byte) []int {
	var ls []int
	for _, b := range p {
		ls = append(ls, len(b))
	}
	return ls
}
