package scen

import (
	stdtls "crypto/tls"
	"crypto/x509"
	"errors"
	"fmt"
	"io"
	"net"
	"strings"
	"sync"
	"time"

	tls "github.com/refraction-networking/utls"
	"github.com/refraction-networking/utls/zz_verif/fixtures"
	"github.com/refraction-networking/utls/zz_verif/refsrv"
	"github.com/refraction-networking/utls/zz_verif/simnet"
	"github.com/refraction-networking/utls/zz_verif/simrt"
)

// ---- fixtures ----

type certFix struct {
	U   tls.Certificate
	S   stdtls.Certificate
	R   refsrv.Certificate
	X   *x509.Certificate
	DER [][]byte
}

var (
	fixOnce  sync.Once
	fixCerts map[string]*certFix
	rootPool *x509.CertPool
	badPool  *x509.CertPool
)

func loadFix() {
	fixOnce.Do(func() {
		fixCerts = map[string]*certFix{}
		rootPool = x509.NewCertPool()
		rootPool.AppendCertsFromPEM(fixtures.Must("ca.pem"))
		badPool = x509.NewCertPool()
		badPool.AppendCertsFromPEM(fixtures.Must("ca-untrusted.pem"))
		for _, n := range []string{"ecdsa", "rsa", "ed25519", "wrongname", "expired", "notyet", "untrusted", "shortlived", "publiconly", "big"} {
			cp, kp := fixtures.Must("leaf-"+n+".pem"), fixtures.Must("leaf-"+n+".key")
			u, err := tls.X509KeyPair(cp, kp)
			if err != nil {
				panic(err)
			}
			s, err := stdtls.X509KeyPair(cp, kp)
			if err != nil {
				panic(err)
			}
			x, _ := x509.ParseCertificate(u.Certificate[0])
			u.Leaf = x
			r, err := refsrv.X509KeyPair(cp, kp)
			if err != nil {
				panic(err)
			}
			fixCerts[n] = &certFix{U: u, S: s, R: r, X: x, DER: u.Certificate}
		}
	})
}

func Cert(name string) *certFix { loadFix(); return fixCerts[name] }
func Roots() *x509.CertPool   { loadFix(); return rootPool }

// BubbleEpoch is where synctest's fake clock starts.
var BubbleEpoch = time.Date(2000, 1, 1, 0, 0, 0, 0, time.UTC)

// ---- peers ----

const (
	PeerUTLS = iota // the repository's own server (tls.Server)
	PeerStd         // Go standard library crypto/tls server: independent compliant peer
	PeerRef         // reference / byzantine server: frozen fork of the TLS stack with deviation hooks (sim/refsrv)
)

func peerName(p int) string {
	switch p {
	case PeerStd:
		return "std"
	case PeerRef:
		return "ref"
	}
	return "utls"
}

// ServerView is the server's view of a completed handshake, independent of its implementation.
type ServerView struct {
	Done        bool
	Version     uint16
	Suite       uint16
	ALPN        string
	Curve       uint16
	HasCurve    bool
	DidResume   bool
	ECHAccepted bool
	ServerName  string
	EKM         func(label string, context []byte, length int) ([]byte, error)
	DidHRR      bool
}

// ConnSpec describes one connection of a world.
type ConnSpec struct {
	Name string

	ID   tls.ClientHelloID
	Spec *tls.ClientHelloSpec // applied with ApplyPreset after UClient (for HelloCustom)
	CCfg *tls.Config
	// Prep runs in the client task after UClient/ApplyPreset and before Handshake.
	Prep func(u *tls.UConn) error
	// After runs in the client task after a successful handshake, before the echo.
	After func(u *tls.UConn)
	// ClientFn, if set, replaces the default client task body (handshake + echo).
	ClientFn func(o *ConnOutcome, conn net.Conn)
	Payload  [][]byte
	ReadSize int // client/server read buffer size (0: 4096)
	CReadSize int // client read buffer size when it should differ from the server's

	Peer     int
	SCfg     *tls.Config
	StdCfg   *stdtls.Config
	RefCfg   *refsrv.Config
	ServerFn func(o *ConnOutcome, conn net.Conn)

	Setup    func(l *simnet.Link)
	Deadline time.Duration
	// AfterServerHS runs in the server task right after a reference server's handshake.
	AfterServerHS func(o *ConnOutcome)
	// OnClientWrite runs on the scheduler goroutine before each client transport write is applied.
	OnClientWrite func(l *simnet.Link, b []byte)
	// ServerCloseAfter > 0: the server closes right after having echoed that many bytes (its
	// close_notify then travels directly behind the last data record).
	ServerCloseAfter int
	// ServerStall: the server stops reading for this long right after its handshake (slow node).
	ServerStall time.Duration
	// Out, if set, receives the outcome pointer before the tasks start (for hooks that need it).
	Out **ConnOutcome
	// ServerKeyUpdate (reference server, TLS 1.3): asked before the n-th echo write; send => the
	// server sends a KeyUpdate first, request => with update_requested.
	ServerKeyUpdate func(n int) (send, request bool)
	// ServerHelloRequest (reference server, TLS <= 1.2): asked before the n-th echo write (n = -1:
	// right after the server's handshake); true => the server sends a HelloRequest first, i.e. asks
	// the client to renegotiate. (No Go server implements renegotiation: the client's new
	// ClientHello is then refused, which ends the connection.)
	ServerHelloRequest func(n int) bool
	// AuxClient, if set, runs as a further client-side task of the connection ("<name>.aux"): a
	// second caller thread on the same UConn (it waits for whatever it needs by itself).
	AuxClient func(o *ConnOutcome)
	// ExtraHandshakers: that many further tasks call Handshake on the same UConn, each after a
	// drawn number of scheduler steps once the client task is about to call Handshake itself
	// (default client only). Their results go to ConnOutcome.ExtraErrs.
	ExtraHandshakers int
	ExtraDelay       []int
}

// ConnOutcome is everything observed about one connection.
type ConnOutcome struct {
	Spec *ConnSpec
	Link *simnet.Link
	U    *tls.UConn

	BuildErr error // UClient/ApplyPreset/Prep error
	CErr     error // client handshake error
	SErr     error // server handshake error
	CDone    bool
	SDone    bool
	CState   tls.ConnectionState
	S        ServerView
	CRead    []byte // echoed bytes the client read
	SRead    []byte // bytes the server read
	CIOErr   error
	SIOErr   error
	HelloRaw []byte // HandshakeState.Hello.Raw after the handshake
	// HelloRawEnd is Hello.Raw once every task of the connection has finished (after any further
	// Handshake callers, the echo and Close).
	HelloRawEnd []byte
	HelloRequests int
	ExtraErrs   []error
	ExtraRan    []bool
	prepDone    bool
	clientGone  bool
	RawAtHS  []byte // HandshakeState.Hello.Raw as the first client write was performed
	CPanic   any
	SPanic   any
	RefConn  *refsrv.Conn
	UServer  *tls.Conn // the repository server's connection (PeerUTLS)
	KeyUpdates int // KeyUpdate messages the reference server sent
}

func isRemote(err error) bool {
	return err != nil && strings.Contains(err.Error(), "remote error")
}

func isTransportEnd(err error) bool {
	if err == nil {
		return false
	}
	s := err.Error()
	return errors.Is(err, io.EOF) || errors.Is(err, io.ErrUnexpectedEOF) || strings.Contains(s, "EOF") || strings.Contains(s, "connection reset") || strings.Contains(s, "broken pipe") || strings.Contains(s, "closed network connection")
}

// ClientAborted reports whether the handshake failed because the client rejected what the
// server did: the client's error is local and the server's (if any) is a remote alert or a
// transport end.
func (o *ConnOutcome) ClientAborted() bool {
	return o.CErr != nil && !isRemote(o.CErr) && !isTransportEnd(o.CErr)
}

// ServerRejected reports whether the server refused the offer first.
func (o *ConnOutcome) ServerRejected() bool {
	return o.SErr != nil && !isRemote(o.SErr) && !isTransportEnd(o.SErr) && (o.CErr == nil || isRemote(o.CErr) || isTransportEnd(o.CErr))
}

func defaultServer(o *ConnOutcome, conn net.Conn) {
	sp := o.Spec
	rs := sp.ReadSize
	if rs == 0 {
		rs = 4096
	}
	dl := sp.Deadline
	if dl == 0 {
		dl = 60 * time.Second
	}
	conn.SetDeadline(time.Now().Add(dl))
	var rw io.ReadWriteCloser
	if sp.Peer == PeerStd {
		sc := stdtls.Server(conn, sp.StdCfg)
		o.SErr = sc.Handshake()
		if o.SErr != nil {
			conn.Close()
			return
		}
		st := sc.ConnectionState()
		o.S = ServerView{Done: st.HandshakeComplete, Version: st.Version, Suite: st.CipherSuite, ALPN: st.NegotiatedProtocol,
			Curve: uint16(st.CurveID), HasCurve: st.CurveID != 0, DidResume: st.DidResume, ECHAccepted: st.ECHAccepted, ServerName: st.ServerName,
			EKM: st.ExportKeyingMaterial}
		rw = sc
	} else if sp.Peer == PeerRef {
		sc := refsrv.Server(conn, sp.RefCfg)
		o.RefConn = sc
		o.SErr = sc.Handshake()
		if o.SErr != nil {
			conn.Close()
			return
		}
		st := sc.ConnectionState()
		o.S = ServerView{Done: st.HandshakeComplete, Version: st.Version, Suite: st.CipherSuite, ALPN: st.NegotiatedProtocol,
			DidResume: st.DidResume, ECHAccepted: st.ECHAccepted, ServerName: st.ServerName, EKM: st.ExportKeyingMaterial}
		rw = sc
		if sp.AfterServerHS != nil {
			sp.AfterServerHS(o)
		}
		if sp.ServerHelloRequest != nil && st.Version <= tls.VersionTLS12 && sp.ServerHelloRequest(-1) {
			if sc.SendRawHandshake([]byte{0, 0, 0, 0}) == nil {
				o.HelloRequests++
			}
		}
	} else {
		sc := tls.Server(conn, sp.SCfg)
		o.UServer = sc
		o.SErr = sc.Handshake()
		if o.SErr != nil {
			conn.Close()
			return
		}
		st := sc.ConnectionState()
		cv := tls.VerifCurveID(st)
		o.S = ServerView{Done: st.HandshakeComplete, Version: st.Version, Suite: st.CipherSuite, ALPN: st.NegotiatedProtocol,
			Curve: uint16(cv), HasCurve: cv != 0, DidResume: st.DidResume, ECHAccepted: st.ECHAccepted, ServerName: st.ServerName,
			EKM: st.ExportKeyingMaterial, DidHRR: tls.VerifDidHRR(st)}
		rw = sc
	}
	o.SDone = true
	if sp.ServerStall > 0 {
		simrt.Sleep(sp.ServerStall)
		conn.SetDeadline(time.Now().Add(dl))
	}
	buf := make([]byte, rs)
	echoes := 0
	for {
		n, err := rw.Read(buf)
		if n > 0 {
			o.SRead = append(o.SRead, buf[:n]...)
			if sp.ServerKeyUpdate != nil && o.RefConn != nil && o.S.Version == tls.VersionTLS13 {
				if send, req := sp.ServerKeyUpdate(echoes); send {
					if kerr := o.RefConn.SendKeyUpdate(req); kerr != nil {
						o.SIOErr = kerr
						break
					}
					o.KeyUpdates++
				}
			}
			if sp.ServerHelloRequest != nil && o.RefConn != nil && o.S.Version <= tls.VersionTLS12 && sp.ServerHelloRequest(echoes) {
				if o.RefConn.SendRawHandshake([]byte{0, 0, 0, 0}) == nil {
					o.HelloRequests++
				}
			}
			echoes++
			if _, werr := rw.Write(buf[:n]); werr != nil {
				o.SIOErr = werr
				break
			}
			if sp.ServerCloseAfter > 0 && len(o.SRead) >= sp.ServerCloseAfter {
				break
			}
		}
		if err != nil {
			if err != io.EOF {
				o.SIOErr = err
			}
			break
		}
	}
	rw.Close()
}

func defaultClient(o *ConnOutcome, conn net.Conn) {
	sp := o.Spec
	rs := sp.ReadSize
	if rs == 0 {
		rs = 4096
	}
	dl := sp.Deadline
	if dl == 0 {
		dl = 60 * time.Second
	}
	conn.SetDeadline(time.Now().Add(dl))
	u := tls.UClient(conn, sp.CCfg, sp.ID)
	o.U = u
	if sp.Spec != nil {
		if err := u.ApplyPreset(sp.Spec); err != nil {
			o.BuildErr = err
			o.clientGone = true
			conn.Close()
			return
		}
	}
	if sp.Prep != nil {
		if err := sp.Prep(u); err != nil {
			o.BuildErr = err
			o.clientGone = true
			conn.Close()
			return
		}
	}
	o.prepDone = true
	o.CErr = u.Handshake()
	if u.HandshakeState.Hello != nil {
		o.HelloRaw = append([]byte(nil), u.HandshakeState.Hello.Raw...)
	}
	if o.CErr != nil {
		o.clientGone = true
		u.Close()
		return
	}
	o.CDone = true
	o.CState = u.ConnectionState()
	if sp.After != nil {
		sp.After(u)
	}
	total := 0
	for _, p := range sp.Payload {
		if _, err := u.Write(p); err != nil {
			o.CIOErr = err
			break
		}
		total += len(p)
	}
	if sp.CReadSize > 0 {
		rs = sp.CReadSize
	}
	buf := make([]byte, rs)
	for o.CIOErr == nil && len(o.CRead) < total {
		n, err := u.Read(buf)
		o.CRead = append(o.CRead, buf[:n]...)
		if err != nil {
			o.CIOErr = err
			break
		}
	}
	u.Close()
}

// RunConn runs one connection to completion (root goroutine): link, client and server tasks.
func RunConn(c *Ctx, w *simrt.World, sp *ConnSpec) *ConnOutcome {
	if sp.Name == "" {
		sp.Name = "c"
	}
	o := &ConnOutcome{Spec: sp}
	if sp.Out != nil {
		*sp.Out = o
	}
	l := simnet.NewLink(sp.Name)
	o.Link = l
	if sp.Setup != nil {
		sp.Setup(l)
	}
	first := true
	l.A.OnWrite = func(w *simrt.World, b []byte) {
		if sp.OnClientWrite != nil {
			sp.OnClientWrite(l, b)
		}
		if first {
			first = false
			if o.U != nil && o.U.HandshakeState.Hello != nil {
				o.RawAtHS = append([]byte(nil), o.U.HandshakeState.Hello.Raw...)
			}
		}
	}
	cf, sf := sp.ClientFn, sp.ServerFn
	if cf == nil {
		cf = defaultClient
	}
	if sf == nil {
		sf = defaultServer
	}
	w.Go(sp.Name+".client", func() {
		defer func() {
			if r := recover(); r != nil {
				o.CPanic = r
				panic(r)
			}
		}()
		cf(o, l.A)
	})
	w.Go(sp.Name+".server", func() {
		defer func() {
			if r := recover(); r != nil {
				o.SPanic = r
				panic(r)
			}
		}()
		sf(o, l.B)
	})
	if sp.AuxClient != nil {
		w.Go(sp.Name+".aux", func() { sp.AuxClient(o) })
	}
	o.ExtraErrs = make([]error, sp.ExtraHandshakers)
	o.ExtraRan = make([]bool, sp.ExtraHandshakers)
	for i := 0; i < sp.ExtraHandshakers; i++ {
		i := i
		w.Go(fmt.Sprintf("%s.hs%d", sp.Name, i), func() {
			// (enabled only once two more scheduler steps were granted: no busy loop; bounded, so that a
			// client stuck before its handshake is seen by the deadlock detector)
			if !simrt.Poll(func() bool { return o.prepDone || o.clientGone }, 4000) {
				return
			}
			if i < len(sp.ExtraDelay) {
				simrt.WaitSteps(sp.ExtraDelay[i])
			}
			if o.clientGone || o.U == nil {
				return
			}
			o.ExtraRan[i] = true
			o.ExtraErrs[i] = o.U.Handshake()
		})
	}
	w.Run()
	w.Join()
	if o.U != nil && o.U.HandshakeState.Hello != nil {
		o.HelloRawEnd = append([]byte(nil), o.U.HandshakeState.Hello.Raw...)
	}
	for k, v := range l.AB.Fired {
		c.Fault(k, v)
	}
	for k, v := range l.BA.Fired {
		c.Fault(k, v)
	}
	return o
}

// Describe summarises an outcome for violation details.
func (o *ConnOutcome) Describe() string {
	return fmt.Sprintf("id=%s-%s peer=%s build=%v cerr=%v serr=%v cdone=%v sdone=%v cio=%v sio=%v", o.Spec.ID.Client, o.Spec.ID.Version, peerName(o.Spec.Peer), o.BuildErr, o.CErr, o.SErr, o.CDone, o.SDone, o.CIOErr, o.SIOErr)
}

// ---- ID table ----

type IDInfo struct {
	Name string
	ID   tls.ClientHelloID
}

// AllParrots lists every predefined browser ClientHelloID exported by the package
// (harness table; HelloGolang, HelloCustom and the randomized families are separate).
var AllParrots = []IDInfo{
	{"Firefox_55", tls.HelloFirefox_55}, {"Firefox_56", tls.HelloFirefox_56}, {"Firefox_63", tls.HelloFirefox_63},
	{"Firefox_65", tls.HelloFirefox_65}, {"Firefox_99", tls.HelloFirefox_99}, {"Firefox_102", tls.HelloFirefox_102},
	{"Firefox_105", tls.HelloFirefox_105}, {"Firefox_120", tls.HelloFirefox_120},
	{"Chrome_58", tls.HelloChrome_58}, {"Chrome_62", tls.HelloChrome_62}, {"Chrome_70", tls.HelloChrome_70},
	{"Chrome_72", tls.HelloChrome_72}, {"Chrome_83", tls.HelloChrome_83}, {"Chrome_87", tls.HelloChrome_87},
	{"Chrome_96", tls.HelloChrome_96}, {"Chrome_100", tls.HelloChrome_100}, {"Chrome_102", tls.HelloChrome_102},
	{"Chrome_106_Shuffle", tls.HelloChrome_106_Shuffle},
	{"Chrome_100_PSK", tls.HelloChrome_100_PSK}, {"Chrome_112_PSK_Shuf", tls.HelloChrome_112_PSK_Shuf},
	{"Chrome_114_Padding_PSK_Shuf", tls.HelloChrome_114_Padding_PSK_Shuf},
	{"Chrome_115_PQ", tls.HelloChrome_115_PQ}, {"Chrome_115_PQ_PSK", tls.HelloChrome_115_PQ_PSK},
	{"Chrome_120", tls.HelloChrome_120}, {"Chrome_120_PQ", tls.HelloChrome_120_PQ}, {"Chrome_131", tls.HelloChrome_131},
	{"Chrome_133", tls.HelloChrome_133},
	{"IOS_11_1", tls.HelloIOS_11_1}, {"IOS_12_1", tls.HelloIOS_12_1}, {"IOS_13", tls.HelloIOS_13}, {"IOS_14", tls.HelloIOS_14},
	{"Android_11_OkHttp", tls.HelloAndroid_11_OkHttp},
	{"Edge_85", tls.HelloEdge_85}, {"Edge_106", tls.HelloEdge_106},
	{"Safari_16_0", tls.HelloSafari_16_0},
	{"360_7_5", tls.Hello360_7_5}, {"360_11_0", tls.Hello360_11_0},
	{"QQ_11_1", tls.HelloQQ_11_1},
}

// RandomizedID returns one of the three randomized families with a seed from the chooser.
func RandomizedID(ch *simrt.Chooser) (IDInfo, *tls.PRNGSeed) {
	fam := []IDInfo{{"Randomized", tls.HelloRandomized}, {"RandomizedALPN", tls.HelloRandomizedALPN}, {"RandomizedNoALPN", tls.HelloRandomizedNoALPN}}
	f := fam[ch.Pick(3, "rand-family")]
	var seed tls.PRNGSeed
	ch.Bytes(seed[:], "rand-seed")
	f.ID.Seed = &seed
	return f, &seed
}

// CallerNoise pre-sets fields that the caller's Config may already carry when it is handed to
// UClient and that a fingerprint (parrot, randomized or custom spec) overrides by documentation:
// version bounds, ALPN, cipher suites, curve preferences. Never used with HelloGolang, whose
// hello is defined by the Config. Returns a short description for the world's class.
func CallerNoise(ch *simrt.Chooser, cfg *tls.Config) string {
	k := 0
	if ch.Bool(35, "caller-vers?") {
		k = 1 + ch.Pick(6, "caller-vers")
	}
	switch k {
	case 1:
		cfg.MinVersion, cfg.MaxVersion = tls.VersionTLS10, tls.VersionTLS11
	case 2:
		cfg.MinVersion, cfg.MaxVersion = tls.VersionTLS10, tls.VersionTLS10
	case 3:
		cfg.MinVersion, cfg.MaxVersion = tls.VersionTLS12, tls.VersionTLS12
	case 4:
		cfg.MinVersion, cfg.MaxVersion = tls.VersionTLS13, tls.VersionTLS13
	case 5:
		cfg.MaxVersion = tls.VersionTLS11
	case 6:
		cfg.MinVersion = tls.VersionTLS10
	}
	extra := ch.Bool(20, "caller-extra")
	if extra {
		cfg.NextProtos = []string{"verif/1"}
		cfg.CurvePreferences = []tls.CurveID{tls.CurveP521}
	}
	return fmt.Sprintf("caller=%d/%v", k, extra)
}
