package scen

import (
	"bytes"
	stdtls "crypto/tls"
	"fmt"
	"io"
	"sync"
	"time"

	tls "github.com/refraction-networking/utls"
	"github.com/refraction-networking/utls/zz_verif/refsrv"
	"github.com/refraction-networking/utls/zz_verif/simnet"
	"github.com/refraction-networking/utls/zz_verif/simrt"
	"github.com/refraction-networking/utls/zz_verif/wire"
)

// C27: forged connections from shared secrets interoperate.
// C28: GetOutKeystream returns the keystream of the next record.

func init() {
	Register("C27", &Info{
		Run:   runC27,
		Quick: 9000, Thor: 1200000,
		Rule: "a world = two connections made by MakeConnWithCompleteHandshake (one client, one server) from the same drawn version (1.0-1.2), suite (every documented TLS<=1.2 suite incl. RC4, 3DES, the legacy ChaCha20 code points and the EnableWeakCiphers suites, by run index; plus drawn unsupported ids: TLS 1.3 suites, GREASE, unknown), master secret and randoms, joined by a simulated link; both ends write drawn sizes concurrently (optionally followed at once by CloseWrite, so that close_notify travels right behind the data) and read what the other wrote with a drawn buffer size (16 B .. 32 kB), to the end of the stream in the CloseWrite case, scheduled at every transport and lock operation; optional bit flip on the wire; oracle: unsupported id => nil on both ends; otherwise each side reads exactly what the other wrote (prefix + error after a flip); non-trivial = both ends non-nil and data sent; distinct = (suite, version, sizes, fault)",
		Assumptions: []string{"EnableWeakCiphers is process-global: a C27 worker process enables it before its first world; every second worker process (VERIF_PROCMODE=1, recorded in the replay file) forges connections before the opt-in call"},
		Real:        []string{"utls MakeConnWithCompleteHandshake, Conn record layer from /repo (both ends)"},
		Stub:        []string{"transport, scheduler, crypto/rand"},
	})
	Register("C28", &Info{
		Run:   runC28,
		Quick: 6000, Thor: 500000,
		Rule: "a world = one connection with an AEAD suite (TLS 1.2: AES-GCM and ChaCha20 suites; TLS 1.3: the three suites) against the repository or std server; after k drawn echo rounds (sequence position) the client calls GetOutKeystream(n) for a drawn n (0..record size) - a quarter of the worlds from inside the transport's Write of the preceding record -, then writes a drawn plaintext; the ciphertext of that record is taken from the wire tap; oracle: keystream XOR plaintext == ciphertext after the explicit nonce, for min(n, len) bytes; the peer still accepts that record and all later ones (echo continues); non-trivial = keystream compared with a captured record; distinct = (version, suite, n, position, plaintext length)",
		Assumptions: []string{"explicit nonce: 8 bytes for TLS 1.2 AES-GCM records, none for ChaCha20 and TLS 1.3 (RFC 5288, 7905, 8446)"},
		Real:        []string{"utls client (GetOutKeystream, record layer) from /repo", "utls or std server"},
		Stub:        []string{"transport (wire tap), clock, crypto/rand"},
	})
}

var c27Once sync.Once

type forgeCase struct {
	suite uint16
	vers  []uint16
}

var forgeCases []forgeCase

func buildForgeCases() {
	all := []uint16{0x0301, 0x0302, 0x0303}
	only12 := []uint16{0x0303}
	add := func(s uint16, v []uint16) { forgeCases = append(forgeCases, forgeCase{s, v}) }
	for _, s := range []uint16{0xc02b, 0xc02f, 0xc02c, 0xc030, 0xcca9, 0xcca8, 0x009c, 0x009d, 0xc023, 0xc027, 0x003c, 0xcc13, 0xcc14, 0x003d, 0xc024, 0xc028} {
		add(s, only12)
	}
	for _, s := range []uint16{0xc009, 0xc00a, 0xc013, 0xc014, 0x002f, 0x0035, 0x000a, 0xc012, 0x0005, 0xc007, 0xc011} {
		add(s, all)
	}
}

func runC27(c *Ctx) {
	ch := c.Ch
	c27Once.Do(func() {
		if ProcMode == 1 {
			// half of the worker processes have already forged connections (suite lookups, including
			// one for a suite that is not enabled yet) before the opt-in call
			pl := simnet.NewLink("probe")
			z := make([]byte, 48)
			tls.MakeConnWithCompleteHandshake(pl.A, tls.VersionTLS12, 0xc02f, z, z[:32], z[:32], true)
			tls.MakeConnWithCompleteHandshake(pl.A, tls.VersionTLS12, 0x003d, z, z[:32], z[:32], true)
		}
		tls.EnableWeakCiphers()
		buildForgeCases()
	})
	unsupported := c.Run%7 == 6
	var suite, ver uint16
	if unsupported {
		suite = []uint16{0x1301, 0x1302, 0x1303, 0x0a0a, 0x0000, 0x00ff, 0x5600, 0x0033, 0x009e, 0xc008, uint16(0x4000 + ch.Pick(0x1000, "unk"))}[ch.Pick(11, "unsupported")]
		ver = []uint16{0x0301, 0x0302, 0x0303, 0x0304}[ch.Pick(4, "ver")]
	} else {
		fc := forgeCases[int(c.Run)%len(forgeCases)]
		suite = fc.suite
		ver = fc.vers[ch.Pick(len(fc.vers), "ver")]
	}
	master := make([]byte, 48)
	cr := make([]byte, 32)
	sr := make([]byte, 32)
	ch.Bytes(master, "master")
	ch.Bytes(cr, "cr")
	ch.Bytes(sr, "sr")
	gen := func(tag string) [][]byte {
		n := ch.Range(1, 4, "nwrites")
		var out [][]byte
		for i := 0; i < n; i++ {
			sz := []int{0, 1, 2, 100, 5000, 16384, 16385, 30000}[ch.Pick(8, "size")]
			b := make([]byte, sz)
			ch.Bytes(b, tag)
			out = append(out, b)
		}
		return out
	}
	aw, bw := gen("a"), gen("b")
	flip := ch.Bool(20, "flip")
	w := c.NewWorld(simrt.Config{LockYield: ch.Bool(40, "lockyield"), UnlockYield: ch.Bool(25, "unlockyield"), PreemptPct: 10 + 20*ch.Pick(3, "preempt")})
	l := simnet.NewLink("f")
	l.Frag = ch.Bool(50, "frag")
	var atot, btot int
	for _, p := range aw {
		atot += len(p)
	}
	for _, p := range bw {
		btot += len(p)
	}
	if flip && atot > 0 {
		l.AB.FlipAt = int64(ch.Pick(atot, "flip-off"))
		l.AB.FlipMask = 0x10
	}
	rbuf := []int{4096, 4096, 16, 700, 32768}[ch.Pick(5, "read-size")]
	if atot+btot > 40000 && rbuf < 700 {
		rbuf = 700
	}
	closeWrite := ch.Bool(40, "close-write-after-data") // close_notify travels right behind the last data record
	ca := tls.MakeConnWithCompleteHandshake(l.A, ver, suite, master, cr, sr, true)
	cb := tls.MakeConnWithCompleteHandshake(l.B, ver, suite, master, cr, sr, false)
	c.R.Class = fmt.Sprintf("suite=%04x v=%x a=%v b=%v flip=%v rbuf=%d closewrite=%v mode=%d", suite, ver, lens(aw), lens(bw), flip, rbuf, closeWrite, ProcMode)
	if unsupported {
		c.R.NonTrivial = true
		if ca != nil || cb != nil {
			c.Violate(fmt.Sprintf("unsupported-suite-yields-connection suite=%04x", suite), "%s: client nil=%v server nil=%v", c.R.Class, ca == nil, cb == nil)
		}
		c.Finish(w, true)
		return
	}
	if ca == nil || cb == nil {
		c.Violate(fmt.Sprintf("supported-suite-yields-nil suite=%04x v=%x", suite, ver), "%s", c.R.Class)
		c.Finish(w, true)
		return
	}
	l.A.SetDeadline(time.Now().Add(60 * time.Second))
	l.B.SetDeadline(time.Now().Add(60 * time.Second))
	var aread, bread []byte
	var aerr, berr, awerr, bwerr error
	rd := func(conn *tls.Conn, want int, dst *[]byte, e *error) {
		buf := make([]byte, rbuf)
		for len(*dst) < want || closeWrite {
			n, err := conn.Read(buf)
			*dst = append(*dst, buf[:n]...)
			if err != nil {
				*e = err
				return
			}
		}
	}
	wr := func(conn *tls.Conn, ps [][]byte, e *error) {
		for _, p := range ps {
			if _, err := conn.Write(p); err != nil {
				*e = err
				return
			}
		}
		if closeWrite {
			if err := conn.CloseWrite(); err != nil {
				*e = err
			}
		}
	}
	w.Go("a.write", func() { wr(ca, aw, &awerr) })
	w.Go("b.write", func() { wr(cb, bw, &bwerr) })
	w.Go("a.read", func() { rd(ca, btot, &aread, &aerr) })
	w.Go("b.read", func() { rd(cb, atot, &bread, &berr) })
	w.Run()
	w.Go("close", func() { ca.Close(); cb.Close() })
	w.Run()
	w.Join()
	c.Finish(w, true)
	for k, v := range l.AB.Fired {
		c.Fault(k, v)
	}
	if c.R.Violation != nil {
		return
	}
	c.R.NonTrivial = atot+btot > 0
	var asent, bsent []byte
	for _, p := range aw {
		asent = append(asent, p...)
	}
	for _, p := range bw {
		bsent = append(bsent, p...)
	}
	if !bytes.HasPrefix(asent, bread) || !bytes.HasPrefix(bsent, aread) {
		c.Violate(fmt.Sprintf("forged-connection-altered-data suite=%04x v=%x", suite, ver), "%s: b read %d/%d (prefix=%v), a read %d/%d (prefix=%v)", c.R.Class, len(bread), atot, bytes.HasPrefix(asent, bread), len(aread), btot, bytes.HasPrefix(bsent, aread))
		return
	}
	fired := l.AB.Fired["flip"] > 0
	if !fired {
		if len(bread) != atot || len(aread) != btot || aerr != nil && aerr != io.EOF || berr != nil && berr != io.EOF || awerr != nil || bwerr != nil {
			c.Violate(fmt.Sprintf("forged-connection-does-not-interoperate suite=%04x v=%x", suite, ver), "%s: b read %d/%d err=%v, a read %d/%d err=%v, write errors %v %v", c.R.Class, len(bread), atot, berr, len(aread), btot, aerr, awerr, bwerr)
		}
	} else if len(bread) == atot && (berr == nil || berr == io.EOF) && atot > 0 {
		c.Violate(fmt.Sprintf("forged-connection-accepts-tampered-record suite=%04x v=%x", suite, ver), "%s: all %d bytes read without error after a bit flip", c.R.Class, atot)
	}
	if c.R.Run%300 == 0 {
		c.R.Sample = map[string]any{"suite": suite, "version": ver, "a_writes": lens(aw), "b_writes": lens(bw), "flip": flip}
	}
}

func runC28(c *Ctx) {
	ch := c.Ch
	cases := []suiteCase{{0x0304, 0x1301, nil}, {0x0304, 0x1302, nil}, {0x0304, 0x1303, nil}, {0x0303, 0xc02b, nil}, {0x0303, 0xc02f, nil}, {0x0303, 0xc02c, nil}, {0x0303, 0xc030, nil},
		{0x0303, 0xcca9, nil}, {0x0303, 0xcca8, nil}, {0x0303, 0x009c, nil}, {0x0303, 0x009d, nil}}
	sc := cases[int(c.Run)%len(cases)]
	peer := ch.Pick(2, "peer")
	rounds := ch.Range(0, 4, "rounds")
	n := []int{0, 1, 15, 16, 17, 100, 1000, 16384, 16385, 20000}[ch.Pick(10, "n")]
	plen := []int{1, 16, 100, 1000, 16384}[ch.Pick(5, "plen")]
	plain := make([]byte, plen)
	ch.Bytes(plain, "plain")
	w := c.NewWorld(simrt.Config{})
	auth := suiteAuth(sc.suite)
	scfg := &tls.Config{Certificates: []tls.Certificate{Cert(auth).U}, MaxVersion: sc.ver}
	stdcfg := stdCfgFor(auth, sc.ver, sc.suite)
	if sc.ver < 0x0304 {
		scfg.CipherSuites = []uint16{sc.suite}
	}
	// two phases with the same (position, length) query; between them optionally a TLS 1.3 key update (also one that a second client task meets in Read while this task sits in a Write held back by the transport)
	// initiated by the reference server (the sending key changes, the sequence number restarts), or a
	// jump of the sequence numbers on both ends to a position that cannot be reached record by record
	phases := 1 + ch.Pick(2, "phases")
	between := "none"
	var jumpTo int64
	if phases == 2 {
		switch ch.Pick(4, "between") {
		case 3:
			if sc.ver == 0x0304 {
				// the server's KeyUpdate(update_requested) is processed by a second client task (Read)
				// while this task is inside a Write that the transport holds back
				between = "key-update-during-write"
				peer = PeerRef
			}
		case 1:
			if sc.ver == 0x0304 {
				between = "key-update"
				peer = PeerRef
			}
		case 2:
			between = "seq-jump"
			peer = PeerUTLS
			jumpTo = []int64{1<<32 - 2, 1 << 32, 0x12300000007, 1 << 56}[ch.Pick(4, "jump-to")]
		}
	}
	var rcfg *refsrv.Config
	if peer == PeerRef {
		rcfg = refCfg(auth)
		rcfg.MaxVersion = sc.ver
	}
	c.R.Class = fmt.Sprintf("v=%x suite=%04x peer=%s rounds=%d n=%d plen=%d phases=%d between=%s/%x", sc.ver, sc.suite, peerName(peer), rounds, n, plen, phases, between, jumpTo)
	var ks [2][]byte
	var ksErr error
	// a quarter of the worlds ask for the keystream from inside the transport's Write call
	fromTransport := ch.Bool(25, "keystream-from-transport-write")
	var ksWant, ksGot bool
	var ksPending []byte
	extraEcho := 0 // the "record-before" echo of phase 0 shifts the server's echo count
	if fromTransport {
		extraEcho = 1
	}
	c.R.Class += fmt.Sprintf(" from-transport=%v", fromTransport)
	markPending := false
	var tapAts []int
	var l *simnet.Link
	var o *ConnOutcome
	sp := &ConnSpec{ID: tls.HelloCustom, Spec: singleSuiteSpec(sc.ver, sc.suite), CCfg: &tls.Config{ServerName: "example.test", RootCAs: Roots()}, Peer: peer, SCfg: scfg, StdCfg: stdcfg, RefCfg: rcfg,
		Setup: func(ll *simnet.Link) {
			l = ll
			ll.Frag = ch.Bool(30, "frag")
			// (in the writing task, inside the transport's Write)
			ll.A.BeforeWrite = func(b []byte) {
				if ksWant && o != nil && o.U != nil {
					ksWant, ksGot = false, true
					ksPending, ksErr = o.U.GetOutKeystream(n)
					c.Fault("keystream-from-transport-write", 1)
				}
			}
		}}
	if between == "key-update" {
		sp.ServerKeyUpdate = func(i int) (bool, bool) { return i == rounds+extraEcho, true }
	}
	// key-update-during-write: phase 0 as usual; then a trigger message makes the server send
	// KeyUpdate(update_requested); the client->server direction stalls for 3 s behind a 512-byte send
	// buffer, so the main task's 20 kB Write sits in the transport (holding the write half) while the
	// aux task reads and meets the KeyUpdate; when both are through, phase 1 asks for the keystream
	var kuwWriting, kuwAuxDone bool
	var kuwAuxErr error
	kuwBig := make([]byte, 20000)
	if between == "key-update-during-write" {
		sp.ServerKeyUpdate = func(i int) (bool, bool) { return i == rounds+1+extraEcho, true } // rounds echoes + the phase-0 plaintext come first
		sp.AuxClient = func(o *ConnOutcome) {
			if !simrt.Poll(func() bool { return kuwWriting || o.clientGone || kuwAuxDone }, 4000) || !kuwWriting {
				return
			}
			simrt.Sleep(300 * time.Millisecond)
			want := len("trigger") + len(kuwBig)
			buf := make([]byte, 4096)
			got := 0
			for got < want {
				n, err := o.U.Read(buf)
				got += n
				if err != nil {
					kuwAuxErr = err
					break
				}
			}
			kuwAuxDone = true
		}
	}
	var ioErr error
	sp.After = func(u *tls.UConn) {
		echo := func(b []byte) bool {
			if _, err := u.Write(b); err != nil {
				ioErr = err
				return false
			}
			got := make([]byte, len(b))
			if _, err := io.ReadFull(u, got); err != nil || !bytes.Equal(got, b) {
				ioErr = fmt.Errorf("echo mismatch: %v", err)
				return false
			}
			return true
		}
		defer func() { kuwAuxDone = true }()
		for ph := 0; ph < phases; ph++ {
			if ph == 1 && between == "key-update-during-write" {
				if _, err := u.Write([]byte("trigger")); err != nil {
					ioErr = err
					return
				}
				l.AB.Cap = 512
				l.AB.StallAt, l.AB.StallFor = l.AB.Total, 3*time.Second
				kuwWriting = true
				if _, err := u.Write(kuwBig); err != nil {
					ioErr = err
					return
				}
				if !simrt.Poll(func() bool { return kuwAuxDone }, 8000) {
					ioErr = fmt.Errorf("the reader task did not finish")
					return
				}
				l.AB.Cap = 0
				if kuwAuxErr != nil {
					ioErr = fmt.Errorf("reader task: %v", kuwAuxErr)
					return
				}
				c.Fault("key-update-during-write", 1)
			}
			if ph == 1 && between == "seq-jump" && o != nil && o.UServer != nil {
				// both ends idle: the server waits for the next record
				tls.VerifSetSeq(u.Conn, jumpTo, -1)
				tls.VerifSetSeq(o.UServer, -1, jumpTo)
				c.Fault("seq-jump", 1)
			}
			for i := 0; i < rounds && !(ph == 1 && between == "seq-jump"); i++ {
				if !echo([]byte(fmt.Sprintf("round-%d", i))) {
					return
				}
			}
			if fromTransport {
				// the query is made from inside the transport's Write of the record before (the one
				// place a caller can reach while a Write is in progress without racing with it): that
				// record has been sealed, so the "next record" is the one after it
				ksWant, ksGot = true, false
				if !echo([]byte("record-before")) {
					return
				}
				if !ksGot {
					ioErr = fmt.Errorf("harness: the transport saw no write")
					return
				}
				ks[ph] = ksPending
			} else {
				ks[ph], ksErr = u.GetOutKeystream(n)
			}
			if ksErr != nil {
				return
			}
			markPending = true
			if !echo(plain) {
				return
			}
		}
		echo([]byte("after-keystream"))
	}
	// remember the tap position at which the record following each GetOutKeystream starts
	sp.OnClientWrite = func(ll *simnet.Link, b []byte) {
		if markPending {
			markPending = false
			tapAts = append(tapAts, len(ll.AB.Sent))
		}
	}
	sp.Out = &o
	o = RunConn(c, w, sp)
	c.Finish(w, true)
	if o.KeyUpdates > 0 {
		c.Fault("key-update", o.KeyUpdates)
	}
	if c.R.Violation != nil {
		return
	}
	if !o.CDone {
		c.Violate(fmt.Sprintf("cannot-establish v=%x suite=%04x", sc.ver, sc.suite), "%s: %s", c.R.Class, o.Describe())
		return
	}
	if o.CState.CipherSuite != sc.suite {
		c.R.Harness = fmt.Sprintf("negotiated %04x", o.CState.CipherSuite)
		return
	}
	if ksErr != nil {
		c.Violate("keystream-error", "%s: %v", c.R.Class, ksErr)
		return
	}
	if ioErr != nil {
		c.Violate(fmt.Sprintf("peer-rejected-after-keystream v=%x suite=%04x between=%s", sc.ver, sc.suite, between), "%s: %v (server: %v)", c.R.Class, ioErr, o.SIOErr)
		return
	}
	if len(tapAts) != phases {
		c.R.Harness = fmt.Sprintf("%d marks for %d phases", len(tapAts), phases)
		return
	}
	for ph := 0; ph < phases; ph++ {
		if len(ks[ph]) < n {
			// (the implementation returns n bytes plus the AEAD tag of the all-zero plaintext; only
			// the first n bytes are specified)
			c.Violate("keystream-too-short", "%s: got %d bytes", c.R.Class, len(ks[ph]))
			return
		}
		recs, _, err := wire.ParseRecords(l.AB.Sent[tapAts[ph]:])
		if err != nil && len(recs) == 0 {
			c.R.Harness = fmt.Sprintf("cannot parse the tap at %d: %v", tapAts[ph], err)
			return
		}
		if len(recs) == 0 {
			c.R.Harness = "no record at the mark"
			return
		}
		rec := recs[0]
		if rec.Type != 23 {
			c.R.Harness = fmt.Sprintf("record at the mark has type %d", rec.Type)
			return
		}
		ct := rec.Payload
		if sc.ver == 0x0303 && (sc.suite == 0xc02b || sc.suite == 0xc02f || sc.suite == 0xc02c || sc.suite == 0xc030 || sc.suite == 0x009c || sc.suite == 0x009d) {
			ct = ct[8:] // explicit nonce
		}
		m := n
		if plen < m {
			m = plen
		}
		// the record holds at most its own plaintext (dynamic record sizing may cut the write):
		// ciphertext minus the 16-byte tag and, in TLS 1.3, the inner content-type byte
		inRec := len(ct) - 16
		if sc.ver == 0x0304 {
			inRec--
		}
		if inRec < m {
			m = inRec
		}
		if m < 0 {
			m = 0
		}
		if m > 0 || n == 0 {
			c.R.NonTrivial = true
		}
		for i := 0; i < m; i++ {
			if ks[ph][i]^plain[i] != ct[i] {
				c.Violate(fmt.Sprintf("keystream-mismatch v=%x suite=%04x phase=%d between=%s", sc.ver, sc.suite, ph, between), "%s: phase %d byte %d: keystream %02x ^ plain %02x != cipher %02x", c.R.Class, ph, i, ks[ph][i], plain[i], ct[i])
				return
			}
		}
	}
	if c.R.Run%200 == 0 {
		c.R.Sample = map[string]any{"version": sc.ver, "suite": sc.suite, "n": n, "position": rounds, "plaintext_len": plen, "phases": phases, "between": between}
	}
}

func stdCfgFor(auth string, ver, suite uint16) *stdtls.Config {
	cfg := &stdtls.Config{Certificates: []stdtls.Certificate{Cert(auth).S}, MaxVersion: ver, MinVersion: stdtls.VersionTLS10}
	if ver < 0x0304 {
		cfg.CipherSuites = []uint16{suite}
	}
	return cfg
}
