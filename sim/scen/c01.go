package scen

import (
	"bytes"
	stdtls "crypto/tls"
	"fmt"
	"strings"

	tls "github.com/refraction-networking/utls"
	"github.com/refraction-networking/utls/zz_verif/simnet"
	"github.com/refraction-networking/utls/zz_verif/simrt"
	"github.com/refraction-networking/utls/zz_verif/wire"
)

// C01: the ClientHello on the wire is exactly the hello the caller built and inspected.

func init() {
	Register("C01", &Info{
		Run:   runC01,
		Quick: 3000, Thor: 1200000,
		Rule: "a world = one fingerprint (every predefined parrot by stratum, randomized seeds, generated specs; never HelloGolang) with explicit BuildHandshakeState followed by 0-6 documented edits (SetClientRandom, SetSNI, append/remove/replace/swap of non-session extensions, Hello.CipherSuites, Hello.SessionId, a second BuildHandshakeState) and Handshake against a plain or HelloRetryRequest-forcing server, optionally as the second connection of a history with a cached session (ticket / PSK binder patch); in a quarter of the worlds one or two further tasks call Handshake on the same UConn after a drawn number of scheduler steps (they queue on the handshake mutex or find the handshake complete); the scheduler snapshots HandshakeState.Hello.Raw when the client's first write is performed; oracle: first hello on the wire == that snapshot byte for byte, every edit visible in the independent parse, Hello.Raw after the handshake - when Handshake returned and again when every task of the connection has finished - == last hello on the wire; non-trivial = >=1 edit applied and a hello reached the wire; distinct = (fingerprint, edit sequence, server kind)",
		Assumptions: []string{"only the listed public mutators are applied; arbitrary reflection-level edits are out of scope",
			"expected extension order after an edit is derived by applying the same list edit to the type sequence parsed from the hello built before the edits (no knowledge of extension type ids is taken from the library)"},
		Real: []string{"utls client from /repo", "utls or std server"},
		Stub: []string{"transport (fragmenting), clock, crypto/rand"},
	})
}

func extTypesNoPad(ch *wire.ClientHello) []uint16 {
	var ts []uint16
	for _, e := range ch.Extensions {
		if e.Type != 21 {
			ts = append(ts, e.Type)
		}
	}
	return ts
}

func runC01(c *Ctx) {
	ch := c.Ch
	stratum := int64(-1)
	if c.Run%3 == 0 {
		stratum = c.Run / 3
	}
	var idi IDInfo
	var newSpec func() *tls.ClientHelloSpec
	kind := "id"
	if stratum < 0 && ch.Bool(25, "custom") {
		kind = "custom"
		newSpec, _ = GenSpecFactory(ch, true)
		idi = IDInfo{"Custom", tls.HelloCustom}
	} else {
		idi = PickID(ch, stratum, false)
	}
	nmut := ch.Range(0, 6, "nmut")
	muts := make([]int, nmut)
	for i := range muts {
		muts[i] = ch.Pick(10, "mut")
	}
	var rnd [32]byte
	ch.Bytes(rnd[:], "random")
	sidLen := []int{0, 16, 32}[ch.Pick(3, "sidlen")]
	sid := make([]byte, sidLen)
	ch.Bytes(sid, "sid")
	gdata := make([]byte, ch.Range(0, 20, "glen"))
	ch.Bytes(gdata, "gdata")
	swapAt := ch.Pick(64, "swap-at")
	oddSNI := []string{"", "192.0.2.1", "2001:db8::5", "[2001:db8::5]", "dotted.example.test."}[ch.Pick(5, "odd-sni")]
	forceHRR := ch.Bool(35, "hrr")
	history := ch.Bool(30, "history")
	srvMax := []uint16{tls.VersionTLS13, tls.VersionTLS12}[ch.Pick(3, "srvmax")%2]
	peer := ch.Pick(2, "peer")
	frag := ch.Bool(50, "frag")
	// further callers of Handshake on the same connection (they wait on the handshake mutex or find
	// the handshake complete): whoever calls, the hello that was sent stays the one in Hello.Raw
	extra := 0
	if ch.Bool(25, "extra-callers") {
		extra = 1 + ch.Pick(2, "n-extra")
	}
	extraDelay := []int{ch.Range(0, 40, "extra-delay"), ch.Range(0, 200, "extra-delay")}

	w := c.NewWorld(simrt.Config{LockYield: extra > 0 && ch.Bool(50, "lockyield")})
	cache := tls.NewLRUClientSessionCache(8)
	mk := func() *tls.Config {
		cfg := &tls.Config{ServerName: "example.test", InsecureSkipVerify: true, OmitEmptyPsk: true, PreferSkipResumptionOnNilExtension: true}
		if history {
			cfg.ClientSessionCache = cache
		}
		return cfg
	}
	scfg := &tls.Config{Certificates: []tls.Certificate{Cert("ecdsa").U, Cert("rsa").U}, MaxVersion: srvMax, NextProtos: []string{"h2", "http/1.1", "zz"}}
	stdcfg := &stdtls.Config{Certificates: []stdtls.Certificate{Cert("ecdsa").S, Cert("rsa").S}, MaxVersion: srvMax, NextProtos: []string{"h2", "http/1.1", "zz"}, MinVersion: stdtls.VersionTLS10}
	if forceHRR {
		scfg.CurvePreferences = []tls.CurveID{tls.CurveP384}
		stdcfg.CurvePreferences = []stdtls.CurveID{stdtls.CurveP384}
	}
	var mnames []string
	nconn := 1
	if history {
		nconn = 2
	}
	for i := 0; i < nconn; i++ {
		last := i == nconn-1
		type expect struct {
			random    []byte
			sni       *string
			generic   bool
			genericID uint16
			removed   []uint16
			alpn      []string
			types     []uint16
			suites    []uint16
			sid       []byte
			sidSet    bool
			sniAbsent bool
			before    *wire.ClientHello
		}
		var ex expect
		sp := &ConnSpec{Name: fmt.Sprintf("c%d", i), ID: idi.ID, Spec: freshSpec(newSpec), CCfg: mk(), Peer: peer, SCfg: scfg, StdCfg: stdcfg,
			Payload: [][]byte{[]byte("ping")}, Setup: func(l *simnet.Link) { l.Frag = frag }}
		if last {
			sp.ExtraHandshakers, sp.ExtraDelay = extra, extraDelay
		}
		sp.Prep = func(u *tls.UConn) error {
			if err := u.BuildHandshakeState(); err != nil {
				return err
			}
			if !last {
				return nil
			}
			b, err := wire.ParseClientHello(u.HandshakeState.Hello.Raw)
			if err != nil {
				return fmt.Errorf("hello before edits does not parse: %w", err)
			}
			ex.before = b
			ex.types = extTypesNoPad(b)
			ex.suites = append([]uint16(nil), b.CipherSuites...)
			for _, m := range muts {
				switch m {
				case 0:
					if err := u.SetClientRandom(rnd[:]); err != nil {
						return err
					}
					ex.random = rnd[:]
					mnames = append(mnames, "random")
				case 1:
					if b.SNIPresent {
						u.SetSNI("edited.example.test")
						s := "edited.example.test"
						ex.sni = &s
						ex.sniAbsent = false
						mnames = append(mnames, "sni")
					}
				case 9:
					// SetSNI with a value that is not a legal host_name clears the extension; a
					// trailing dot is dropped (RFC 6066 section 3)
					if b.SNIPresent {
						u.SetSNI(oddSNI)
						if legalHostName(oddSNI) {
							s := strings.TrimRight(oddSNI, ".")
							ex.sni = &s
							ex.sniAbsent = false
						} else {
							ex.sni = nil
							ex.sniAbsent = true
						}
						mnames = append(mnames, "sni-odd")
					}
				case 2:
					if !ex.generic && len(b.PSKIdentities) == 0 && b.ExtIndex(41) < 0 {
						// an extension type the hello does not carry yet (generated specs use ids from the
						// same private range: a second extension of a type already present would be the
						// harness breaking the grammar, not the library)
						gid := uint16(0x4101)
						for b.ExtIndex(gid) >= 0 {
							gid += 2
						}
						u.Extensions = append(u.Extensions, &tls.GenericExtension{Id: gid, Data: gdata})
						ex.generic = true
						ex.genericID = gid
						ex.types = append(ex.types, gid)
						mnames = append(mnames, "append")
					}
				case 3:
					for k, e := range u.Extensions {
						var t uint16
						switch e.(type) {
						case *tls.SCTExtension:
							t = 18
						case *tls.StatusRequestExtension:
							t = 5
						}
						if t != 0 {
							u.Extensions = append(u.Extensions[:k:k], u.Extensions[k+1:]...)
							ex.removed = append(ex.removed, t)
							var nt []uint16
							for _, x := range ex.types {
								if x != t {
									nt = append(nt, x)
								}
							}
							ex.types = nt
							mnames = append(mnames, "remove")
							break
						}
					}
				case 4:
					for _, e := range u.Extensions {
						if a, ok := e.(*tls.ALPNExtension); ok {
							a.AlpnProtocols = []string{"zz"}
							ex.alpn = []string{"zz"}
							mnames = append(mnames, "alpn")
						}
					}
				case 5:
					// swap two adjacent extensions, neither of them session-related or padding
					n := len(u.Extensions)
					if n >= 3 {
						k := swapAt % (n - 1)
						ok := func(e tls.TLSExtension) bool {
							switch e.(type) {
							case *tls.UtlsPaddingExtension, *tls.SessionTicketExtension, *tls.UtlsPreSharedKeyExtension, *tls.FakePreSharedKeyExtension:
								return false
							}
							return true
						}
						if ok(u.Extensions[k]) && ok(u.Extensions[k+1]) && len(ex.types) == n-boolInt(hasPadExt(u)) {
							// position in the padding-free type sequence
							p := 0
							for q := 0; q < k; q++ {
								if _, isPad := u.Extensions[q].(*tls.UtlsPaddingExtension); !isPad {
									p++
								}
							}
							u.Extensions[k], u.Extensions[k+1] = u.Extensions[k+1], u.Extensions[k]
							ex.types[p], ex.types[p+1] = ex.types[p+1], ex.types[p]
							mnames = append(mnames, "swap")
						}
					}
				case 6:
					if len(u.HandshakeState.Hello.CipherSuites) > 3 {
						cs := u.HandshakeState.Hello.CipherSuites
						u.HandshakeState.Hello.CipherSuites = append([]uint16(nil), cs[:len(cs)-1]...)
						ex.suites = ex.suites[:len(ex.suites)-1]
						mnames = append(mnames, "suites")
					}
				case 7:
					u.HandshakeState.Hello.SessionId = append([]byte(nil), sid...)
					ex.sid, ex.sidSet = sid, true
					mnames = append(mnames, fmt.Sprintf("sid%d", len(sid)))
				case 8:
					if err := u.BuildHandshakeState(); err != nil {
						return err
					}
					mnames = append(mnames, "rebuild")
				}
			}
			return nil
		}
		o := RunConn(c, w, sp)
		obs := ObserveHellos(o.Link)
		if !last {
			continue
		}
		c.R.Class = fmt.Sprintf("%s/%s muts=%s hrr=%v hist=%v max=%x peer=%s callers=%d", kind, idi.Name, strings.Join(mnames, ","), forceHRR, history, srvMax, peerName(peer), 1+extra)
		if o.BuildErr != nil {
			c.Probe("build-error")
			break
		}
		if obs.CHErr != nil {
			c.Violate("malformed-clienthello "+idi.Name+" "+errClass(obs.CHErr), "%s: %v", c.R.Class, obs.CHErr)
			break
		}
		if len(obs.CH) == 0 {
			if o.CErr == nil {
				c.R.Harness = "no hello on the wire: " + o.Describe()
			}
			break
		}
		c.R.NonTrivial = len(mnames) > 0
		if len(obs.CH) > 1 {
			c.Probe("hrr")
		}
		if len(obs.CH[0].PSKIdentities) > 0 {
			c.Probe("psk-hello")
		}
		h := obs.CH[0]
		// (1) first hello on the wire == Hello.Raw as rebuilt at handshake start
		if !bytes.Equal(obs.CHRaw[0], o.RawAtHS) {
			c.Violate("wire-hello-differs-from-Hello.Raw "+kind, "%s: wire %d bytes, Hello.Raw at first write %d bytes, first difference at %d", c.R.Class, len(obs.CHRaw[0]), len(o.RawAtHS), firstDiff(obs.CHRaw[0], o.RawAtHS))
			break
		}
		// (2) every edit is visible
		if ex.random != nil && !bytes.Equal(h.Random, ex.random) {
			c.Violate("edit-not-on-wire random", "%s: wire random %x want %x", c.R.Class, h.Random, ex.random)
		}
		if ex.sni != nil && (!h.SNIPresent || h.SNI != *ex.sni) {
			c.Violate("edit-not-on-wire sni", "%s: wire SNI %q present=%v want %q", c.R.Class, h.SNI, h.SNIPresent, *ex.sni)
		}
		if ex.sniAbsent {
			if h.SNIPresent {
				c.Violate("edit-not-on-wire sni-cleared", "%s: SetSNI(%q) must remove server_name, wire still has %q", c.R.Class, oddSNI, h.SNI)
			}
			// the expected type sequence loses server_name
			var nt []uint16
			for _, x := range ex.types {
				if x != 0 {
					nt = append(nt, x)
				}
			}
			ex.types = nt
		}
		if ex.generic {
			if e, ok := h.Ext(ex.genericID); !ok || !bytes.Equal(e.Data, gdata) {
				c.Violate("edit-not-on-wire appended-extension", "%s: appended extension missing or altered", c.R.Class)
			}
		}
		for _, t := range ex.removed {
			if h.ExtIndex(t) >= 0 {
				c.Violate("edit-not-on-wire removed-extension", "%s: removed extension %d still on the wire", c.R.Class, t)
			}
		}
		if ex.alpn != nil && fmt.Sprint(h.ALPN) != fmt.Sprint(ex.alpn) {
			c.Violate("edit-not-on-wire alpn", "%s: wire ALPN %v want %v", c.R.Class, h.ALPN, ex.alpn)
		}
		if got := extTypesNoPad(h); fmt.Sprint(got) != fmt.Sprint(ex.types) {
			c.Violate("edit-not-on-wire extension-order", "%s: wire extension types %v want %v", c.R.Class, got, ex.types)
		}
		if fmt.Sprint(h.CipherSuites) != fmt.Sprint(ex.suites) {
			c.Violate("edit-not-on-wire cipher-suites", "%s: wire suites %x want %x", c.R.Class, h.CipherSuites, ex.suites)
		}
		if ex.sidSet && !bytes.Equal(h.SessionID, ex.sid) {
			c.Violate("edit-not-on-wire session-id", "%s: wire session id %x want %x", c.R.Class, h.SessionID, ex.sid)
		}
		// (3) after the handshake Hello.Raw is the last hello sent
		if o.CDone || len(obs.CH) > 1 {
			lastRaw := obs.CHRaw[len(obs.CHRaw)-1]
			if o.CDone && !bytes.Equal(o.HelloRawEnd, lastRaw) {
				nran := 0
				for _, r := range o.ExtraRan {
					nran += boolInt(r)
				}
				c.Violate("Hello.Raw-at-end-of-connection-differs-from-last-hello "+kind, "%s: %d hellos on the wire; Hello.Raw when the connection was closed %d bytes vs last hello %d bytes, first difference at %d; %d further Handshake callers ran (%v)", c.R.Class, len(obs.CH), len(o.HelloRawEnd), len(lastRaw), firstDiff(o.HelloRawEnd, lastRaw), nran, o.ExtraErrs)
			}
			if !bytes.Equal(o.HelloRaw, lastRaw) {
				c.Violate("Hello.Raw-after-handshake-differs-from-last-hello "+kind, "%s: %d hellos on the wire; Hello.Raw %d bytes vs last hello %d bytes, first difference at %d; cerr=%v", c.R.Class, len(obs.CH), len(o.HelloRaw), len(lastRaw), firstDiff(o.HelloRaw, lastRaw), o.CErr)
			}
		}
	}
	c.Finish(w, true)
	if c.R.Run%500 == 0 {
		c.R.Sample = map[string]any{"fingerprint": idi.Name, "kind": kind, "edits": mnames, "hrr": forceHRR, "history": history, "peer": peerName(peer)}
	}
}

func hasPadExt(u *tls.UConn) bool {
	for _, e := range u.Extensions {
		if _, ok := e.(*tls.UtlsPaddingExtension); ok {
			return true
		}
	}
	return false
}

func boolInt(b bool) int {
	if b {
		return 1
	}
	return 0
}

func firstDiff(a, b []byte) int {
	n := len(a)
	if len(b) < n {
		n = len(b)
	}
	for i := 0; i < n; i++ {
		if a[i] != b[i] {
			return i
		}
	}
	return n
}
