package scen

import "github.com/refraction-networking/utls/zz_verif/simrand"

type simrandT = simrand.Stream

func newSimrand(seed uint64) *simrand.Stream { return simrand.NewStream(seed) }
