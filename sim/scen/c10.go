package scen

import (
	"bytes"
	stdtls "crypto/tls"
	"fmt"
	"strings"

	tls "github.com/refraction-networking/utls"
	"github.com/refraction-networking/utls/zz_verif/simrand"
	"github.com/refraction-networking/utls/zz_verif/simrt"
)

// C10: every offered fingerprint completes a handshake with a compliant server.
// C11: client and server agree on every negotiated parameter and exported key.

func init() {
	Register("C10", &Info{
		Run:   runC10,
		Quick: 10000, Thor: 1500000,
		Rule: "a world = one fingerprint (every predefined parrot by stratum, randomized seeds, generated consistent specs, fingerprinted copies) x one server choice drawn from what the ON-WIRE hello offers and utls documents as implemented: max version, a single key-exchange group (forcing HelloRetryRequest when no share was sent), a single TLS<=1.2 cipher suite, an ALPN protocol, the certificate key type (ECDSA/RSA/Ed25519); the server holds ECH keys (retry configs for GREASE ECH offers) in 20% of the worlds; the client Config is in 15% of the worlds one that an earlier connection of another parrot already used; peer = repository server or Go standard-library server; then 1 B-40 kB echoed both ways; a handshake failure is attributed from both sides' errors; non-trivial = a plan knob was applicable; distinct = (fingerprint, knob, value, peer)",
		Assumptions: []string{"'standards-compliant server' = Go standard library crypto/tls (go1.26.8) and the repository's own server; no OpenSSL peer (it would need real sockets outside the simulator)",
			"TLS 1.3 cipher-suite choice cannot be forced on either Go server; it follows client order and AES hardware",
			"the Kyber-draft group (0x6399) has no compliant peer in the simulator and is never selected"},
		Real: []string{"utls client from /repo", "utls tls.Server or std crypto/tls server"},
		Stub: []string{"transport (fragmenting), clock, crypto/rand"},
	})
	Register("C11", &Info{
		Run:   runC11,
		Quick: 10000, Thor: 1500000,
		Rule: "worlds as in C10 plus optional resumption histories (second connection over a shared session cache; a quarter of them start with a hand-written TLS 1.2 hello without extended_master_secret, whose ticket the second hello then offers); in 30% of the worlds the server holds ECH keys although the client offers no real ECH (parrots with a GREASE ECH extension make the server try and fail to open it); for every handshake that completed on both sides: version, cipher suite, ALPN, curve (where both APIs expose it), DidResume, ECHAccepted and server name (== SNI on the wire, empty if none) are compared between the client's ConnectionState and the server's, and ExportKeyingMaterial is compared for drawn label/context/length; non-trivial = handshake completed on both sides; distinct = (fingerprint, plan, resumed, exporter arguments)",
		Assumptions: []string{"curve is compared only where both APIs expose it (TLS 1.3 and TLS 1.2 ECDHE full handshakes)"},
		Real:        []string{"utls client from /repo", "utls tls.Server or std crypto/tls server"},
		Stub:        []string{"transport, clock, crypto/rand"},
	})
}

func negCfg() *tls.Config {
	return &tls.Config{ServerName: "example.test", RootCAs: Roots(), OmitEmptyPsk: true, PreferSkipResumptionOnNilExtension: true}
}

func runC10(c *Ctx) {
	ch := c.Ch
	stratum := int64(-1)
	if c.Run%2 == 0 {
		stratum = c.Run / 2
	}
	w := c.NewWorld(simrt.Config{})
	r := RunNeg(c, w, stratum, "", negCfg, genPayload(ch))
	c.Finish(w, true)
	if r.O == nil || c.R.Harness != "" {
		return
	}
	c.R.Class = fmt.Sprintf("%s/%s %s", r.F.Kind, r.F.IDI.Name, r.Plan)
	if r.SharedAfter != "" {
		c.R.Class += " config-shared-after-" + r.SharedAfter
	}
	if r.ServerECH {
		c.R.Class += " server-has-ech-keys"
	}
	c.R.NonTrivial = len(r.Plan.Knobs) > 0
	if c.R.Violation != nil {
		return
	}
	if len(r.Obs.SH) > 0 && r.Obs.SH[0].IsHRR {
		c.Probe("hrr")
	}
	for _, k := range r.Plan.Knobs {
		c.Probe("knob-" + k)
	}
	o := r.O
	if o.BuildErr != nil {
		c.Violate("build-error "+r.F.Kind, "%s: %v", c.R.Class, o.BuildErr)
		return
	}
	if r.Obs.CHErr != nil {
		c.Violate("malformed-clienthello "+r.F.IDI.Name, "%v", r.Obs.CHErr)
		return
	}
	if o.CDone && o.SDone {
		if !r.EchoOK() {
			c.Violate("echo-mismatch "+r.F.Kind, "%s: sent %d, server read %d, client read %d, cio=%v sio=%v", c.R.Class, len(r.Sent), len(o.SRead), len(o.CRead), o.CIOErr, o.SIOErr)
		}
		// the server's choice must be what the plan forced
		if r.Plan.Group != 0 && o.S.HasCurve && o.S.Curve != r.Plan.Group {
			c.R.Harness = fmt.Sprintf("plan group %d but server used %d", r.Plan.Group, o.S.Curve)
		}
		if c.R.Run%400 == 0 {
			c.R.Sample = map[string]any{"fingerprint": r.F.IDI.Name, "kind": r.F.Kind, "plan": r.Plan.String(), "version": o.S.Version, "suite": o.S.Suite, "curve": o.S.Curve, "hrr": len(r.Obs.CH) > 1, "bytes": len(r.Sent)}
		}
		return
	}
	// failed: who refused?
	who := "client-aborted"
	if o.ServerRejected() {
		who = "server-rejected"
	}
	detail := fmt.Sprintf("%s: %s; offer versions=%x groups=%v shares=%v spec=%s", c.R.Class, o.Describe(), r.Offer.Versions, r.Offer.Groups, r.Offer.Shares, r.F.Desc)
	c.Violate(fmt.Sprintf("%s %s sel=%s %s", who, r.F.Kind, selClass(r), negErrClass(o)), "%s", detail)
}

func negErrClass(o *ConnOutcome) string {
	e := o.CErr
	if o.ServerRejected() {
		e = o.SErr
	}
	if e == nil {
		return "no-error"
	}
	s := e.Error()
	if len(s) > 90 {
		s = s[:90]
	}
	return s
}

func runC11(c *Ctx) {
	ch := c.Ch
	stratum := int64(-1)
	if c.Run%2 == 0 {
		stratum = c.Run / 2
	}
	history := ch.Bool(35, "history")
	label := []string{"EXPORTER-verif", "", "client finished", "EXPORTER_channel_binding", strings.Repeat("L", 200)}[ch.Pick(5, "label")]
	var ctx []byte
	switch ch.Pick(3, "ctx") {
	case 1:
		ctx = []byte{}
	case 2:
		ctx = make([]byte, ch.Range(1, 300, "ctxlen"))
		ch.Bytes(ctx, "ctx")
	}
	length := []int{0, 1, 16, 32, 33, 255, 1000}[ch.Pick(7, "ekm-len")]
	var ekmBefore []int
	if ch.Bool(33, "ekm-calls-before") {
		for k := ch.Range(1, 3, "ekm-before-n"); k > 0; k-- {
			ekmBefore = append(ekmBefore, []int{length + 1, 2*length + 32, 64, 1000, 1, length}[ch.Pick(6, "ekm-before-len")])
		}
	}
	removeSNI := ch.Bool(10, "remove-sni")
	// server-name shapes: the name reported by both sides must be the SNI actually sent
	snShape := []string{"example.test", "example.test", "example.test", "example.test.", "192.0.2.9", "[2001:db8::9]", "www.example.test"}[ch.Pick(7, "sn-shape")]
	// explicit BuildHandshakeState, then SetSNI, then Handshake
	lateSNI := ch.Bool(15, "late-sni")
	clientAuth := ch.Pick(4, "client-auth") // 0,1: none; 2: request; 3: request + verify if given
	noReneg := ch.Bool(50, "no-reneg")      // switch the parrot's renegotiation support off so that exporters are available
	w := c.NewWorld(simrt.Config{})
	cache := tls.NewLRUClientSessionCache(8)
	mk := func() *tls.Config {
		cfg := negCfg()
		cfg.ServerName = snShape
		if snShape != "example.test" && snShape != "www.example.test" {
			cfg.InsecureSkipVerify = true
		}
		if history {
			cfg.ClientSessionCache = cache
		}
		return cfg
	}
	// one fingerprint, one plan, one or two connections
	f := PickFingerprint(ch, stratum, mk)
	dry, err := DryHello(mk(), f.IDI.ID, f.Spec())
	if err != nil {
		c.R.Harness = fmt.Sprintf("dry build of %s failed: %v", f.IDI.Name, err)
		return
	}
	var specMin uint16
	if sp0 := f.Spec(); sp0 != nil {
		specMin = sp0.TLSVersMin
	} else if s, err := tls.UTLSIdToSpec(f.IDI.ID); err == nil {
		specMin = s.TLSVersMin
	}
	of := OfferOf(dry, specMin)
	plan := DrawPlan(ch, of, "")
	scfg, stdcfg := ServerConfigs(plan)
	if clientAuth >= 2 {
		scfg.ClientAuth = tls.RequestClientCert
		stdcfg.ClientAuth = stdtls.RequestClientCert
		if clientAuth == 3 {
			scfg.ClientAuth = tls.VerifyClientCertIfGiven
			stdcfg.ClientAuth = stdtls.VerifyClientCertIfGiven
		}
	}
	// the server may hold ECH keys although this client offers none (or only a GREASE extension,
	// which the server tries and fails to open): neither side may then report ECHAccepted
	srvECH := ch.Bool(30, "server-ech-keys")
	if srvECH {
		keyRand := simrand.NewStream(ch.U64("ech-keys"))
		if k, err := buildECH(keyRand, uint8(ch.Pick(256, "ech-cid")), "public.ech.test", 32, [][2]uint16{{1, 1}, {1, 3}}); err == nil {
			scfg.EncryptedClientHelloKeys = []tls.EncryptedClientHelloKey{{Config: k.cfg, PrivateKey: k.priv, SendAsRetry: true}}
			stdcfg.EncryptedClientHelloKeys = []stdtls.EncryptedClientHelloKey{{Config: k.cfg, PrivateKey: k.priv, SendAsRetry: true}}
		}
	}
	nconn := 1
	if history {
		nconn = 2
	}
	noEMSFirst := history && ch.Bool(25, "no-ems-first")
	// histories in which each connection keeps only one of the TLS 1.3 suites it offers (a documented
	// edit of Hello.CipherSuites after the build): the second connection resumes a session made under
	// another suite of the same hash, and both sides must still report the suite in use
	suiteEdit := history && !noEMSFirst && f.IDI.ID != tls.HelloGolang && ch.Bool(35, "suite-edit")
	keepSuites := [2]uint16{}
	for i := range keepSuites {
		keepSuites[i] = []uint16{tls.TLS_AES_128_GCM_SHA256, tls.TLS_CHACHA20_POLY1305_SHA256}[ch.Pick(2, "keep-suite")]
	}
	c.R.Class = fmt.Sprintf("%s/%s %s hist=%v rmsni=%v sn=%s late=%v cauth=%d noreneg=%v srvech=%v noemsfirst=%v ekm=%q/%d/%d before=%v suiteedit=%v", f.Kind, f.IDI.Name, plan, history, removeSNI, snShape, lateSNI, clientAuth, noReneg, srvECH, noEMSFirst, label, len(ctx), length, ekmBefore, suiteEdit)
	// a history may start with another fingerprint (Roller style): a hand-written TLS 1.2 hello
	// without extended_master_secret; the second hello then offers that session's ticket, which a
	// server has to decline in favour of a full handshake (RFC 7627 5.3) - both sides must agree
	// on what happened
	for i := 0; i < nconn; i++ {
		spec := f.Spec()
		var cEKM []byte
		var cEKMErr error
		sp := &ConnSpec{Name: fmt.Sprintf("c%d", i), ID: f.IDI.ID, Spec: spec, CCfg: mk(), Peer: plan.Peer, SCfg: scfg, StdCfg: stdcfg, Payload: [][]byte{[]byte("ping")}}
		if noEMSFirst && i == 0 {
			sp.ID, sp.Spec = tls.HelloCustom, noEMSSpec()
		}
		sp.Prep = func(u *tls.UConn) error {
			if removeSNI {
				if err := u.RemoveSNIExtension(); err != nil {
					return err
				}
			}
			if lateSNI || noReneg || suiteEdit {
				if err := u.BuildHandshakeState(); err != nil {
					return err
				}
			}
			if suiteEdit {
				cs, keep := u.HandshakeState.Hello.CipherSuites, keepSuites[i]
				has := false
				for _, x := range cs {
					has = has || x == keep
				}
				if has {
					var ns []uint16
					for _, x := range cs {
						if x>>8 != 0x13 || x == keep {
							ns = append(ns, x)
						}
					}
					u.HandshakeState.Hello.CipherSuites = ns
					c.Probe("suite-edit")
				}
			}
			if noReneg {
				for _, e := range u.Extensions {
					if r, ok := e.(*tls.RenegotiationInfoExtension); ok {
						r.Renegotiation = tls.RenegotiateNever
					}
				}
			}
			if lateSNI {
				u.SetSNI("www.example.test")
			}
			return nil
		}
		sp.After = func(u *tls.UConn) {
			st := u.ConnectionState()
			// the exporter is a function of (label, context, length) alone: a third of the worlds ask the
			// client for other lengths of the same label and context first (the server is asked once)
			for _, l := range ekmBefore {
				st.ExportKeyingMaterial(label, ctx, l)
			}
			cEKM, cEKMErr = st.ExportKeyingMaterial(label, ctx, length)
		}
		o := RunConn(c, w, sp)
		if !(o.CDone && o.SDone) {
			continue // completion is C10's business
		}
		c.R.NonTrivial = true
		obs := ObserveHellos(o.Link)
		cs, ss := o.CState, o.S
		bad := func(field string, a, b any) {
			c.Violate("state-mismatch "+field+" "+f.Kind, "%s conn %d: client %v server %v", c.R.Class, i, a, b)
		}
		if cs.Version != ss.Version {
			bad("version", cs.Version, ss.Version)
		}
		if cs.CipherSuite != ss.Suite {
			bad("cipher-suite", cs.CipherSuite, ss.Suite)
		}
		if cs.NegotiatedProtocol != ss.ALPN {
			bad("alpn", cs.NegotiatedProtocol, ss.ALPN)
		}
		if cs.DidResume != ss.DidResume {
			bad("did-resume", cs.DidResume, ss.DidResume)
		}
		if cs.DidResume {
			c.Probe("resumed")
		}
		if cs.ECHAccepted != ss.ECHAccepted {
			bad("ech-accepted", cs.ECHAccepted, ss.ECHAccepted)
		}
		ccurve := uint16(tls.VerifCurveID(cs))
		if ccurve != 0 && ss.HasCurve && ccurve != ss.Curve {
			bad("curve", ccurve, ss.Curve)
		}
		if ccurve != 0 && ss.HasCurve {
			c.Probe("curve-compared")
		}
		wireSNI := ""
		if len(obs.CH) > 0 && obs.CH[len(obs.CH)-1].SNIPresent {
			wireSNI = obs.CH[len(obs.CH)-1].SNI
		}
		if ss.ServerName != wireSNI {
			bad("server-name(server-vs-wire)", wireSNI, ss.ServerName)
		}
		if cs.ServerName != wireSNI {
			bad("server-name", cs.ServerName, wireSNI)
		}
		if len(obs.CH) > 1 {
			c.Probe("hrr")
		}
		sEKM, sEKMErr := ss.EKM(label, ctx, length)
		unavailable := func(e error) bool { return e != nil && strings.Contains(e.Error(), "ExportKeyingMaterial is unavailable") }
		if unavailable(cEKMErr) || unavailable(sEKMErr) {
			// documented crypto/tls behaviour (renegotiation enabled by the parrot's
			// renegotiation_info extension, or TLS<=1.2 without extended master secret):
			// the exporter refuses on that side; nothing to compare
			c.Probe("ekm-unavailable-by-policy")
		} else if (cEKMErr == nil) != (sEKMErr == nil) {
			bad("ekm-error", cEKMErr, sEKMErr)
		} else if cEKMErr == nil && !bytes.Equal(cEKM, sEKM) {
			bad("ekm", fmt.Sprintf("%x", cEKM), fmt.Sprintf("%x", sEKM))
		} else if cEKMErr == nil {
			c.Probe("ekm-compared")
		}
	}
	c.Finish(w, true)
	if c.R.Run%400 == 0 {
		c.R.Sample = map[string]any{"class": c.R.Class}
	}
}

// selClass describes which key-exchange choice the server made relative to the hello's
// key_share list (taken from the wire): the part of a failure's identity that matters.
func selClass(r *NegResult) string {
	if len(r.Obs.SH) == 0 {
		return "none"
	}
	sh := r.Obs.SH[0]
	if !sh.IsHRR && sh.SelectedVersion != 0x0304 {
		return "tls12-kex" // TLS <= 1.2: no key_share negotiation
	}
	g := sh.SelectedGroup
	hybrid := g == 4588 || g == 0x6399
	nclass := 0
	for _, s := range r.Offer.Shares {
		if s != 4588 && s != 0x6399 {
			nclass++
		}
	}
	if nclass == 0 {
		return "no-classical-share-in-hello"
	}
	if sh.IsHRR {
		if g == 0 {
			return "hrr-nogroup"
		}
		if hybrid {
			return "hrr-hybrid"
		}
		return "hrr-classical"
	}
	if g == 0 {
		return "no-keyshare"
	}
	var classical []uint16
	for _, s := range r.Offer.Shares {
		if s != 4588 && s != 0x6399 {
			classical = append(classical, s)
		}
	}
	if hybrid {
		if len(classical) > 0 && classical[0] != 29 {
			return "hybrid-share-with-non-x25519-first-classical"
		}
		return "hybrid-share"
	}
	if len(classical) > 0 && classical[0] == g {
		return "first-classical-share"
	}
	return "later-classical-share"
}
