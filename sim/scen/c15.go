package scen

import (
	"bytes"
	"crypto/ecdh"
	stdtls "crypto/tls"
	"errors"
	"fmt"

	tls "github.com/refraction-networking/utls"
	"github.com/refraction-networking/utls/zz_verif/simnet"
	"github.com/refraction-networking/utls/zz_verif/simrand"
	"github.com/refraction-networking/utls/zz_verif/simrt"
)

// C15: ECH hides the real server name and is honoured end to end.

func init() {
	Register("C15", &Info{
		Run:   runC15,
		Quick: 4500, Thor: 600000,
		Rule: "a world = one ECH-capable fingerprint (parrots whose spec carries an ECH extension, HelloGolang, generated specs with an ECH extension) with Config.EncryptedClientHelloConfigList built by the harness (drawn config id, KDF/AEAD suite list, maximum_name_length, public name) (alone, followed by further configs, or behind an entry of an unknown version); the parrot shapes are also applied as custom specs with the server name pre-filled into the SNI extension; against the repository's or the std library's ECH-capable server that accepts (holds the key), accepts after a forced HelloRetryRequest, or rejects (holds another key and advertises retry configs), also after a forced HelloRetryRequest; half of the accepting HelloGolang worlds are the second connection of a history over a session cache (its inner hello then carries a real pre_shared_key, also across a HelloRetryRequest); a third of the parrot worlds call BuildHandshakeState (optionally BuildHandshakeStateWithoutSession first) before Handshake, so the hello is marshaled and the inner hello sealed more than once; oracle: the secret name never appears in the client's plaintext flight, the outer SNI is the public name, on acceptance both sides report ECHAccepted and the secret name, data echoes and HandshakeState.Hello.Raw is the last outer hello on the wire, on rejection the client returns ECHRejectionError carrying exactly the server's retry config list after verifying the certificate against the public name; non-trivial = an encrypted_client_hello extension of type outer with the drawn config id on the wire; distinct = (fingerprint, config, server behaviour, peer)",
		Assumptions: []string{"ECHConfig encoding (draft-ietf-tls-esni-18 / RFC 9849 version 0xfe0d, DHKEM(X25519, HKDF-SHA256)) is produced by the harness; both servers decode it independently"},
		Real:        []string{"utls client ECH path from /repo", "utls or std server with ECH keys"},
		Stub:        []string{"transport, clock, crypto/rand"},
	})
}

type echSetup struct {
	configID   uint8
	list       []byte // ECHConfigList for the client
	cfg        []byte // single ECHConfig
	priv       []byte
	publicName string
}

func buildECH(ch *simrand.Stream, id uint8, publicName string, maxNameLen uint8, suites [][2]uint16) (*echSetup, error) {
	k, err := ecdh.X25519().GenerateKey(ch)
	if err != nil {
		return nil, err
	}
	pub := k.PublicKey().Bytes()
	var c []byte
	c = append(c, id)         // config_id
	c = append(c, 0x00, 0x20) // kem_id: DHKEM(X25519, HKDF-SHA256)
	c = append(c, byte(len(pub)>>8), byte(len(pub)))
	c = append(c, pub...)
	c = append(c, byte(len(suites)*4>>8), byte(len(suites)*4))
	for _, s := range suites {
		c = append(c, byte(s[0]>>8), byte(s[0]), byte(s[1]>>8), byte(s[1]))
	}
	c = append(c, maxNameLen)
	c = append(c, byte(len(publicName)))
	c = append(c, publicName...)
	c = append(c, 0, 0) // extensions
	cfg := append([]byte{0xfe, 0x0d, byte(len(c) >> 8), byte(len(c))}, c...)
	list := append([]byte{byte(len(cfg) >> 8), byte(len(cfg))}, cfg...)
	return &echSetup{configID: id, list: list, cfg: cfg, priv: k.Bytes(), publicName: publicName}, nil
}

var echRealParrots []IDInfo

func runC15(c *Ctx) {
	ch := c.Ch
	if echRealParrots == nil {
		for _, p := range AllParrots {
			s, err := tls.UTLSIdToSpec(p.ID)
			if err != nil {
				continue
			}
			for _, e := range s.Extensions {
				if _, ok := e.(tls.EncryptedClientHelloExtension); ok {
					echRealParrots = append(echRealParrots, p)
					break
				}
			}
		}
	}
	var idi IDInfo
	var custom *tls.ClientHelloSpec
	prefilled := false
	if k := ch.Pick(5, "id-kind"); k == 0 {
		idi = IDInfo{"Golang", tls.HelloGolang}
	} else {
		idi = echRealParrots[int(c.Run)%len(echRealParrots)]
		if k == 4 {
			// the same shape applied as a custom spec, optionally with the server name already
			// filled into the spec's SNI extension (a supported way to choose the name)
			if sp, err := tls.UTLSIdToSpec(idi.ID); err == nil {
				prefilled = ch.Bool(60, "prefilled-sni")
				for _, e := range sp.Extensions {
					if sni, ok := e.(*tls.SNIExtension); ok && prefilled {
						sni.ServerName = "example.test"
					}
				}
				custom = &sp
				idi = IDInfo{"Custom(" + idi.Name + ")", tls.HelloCustom}
			}
		}
	}
	behaviour := []string{"accept", "accept", "accept-hrr", "reject", "reject-hrr"}[ch.Pick(5, "behaviour")]
	// explicit BuildHandshakeState before Handshake (the hello is marshaled, and the inner hello
	// sealed, more than once), optionally BuildHandshakeStateWithoutSession first
	prebuild := 0
	if ch.Bool(35, "prebuild") {
		prebuild = 1 + ch.Pick(2, "prebuild-kind")
	}
	peer := ch.Pick(2, "peer")
	cid := uint8(ch.Pick(256, "config-id"))
	suiteSets := [][][2]uint16{{{1, 1}}, {{1, 1}, {1, 3}}, {{1, 3}}, {{1, 2}, {1, 1}}, {{2, 1}, {1, 1}}}
	suites := suiteSets[ch.Pick(len(suiteSets), "ech-suites")]
	maxName := uint8([]int{0, 16, 64, 255}[ch.Pick(4, "max-name")])
	secret := "example.test"
	public := "public.ech.test"
	keyRand := simrand.NewStream(ch.U64("ech-keys"))
	good, err := buildECH(keyRand, cid, public, maxName, suites)
	if err != nil {
		c.R.Harness = "ech setup: " + err.Error()
		return
	}
	other, _ := buildECH(keyRand, cid+1, public, maxName, suites)
	w := c.NewWorld(simrt.Config{})
	certName := "ecdsa"
	rejecting := behaviour == "reject" || behaviour == "reject-hrr"
	if rejecting && ch.Bool(50, "public-only-cert") {
		certName = "publiconly"
	}
	scfg := &tls.Config{Certificates: []tls.Certificate{Cert(certName).U}, MinVersion: tls.VersionTLS13}
	stdcfg := &stdtls.Config{Certificates: []stdtls.Certificate{Cert(certName).S}, MinVersion: stdtls.VersionTLS13}
	serverKey := good
	if rejecting {
		serverKey = other
	}
	scfg.EncryptedClientHelloKeys = []tls.EncryptedClientHelloKey{{Config: serverKey.cfg, PrivateKey: serverKey.priv, SendAsRetry: true}}
	stdcfg.EncryptedClientHelloKeys = []stdtls.EncryptedClientHelloKey{{Config: serverKey.cfg, PrivateKey: serverKey.priv, SendAsRetry: true}}
	if behaviour == "accept-hrr" || behaviour == "reject-hrr" {
		scfg.CurvePreferences = []tls.CurveID{tls.CurveP384}
		stdcfg.CurvePreferences = []stdtls.CurveID{stdtls.CurveP384}
	} else if ch.Bool(40, "server-prefers-p256") {
		// a server that accepts P-256 only: fingerprints that send a second classical share
		// (Firefox) are answered on it without a HelloRetryRequest, the others with one
		// (Config.CurvePreferences filters, it does not order: only P-256 is left)
		scfg.CurvePreferences = []tls.CurveID{tls.CurveP256}
		stdcfg.CurvePreferences = []stdtls.CurveID{stdtls.CurveP256}
		c.Probe("server-prefers-p256")
	}
	// the config list handed to the client: the usable config alone, followed by further configs, or
	// behind an entry of an unknown version (the first usable one is picked; its own bytes are the HPKE info)
	extra, _ := buildECH(keyRand, cid+2, public, maxName, [][2]uint16{{1, 1}, {1, 3}})
	listKind := ch.Pick(4, "list-kind")
	var body []byte
	switch listKind {
	case 0, 1:
		body = good.cfg
	case 2:
		body = append(append([]byte(nil), good.cfg...), extra.cfg...)
	case 3:
		body = append([]byte{0xfe, 0x0a, 0x00, 0x04, 0xde, 0xad, 0xbe, 0xef}, good.cfg...)
		body = append(body, extra.cfg...)
	}
	list := append([]byte{byte(len(body) >> 8), byte(len(body))}, body...)
	ccfg := &tls.Config{ServerName: secret, RootCAs: Roots(), EncryptedClientHelloConfigList: list, MinVersion: tls.VersionTLS13, OmitEmptyPsk: true}
	c.R.Class = fmt.Sprintf("%s %s peer=%s cid=%d suites=%v maxname=%d cert=%s list=%d prefilled=%v prebuild=%d", idi.Name, behaviour, peerName(peer), cid, suites, maxName, certName, listKind, prefilled, prebuild)
	sp := &ConnSpec{ID: idi.ID, Spec: custom, CCfg: ccfg, Peer: peer, SCfg: scfg, StdCfg: stdcfg, Payload: [][]byte{[]byte("ping-ech")},
		Setup: func(l *simnet.Link) { l.Frag = ch.Bool(30, "frag") }}
	// HelloGolang keeps a real pre_shared_key in its inner hello: the connection under test may be
	// the second one of a history (accepted ECH both times), also with a HelloRetryRequest on it
	if idi.ID == tls.HelloGolang && !rejecting && ch.Bool(50, "ech-resumption") {
		ccfg.ClientSessionCache = tls.NewLRUClientSessionCache(4)
		savedU, savedS := scfg.CurvePreferences, stdcfg.CurvePreferences
		scfg.CurvePreferences, stdcfg.CurvePreferences = nil, nil
		o1 := RunConn(c, w, &ConnSpec{Name: "first", ID: idi.ID, CCfg: ccfg, Peer: peer, SCfg: scfg, StdCfg: stdcfg, Payload: [][]byte{[]byte("first")}})
		scfg.CurvePreferences, stdcfg.CurvePreferences = savedU, savedS
		if o1.CDone && string(o1.CRead) == "first" {
			c.R.Class += " second-of-history"
			c.Probe("ech-second-connection-with-cached-session")
		}
	}
	if prebuild > 0 && idi.ID != tls.HelloGolang {
		sp.Prep = func(u *tls.UConn) error {
			if prebuild == 2 {
				if err := u.BuildHandshakeStateWithoutSession(); err != nil {
					return err
				}
			}
			return u.BuildHandshakeState()
		}
		c.Probe("explicit-build")
	}
	o := RunConn(c, w, sp)
	c.Finish(w, true)
	if c.R.Violation != nil {
		return
	}
	if o.BuildErr != nil {
		c.Violate("ech-build-error "+idi.Name, "%s: %v", c.R.Class, o.BuildErr)
		return
	}
	obs := ObserveHellos(o.Link)
	if obs.CHErr != nil {
		c.Violate("malformed-clienthello "+idi.Name+" "+errClass(obs.CHErr), "%s: %v", c.R.Class, obs.CHErr)
		return
	}
	if len(obs.CH) == 0 {
		c.Violate("ech-no-hello-sent "+idi.Name, "%s: %s", c.R.Class, o.Describe())
		return
	}
	// plaintext part of the client's flight: every ClientHello message and every non-appdata record
	for i, raw := range obs.CHRaw {
		if bytes.Contains(raw, []byte(secret)) {
			c.Violate("secret-name-in-plaintext "+idi.Name, "%s: ClientHello #%d contains %q in the clear", c.R.Class, i+1, secret)
			return
		}
	}
	h := obs.CH[0]
	if h.ECH == nil {
		c.Violate("ech-extension-missing-or-not-outer "+idi.Name, "%s: inner=%v", c.R.Class, h.ECHInner)
		return
	}
	if h.ECH.ConfigID == cid {
		c.R.NonTrivial = true
	} else {
		c.Violate("ech-wrong-config-id "+idi.Name, "%s: wire config id %d", c.R.Class, h.ECH.ConfigID)
	}
	okSuite := false
	for _, s := range suites {
		if s[0] == h.ECH.KDF && s[1] == h.ECH.AEAD {
			okSuite = true
		}
	}
	if !okSuite {
		c.Violate("ech-suite-not-in-config "+idi.Name, "%s: kdf=%d aead=%d", c.R.Class, h.ECH.KDF, h.ECH.AEAD)
	}
	for i, hh := range obs.CH {
		if !hh.SNIPresent || hh.SNI != public {
			c.Violate("outer-sni-not-public-name "+idi.Name, "%s: ClientHello #%d outer SNI %q (present=%v)", c.R.Class, i+1, hh.SNI, hh.SNIPresent)
			return
		}
	}
	hrrSeen := len(obs.SH) > 0 && obs.SH[0].IsHRR
	switch behaviour {
	case "accept", "accept-hrr":
		if behaviour == "accept-hrr" && !hrrSeen {
			c.Probe("hrr-not-triggered")
		}
		if hrrSeen {
			c.Probe("hrr")
		}
		if !o.CDone || !o.SDone {
			c.Violate(fmt.Sprintf("ech-accepting-server-handshake-failed hrr=%v %s %s", hrrSeen, idKind(idi), negErrClass(o)), "%s: %s", c.R.Class, o.Describe())
			return
		}
		if !o.CState.ECHAccepted || !o.S.ECHAccepted {
			c.Violate(fmt.Sprintf("ech-not-accepted hrr=%v %s", hrrSeen, idKind(idi)), "%s: client ECHAccepted=%v server ECHAccepted=%v", c.R.Class, o.CState.ECHAccepted, o.S.ECHAccepted)
			return
		}
		c.Probe(fmt.Sprintf("accepted-on-group=%d hrr=%v", o.S.Curve, hrrSeen))
		if o.S.ServerName != secret || o.CState.ServerName != secret {
			c.Violate("ech-server-name-mismatch "+idKind(idi), "%s: client reports %q, server saw inner name %q, want %q", c.R.Class, o.CState.ServerName, o.S.ServerName, secret)
		}
		if string(o.CRead) != "ping-ech" {
			c.Violate("ech-echo-failed "+idKind(idi), "%s: %s", c.R.Class, o.Describe())
		}
		if o.CState.DidResume {
			c.Probe(fmt.Sprintf("ech-resumed-hrr=%v", hrrSeen))
		}
		// the hello the caller can inspect afterwards is the one that went out (the outer hello, the
		// second one after a HelloRetryRequest) - not the inner hello the handshake continued with
		if idi.ID != tls.HelloGolang {
			last := obs.CHRaw[len(obs.CHRaw)-1]
			if !bytes.Equal(o.HelloRaw, last) || !bytes.Equal(o.HelloRawEnd, last) {
				c.Violate("Hello.Raw-after-ech-handshake-differs-from-last-hello "+idKind(idi), "%s: Hello.Raw after Handshake %d bytes, at the end of the connection %d bytes, last outer hello on the wire %d bytes (hrr=%v)", c.R.Class, len(o.HelloRaw), len(o.HelloRawEnd), len(last), hrrSeen)
			}
		}
	case "reject", "reject-hrr":
		if behaviour == "reject-hrr" && hrrSeen {
			c.Probe("reject-after-hrr")
		}
		if o.CDone {
			c.Violate("ech-rejected-but-handshake-succeeded "+idKind(idi), "%s", c.R.Class)
			return
		}
		var rej *tls.ECHRejectionError
		if !errors.As(o.CErr, &rej) {
			c.Violate(fmt.Sprintf("ech-rejection-not-reported %s cert=%s hrr=%v %s", idKind(idi), certName, hrrSeen, negErrClass(o)), "%s: client error %v (want ECHRejectionError)", c.R.Class, o.CErr)
			return
		}
		wantRetry := append([]byte{byte(len(other.cfg) >> 8), byte(len(other.cfg))}, other.cfg...)
		if !bytes.Equal(rej.RetryConfigList, wantRetry) {
			c.Violate("ech-retry-configs-altered "+idKind(idi), "%s: got %x want %x", c.R.Class, rej.RetryConfigList, wantRetry)
		}
		c.Probe("rejected-with-retry-configs")
	}
	if c.R.Run%200 == 0 {
		c.R.Sample = map[string]any{"fingerprint": idi.Name, "behaviour": behaviour, "peer": peerName(peer), "config_id": cid, "suites": suites, "max_name_length": maxName, "hrr": hrrSeen}
	}
}

func idKind(i IDInfo) string {
	if i.Name == "Golang" {
		return "golang"
	}
	return "parrot"
}
