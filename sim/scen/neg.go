package scen

import (
	"bytes"
	stdtls "crypto/tls"
	"fmt"
	"strings"

	tls "github.com/refraction-networking/utls"
	"github.com/refraction-networking/utls/zz_verif/simnet"
	"github.com/refraction-networking/utls/zz_verif/simrand"
	"github.com/refraction-networking/utls/zz_verif/simrt"
	"github.com/refraction-networking/utls/zz_verif/wire"
)

// Static tables (harness knowledge from the public documentation, not read from the tree
// under test): TLS 1.0-1.2 suites utls documents as implemented and which certificate they need.
var suites12 = map[uint16]string{
	0xc02b: "ecdsa", 0xc02f: "rsa", 0xc02c: "ecdsa", 0xc030: "rsa", 0xcca9: "ecdsa", 0xcca8: "rsa",
	0xc009: "ecdsa", 0xc00a: "ecdsa", 0xc013: "rsa", 0xc014: "rsa",
	0x009c: "rsa", 0x009d: "rsa", 0x002f: "rsa", 0x0035: "rsa",
	0xc023: "ecdsa", 0xc027: "rsa", 0x003c: "rsa", 0x000a: "rsa", 0xc012: "rsa",
}

// suites that need TLS 1.2 (AEAD / SHA-256 MAC)
var suiteNeeds12 = map[uint16]bool{0xc02b: true, 0xc02f: true, 0xc02c: true, 0xc030: true, 0xcca9: true, 0xcca8: true, 0x009c: true, 0x009d: true, 0xc023: true, 0xc027: true, 0x003c: true}

// NegPlan is the server-side choice of one negotiation world.
type NegPlan struct {
	Peer     int
	Knobs    []string
	Version  uint16 // server max version (0: default 1.3)
	Group    uint16 // single CurvePreferences entry (0: default)
	Suite    uint16 // single TLS<=1.2 suite (0: default)
	ALPN     string
	CertType string // "", "ecdsa", "rsa", "ed25519"
}

func (p *NegPlan) String() string {
	return fmt.Sprintf("peer=%s v=%x g=%d s=%04x alpn=%q cert=%s", peerName(p.Peer), p.Version, p.Group, p.Suite, p.ALPN, p.CertType)
}

// DryHello builds the fingerprint once without a connection and parses the result with the
// independent grammar: the on-wire offer the server choice is drawn from.
func DryHello(cfg *tls.Config, id tls.ClientHelloID, spec *tls.ClientHelloSpec) (*wire.ClientHello, error) {
	u := tls.UClient(nil, cfg, id)
	if spec != nil {
		if err := u.ApplyPreset(spec); err != nil {
			return nil, err
		}
	}
	if err := u.BuildHandshakeState(); err != nil {
		return nil, err
	}
	if id == tls.HelloGolang {
		return nil, fmt.Errorf("golang hello is marshalled lazily")
	}
	return wire.ParseClientHello(u.HandshakeState.Hello.Raw)
}

func isECDHE(s uint16) bool { return s>>8 == 0xc0 || s>>8 == 0xcc }

func hasClassicalGroup(of *Offer) bool {
	for _, g := range of.Groups {
		if g == 23 || g == 24 || g == 25 || g == 29 {
			return true
		}
	}
	return false
}

// usable12 reports whether suite s can be negotiated at version v (<= TLS 1.2) given the offer.
func usable12(of *Offer, s uint16, v uint16) bool {
	if _, ok := suites12[s]; !ok {
		return false
	}
	if suiteNeeds12[s] && v < 0x0303 {
		return false
	}
	if isECDHE(s) && !hasClassicalGroup(of) {
		return false
	}
	return true
}

func sigOK(of *Offer, certType string, tls13 bool) bool {
	switch certType {
	case "ed25519":
		return has16(of.SigAlgs, 0x0807)
	case "ecdsa":
		return has16(of.SigAlgs, 0x0403) || (!tls13 && len(of.SigAlgs) == 0) // leaf is P-256; no extension under TLS 1.2 = ECDSA with SHA-1
	case "rsa":
		if tls13 {
			return has16(of.SigAlgs, 0x0804) || has16(of.SigAlgs, 0x0805) || has16(of.SigAlgs, 0x0806)
		}
		return has16(of.SigAlgs, 0x0804) || has16(of.SigAlgs, 0x0401) || has16(of.SigAlgs, 0x0501) || has16(of.SigAlgs, 0x0601) || has16(of.SigAlgs, 0x0201) || len(of.SigAlgs) == 0
	}
	return true
}

// DrawPlan picks a server behaviour that the on-wire offer allows and both utls and the
// chosen peer implement. force selects a knob ("" = drawn).
func DrawPlan(ch *simrt.Chooser, of *Offer, force string) *NegPlan {
	p := &NegPlan{Peer: ch.Pick(2, "peer")}
	has13 := has16(of.Versions, 0x0304)
	knobs := []string{"version", "group", "suite", "alpn", "cert", "none"}
	k := force
	if k == "" {
		k = knobs[ch.Pick(len(knobs), "knob")]
	}
	switch k {
	case "version":
		// a version is a compliant choice only if some offered suite is usable at it
		var vs []uint16
		for _, v := range of.Versions {
			ok := v == 0x0304
			for _, s := range of.Suites {
				if v < 0x0304 && usable12(of, s, v) {
					ok = true
				}
			}
			if ok {
				vs = append(vs, v)
			}
		}
		if len(vs) > 0 {
			p.Version = vs[ch.Pick(len(vs), "version")]
			p.Knobs = append(p.Knobs, "version")
		}
	case "group":
		var gs []uint16
		for _, g := range of.Groups {
			if _, ok := ImplementedGroups[g]; !ok {
				continue
			}
			if p.Peer == PeerStd && !StdGroups[g] {
				continue
			}
			if g == 0x6399 {
				continue // no compliant peer in the simulator implements the Kyber draft group
			}
			if g == 4588 && !has13 {
				continue
			}
			gs = append(gs, g)
		}
		if len(gs) > 0 {
			p.Group = gs[ch.Pick(len(gs), "group")]
			p.Knobs = append(p.Knobs, "group")
			if !has13 || ch.Bool(25, "group-12") {
				ec := false
				for _, s := range of.Suites {
					if isECDHE(s) && usable12(of, s, 0x0303) {
						ec = true
					}
				}
				if p.Group != 4588 && has16(of.Versions, 0x0303) && ec {
					p.Version = 0x0303
				}
			}
		}
	case "suite":
		var ss []uint16
		for _, s := range of.Suites {
			if usable12(of, s, 0x0303) {
				ss = append(ss, s)
			}
		}
		var vs []uint16
		for _, v := range of.Versions {
			if v <= 0x0303 {
				vs = append(vs, v)
			}
		}
		if len(ss) > 0 && len(vs) > 0 {
			p.Suite = ss[ch.Pick(len(ss), "suite")]
			p.Version = vs[ch.Pick(len(vs), "suite-version")]
			if suiteNeeds12[p.Suite] {
				if !has16(vs, 0x0303) {
					p.Suite = 0
					p.Version = 0
					break
				}
				p.Version = 0x0303
			}
			p.Knobs = append(p.Knobs, "suite")
		}
	case "alpn":
		if len(of.ALPN) > 0 {
			p.ALPN = of.ALPN[ch.Pick(len(of.ALPN), "alpn")]
			p.Knobs = append(p.Knobs, "alpn")
		}
	case "cert":
		ct := []string{"ecdsa", "rsa", "ed25519"}[ch.Pick(3, "cert")]
		v13 := has13
		if !v13 || ch.Bool(30, "cert-12") {
			if has16(of.Versions, 0x0303) {
				p.Version = 0x0303
				v13 = false
			}
		}
		ok := sigOK(of, ct, v13)
		if ok && !v13 {
			// TLS 1.2 also needs a suite whose authentication matches the certificate
			ok = false
			for _, s := range of.Suites {
				a := suites12[s]
				if (a == ct || (ct == "ed25519" && a == "ecdsa")) && usable12(of, s, 0x0303) {
					ok = true
				}
			}
			if p.Version != 0x0303 && ct == "ed25519" {
				ok = false
			}
		}
		if ok {
			p.CertType = ct
			p.Knobs = append(p.Knobs, "cert")
		} else {
			p.Version = 0
		}
	}
	return p
}

func certsFor(p *NegPlan) ([]tls.Certificate, []stdtls.Certificate) {
	names := []string{"ecdsa", "rsa"}
	switch {
	case p.CertType != "":
		names = []string{p.CertType}
	case p.Suite != 0:
		names = []string{suites12[p.Suite]}
	}
	var u []tls.Certificate
	var s []stdtls.Certificate
	for _, n := range names {
		u = append(u, Cert(n).U)
		s = append(s, Cert(n).S)
	}
	return u, s
}

// ServerConfigs turns a plan into configs for both peer kinds.
func ServerConfigs(p *NegPlan) (*tls.Config, *stdtls.Config) {
	uc, sc := certsFor(p)
	u := &tls.Config{Certificates: uc, MinVersion: tls.VersionTLS10}
	s := &stdtls.Config{Certificates: sc, MinVersion: stdtls.VersionTLS10}
	if p.Version != 0 {
		u.MaxVersion, s.MaxVersion = p.Version, p.Version
	}
	if p.Group != 0 {
		u.CurvePreferences = []tls.CurveID{tls.CurveID(p.Group)}
		s.CurvePreferences = []stdtls.CurveID{stdtls.CurveID(p.Group)}
	}
	if p.Suite != 0 {
		u.CipherSuites = []uint16{p.Suite}
		s.CipherSuites = []uint16{p.Suite}
	} else {
		// enable every documented suite explicitly (RSA key exchange and 3DES are off by default)
		all := []uint16{0xc02b, 0xc02f, 0xc02c, 0xc030, 0xcca9, 0xcca8, 0xc009, 0xc00a, 0xc013, 0xc014, 0x009c, 0x009d, 0x002f, 0x0035, 0xc023, 0xc027, 0x003c, 0x000a, 0xc012}
		u.CipherSuites = all
		s.CipherSuites = all
	}
	if p.ALPN != "" {
		u.NextProtos = []string{p.ALPN}
		s.NextProtos = []string{p.ALPN}
	}
	return u, s
}

// PickFingerprint draws the client side of a negotiation world.
type Fingerprint struct {
	Kind string
	IDI  IDInfo
	// NewSpec returns a fresh spec value for every connection (nil for predefined IDs).
	NewSpec func() *tls.ClientHelloSpec
	Desc    string
}

// Spec returns a fresh spec value or nil.
func (f *Fingerprint) Spec() *tls.ClientHelloSpec {
	if f.NewSpec == nil {
		return nil
	}
	return f.NewSpec()
}

func PickFingerprint(ch *simrt.Chooser, stratum int64, mk func() *tls.Config) *Fingerprint {
	f := &Fingerprint{Kind: "id"}
	if stratum >= 0 {
		f.IDI = PickID(ch, stratum, false)
		return f
	}
	switch k := ch.Pick(10, "fp-kind"); {
	case k < 4:
		f.IDI = PickID(ch, -1, false)
		if strings.HasPrefix(f.IDI.Name, "Randomized") {
			f.Kind = "randomized"
		}
	case k < 6:
		f.Kind = "randomized"
		f.IDI, _ = RandomizedID(ch)
	case k < 8:
		f.Kind = "custom"
		f.NewSpec, f.Desc = GenSpecFactory(ch, true)
		f.IDI = IDInfo{"Custom", tls.HelloCustom}
	default:
		// fingerprinted copy of a parrot's own hello
		src := AllParrots[ch.Pick(len(AllParrots), "fp-src")]
		f.IDI = src
		tmp := tls.UClient(nil, mk(), src.ID)
		if err := tmp.BuildHandshakeState(); err == nil {
			blunt := ch.Bool(50, "blunt")
			raw := append([]byte(nil), tmp.HandshakeState.Hello.Raw...)
			// sometimes the capture also carries a key share of a group the library has no generator
			// for (say a browser's experimental hybrid): such a spec may be refused, or used with a
			// share of its own making - a replay of the captured public key on every connection is
			// what must not happen
			if pch, err := wire.ParseClientHello(raw); err == nil && len(pch.KeyShares) > 0 && ch.Bool(15, "fp-foreign-share") {
				grp := []uint16{0xfe32, 0x001e, 0xfe31}[ch.Pick(3, "foreign-group")]
				kx := make([]byte, map[uint16]int{0xfe32: 1249, 0x001e: 56, 0xfe31: 1216}[grp])
				ch.Bytes(kx, "foreign-share")
				alt := Reserialize(pch, func(es []wire.Extension) []wire.Extension {
					for i := range es {
						switch es[i].Type {
						case 51:
							d := es[i].Data
							entry := append([]byte{byte(grp >> 8), byte(grp), byte(len(kx) >> 8), byte(len(kx))}, kx...)
							nd := append(append([]byte(nil), d[2:]...), entry...)
							es[i].Data = append([]byte{byte(len(nd) >> 8), byte(len(nd))}, nd...)
						case 10:
							d := es[i].Data
							nd := append(append([]byte(nil), d[2:]...), byte(grp>>8), byte(grp))
							es[i].Data = append([]byte{byte(len(nd) >> 8), byte(len(nd))}, nd...)
						}
					}
					return es
				})
				fp := &tls.Fingerprinter{AllowBluntMimicry: blunt}
				if fs, err := fp.FingerprintClientHello(AsRecord(alt)); err == nil {
					if _, err := DryHello(mk(), tls.HelloCustom, fs); err == nil {
						raw = alt // the library accepts such a spec: use it
						f.Desc = fmt.Sprintf("foreign-share-group=%04x", grp)
					}
				}
			}
			mkfp := func() *tls.ClientHelloSpec {
				fp := &tls.Fingerprinter{AllowBluntMimicry: blunt}
				fs, err := fp.FingerprintClientHello(AsRecord(raw))
				if err != nil {
					return nil
				}
				return fs
			}
			if mkfp() != nil {
				f.Kind = "fingerprinted"
				f.NewSpec = mkfp
				f.IDI = IDInfo{"FP(" + src.Name + ")", tls.HelloCustom}
			}
		}
	}
	return f
}

// NegResult is one negotiation world.
type NegResult struct {
	F     *Fingerprint
	Plan  *NegPlan
	Offer *Offer
	Dry   *wire.ClientHello
	O     *ConnOutcome
	Obs   *HelloObs
	Sent  []byte
	// SharedAfter: the client Config was used before by a connection of this other fingerprint.
	SharedAfter string
	// ServerECH: the server holds ECH keys (and advertises them as retry configs).
	ServerECH bool
}

// RunNeg executes one negotiation world: fingerprint, dry build, plan, connection, echo.
func RunNeg(c *Ctx, w *simrt.World, stratum int64, forceKnob string, mkCfg func() *tls.Config, payload [][]byte) *NegResult {
	ch := c.Ch
	f := PickFingerprint(ch, stratum, mkCfg)
	r := &NegResult{F: f}
	// the caller's Config may have been used before by a connection of another fingerprint (UClient
	// keeps the caller's *Config): what that connection left in it must not decide what this one
	// accepts
	ccfg := mkCfg()
	if f.IDI.ID != tls.HelloGolang && ch.Bool(15, "shared-config") {
		pol := AllParrots[ch.Pick(len(AllParrots), "polluter")]
		RunConn(c, w, &ConnSpec{Name: "polluter", ID: pol.ID, CCfg: ccfg, Peer: PeerUTLS, SCfg: &tls.Config{Certificates: []tls.Certificate{Cert("ecdsa").U, Cert("rsa").U}, MinVersion: tls.VersionTLS10}, Payload: [][]byte{[]byte("p")}})
		r.SharedAfter = pol.Name
		c.Fault("shared-config", 1)
	}
	// the plan is drawn from the hello this Config produces (a clone, so that the dry build itself
	// leaves no trace in the Config the connection uses)
	dry, err := DryHello(ccfg.Clone(), f.IDI.ID, f.Spec())
	if err != nil {
		c.R.Harness = fmt.Sprintf("dry build of %s failed: %v", f.IDI.Name, err)
		return r
	}
	r.Dry = dry
	var specMin uint16
	if sp0 := f.Spec(); sp0 != nil {
		specMin = sp0.TLSVersMin
	} else if s, err := tls.UTLSIdToSpec(f.IDI.ID); err == nil {
		specMin = s.TLSVersMin
	}
	r.Offer = OfferOf(dry, specMin)
	r.Plan = DrawPlan(ch, r.Offer, forceKnob)
	scfg, stdcfg := ServerConfigs(r.Plan)
	// the server may be ECH-capable although this client offers no real ECH: a GREASE ECH extension is
	// then answered with retry configs in EncryptedExtensions, which the client has to ignore
	if ch.Bool(20, "server-ech-keys") {
		keyRand := simrand.NewStream(ch.U64("ech-keys"))
		if k, err := buildECH(keyRand, uint8(ch.Pick(256, "ech-cid")), "public.ech.test", 32, [][2]uint16{{1, 1}, {1, 3}}); err == nil {
			scfg.EncryptedClientHelloKeys = []tls.EncryptedClientHelloKey{{Config: k.cfg, PrivateKey: k.priv, SendAsRetry: true}}
			stdcfg.EncryptedClientHelloKeys = []stdtls.EncryptedClientHelloKey{{Config: k.cfg, PrivateKey: k.priv, SendAsRetry: true}}
			r.ServerECH = true
		}
	}
	frag := ch.Bool(40, "frag")
	sp := &ConnSpec{ID: f.IDI.ID, Spec: f.Spec(), CCfg: ccfg, Peer: r.Plan.Peer, SCfg: scfg, StdCfg: stdcfg, Payload: payload,
		Setup: func(l *simnet.Link) { l.Frag = frag }}
	for _, p := range payload {
		r.Sent = append(r.Sent, p...)
	}
	// I/O shape: small or large read buffers; sometimes the server closes right after its last
	// echo so that its close_notify sits directly behind unread data
	if ch.Bool(40, "small-reads") {
		sp.CReadSize = []int{16, 64, 300}[ch.Pick(3, "read-size")]
	}
	if len(r.Sent) > 0 && ch.Bool(35, "server-closes-after-echo") {
		sp.ServerCloseAfter = len(r.Sent)
	}
	r.O = RunConn(c, w, sp)
	r.Obs = ObserveHellos(r.O.Link)
	return r
}

// EchoOK reports whether application data round-tripped in both directions.
func (r *NegResult) EchoOK() bool {
	return r.O.CDone && r.O.SDone && bytes.Equal(r.O.SRead, r.Sent) && bytes.Equal(r.O.CRead, r.Sent)
}

func genPayload(ch *simrt.Chooser) [][]byte {
	n := ch.Range(1, 3, "nwrites")
	var out [][]byte
	for i := 0; i < n; i++ {
		sz := []int{1, 100, 4000, 16384, 16385, 40000}[ch.Pick(6, "wsize")]
		b := make([]byte, sz)
		ch.Bytes(b, "payload")
		out = append(out, b)
	}
	return out
}
