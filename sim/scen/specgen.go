package scen

import (
	"fmt"
	"strings"

	tls "github.com/refraction-networking/utls"
	"github.com/refraction-networking/utls/zz_verif/simrt"
)

// GenSpec generates a custom ClientHelloSpec from the library's extension types, each type
// at most once (two GREASE extensions are two types), field values within wire limits.
// The result is a consistent TLS offer when `consistent` is set (usable for C10): suites,
// groups, shares, signature algorithms the library implements, supported_versions matching.
func GenSpec(ch *simrt.Chooser, consistent bool) (*tls.ClientHelloSpec, string) {
	f, d := GenSpecFactory(ch, consistent)
	return f(), d
}

// GenSpecFactory draws a spec once and returns a factory producing fresh, identical spec
// values: extension objects of a ClientHelloSpec are shared by pointer and ApplyPreset
// stores per-connection key material in them, so a spec value must not be reused across
// connections (documented on ApplyPreset).
func GenSpecFactory(ch *simrt.Chooser, consistent bool) (func() *tls.ClientHelloSpec, string) {
	start := len(ch.Tape)
	_, desc := genSpec(ch, consistent)
	seg := append([]uint32(nil), ch.Tape[start:]...)
	return func() *tls.ClientHelloSpec {
		s, _ := genSpec(simrt.NewReplay(seg), consistent)
		return s
	}, desc
}

func genSpec(ch *simrt.Chooser, consistent bool) (*tls.ClientHelloSpec, string) {
	var desc []string
	tls13 := ch.Bool(65, "spec-tls13")
	suites12 := []uint16{
		tls.TLS_ECDHE_ECDSA_WITH_AES_128_GCM_SHA256, tls.TLS_ECDHE_RSA_WITH_AES_128_GCM_SHA256,
		tls.TLS_ECDHE_ECDSA_WITH_AES_256_GCM_SHA384, tls.TLS_ECDHE_RSA_WITH_AES_256_GCM_SHA384,
		tls.TLS_ECDHE_ECDSA_WITH_CHACHA20_POLY1305, tls.TLS_ECDHE_RSA_WITH_CHACHA20_POLY1305,
		tls.TLS_ECDHE_RSA_WITH_AES_128_CBC_SHA, tls.TLS_ECDHE_RSA_WITH_AES_256_CBC_SHA,
		tls.TLS_ECDHE_ECDSA_WITH_AES_128_CBC_SHA, tls.TLS_ECDHE_ECDSA_WITH_AES_256_CBC_SHA,
		tls.TLS_RSA_WITH_AES_128_GCM_SHA256, tls.TLS_RSA_WITH_AES_256_GCM_SHA384,
		tls.TLS_RSA_WITH_AES_128_CBC_SHA, tls.TLS_RSA_WITH_AES_256_CBC_SHA,
	}
	suites13 := []uint16{tls.TLS_AES_128_GCM_SHA256, tls.TLS_AES_256_GCM_SHA384, tls.TLS_CHACHA20_POLY1305_SHA256}
	var cs []uint16
	grease := ch.Bool(50, "spec-grease")
	// the GREASE marker in a spec is the placeholder or, sometimes, a concrete GREASE value
	// (as in a hand-written spec copied from a capture)
	gv := uint16(tls.GREASE_PLACEHOLDER)
	if grease && ch.Bool(30, "concrete-grease") {
		gv = uint16(0x1a1a + 0x1010*ch.Pick(15, "grease-value"))
	}
	if grease {
		cs = append(cs, gv)
	}
	if tls13 {
		n := ch.Range(1, 3, "n13")
		off := ch.Pick(3, "o13")
		for i := 0; i < n; i++ {
			cs = append(cs, suites13[(off+i)%3])
		}
	}
	n12 := ch.Range(1, len(suites12), "n12")
	off := ch.Pick(len(suites12), "o12")
	for i := 0; i < n12; i++ {
		cs = append(cs, suites12[(off+i*5)%len(suites12)])
	}
	cs = dedup16(cs)
	spec := &tls.ClientHelloSpec{CipherSuites: cs, CompressionMethods: []byte{0}}

	groups := []tls.CurveID{tls.X25519, tls.CurveP256, tls.CurveP384, tls.CurveP521}
	if tls13 && ch.Bool(40, "mlkem") {
		groups = append([]tls.CurveID{tls.X25519MLKEM768}, groups...)
	}
	ng := ch.Range(1, len(groups), "ngroups")
	goff := ch.Pick(len(groups), "goff")
	var curves []tls.CurveID
	if grease {
		curves = append(curves, tls.CurveID(gv))
	}
	for i := 0; i < ng; i++ {
		curves = append(curves, groups[(goff+i)%len(groups)])
	}
	sigs := []tls.SignatureScheme{tls.ECDSAWithP256AndSHA256, tls.PSSWithSHA256, tls.PKCS1WithSHA256, tls.ECDSAWithP384AndSHA384, tls.PSSWithSHA384, tls.PKCS1WithSHA384, tls.PSSWithSHA512, tls.PKCS1WithSHA512, tls.Ed25519, tls.PKCS1WithSHA1, tls.ECDSAWithSHA1}
	nsig := ch.Range(3, len(sigs), "nsig")
	if consistent && nsig < 6 {
		nsig = 6
	}
	var exts []tls.TLSExtension
	add := func(name string, e tls.TLSExtension) {
		exts = append(exts, e)
		desc = append(desc, name)
	}
	if ch.Bool(85, "x-sni") {
		add("sni", &tls.SNIExtension{})
	}
	if ch.Bool(60, "x-ems") || consistent {
		add("ems", &tls.ExtendedMasterSecretExtension{})
	}
	if ch.Bool(50, "x-reneg") {
		add("reneg", &tls.RenegotiationInfoExtension{Renegotiation: tls.RenegotiateOnceAsClient})
	}
	add("groups", &tls.SupportedCurvesExtension{Curves: curves})
	add("points", &tls.SupportedPointsExtension{SupportedPoints: []byte{0}})
	if ch.Bool(50, "x-ticket") {
		add("ticket", &tls.SessionTicketExtension{})
	}
	alpn := [][]string{{"h2", "http/1.1"}, {"http/1.1"}, {"h2"}, {strings.Repeat("p", 255)}, {"a", "b", "c", "d"}}[ch.Pick(5, "alpn")]
	hasALPN := ch.Bool(60, "x-alpn")
	if hasALPN {
		add("alpn", &tls.ALPNExtension{AlpnProtocols: alpn})
	}
	if ch.Bool(50, "x-status") {
		add("status", &tls.StatusRequestExtension{})
	}
	// a TLS 1.2-only hello may legally omit signature_algorithms (RFC 5246 7.4.1.4.1: the server
	// then assumes SHA-1 with the key's algorithm)
	if tls13 || !ch.Bool(20, "x-no-sigalgs") {
		add("sigalgs", &tls.SignatureAlgorithmsExtension{SupportedSignatureAlgorithms: sigs[:nsig]})
	}
	if ch.Bool(40, "x-sct") {
		add("sct", &tls.SCTExtension{})
	}
	if tls13 {
		var ks []tls.KeyShare
		if grease {
			// (captures and hand-written specs carry GREASE shares of any length, not only the one
			// byte the predefined parrots use)
			gd := []byte{0}
			if ch.Bool(30, "x-long-grease-share") {
				gd = make([]byte, []int{2, 5, 32}[ch.Pick(3, "x-grease-share-len")])
			}
			ks = append(ks, tls.KeyShare{Group: tls.CurveID(gv), Data: gd})
		}
		// shares for a prefix of the listed groups (possibly none beyond GREASE: forces HRR)
		nshare := ch.Range(0, ng, "nshares")
		if consistent && nshare == 0 {
			nshare = 1
		}
		for i := 0; i < nshare && i < 2; i++ {
			ks = append(ks, tls.KeyShare{Group: groups[(goff+i)%len(groups)]})
		}
		add("keyshare", &tls.KeyShareExtension{KeyShares: ks})
		add("pskmodes", &tls.PSKKeyExchangeModesExtension{Modes: []uint8{tls.PskModeDHE}})
		vers := []uint16{tls.VersionTLS13, tls.VersionTLS12}
		if grease {
			vers = append([]uint16{gv}, vers...)
		}
		if ch.Bool(20, "v11") {
			vers = append(vers, tls.VersionTLS11, tls.VersionTLS10)
		}
		add("versions", &tls.SupportedVersionsExtension{Versions: vers})
		if ch.Bool(40, "x-compcert") {
			algs := [][]tls.CertCompressionAlgo{{tls.CertCompressionBrotli}, {tls.CertCompressionZlib, tls.CertCompressionBrotli, tls.CertCompressionZstd}, {tls.CertCompressionZstd}}[ch.Pick(3, "compalgs")]
			add("compcert", &tls.UtlsCompressCertExtension{Algorithms: algs})
		}
		if hasALPN && ch.Bool(30, "x-alps") {
			if ch.Bool(50, "alps-new") {
				add("alps-new", &tls.ApplicationSettingsExtensionNew{SupportedProtocols: []string{alpn[0]}})
			} else {
				add("alps", &tls.ApplicationSettingsExtension{SupportedProtocols: []string{alpn[0]}})
			}
		}
		if ch.Bool(30, "x-greaseech") {
			add("grease-ech", tls.BoringGREASEECH())
		}
	} else {
		spec.TLSVersMax = tls.VersionTLS12
		spec.TLSVersMin = []uint16{tls.VersionTLS10, tls.VersionTLS12}[ch.Pick(2, "min12")]
	}
	if ch.Bool(30, "x-sigcert") {
		// signature_algorithms_cert is a list of its own (what may sign certificates in the chain),
		// in general different from signature_algorithms (what may sign the handshake)
		cs := sigs[:nsig]
		switch ch.Pick(3, "sigcert-list") {
		case 1:
			cs = sigs[len(sigs)-4:] // SHA-512 RSA, Ed25519 and the SHA-1 schemes only
		case 2:
			cs = []tls.SignatureScheme{tls.PKCS1WithSHA256, tls.PKCS1WithSHA384, tls.ECDSAWithP384AndSHA384}
		}
		add("sigalgs-cert", &tls.SignatureAlgorithmsCertExtension{SupportedSignatureAlgorithms: append([]tls.SignatureScheme(nil), cs...)})
	}
	if ch.Bool(25, "x-rsl") {
		add("record-size-limit", &tls.FakeRecordSizeLimitExtension{Limit: uint16(0x4001 - ch.Pick(2, "rsl")*0x2000)})
	}
	if ch.Bool(25, "x-dc") {
		add("delegated-credentials", &tls.FakeDelegatedCredentialsExtension{SupportedSignatureAlgorithms: sigs[:4]})
	}
	if ch.Bool(15, "x-tb") {
		add("token-binding", &tls.FakeTokenBindingExtension{MajorVersion: 1, MinorVersion: 0, KeyParameters: []uint8{2, 1, 0}})
	}
	if ch.Bool(15, "x-chid") {
		add("channel-id", &tls.FakeChannelIDExtension{OldExtensionID: ch.Bool(50, "chid-old")})
	}
	if ch.Bool(15, "x-npn") && !consistent {
		add("npn", &tls.NPNExtension{})
	}
	if ch.Bool(15, "x-statusv2") {
		add("status-v2", &tls.StatusRequestV2Extension{})
	}
	if ch.Bool(25, "x-generic") {
		body := make([]byte, ch.Range(0, 40, "generic-len"))
		ch.Bytes(body, "generic-body")
		add("generic", &tls.GenericExtension{Id: uint16(0x4001 + 2*ch.Pick(200, "generic-id")), Data: body})
	}
	// boundary stratum (free-form specs only): one list-valued extension is blown up to the limit of
	// its length prefix or beyond it. At the limit the hello must still be well formed; beyond it
	// the spec cannot be encoded and building must fail - never a hello with a wrapped length.
	npnBehind := false
	if !consistent && ch.Bool(12, "oversize") {
		which := ch.Pick(5, "oversize-ext")
		for _, e := range exts {
			switch x := e.(type) {
			case *tls.SupportedVersionsExtension:
				if which == 0 {
					n := []int{127, 128, 129, 200, 255, 256}[ch.Pick(6, "n-versions")]
					for i := len(x.Versions); i < n; i++ {
						x.Versions = append(x.Versions, tls.GREASE_PLACEHOLDER) // (unknown non-GREASE versions are refused earlier)
					}
					desc = append(desc, fmt.Sprintf("oversize-versions=%d", n))
				}
			case *tls.PSKKeyExchangeModesExtension:
				if which == 1 {
					n := []int{255, 256, 300}[ch.Pick(3, "n-modes")]
					for i := len(x.Modes); i < n; i++ {
						x.Modes = append(x.Modes, uint8(2+i%200))
					}
					desc = append(desc, fmt.Sprintf("oversize-pskmodes=%d", n))
				}
			case *tls.SupportedPointsExtension:
				if which == 2 {
					n := []int{255, 256, 300}[ch.Pick(3, "n-points")]
					for i := len(x.SupportedPoints); i < n; i++ {
						x.SupportedPoints = append(x.SupportedPoints, uint8(1+i%2))
					}
					desc = append(desc, fmt.Sprintf("oversize-points=%d", n))
				}
			case *tls.UtlsCompressCertExtension:
				if which == 3 {
					n := []int{127, 128, 129, 200}[ch.Pick(4, "n-compalgs")]
					for i := len(x.Algorithms); i < n; i++ {
						x.Algorithms = append(x.Algorithms, tls.CertCompressionAlgo(0x100+i))
					}
					desc = append(desc, fmt.Sprintf("oversize-compalgs=%d", n))
				}
			case *tls.ALPNExtension:
				if which == 4 {
					switch k := ch.Pick(5, "alpn-shape"); k {
					case 3:
						// an empty protocol name (ProtocolName<1..2^8-1>) cannot be encoded
						x.AlpnProtocols = []string{"h2", "", "http/1.1"}
						desc = append(desc, "alpn-empty-name")
						// (a next_protocol_negotiation extension behind it replaces Config.NextProtos, which
						// is what the handshake-time validation looks at)
						npnBehind = ch.Bool(50, "npn-behind-alpn")
					case 4:
						// names that are fine one by one, a list beyond its 16-bit length
						nn := []int{257, 262, 300}[ch.Pick(3, "alpn-names")]
						x.AlpnProtocols = nil
						for i := 0; i < nn; i++ {
							x.AlpnProtocols = append(x.AlpnProtocols, fmt.Sprintf("%03d", i)+strings.Repeat("q", 251))
						}
						desc = append(desc, fmt.Sprintf("oversize-alpn-list=%d", nn*255))
					default:
						n := []int{255, 256, 300}[k]
						x.AlpnProtocols = []string{strings.Repeat("p", n)}
						desc = append(desc, fmt.Sprintf("oversize-alpn-proto=%d", n))
					}
				}
			}
		}
	}
	if npnBehind {
		has := false
		for _, e := range exts {
			if _, ok := e.(*tls.NPNExtension); ok {
				has = true
			}
		}
		if !has {
			exts = append(exts, &tls.NPNExtension{})
			desc = append(desc, "npn")
		}
	}
	// order: a drawn rotation + optional swaps, then GREASE first/last and padding at the end
	if len(exts) > 1 && ch.Bool(60, "spec-rotate") {
		k := ch.Pick(len(exts), "rot")
		exts = append(append([]tls.TLSExtension{}, exts[k:]...), exts[:k]...)
		desc = append(append([]string{}, desc[k:]...), desc[:k]...)
	}
	if grease {
		// (the GREASE extensions of a hand-written spec may carry concrete GREASE code points too,
		// as copied from a capture: they are markers, redrawn per connection like the placeholder)
		v1, v2 := uint16(0), uint16(0)
		if gv != uint16(tls.GREASE_PLACEHOLDER) {
			v1, v2 = gv, uint16(0x0a0a+0x1010*((int(gv>>12)+3)%16))
		}
		exts = append([]tls.TLSExtension{&tls.UtlsGREASEExtension{Value: v1}}, exts...)
		desc = append([]string{"grease"}, desc...)
		exts = append(exts, &tls.UtlsGREASEExtension{Value: v2, Body: []byte{0}})
		desc = append(desc, "grease2")
	}
	if ch.Bool(55, "x-padding") {
		exts = append(exts, &tls.UtlsPaddingExtension{GetPaddingLen: tls.BoringPaddingStyle})
		desc = append(desc, "padding")
	}
	if tls13 && !consistent && ch.Bool(12, "x-fake-psk") {
		// a pre_shared_key extension copied from a capture (FakePreSharedKeyExtension): 1-3 identities
		// whose binders belong to tickets of different hashes (32 and 48 bytes); always last
		n := ch.Range(1, 3, "fake-psk-n")
		psk := &tls.FakePreSharedKeyExtension{}
		for i := 0; i < n; i++ {
			label := make([]byte, ch.Range(1, 140, "fake-psk-label-len"))
			ch.Bytes(label, "fake-psk-label")
			psk.Identities = append(psk.Identities, tls.PskIdentity{Label: label, ObfuscatedTicketAge: uint32(ch.U64("fake-psk-age"))})
			b := make([]byte, []int{32, 48, 32, 64}[ch.Pick(4, "fake-psk-binder-len")])
			ch.Bytes(b, "fake-psk-binder")
			psk.Binders = append(psk.Binders, b)
		}
		exts = append(exts, psk)
		desc = append(desc, fmt.Sprintf("fake-psk=%d", n))
	}
	spec.Extensions = exts
	return spec, fmt.Sprintf("tls13=%v suites=%d exts=%s", tls13, len(cs), strings.Join(desc, ","))
}

func dedup16(xs []uint16) []uint16 {
	seen := map[uint16]bool{}
	var out []uint16
	for _, x := range xs {
		if !seen[x] {
			seen[x] = true
			out = append(out, x)
		}
	}
	return out
}

func freshSpec(f func() *tls.ClientHelloSpec) *tls.ClientHelloSpec {
	if f == nil {
		return nil
	}
	return f()
}
