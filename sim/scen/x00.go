package scen

import (
	stdtls "crypto/tls"
	"fmt"

	tls "github.com/refraction-networking/utls"
	"github.com/refraction-networking/utls/zz_verif/simnet"
	"github.com/refraction-networking/utls/zz_verif/simrt"
)

// X00 is a development smoke scenario (not a property): every parrot against both peers.
func init() {
	Register("X00", &Info{Run: runX00, Quick: 200, Thor: 200, Rule: "smoke"})
}

func runX00(c *Ctx) {
	ch := c.Ch
	idi := AllParrots[int(c.Run)%len(AllParrots)]
	peer := int(c.Run/int64(len(AllParrots))) % 2
	frag := ch.Bool(50, "frag")
	w := c.NewWorld(simrt.Config{})
	sp := &ConnSpec{ID: idi.ID, Peer: peer,
		CCfg:    &tls.Config{ServerName: "example.test", RootCAs: Roots()},
		SCfg:    &tls.Config{Certificates: []tls.Certificate{Cert("ecdsa").U, Cert("rsa").U}},
		StdCfg:  &stdtls.Config{Certificates: []stdtls.Certificate{Cert("ecdsa").S, Cert("rsa").S}},
		Payload: [][]byte{[]byte("hello world"), make([]byte, 5000)},
		Setup:   func(l *simnet.Link) { l.Frag = frag },
	}
	o := RunConn(c, w, sp)
	c.Finish(w, true)
	c.R.Class = fmt.Sprintf("%s/%s", idi.Name, peerName(peer))
	c.R.NonTrivial = true
	if !o.CDone || !o.SDone || len(o.CRead) != 5011 {
		c.Violate("smoke "+c.R.Class+" "+fmt.Sprint(o.CErr), "%s read=%d", o.Describe(), len(o.CRead))
	}
}
