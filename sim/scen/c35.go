package scen

import (
	"bytes"
	"crypto/aes"
	"crypto/cipher"
	"crypto/ed25519"
	"crypto/hmac"
	"crypto/sha256"
	"crypto/x509"
	"crypto/x509/pkix"
	"fmt"
	"math/big"
	"sync"
	"time"

	tls "github.com/refraction-networking/utls"
	"github.com/refraction-networking/utls/zz_verif/simrt"
)

// C35: session tickets are authenticated and round-trip.

func init() {
	Register("C35", &Info{
		Run:   runC35,
		Quick: 7500, Thor: 1000000,
		Rule: "a world = one server Config with a history of ticket operations: a real TLS 1.2 or 1.3 connection supplies genuine SessionState values (captured through Config.WrapSession), variants are derived by editing Extra/EarlyData; operations drawn per world: EncryptTicket/DecryptTicket round trip, single-bit flips at every region (IV, ciphertext, MAC), truncation/extension, explicit key sets and rotations through SetSessionTicketKeys (new key in front: old tickets still open; old key removed: no state; oldest key replaced by a new one while the sealing key stays), automatic key rotation under server clock jumps (1 h .. 30 d against the 7-day key lifetime) and walks (2-14 steps of 7 h .. 3 d with the keys used after every step), a third of the worlds with a client certificate whose cross-signed intermediate gives the sealed state two verified chains, opening tickets with an Config.Clone() snapshots that must keep the key set they were taken with, independent AES-CTR + HMAC-SHA256 sealer keyed by TicketKeyFromBytes and sealing tickets independently for DecryptTicket, and finally a resumption through a forged ClientSessionState (drawn master secret patched into the state) (with or without the server's certificates in it) that must resume with the supplied version/suite and equal exporters on both sides, followed by an ordinary connection over the same session cache (and, when the supplied suite differs from the one sealed in the ticket, must not complete as a resumption under another suite); one world in six: a Config with the legacy SessionTicketKey field set, 1-3 tasks calling EncryptTicket concurrently with one SetSessionTicketKeys call under a scheduler that switches at every lock operation - afterwards the keys in force must be the installed ones; non-trivial = a ticket was decrypted or rejected after a mutation/rotation; distinct = (operation sequence, key history, clock jumps)",
		Assumptions: []string{"the independent sealer follows the documented ticket format (16-byte IV, AES-128-CTR, HMAC-SHA256 over IV and ciphertext) with keys from TicketKeyFromBytes",
			"automatic rotation: no claim between 6 and 8 days"},
		Real: []string{"utls server Config ticket code, client session injection (MakeClientSessionState, SetSessionState) from /repo"},
		Stub: []string{"transport, clocks (server Config.Time), crypto/rand, Config.Rand"},
	})
}

// A client certificate whose issuing intermediate is cross-signed by two roots: a server that trusts
// both roots and is shown both intermediate certificates verifies two chains that differ after the
// leaf. Ed25519 throughout (deterministic signatures, keys from fixed seeds), so the bytes are the same in
// every process.
type xsignedFix struct {
	cert tls.Certificate // leaf, intermediate-by-root-one, intermediate-by-root-two
	cas  *x509.CertPool
}

var (
	xsignedOnce sync.Once
	xsigned     xsignedFix
)

func xsignedClient() *xsignedFix {
	xsignedOnce.Do(func() {
		key := func(b byte) ed25519.PrivateKey { return ed25519.NewKeyFromSeed(bytes.Repeat([]byte{b}, 32)) }
		mk := func(serial int64, cn string, ca bool, pub ed25519.PublicKey, parent *x509.Certificate, signer ed25519.PrivateKey) *x509.Certificate {
			t := &x509.Certificate{SerialNumber: big.NewInt(serial), Subject: pkix.Name{CommonName: cn},
				NotBefore: BubbleEpoch.Add(-24 * time.Hour), NotAfter: BubbleEpoch.Add(40 * 365 * 24 * time.Hour),
				BasicConstraintsValid: true, IsCA: ca, KeyUsage: x509.KeyUsageDigitalSignature, SubjectKeyId: []byte(cn)}
			if ca {
				t.KeyUsage |= x509.KeyUsageCertSign
			} else {
				t.ExtKeyUsage = []x509.ExtKeyUsage{x509.ExtKeyUsageClientAuth}
			}
			if parent == nil {
				parent = t
			}
			der, err := x509.CreateCertificate(nil, t, parent, pub, signer)
			if err != nil {
				panic(err)
			}
			x, err := x509.ParseCertificate(der)
			if err != nil {
				panic(err)
			}
			return x
		}
		r1k, r2k, ik, lk := key(0x11), key(0x22), key(0x33), key(0x44)
		r1 := mk(1, "verif root one", true, r1k.Public().(ed25519.PublicKey), nil, r1k)
		r2 := mk(2, "verif root two", true, r2k.Public().(ed25519.PublicKey), nil, r2k)
		i1 := mk(3, "verif cross-signed intermediate", true, ik.Public().(ed25519.PublicKey), r1, r1k)
		i2 := mk(4, "verif cross-signed intermediate", true, ik.Public().(ed25519.PublicKey), r2, r2k)
		leaf := mk(5, "verif client", false, lk.Public().(ed25519.PublicKey), i1, ik)
		xsigned.cert = tls.Certificate{Certificate: [][]byte{leaf.Raw, i1.Raw, i2.Raw}, PrivateKey: lk, Leaf: leaf}
		xsigned.cas = x509.NewCertPool()
		xsigned.cas.AddCert(r1)
		xsigned.cas.AddCert(r2)
	})
	return &xsigned
}

func indepOpen(k tls.TicketKey, ticket []byte) []byte {
	if len(ticket) < 16+32 {
		return nil
	}
	body, mac := ticket[:len(ticket)-32], ticket[len(ticket)-32:]
	h := hmac.New(sha256.New, k.HmacKey[:])
	h.Write(body)
	if !hmac.Equal(h.Sum(nil), mac) {
		return nil
	}
	blk, _ := aes.NewCipher(k.AesKey[:])
	out := make([]byte, len(body)-16)
	cipher.NewCTR(blk, body[:16]).XORKeyStream(out, body[16:])
	return out
}

func indepSeal(k tls.TicketKey, iv [16]byte, state []byte) []byte {
	blk, _ := aes.NewCipher(k.AesKey[:])
	out := make([]byte, 16+len(state))
	copy(out, iv[:])
	cipher.NewCTR(blk, iv[:]).XORKeyStream(out[16:], state)
	h := hmac.New(sha256.New, k.HmacKey[:])
	h.Write(out)
	return h.Sum(out)
}

// runC35Legacy: a Config with the legacy SessionTicketKey field set and not used yet; tasks that need
// the ticket keys (EncryptTicket) run concurrently with one SetSessionTicketKeys call under a scheduler
// that switches at every lock operation; once everything has returned, the keys in force must be the
// ones SetSessionTicketKeys installed.
func runC35Legacy(c *Ctx) {
	ch := c.Ch
	var legacy, k [32]byte
	ch.Bytes(legacy[:], "legacy-key")
	ch.Bytes(k[:], "new-key")
	nenc := ch.Range(1, 3, "encrypt-tasks")
	w := c.NewWorld(simrt.Config{LockYield: true, UnlockYield: ch.Bool(60, "unlockyield"), PreemptPct: 20 + 20*ch.Pick(4, "preempt")})
	cfg := &tls.Config{Certificates: []tls.Certificate{Cert("ecdsa").U}, SessionTicketKey: legacy}
	// a genuine state to seal
	donor := &tls.Config{Certificates: []tls.Certificate{Cert("ecdsa").U}, MaxVersion: tls.VersionTLS12}
	var states []*tls.SessionState
	var css []tls.ConnectionState
	donor.WrapSession = func(cs tls.ConnectionState, ss *tls.SessionState) ([]byte, error) {
		states = append(states, ss)
		css = append(css, cs)
		return donor.EncryptTicket(cs, ss)
	}
	o := RunConn(c, w, &ConnSpec{Name: "seed", ID: tls.HelloGolang, CCfg: &tls.Config{ServerName: "example.test", RootCAs: Roots(), ClientSessionCache: tls.NewLRUClientSessionCache(2), MaxVersion: tls.VersionTLS12}, Peer: PeerUTLS, SCfg: donor, Payload: [][]byte{[]byte("x")}})
	if !o.CDone || len(states) == 0 {
		c.Finish(w, true)
		c.R.Harness = "seed connection produced no session state: " + o.Describe()
		return
	}
	st, cs0 := states[0], css[0]
	stBytes, _ := st.Bytes()
	var encErrs []error
	for i := 0; i < nenc; i++ {
		w.Go(fmt.Sprintf("enc%d", i), func() {
			_, err := cfg.EncryptTicket(cs0, st)
			encErrs = append(encErrs, err)
		})
	}
	setDone := false
	w.Go("set", func() {
		simrt.WaitSteps(ch.Range(0, 12, "set-at"))
		cfg.SetSessionTicketKeys([][32]byte{k})
		setDone = true
	})
	w.Run()
	w.Join()
	c.Finish(w, true)
	c.R.Class = fmt.Sprintf("legacy-key concurrent enc=%d", nenc)
	c.R.NonTrivial = true
	c.Fault("concurrent-set-keys", 1)
	if c.R.Violation != nil {
		return
	}
	if !setDone {
		c.R.Harness = "SetSessionTicketKeys did not run"
		return
	}
	var iv [16]byte
	ch.Bytes(iv[:], "iv")
	t := indepSeal(tls.TicketKeyFromBytes(k), iv, stBytes)
	d, _ := cfg.DecryptTicket(t, cs0)
	if d == nil {
		c.Violate("set-keys-lost-under-concurrency", "%s: after SetSessionTicketKeys([K]) and all concurrent EncryptTicket calls returned, a ticket sealed under K is not accepted (the keys in force are not the configured ones)", c.R.Class)
		return
	}
	if t2, err := cfg.EncryptTicket(cs0, st); err == nil {
		if pt := indepOpen(tls.TicketKeyFromBytes(k), t2); !bytes.Equal(pt, stBytes) {
			c.Violate("set-keys-lost-under-concurrency", "%s: tickets are sealed with a key other than the configured one", c.R.Class)
		}
	}
}

func runC35(c *Ctx) {
	if c.Run%6 == 5 {
		runC35Legacy(c)
		return
	}
	ch := c.Ch
	ver := []uint16{tls.VersionTLS12, tls.VersionTLS13}[ch.Pick(2, "ver")]
	explicitKeys := ch.Bool(60, "explicit-keys")
	var k0, k1, k2, k3, k4 [32]byte
	ch.Bytes(k0[:], "k0")
	ch.Bytes(k1[:], "k1")
	ch.Bytes(k2[:], "k2")
	ch.Bytes(k3[:], "k3")
	ch.Bytes(k4[:], "k4")
	w := c.NewWorld(simrt.Config{})
	var clockOff time.Duration
	now := func() time.Time { return time.Now().Add(clockOff) }
	scfg := &tls.Config{Certificates: []tls.Certificate{Cert("ecdsa").U}, MaxVersion: ver, Time: now}
	if explicitKeys {
		scfg.SetSessionTicketKeys([][32]byte{k0})
	}
	// capture genuine session states
	var states []*tls.SessionState
	var css []tls.ConnectionState
	scfg.WrapSession = func(cs tls.ConnectionState, ss *tls.SessionState) ([]byte, error) {
		states = append(states, ss)
		css = append(css, cs)
		return scfg.EncryptTicket(cs, ss)
	}
	cache := tls.NewLRUClientSessionCache(4)
	ccfg := &tls.Config{ServerName: "example.test", RootCAs: Roots(), ClientSessionCache: cache, MaxVersion: ver}
	// a third of the worlds: the seed connection authenticates the client with a certificate whose
	// intermediate is cross-signed, so the sealed server-side state holds two verified chains
	twoChains := ch.Bool(33, "client-cert-with-two-chains")
	if twoChains {
		fx := xsignedClient()
		scfg.ClientAuth, scfg.ClientCAs = tls.VerifyClientCertIfGiven, fx.cas
		ccfg.Certificates = []tls.Certificate{fx.cert}
	}
	o := RunConn(c, w, &ConnSpec{Name: "seed", ID: tls.HelloGolang, CCfg: ccfg, Peer: PeerUTLS, SCfg: scfg, Payload: [][]byte{[]byte("x")}})
	if !o.CDone || len(states) == 0 {
		c.Finish(w, true)
		c.R.Harness = "seed connection produced no session state: " + o.Describe()
		return
	}
	base := states[0]
	cs0 := css[0]
	baseBytes, err := base.Bytes()
	if err != nil {
		c.R.Harness = "SessionState.Bytes: " + err.Error()
		return
	}
	var ops []string
	fail := func(class, format string, a ...any) {
		c.Violate(class, "ops=%v: "+format, append([]any{ops}, a...)...)
	}
	if twoChains {
		if len(cs0.VerifiedChains) != 2 {
			c.Finish(w, true)
			c.R.Harness = fmt.Sprintf("cross-signed client certificate: server verified %d chains, want 2", len(cs0.VerifiedChains))
			return
		}
		c.Probe("state-with-two-verified-chains")
	}
	// the genuine state itself, as captured (not a re-parsed copy): sealed and opened, it must come
	// back equal; and parsing its encoding must be the inverse of producing it
	{
		t, err := scfg.EncryptTicket(cs0, base)
		if err != nil {
			fail("encrypt-error", "genuine state: %v", err)
		} else if d, derr := scfg.DecryptTicket(t, cs0); d == nil {
			fail("round-trip-failed", "genuine state: DecryptTicket(EncryptTicket(state)) = nil, %v", derr)
		} else if db, _ := d.Bytes(); !bytes.Equal(db, baseBytes) {
			fail("round-trip-altered-state genuine two-chains="+fmt.Sprint(twoChains), "the state captured in WrapSession differs after EncryptTicket/DecryptTicket (%d vs %d bytes)", len(db), len(baseBytes))
		}
	}
	// variant state
	variant := func() *tls.SessionState {
		s, err := tls.ParseSessionState(baseBytes)
		if err != nil {
			return nil
		}
		n := ch.Range(0, 3, "extras")
		for i := 0; i < n; i++ {
			e := make([]byte, ch.Range(0, 300, "extra-len"))
			ch.Bytes(e, "extra")
			s.Extra = append(s.Extra, e)
		}
		return s
	}
	type sealed struct {
		ticket []byte
		state  []byte
		key    int // index of the explicit key in front when sealed (-1: automatic keys)
		at     time.Duration
	}
	var tickets []sealed
	keyHist := []int{0} // explicit keys currently installed, front first
	keys := [][32]byte{k0, k1, k2, k3, k4}
	nextKey := 1 // keys are taken into use in index order
	// clones taken along the way keep the key set they were cloned with, whatever happens to the
	// original afterwards
	type cloneRec struct {
		cfg  *tls.Config
		keys []int
		at   int
	}
	var clones []cloneRec
	checkClones := func() {
		for ci, cl := range clones {
			for ti, t := range tickets {
				if t.key < 0 {
					continue
				}
				d, _ := cl.cfg.DecryptTicket(t.ticket, cs0)
				has := false
				for _, k := range cl.keys {
					if k == t.key {
						has = true
					}
				}
				if has && d == nil {
					fail("clone-lost-its-keys", "clone %d (taken after op %d with keys %v) no longer opens ticket %d sealed under key %d; the original now has %v", ci, cl.at, cl.keys, ti, t.key, keyHist)
				} else if has {
					if db, _ := d.Bytes(); !bytes.Equal(db, t.state) {
						fail("ticket-opens-to-different-state", "clone %d ticket %d", ci, ti)
					}
				}
				if !has && d != nil {
					fail("clone-accepts-key-it-never-had", "clone %d (keys %v) opens ticket %d sealed under key %d", ci, cl.keys, ti, t.key)
				}
			}
		}
	}
	nops := ch.Range(3, 10, "nops")
	for i := 0; i < nops && c.R.Violation == nil; i++ {
		switch op := ch.Pick(8, "op"); op {
		case 7: // clone the Config as it is now
			if !explicitKeys {
				continue
			}
			clones = append(clones, cloneRec{scfg.Clone(), append([]int(nil), keyHist...), len(ops)})
			ops = append(ops, fmt.Sprintf("clone(keys=%v)", keyHist))
		case 0, 1: // seal + round trip
			s := variant()
			if s == nil {
				c.R.Harness = "ParseSessionState of genuine bytes failed"
				return
			}
			sb, _ := s.Bytes()
			t, err := scfg.EncryptTicket(cs0, s)
			if err != nil {
				fail("encrypt-error", "%v", err)
				break
			}
			ops = append(ops, fmt.Sprintf("seal(%dB)", len(sb)))
			ki := -1
			if explicitKeys {
				ki = keyHist[0]
			}
			tickets = append(tickets, sealed{t, sb, ki, clockOff})
			d, err := scfg.DecryptTicket(t, cs0)
			if err != nil || d == nil {
				fail("round-trip-failed", "DecryptTicket(EncryptTicket(state)) = %v, %v", d, err)
				break
			}
			db, _ := d.Bytes()
			if !bytes.Equal(db, sb) {
				fail("round-trip-altered-state", "state differs after round trip (%d vs %d bytes)", len(db), len(sb))
			}
			if explicitKeys {
				// the independent sealer, keyed by TicketKeyFromBytes, must open it
				pt := indepOpen(tls.TicketKeyFromBytes(keys[ki]), t)
				if !bytes.Equal(pt, sb) {
					fail("ticket-not-openable-with-TicketKeyFromBytes", "independent AES-CTR/HMAC-SHA256 under TicketKeyFromBytes(key %d) does not open the ticket", ki)
				}
			}
			c.R.NonTrivial = true
		case 2: // mutate
			if len(tickets) == 0 {
				continue
			}
			t := tickets[ch.Pick(len(tickets), "which")]
			m := append([]byte(nil), t.ticket...)
			kind := ch.Pick(4, "mut-kind")
			switch kind {
			case 0, 1:
				pos := ch.Pick(len(m), "pos")
				if kind == 1 {
					pos = len(m) - 1 - ch.Pick(32, "macpos") // inside the MAC
				}
				m[pos] ^= byte(1 << uint(ch.Pick(8, "bit")))
				ops = append(ops, fmt.Sprintf("flip@%d/%d", pos, len(m)))
			case 2:
				m = m[:ch.Pick(len(m), "trunc")]
				ops = append(ops, fmt.Sprintf("trunc->%d", len(m)))
			case 3:
				m = append(m, byte(ch.Pick(256, "ext")))
				ops = append(ops, "extend")
			}
			d, err := scfg.DecryptTicket(m, cs0)
			if d != nil {
				fail("modified-ticket-accepted", "DecryptTicket returned a state for a modified ticket (err=%v)", err)
			}
			c.R.NonTrivial = true
		case 3: // rotate explicit keys: new key in front, old kept
			if !explicitKeys || len(keyHist) >= 3 || nextKey >= len(keys) {
				continue
			}
			nk := nextKey
			nextKey++
			keyHist = append([]int{nk}, keyHist...)
			var ks [][32]byte
			for _, i := range keyHist {
				ks = append(ks, keys[i])
			}
			scfg.SetSessionTicketKeys(ks)
			ops = append(ops, fmt.Sprintf("rotate(front=%d,keep=%v)", nk, keyHist[1:]))
			c.Fault("key-rotation", 1)
		case 4: // retire the oldest key - or replace it by a key never used before (same number of keys, same sealing key)
			if !explicitKeys || len(keyHist) < 2 {
				continue
			}
			if nextKey < len(keys) && ch.Bool(50, "replace-tail") {
				keyHist[len(keyHist)-1] = nextKey
				nextKey++
				var ks [][32]byte
				for _, i := range keyHist {
					ks = append(ks, keys[i])
				}
				scfg.SetSessionTicketKeys(ks)
				ops = append(ops, fmt.Sprintf("replace-tail(now=%v)", keyHist))
				c.Fault("key-replace-tail", 1)
				// a ticket sealed by the independent sealer under the new decryption-only key must open
				var iv [16]byte
				ch.Bytes(iv[:], "tail-iv")
				tk := keyHist[len(keyHist)-1]
				if d, _ := scfg.DecryptTicket(indepSeal(tls.TicketKeyFromBytes(keys[tk]), iv, baseBytes), cs0); d == nil {
					fail("ticket-rejected-although-key-configured tail", "a ticket sealed under the newly installed decryption-only key %d is refused (keys now %v)", tk, keyHist)
				}
				break
			}
			keyHist = keyHist[:len(keyHist)-1]
			var ks [][32]byte
			for _, i := range keyHist {
				ks = append(ks, keys[i])
			}
			scfg.SetSessionTicketKeys(ks)
			ops = append(ops, fmt.Sprintf("retire(now=%v)", keyHist))
			c.Fault("key-retire", 1)
		case 5: // clock jump (automatic rotation)
			if ch.Bool(35, "walk") {
				// a server in steady use: the clock advances in steps of 7 h .. 3 d and the ticket keys
				// are used after every step (so every rotation happens on time and finds the previous
				// key still young)
				n := ch.Range(2, 14, "walk-steps")
				var total time.Duration
				for k := 0; k < n; k++ {
					st := []time.Duration{7 * time.Hour, 25 * time.Hour, 25 * time.Hour, 49 * time.Hour, 3 * 24 * time.Hour}[ch.Pick(5, "walk-step")]
					clockOff += st
					total += st
					scfg.DecryptTicket([]byte("not a ticket"), cs0)
				}
				ops = append(ops, fmt.Sprintf("walk+%v/%d", total, n))
				c.Fault("clock-walk", 1)
				break
			}
			j := []time.Duration{time.Hour, 25 * time.Hour, 3 * 24 * time.Hour, 9 * 24 * time.Hour, 30 * 24 * time.Hour}[ch.Pick(5, "jump")]
			clockOff += j
			ops = append(ops, fmt.Sprintf("jump+%v", j))
			c.Fault("clock-jump", 1)
		case 6: // re-open every earlier ticket under the current keys/clock
			for ti, t := range tickets {
				d, _ := scfg.DecryptTicket(t.ticket, cs0)
				mustOpen, mustFail := false, false
				if explicitKeys {
					for _, k := range keyHist {
						if k == t.key {
							mustOpen = true
						}
					}
					mustFail = !mustOpen
				} else {
					age := clockOff - t.at
					mustOpen = age < 6*24*time.Hour
					mustFail = age > 8*24*time.Hour
				}
				if mustOpen {
					if d == nil {
						fail("ticket-rejected-although-key-configured", "ticket %d sealed at +%v under key %d no longer opens (keys now %v, clock +%v)", ti, t.at, t.key, keyHist, clockOff)
					} else if db, _ := d.Bytes(); !bytes.Equal(db, t.state) {
						fail("ticket-opens-to-different-state", "ticket %d", ti)
					}
				}
				if mustFail && d != nil {
					fail("ticket-accepted-with-retired-key", "ticket %d sealed at +%v under key %d still opens (keys now %v, clock +%v)", ti, t.at, t.key, keyHist, clockOff)
				}
				c.R.NonTrivial = true
			}
			ops = append(ops, "reopen-all")
			checkClones()
		}
	}
	if c.R.Violation == nil {
		checkClones()
	}
	// independently sealed ticket must be accepted by DecryptTicket (same key derivation both ways)
	if explicitKeys && c.R.Violation == nil {
		var iv [16]byte
		ch.Bytes(iv[:], "iv")
		t := indepSeal(tls.TicketKeyFromBytes(keys[keyHist[0]]), iv, baseBytes)
		d, _ := scfg.DecryptTicket(t, cs0)
		if d == nil {
			fail("independently-sealed-ticket-rejected", "a ticket sealed with TicketKeyFromBytes(front key) is not accepted by DecryptTicket")
		} else if db, _ := d.Bytes(); !bytes.Equal(db, baseBytes) {
			fail("independently-sealed-ticket-altered", "state differs")
		}
	}
	// forged ClientSessionState resumption (TLS 1.2): drawn master secret patched into the state
	if ver == tls.VersionTLS12 && c.R.Violation == nil && ch.Bool(60, "forge") {
		master := make([]byte, 48)
		ch.Bytes(master, "master")
		fb := append([]byte(nil), baseBytes...)
		// layout: version(2) type(1) suite(2) createdAt(8) secret<0..255>
		if len(fb) > 14+48 && fb[13] == 48 {
			copy(fb[14:14+48], master)
			// refresh createdAt to the server's current time so that the ticket is not stale
			ts := uint64(now().Unix())
			for i := 0; i < 8; i++ {
				fb[5+i] = byte(ts >> (8 * (7 - i)))
			}
			fs, err := tls.ParseSessionState(fb)
			if err != nil {
				c.R.Harness = "ParseSessionState(patched): " + err.Error()
				return
			}
			ticket, err := scfg.EncryptTicket(cs0, fs)
			if err != nil {
				fail("encrypt-error", "%v", err)
			} else {
				leaf := Cert("ecdsa").X
				chain := [][]*x509.Certificate{{leaf}}
				// the caller may also supply a suite other than the one sealed in the ticket: the server then
				// resumes under the ticket's suite, and the client must not end up in a resumed connection
				// under a suite it was not given
				supplied := cs0.CipherSuite
				if ch.Bool(30, "forge-other-suite") {
					alt := map[uint16][]uint16{0xc02b: {0xc02c, 0xcca9}, 0xc02c: {0xc02b, 0xcca9}, 0xcca9: {0xc02b, 0xc02c}, 0xc02f: {0xc030, 0xcca8}, 0xc030: {0xc02f, 0xcca8}, 0xcca8: {0xc02f, 0xc030}}[cs0.CipherSuite]
					if len(alt) > 0 {
						supplied = alt[ch.Pick(len(alt), "alt-suite")]
					}
				}
				// a forged state need not carry the server's certificates (the caller knows a master secret,
				// not necessarily the chain)
				noCerts := ch.Bool(30, "forge-without-certificates")
				var fcerts []*x509.Certificate
				var fchains [][]*x509.Certificate
				if !noCerts {
					fcerts, fchains = []*x509.Certificate{leaf}, chain
				}
				forged := tls.MakeClientSessionState(ticket, cs0.Version, supplied, master, fcerts, fchains)
				forged.SetEMS(true)
				var cEKM []byte
				// (HelloGolang ignores UConn.Extensions by documentation, so injected sessions do not apply to it)
				idi := []IDInfo{{"Chrome_100", tls.HelloChrome_100}, {"Chrome_133", tls.HelloChrome_133}, {"Firefox_120", tls.HelloFirefox_120}, {"Safari_16_0", tls.HelloSafari_16_0}, {"Firefox_65", tls.HelloFirefox_65}}[ch.Pick(5, "forge-id")]
				if !specHas(idi.ID, "ticket") {
					idi = IDInfo{"Chrome_133", tls.HelloChrome_133} // the spec must carry a session_ticket extension (documented)
				}
				sp := &ConnSpec{Name: "forged", ID: idi.ID, CCfg: &tls.Config{ServerName: "example.test", RootCAs: Roots(), ClientSessionCache: tls.NewLRUClientSessionCache(2), MaxVersion: tls.VersionTLS12, Time: now},
					Peer: PeerUTLS, SCfg: scfg, Payload: [][]byte{[]byte("ping")}}
				sp.Prep = func(u *tls.UConn) error { return u.SetSessionState(forged) }
				sp.After = func(u *tls.UConn) {
					st := u.ConnectionState()
					cEKM, _ = st.ExportKeyingMaterial("EXPORTER-forged", nil, 32)
				}
				ops = append(ops, fmt.Sprintf("forged-resumption/%s/certs=%v", idi.Name, !noCerts))
				fcache := sp.CCfg.ClientSessionCache
				fo := RunConn(c, w, sp)
				// whatever the resumed connection left in the session cache, the next connection over the
				// same cache must work (a full handshake or a resumption, never a panic or an error)
				if fo.CDone && ch.Bool(60, "connection-after-forged") {
					ncfg := &tls.Config{ServerName: "example.test", RootCAs: Roots(), ClientSessionCache: fcache, MaxVersion: tls.VersionTLS12, Time: now}
					no := RunConn(c, w, &ConnSpec{Name: "after-forged", ID: idi.ID, CCfg: ncfg, Peer: PeerUTLS, SCfg: scfg, Payload: [][]byte{[]byte("next")}})
					ops = append(ops, "connection-after-forged")
					if c.R.Violation == nil && (!no.CDone || string(no.CRead) != "next") {
						fail("connection-after-forged-session-failed", "%s client-panic=%v", no.Describe(), no.CPanic)
					}
					c.Probe("connection-after-forged-session")
				}
				if supplied != cs0.CipherSuite {
					ops[len(ops)-1] += fmt.Sprintf("/supplied-suite=%04x-ticket-suite=%04x", supplied, cs0.CipherSuite)
					c.Probe("forged-other-suite")
					if fo.CDone && fo.CState.DidResume && fo.CState.CipherSuite != supplied {
						fail("forged-session-wrong-parameters other-suite", "supplied suite %04x, the ticket holds %04x; the client completed a resumed handshake under %04x", supplied, cs0.CipherSuite, fo.CState.CipherSuite)
					}
				} else if fo.BuildErr != nil {
					fail("forged-session-rejected-by-setter", "%v", fo.BuildErr)
				} else if !fo.CDone || !fo.SDone {
					fail("forged-session-handshake-failed "+idi.Name, "%s", fo.Describe())
				} else if !fo.CState.DidResume || !fo.S.DidResume {
					fail("forged-session-not-resumed "+idi.Name, "client DidResume=%v server DidResume=%v", fo.CState.DidResume, fo.S.DidResume)
				} else {
					if fo.CState.Version != cs0.Version || fo.CState.CipherSuite != cs0.CipherSuite || fo.S.Version != cs0.Version || fo.S.Suite != cs0.CipherSuite {
						fail("forged-session-wrong-parameters", "supplied %x/%04x, client %x/%04x server %x/%04x", cs0.Version, cs0.CipherSuite, fo.CState.Version, fo.CState.CipherSuite, fo.S.Version, fo.S.Suite)
					}
					sEKM, serr := fo.S.EKM("EXPORTER-forged", nil, 32)
					if serr == nil && cEKM != nil && !bytes.Equal(sEKM, cEKM) {
						fail("forged-session-exporter-mismatch", "client %x server %x", cEKM, sEKM)
					}
					if string(fo.CRead) != "ping" {
						fail("forged-session-echo-failed", "%s", fo.Describe())
					}
					c.Probe("forged-resumed")
				}
			}
		} else {
			c.R.Harness = fmt.Sprintf("unexpected state layout (secret length byte %d)", fb[13])
		}
	}
	c.Finish(w, true)
	c.R.Class = fmt.Sprintf("v=%x explicit=%v ops=%v", ver, explicitKeys, ops)
	if c.R.Run%300 == 0 {
		c.R.Sample = map[string]any{"version": ver, "explicit_keys": explicitKeys, "ops": ops}
	}
}
