package scen

import (
	stdtls "crypto/tls"
	"encoding/binary"
	"fmt"

	tls "github.com/refraction-networking/utls"
	"github.com/refraction-networking/utls/zz_verif/simnet"
	"github.com/refraction-networking/utls/zz_verif/simrand"
	"github.com/refraction-networking/utls/zz_verif/simrt"
	"github.com/refraction-networking/utls/zz_verif/wire"
)

// C04: GREASE values are well-formed, distinct where required, and fresh.

func init() {
	Register("C04", &Info{
		Run:   runC04,
		Quick: 4500, Thor: 500000,
		Rule: "(30% of the parrot worlds build the hello explicitly, then build two other connections of the same parrot, then handshake) a world = one fingerprint (every predefined parrot by stratum, randomized seeds, fingerprinted copies, generated specs) observed over one real connection (hellos reassembled from the wire, incl. the hello after a HelloRetryRequest) plus 23 further ClientHellos built in the same world, plus QUIC-style transport parameters with a GREASE parameter (IdOverride unset, small registered ids, reserved ids, arbitrary values) and a GREASE version-information entry; within-hello rules on every hello; freshness = >=2 distinct values among the 24 draws of each GREASE kind the fingerprint carries; non-trivial = the hello carries a GREASE value; distinct = (fingerprint, GREASE tuple of the wire hello)",
		Assumptions: []string{"freshness threshold: 24 draws of a 16-valued GREASE nibble are all equal with probability 16^-23 for a uniform source; the world's random stream is a PRNG owned by the simulator, so a pass is a deterministic function of the seed"},
		Real:        []string{"utls client from /repo", "utls or std server"},
		Stub:        []string{"transport, clock, crypto/rand"},
	})
}

func runC04(c *Ctx) {
	ch := c.Ch
	stratum := int64(-1)
	if c.Run%2 == 0 {
		stratum = c.Run / 2
	}
	var idi IDInfo
	var newSpec func() *tls.ClientHelloSpec
	kind := "id"
	if stratum < 0 && ch.Bool(25, "custom") {
		kind = "custom"
		newSpec, _ = GenSpecFactory(ch, true)
		idi = IDInfo{"Custom", tls.HelloCustom}
	} else {
		idi = PickID(ch, stratum, false)
	}
	forceHRR := ch.Bool(30, "hrr")
	peer := ch.Pick(2, "peer")
	fp := stratum < 0 && kind == "id" && ch.Bool(30, "fingerprinted")
	w := c.NewWorld(simrt.Config{})
	// Config.Rand: ambient source, or a custom reader that legally returns short reads
	chunk := []int{0, 0, 0, 1, 8, 16}[ch.Pick(6, "rand-chunk")]
	var rs *simrand.Stream
	if chunk > 0 {
		rs = simrand.NewStream(ch.U64("cfg-rand"))
		rs.MaxChunk = chunk
	}
	mk := func() *tls.Config {
		cfg := &tls.Config{ServerName: "example.test", InsecureSkipVerify: true, OmitEmptyPsk: true, PreferSkipResumptionOnNilExtension: true}
		if rs != nil {
			cfg.Rand = rs
		}
		return cfg
	}
	scfg := &tls.Config{Certificates: []tls.Certificate{Cert("ecdsa").U, Cert("rsa").U}}
	stdcfg := &stdtls.Config{Certificates: []stdtls.Certificate{Cert("ecdsa").S, Cert("rsa").S}, MinVersion: stdtls.VersionTLS10}
	if forceHRR {
		scfg.CurvePreferences = []tls.CurveID{tls.CurveP384}
		stdcfg.CurvePreferences = []stdtls.CurveID{stdtls.CurveP384}
	}
	useID, useSpec := idi.ID, freshSpec(newSpec)
	if fp {
		tmp := tls.UClient(nil, mk(), idi.ID)
		if err := tmp.BuildHandshakeState(); err == nil {
			f := &tls.Fingerprinter{AllowBluntMimicry: ch.Bool(50, "blunt"), AlwaysAddPadding: ch.Bool(50, "addpad")}
			if fs, err := f.FingerprintClientHello(AsRecord(tmp.HandshakeState.Hello.Raw)); err == nil {
				useID, useSpec = tls.HelloCustom, fs
				kind = "fingerprinted"
			}
		}
	}
	sp := &ConnSpec{ID: useID, Spec: useSpec, CCfg: mk(), Peer: peer, SCfg: scfg, StdCfg: stdcfg, Payload: [][]byte{[]byte("x")},
		Setup: func(l *simnet.Link) { l.Frag = ch.Bool(30, "frag") }}
	// interleaving with a second connection of the same fingerprint: this connection builds its
	// hello explicitly, another UConn of the same ID (own Config) is built, then this one
	// handshakes (which marshals again): GREASE values of one connection belong to it alone
	if kind == "id" && ch.Bool(30, "interleaved-build") {
		sp.Prep = func(u *tls.UConn) error {
			if err := u.BuildHandshakeState(); err != nil {
				return err
			}
			for k := 0; k < 2; k++ {
				other := tls.UClient(nil, mk(), useID)
				if err := other.BuildHandshakeState(); err != nil {
					return nil
				}
			}
			return nil
		}
		c.Probe("interleaved-build")
	}
	o := RunConn(c, w, sp)
	c.Finish(w, true)
	obs := ObserveHellos(o.Link)
	c.R.Class = fmt.Sprintf("%s/%s", kind, idi.Name)
	if c.R.Violation != nil {
		return
	}
	if obs.CHErr != nil || len(obs.CH) == 0 {
		c.R.Harness = fmt.Sprintf("no parsable hello on the wire: %v (%s)", obs.CHErr, o.Describe())
		return
	}
	var hellos []*wire.ClientHello
	hellos = append(hellos, obs.CH...)
	if len(obs.CH) > 1 {
		c.Probe("hello-after-hrr")
		// GREASE values must be the same in CH1 and CH2 (same connection)
		a, _ := GREASEValues(obs.CH[0])
		b, _ := GREASEValues(obs.CH[1])
		if a != b {
			c.Violate("grease-changed-across-hrr "+idi.Name, "CH1 %x CH2 %x", a, b)
		}
	}
	nwire := len(hellos)
	for i := 0; i < 23; i++ {
		u := tls.UClient(nil, mk(), useID)
		if useSpec != nil {
			// a spec value is single-use for some extension types: re-derive it
			var s2 *tls.ClientHelloSpec
			if kind == "fingerprinted" {
				f := &tls.Fingerprinter{}
				s2, _ = f.FingerprintClientHello(AsRecord(obs.CHRaw[0]))
			} else {
				s2 = freshSpec(newSpec)
			}
			if s2 == nil || u.ApplyPreset(s2) != nil {
				break
			}
		}
		if err := u.BuildHandshakeState(); err != nil {
			c.R.Harness = "extra build failed: " + err.Error()
			return
		}
		h, err := wire.ParseClientHello(u.HandshakeState.Hello.Raw)
		if err != nil {
			c.Violate("malformed-clienthello "+idi.Name, "extra build %d: %v", i, err)
			return
		}
		hellos = append(hellos, h)
	}
	distinct := [4]map[uint16]bool{{}, {}, {}, {}}
	count := [4]int{}
	for i, h := range hellos {
		if err := CheckGREASE(h); err != nil {
			c.Violate("grease-rule "+idi.Name+" "+errClass(err), "hello %d (%s): %v", i, c.R.Class, err)
			return
		}
		// every GREASE-looking value in suites/groups/versions/sigalgs must be well formed
		for _, v := range append(append(append([]uint16{}, h.CipherSuites...), h.SupportedGroups...), h.SupportedVersions...) {
			if v&0x0f0f == 0x0a0a && !wire.IsGREASE(v) {
				c.Violate("grease-malformed "+idi.Name, "value %#04x", v)
			}
		}
		if i >= nwire-1 { // one sample per connection (CH1/CH2 of the wire connection count once)
			vals, have := GREASEValues(h)
			for k := 0; k < 4; k++ {
				if have[k] {
					distinct[k][vals[k]] = true
					count[k]++
				}
			}
		}
	}
	names := []string{"cipher", "group", "extension", "version"}
	anyG := false
	for k := 0; k < 4; k++ {
		if count[k] == 0 {
			continue
		}
		anyG = true
		if count[k] >= 16 && len(distinct[k]) < 2 {
			c.Violate("grease-not-fresh "+names[k]+" "+kind, "%s: %d connections all used GREASE %s value %v", c.R.Class, count[k], names[k], distinct[k])
		}
	}
	c.R.NonTrivial = anyG
	if rs != nil && rs.Short > 0 {
		c.Fault("rand-shortread", 1)
	}
	vals, _ := GREASEValues(hellos[0])
	c.R.Class += fmt.Sprintf(" %x", vals)

	// QUIC generators
	for i := 0; i < 8; i++ {
		gp := &tls.GREASETransportParameter{Length: uint16(ch.Pick(17, "gtp-len"))}
		// IdOverride is honoured only when it is a reserved id (31*N+27); anything else - small
		// registered ids in particular - must be replaced by a generated reserved one
		override := uint64(0)
		switch ch.Pick(4, "gtp-override") {
		case 1:
			override = uint64(ch.Pick(64, "gtp-override-small"))
		case 2:
			override = 27 + 31*uint64(ch.Pick(1000, "gtp-override-n"))
		case 3:
			override = ch.U64("gtp-override-any") >> uint(2+ch.Pick(60, "gtp-override-shift"))
		}
		gp.IdOverride = override
		vi := &tls.VersionInformation{ChoosenVersion: tls.VERSION_1, AvailableVersions: []uint32{tls.VERSION_GREASE, tls.VERSION_1, tls.VERSION_GREASE}, LegacyID: ch.Bool(50, "legacy-vi")}
		tp := tls.TransportParameters{gp, vi, &tls.GREASEQUICBit{}}
		body := tp.Marshal()
		ids, vals, ok := parseTP(body)
		if !ok {
			c.Violate("quic-transport-parameters-malformed", "%x", body)
			return
		}
		if len(ids) != 3 || !wire.GREASEQUICParamID(ids[0]) {
			c.Violate("quic-grease-id-not-31N+27", "ids %v (IdOverride %d)", ids, override)
			return
		}
		if override >= 27 && override%31 == 27 && override <= 0x3fffffffffffffff && ids[0] != override {
			c.Violate("quic-grease-id-override-ignored", "IdOverride %d is a reserved id, the parameter carries %d", override, ids[0])
			return
		}
		v := vals[1]
		if len(v) != 16 {
			c.Violate("version-information-length", "%x", v)
			return
		}
		for _, off := range []int{4, 12} {
			gv := binary.BigEndian.Uint32(v[off:])
			if gv&0x0f0f0f0f != 0x0a0a0a0a {
				c.Violate("quic-grease-version-not-0x?a?a?a?a", "version_information carries GREASE version %#08x", gv)
				return
			}
		}
		c.Probe("quic-grease-checked")
	}
	if c.R.Run%300 == 0 {
		c.R.Sample = map[string]any{"fingerprint": idi.Name, "kind": kind, "hrr": forceHRR, "grease_tuple": fmt.Sprintf("%x", vals), "distinct": []int{len(distinct[0]), len(distinct[1]), len(distinct[2]), len(distinct[3])}}
	}
}

// parseTP decodes a quic_transport_parameters body (harness decoder).
func parseTP(b []byte) (ids []uint64, vals [][]byte, ok bool) {
	for len(b) > 0 {
		id, n, k := wire.ParseQUICVarint(b)
		if !k {
			return nil, nil, false
		}
		b = b[n:]
		l, n, k := wire.ParseQUICVarint(b)
		if !k || uint64(len(b)-n) < l {
			return nil, nil, false
		}
		b = b[n:]
		ids = append(ids, id)
		vals = append(vals, b[:l])
		b = b[l:]
	}
	return ids, vals, true
}
