package scen

import (
	"bytes"
	crand "crypto/rand"
	stdtls "crypto/tls"
	"fmt"
	"sort"

	tls "github.com/refraction-networking/utls"
	"github.com/refraction-networking/utls/zz_verif/simnet"
	"github.com/refraction-networking/utls/zz_verif/simrand"
	"github.com/refraction-networking/utls/zz_verif/simrt"
	"github.com/refraction-networking/utls/zz_verif/wire"
)

// C03: predefined parrots send exactly the ClientHello their spec describes.

func init() {
	Register("C03", &Info{
		Run:   runC03,
		Quick: 7200, Thor: 1000000,
		Rule: "a world = one predefined parrot (all of them by run index) x server-name shape (legal host name, empty, IP literal, trailing dot, long) x one real connection (plain, HelloRetryRequest-forcing, optionally the second connection of a resumption history; in 30% of the worlds preceded by explicit BuildHandshakeStateWithoutSession and/or BuildHandshakeState calls); the hello from the wire is compared with UTLSIdToSpec(id) by the harness's own decoders: legacy_version = min(spec max, TLS 1.2), cipher suites and compression equal (GREASE at the spec's positions), extension type sequence equal (shuffling Chrome parrots: equal multiset with GREASE, padding and pre_shared_key at their spec positions), every extension body equal to the spec's fields, modulo the listed per-connection material; presence rules: server_name absent iff the configured name is not a legal host_name, padding per policy, pre_shared_key absent iff no session is offered and OmitEmptyPsk is set; non-trivial = predefined parrot hello on the wire; distinct = (parrot, extension permutation, server-name shape)",
		Assumptions: []string{"the parrot specs returned by UTLSIdToSpec are the definition of the expected shape (inherent in the property); the mapping from spec extension types to wire extension numbers and the body encodings are harness tables from the RFCs",
			"no schedule is involved (DESIGN 0)"},
		Real: []string{"utls client from /repo", "utls or std server"},
		Stub: []string{"transport, clock, crypto/rand"},
	})
}

func ungrease(v uint16) uint16 {
	if wire.IsGREASE(v) {
		return 0x0a0a
	}
	return v
}

func ungreaseList(vs []uint16) []uint16 {
	out := make([]uint16, len(vs))
	for i, v := range vs {
		out[i] = ungrease(v)
	}
	return out
}

// expectExt describes what one spec extension must look like on the wire.
type expectExt struct {
	typ     uint16 // 0x0a0a: any GREASE type
	skip    bool   // extension legitimately absent for this connection
	perConn bool   // body is per-connection material (not compared)
	check   func(h *wire.ClientHello, e *wire.Extension) error
	name    string
}

func u16s[T ~uint16](xs []T) []uint16 {
	out := make([]uint16, len(xs))
	for i, x := range xs {
		out[i] = uint16(x)
	}
	return out
}

func eq16(what string, got, want []uint16) error {
	if fmt.Sprint(got) != fmt.Sprint(want) {
		return fmt.Errorf("%s: wire %x spec %x", what, got, want)
	}
	return nil
}

func eqBytes(what string, got, want []byte) error {
	if !bytes.Equal(got, want) {
		return fmt.Errorf("%s: wire %x spec %x", what, got, want)
	}
	return nil
}

// expectOf maps a spec extension to its wire expectation (harness table).
func expectOf(x tls.TLSExtension, legalSNI bool, pskOffered bool) (*expectExt, error) {
	switch e := x.(type) {
	case *tls.SNIExtension:
		return &expectExt{typ: 0, skip: !legalSNI, perConn: true, name: "server_name"}, nil
	case *tls.StatusRequestExtension:
		return &expectExt{typ: 5, name: "status_request", check: func(h *wire.ClientHello, w *wire.Extension) error {
			return eqBytes("status_request", w.Data, []byte{1, 0, 0, 0, 0})
		}}, nil
	case *tls.SupportedCurvesExtension:
		return &expectExt{typ: 10, name: "supported_groups", check: func(h *wire.ClientHello, w *wire.Extension) error {
			return eq16("supported_groups", ungreaseList(h.SupportedGroups), ungreaseList(u16s(e.Curves)))
		}}, nil
	case *tls.SupportedPointsExtension:
		return &expectExt{typ: 11, name: "ec_point_formats", check: func(h *wire.ClientHello, w *wire.Extension) error {
			return eqBytes("ec_point_formats", h.ECPointFormats, e.SupportedPoints)
		}}, nil
	case *tls.SignatureAlgorithmsExtension:
		return &expectExt{typ: 13, name: "signature_algorithms", check: func(h *wire.ClientHello, w *wire.Extension) error {
			return eq16("signature_algorithms", h.SigAlgs, u16s(e.SupportedSignatureAlgorithms))
		}}, nil
	case *tls.SignatureAlgorithmsCertExtension:
		return &expectExt{typ: 50, name: "signature_algorithms_cert", check: func(h *wire.ClientHello, w *wire.Extension) error {
			return eq16("signature_algorithms_cert", h.SigAlgsCert, u16s(e.SupportedSignatureAlgorithms))
		}}, nil
	case *tls.ALPNExtension:
		return &expectExt{typ: 16, name: "alpn", check: func(h *wire.ClientHello, w *wire.Extension) error {
			if fmt.Sprint(h.ALPN) != fmt.Sprint(e.AlpnProtocols) {
				return fmt.Errorf("alpn: wire %v spec %v", h.ALPN, e.AlpnProtocols)
			}
			return nil
		}}, nil
	case *tls.ApplicationSettingsExtension:
		return &expectExt{typ: 17513, name: "alps", check: func(h *wire.ClientHello, w *wire.Extension) error {
			if fmt.Sprint(h.ALPS) != fmt.Sprint(e.SupportedProtocols) {
				return fmt.Errorf("application_settings: wire %v spec %v", h.ALPS, e.SupportedProtocols)
			}
			return nil
		}}, nil
	case *tls.ApplicationSettingsExtensionNew:
		return &expectExt{typ: 17613, name: "alps-new", check: func(h *wire.ClientHello, w *wire.Extension) error {
			if fmt.Sprint(h.ALPS) != fmt.Sprint(e.SupportedProtocols) {
				return fmt.Errorf("application_settings(new): wire %v spec %v", h.ALPS, e.SupportedProtocols)
			}
			return nil
		}}, nil
	case *tls.SCTExtension:
		return &expectExt{typ: 18, name: "sct", check: func(h *wire.ClientHello, w *wire.Extension) error { return eqBytes("sct", w.Data, nil) }}, nil
	case *tls.ExtendedMasterSecretExtension:
		return &expectExt{typ: 23, name: "ems", check: func(h *wire.ClientHello, w *wire.Extension) error { return eqBytes("ems", w.Data, nil) }}, nil
	case *tls.GenericExtension:
		return &expectExt{typ: e.Id, name: "generic", check: func(h *wire.ClientHello, w *wire.Extension) error { return eqBytes("generic", w.Data, e.Data) }}, nil
	case *tls.UtlsGREASEExtension:
		return &expectExt{typ: 0x0a0a, name: "grease", check: func(h *wire.ClientHello, w *wire.Extension) error {
			if len(e.Body) > 0 {
				return eqBytes("grease body", w.Data, e.Body)
			}
			// documented GREASE styling (UtlsGREASEExtension.Body): the first GREASE extension is
			// empty, the second carries a single zero byte
			first := true
			for k := range h.Extensions {
				if wire.IsGREASE(h.Extensions[k].Type) {
					if &h.Extensions[k] == w {
						break
					}
					first = false
				}
			}
			if first {
				return eqBytes("first grease body", w.Data, nil)
			}
			return eqBytes("second grease body", w.Data, []byte{0})
		}}, nil
	case *tls.UtlsPaddingExtension:
		return &expectExt{typ: 21, perConn: true, name: "padding"}, nil
	case *tls.UtlsCompressCertExtension:
		return &expectExt{typ: 27, name: "compress_certificate", check: func(h *wire.ClientHello, w *wire.Extension) error {
			return eq16("compress_certificate", h.CertCompression, u16s(e.Algorithms))
		}}, nil
	case *tls.KeyShareExtension:
		return &expectExt{typ: 51, name: "key_share", check: func(h *wire.ClientHello, w *wire.Extension) error {
			var gs, ws []uint16
			for _, k := range e.KeyShares {
				gs = append(gs, ungrease(uint16(k.Group)))
			}
			for _, k := range h.KeyShares {
				ws = append(ws, ungrease(k.Group))
				if wire.IsGREASE(k.Group) {
					for _, sk := range e.KeyShares {
						if ungrease(uint16(sk.Group)) == 0x0a0a && !bytes.Equal(sk.Data, k.Data) {
							return fmt.Errorf("key_share GREASE entry data: wire %x spec %x", k.Data, sk.Data)
						}
					}
				} else if want, ok := shareSize[k.Group]; ok && len(k.Data) != want {
					return fmt.Errorf("key_share group %d: %d bytes", k.Group, len(k.Data))
				}
			}
			return eq16("key_share groups", ws, gs)
		}}, nil
	case *tls.PSKKeyExchangeModesExtension:
		return &expectExt{typ: 45, name: "psk_key_exchange_modes", check: func(h *wire.ClientHello, w *wire.Extension) error {
			return eqBytes("psk_key_exchange_modes", h.PSKModes, e.Modes)
		}}, nil
	case *tls.SupportedVersionsExtension:
		return &expectExt{typ: 43, name: "supported_versions", check: func(h *wire.ClientHello, w *wire.Extension) error {
			return eq16("supported_versions", ungreaseList(h.SupportedVersions), ungreaseList(e.Versions))
		}}, nil
	case *tls.RenegotiationInfoExtension:
		return &expectExt{typ: 0xff01, name: "renegotiation_info", check: func(h *wire.ClientHello, w *wire.Extension) error {
			return eqBytes("renegotiation_info", w.Data, []byte{0})
		}}, nil
	case *tls.FakeChannelIDExtension:
		t := uint16(30032)
		if e.OldExtensionID {
			t = 30031
		}
		return &expectExt{typ: t, name: "channel_id", check: func(h *wire.ClientHello, w *wire.Extension) error { return eqBytes("channel_id", w.Data, nil) }}, nil
	case *tls.FakeRecordSizeLimitExtension:
		return &expectExt{typ: 28, name: "record_size_limit", check: func(h *wire.ClientHello, w *wire.Extension) error {
			if h.RecordSizeLimit != e.Limit {
				return fmt.Errorf("record_size_limit: wire %d spec %d", h.RecordSizeLimit, e.Limit)
			}
			return nil
		}}, nil
	case *tls.FakeTokenBindingExtension:
		return &expectExt{typ: 24, name: "token_binding", check: func(h *wire.ClientHello, w *wire.Extension) error {
			want := append([]byte{e.MajorVersion, e.MinorVersion, byte(len(e.KeyParameters))}, e.KeyParameters...)
			return eqBytes("token_binding", w.Data, want)
		}}, nil
	case *tls.FakeDelegatedCredentialsExtension:
		return &expectExt{typ: 34, name: "delegated_credentials", check: func(h *wire.ClientHello, w *wire.Extension) error {
			return eq16("delegated_credentials", h.DelegatedCredentials, u16s(e.SupportedSignatureAlgorithms))
		}}, nil
	case *tls.NPNExtension:
		return &expectExt{typ: 13172, name: "npn", check: func(h *wire.ClientHello, w *wire.Extension) error { return eqBytes("npn", w.Data, nil) }}, nil
	case *tls.StatusRequestV2Extension:
		return &expectExt{typ: 17, name: "status_request_v2", check: func(h *wire.ClientHello, w *wire.Extension) error {
			return eqBytes("status_request_v2", w.Data, []byte{0, 7, 2, 0, 4, 0, 0, 0, 0})
		}}, nil
	case *tls.SessionTicketExtension:
		return &expectExt{typ: 35, perConn: true, name: "session_ticket"}, nil
	case *tls.GREASEEncryptedClientHelloExtension:
		return &expectExt{typ: 0xfe0d, perConn: true, name: "grease_ech", check: func(h *wire.ClientHello, w *wire.Extension) error {
			if h.ECH == nil {
				return fmt.Errorf("encrypted_client_hello is not of type outer")
			}
			return nil
		}}, nil
	case *tls.UtlsPreSharedKeyExtension, *tls.FakePreSharedKeyExtension:
		return &expectExt{typ: 41, skip: !pskOffered, perConn: true, name: "pre_shared_key"}, nil
	}
	return nil, fmt.Errorf("spec extension of type %T has no harness expectation", x)
}

var shuffling = map[string]bool{}
var shufflingKnown = map[string]bool{}

func isShuffling(idi IDInfo) bool {
	if shufflingKnown[idi.Name] {
		return shuffling[idi.Name]
	}
	first := ""
	for i := 0; i < 12; i++ {
		s, err := tls.UTLSIdToSpec(idi.ID)
		if err != nil {
			break
		}
		var ts string
		for _, e := range s.Extensions {
			ts += fmt.Sprintf("%T,", e)
		}
		if i == 0 {
			first = ts
		} else if ts != first {
			shuffling[idi.Name] = true
		}
	}
	shufflingKnown[idi.Name] = true
	return shuffling[idi.Name]
}

func legalHostName(s string) bool {
	if s == "" {
		return false
	}
	for len(s) > 0 && s[len(s)-1] == '.' {
		s = s[:len(s)-1]
	}
	if s == "" {
		return false
	}
	if s[0] == '[' {
		return false
	}
	// IP literal?
	digitsDots, hasColon := true, false
	for i := 0; i < len(s); i++ {
		if s[i] == ':' {
			hasColon = true
		}
		if !(s[i] >= '0' && s[i] <= '9' || s[i] == '.') {
			digitsDots = false
		}
	}
	return !digitsDots && !hasColon
}

func runC03(c *Ctx) {
	ch := c.Ch
	idi := AllParrots[int(c.Run)%len(AllParrots)]
	shapes := []string{"example.test", "example.test", "", "192.0.2.7", "2001:db8::1", "example.test.", longName(200), "a.b"}
	sn := shapes[ch.Pick(len(shapes), "sn")]
	forceHRR := ch.Bool(25, "hrr")
	history := ch.Bool(25, "history")
	omit := true
	peer := ch.Pick(2, "peer")
	srvMax := []uint16{tls.VersionTLS13, tls.VersionTLS12}[ch.Pick(2, "srvmax")]
	cfgVers := 0
	if ch.Bool(35, "cfg-vers?") {
		cfgVers = 1 + ch.Pick(5, "cfg-vers")
	}
	cfgExtra := ch.Bool(20, "cfg-extra")
	sharedCfg := ch.Bool(20, "shared-cfg")
	randFail := int64(0)
	if ch.Bool(25, "ambient-rand-fault") {
		randFail = int64(1 + ch.Pick(6, "rand-fail-at"))
	}
	w := c.NewWorld(simrt.Config{})
	cache := tls.NewLRUClientSessionCache(8)
	mk := func() *tls.Config {
		cfg := &tls.Config{ServerName: sn, InsecureSkipVerify: true, OmitEmptyPsk: omit}
		if history {
			cfg.ClientSessionCache = cache
		}
		// fields the caller's Config may already carry; a predefined parrot overrides all of them
		switch cfgVers {
		case 1:
			cfg.MinVersion, cfg.MaxVersion = tls.VersionTLS10, tls.VersionTLS11
		case 2:
			cfg.MinVersion, cfg.MaxVersion = tls.VersionTLS10, tls.VersionTLS10
		case 3:
			cfg.MinVersion, cfg.MaxVersion = tls.VersionTLS12, tls.VersionTLS12
		case 4:
			cfg.MinVersion, cfg.MaxVersion = tls.VersionTLS13, tls.VersionTLS13
		case 5:
			cfg.MaxVersion = tls.VersionTLS11
		}
		if cfgExtra {
			cfg.NextProtos = []string{"verif/1"}
			cfg.CipherSuites = []uint16{tls.TLS_ECDHE_ECDSA_WITH_AES_128_GCM_SHA256}
			cfg.CurvePreferences = []tls.CurveID{tls.CurveP521}
		}
		return cfg
	}
	var shared *tls.Config
	if sharedCfg {
		shared = mk()
		// an earlier connection of another fingerprint used the same Config value
		pol := AllParrots[ch.Pick(len(AllParrots), "polluter")]
		RunConn(c, w, &ConnSpec{Name: "polluter", ID: pol.ID, CCfg: shared, Peer: peer,
			SCfg:   &tls.Config{Certificates: []tls.Certificate{Cert("ecdsa").U, Cert("rsa").U}},
			StdCfg: &stdtls.Config{Certificates: []stdtls.Certificate{Cert("ecdsa").S, Cert("rsa").S}, MinVersion: stdtls.VersionTLS10}, Payload: [][]byte{[]byte("p")}})
		c.Fault("shared-config", 1)
	}
	scfg := &tls.Config{Certificates: []tls.Certificate{Cert("ecdsa").U, Cert("rsa").U}, MaxVersion: srvMax}
	stdcfg := &stdtls.Config{Certificates: []stdtls.Certificate{Cert("ecdsa").S, Cert("rsa").S}, MaxVersion: srvMax, MinVersion: stdtls.VersionTLS10}
	if forceHRR {
		scfg.CurvePreferences = []tls.CurveID{tls.CurveP384}
		stdcfg.CurvePreferences = []stdtls.CurveID{stdtls.CurveP384}
	}
	spec, err := tls.UTLSIdToSpec(idi.ID)
	if err != nil {
		c.R.Harness = "UTLSIdToSpec: " + err.Error()
		return
	}
	shuf := isShuffling(idi)
	prebuild := 0
	if ch.Bool(30, "prebuild") {
		prebuild = 1 + ch.Pick(3, "prebuild-kind")
	}
	c.R.Class = fmt.Sprintf("%s sn=%q/%d hrr=%v hist=%v cfg=%d/%v/%v rf=%d prebuild=%d", idi.Name, sn[:min(len(sn), 12)], len(sn), forceHRR, history, cfgVers, cfgExtra, sharedCfg, randFail, prebuild)
	nconn := 1
	if history {
		nconn = 2
	}
	for i := 0; i < nconn && c.R.Violation == nil; i++ {
		ccfg := shared
		if ccfg == nil {
			ccfg = mk()
		}
		sp := &ConnSpec{Name: fmt.Sprintf("c%d", i), ID: idi.ID, CCfg: ccfg, Peer: peer, SCfg: scfg, StdCfg: stdcfg, Payload: [][]byte{[]byte("x")},
			Setup: func(l *simnet.Link) { l.Frag = ch.Bool(30, "frag") }}
		// the documented explicit builds before Handshake (with or without session, once or twice):
		// the hello that goes out is still the spec's
		if pb := prebuild; pb > 0 && randFail == 0 {
			sp.Prep = func(u *tls.UConn) error {
				if pb == 1 || pb == 3 {
					if err := u.BuildHandshakeStateWithoutSession(); err != nil {
						return err
					}
				}
				if pb == 2 || pb == 3 {
					return u.BuildHandshakeState()
				}
				return nil
			}
		}
		if randFail > 0 {
			// the assignable crypto/rand.Reader fails once while the hello is being built: an error
			// is acceptable, a hello that differs from the spec is not
			sp.Prep = func(u *tls.UConn) error {
				f := &simrand.Faulty{Under: crand.Reader, FailAt: randFail}
				old := crand.Reader
				crand.Reader = f
				err := u.BuildHandshakeState()
				crand.Reader = old
				if f.Failed {
					c.Fault("randfail", 1)
				}
				return err
			}
		}
		o := RunConn(c, w, sp)
		obs := ObserveHellos(o.Link)
		if obs.CHErr != nil {
			c.Violate("malformed-clienthello "+idi.Name, "%v", obs.CHErr)
			break
		}
		if len(obs.CH) == 0 {
			if randFail > 0 && o.BuildErr != nil {
				c.Probe("build-error-under-randfail") // an error instead of a hello is the allowed outcome
				break
			}
			c.R.Harness = "no hello on the wire: " + o.Describe()
			break
		}
		c.R.NonTrivial = true
		h := obs.CH[0]
		pskOffered := len(h.PSKIdentities) > 0
		if pskOffered {
			c.Probe("psk-offered")
		}
		fail := func(what string, format string, a ...any) {
			c.Violate("parrot-differs-from-spec "+what+" "+idi.Name, "%s conn %d: "+format, append([]any{c.R.Class, i}, a...)...)
		}
		// legacy version
		specMax := spec.TLSVersMax
		if specMax == 0 {
			specMax = tls.VersionTLS12
			for _, e := range spec.Extensions {
				if sv, ok := e.(*tls.SupportedVersionsExtension); ok {
					for _, v := range sv.Versions {
						if !wire.IsGREASE(v) && v > specMax {
							specMax = v
						}
					}
				}
			}
		}
		wantLegacy := specMax
		if wantLegacy > tls.VersionTLS12 {
			wantLegacy = tls.VersionTLS12
		}
		if h.LegacyVersion != wantLegacy {
			fail("legacy-version", "wire %x want %x", h.LegacyVersion, wantLegacy)
		}
		if err := eq16("cipher suites", ungreaseList(h.CipherSuites), ungreaseList(spec.CipherSuites)); err != nil {
			fail("cipher-suites", "%v", err)
		}
		if !bytes.Equal(h.Compression, spec.CompressionMethods) {
			fail("compression", "wire %x spec %x", h.Compression, spec.CompressionMethods)
		}
		// expectations per spec extension
		var exps []*expectExt
		for _, x := range spec.Extensions {
			e, err := expectOf(x, legalHostName(sn), pskOffered)
			if err != nil {
				c.R.Harness = err.Error()
				return
			}
			exps = append(exps, e)
		}
		// padding presence is C05's rule: take it from the wire
		var wantSeq []uint16
		for _, e := range exps {
			if e.skip {
				continue
			}
			if e.typ == 21 && !h.HasPadding {
				continue
			}
			wantSeq = append(wantSeq, e.typ)
		}
		gotSeq := ungreaseList(h.ExtTypes())
		if len(gotSeq) != len(wantSeq) {
			fail("extension-count", "wire types %v spec types %v", gotSeq, wantSeq)
			break
		}
		if !shuf {
			if fmt.Sprint(gotSeq) != fmt.Sprint(wantSeq) {
				fail("extension-order", "wire %v spec %v", gotSeq, wantSeq)
				break
			}
		} else {
			a := append([]uint16(nil), gotSeq...)
			b := append([]uint16(nil), wantSeq...)
			sort.Slice(a, func(i, j int) bool { return a[i] < a[j] })
			sort.Slice(b, func(i, j int) bool { return b[i] < b[j] })
			if fmt.Sprint(a) != fmt.Sprint(b) {
				fail("extension-multiset", "wire %v spec %v", gotSeq, wantSeq)
				break
			}
			for k := range wantSeq {
				fixed := wantSeq[k] == 0x0a0a || wantSeq[k] == 21 || wantSeq[k] == 41
				if (fixed || gotSeq[k] == 0x0a0a || gotSeq[k] == 21 || gotSeq[k] == 41) && gotSeq[k] != wantSeq[k] {
					fail("shuffle-moved-fixed-extension", "position %d: wire %v spec %v", k, gotSeq, wantSeq)
					break
				}
			}
			c.Probe("shuffled")
		}
		// bodies
		greaseSeen := 0
		for _, e := range exps {
			if e.skip || e.check == nil {
				continue
			}
			var we *wire.Extension
			if e.typ == 0x0a0a {
				n := 0
				for k := range h.Extensions {
					if wire.IsGREASE(h.Extensions[k].Type) {
						if n == greaseSeen {
							we = &h.Extensions[k]
						}
						n++
					}
				}
				greaseSeen++
			} else {
				we, _ = h.Ext(e.typ)
			}
			if we == nil {
				fail("extension-missing", "%s (type %d)", e.name, e.typ)
				continue
			}
			if err := e.check(h, we); err != nil {
				fail("extension-body "+e.name, "%v", err)
			}
		}
		// presence rules
		if h.SNIPresent != (legalHostName(sn) && hasSNIExt(&spec)) {
			fail("sni-presence", "server_name present=%v for configured name %q", h.SNIPresent, sn)
		}
		if i == 0 {
			c.R.Class += fmt.Sprintf(" perm=%v", gotSeq)
		}
	}
	c.Finish(w, true)
	if c.R.Run%300 == 0 {
		c.R.Sample = map[string]any{"parrot": idi.Name, "server_name": sn, "shuffling": shuf, "hrr": forceHRR, "history": history}
	}
}

func hasSNIExt(s *tls.ClientHelloSpec) bool {
	for _, e := range s.Extensions {
		if _, ok := e.(*tls.SNIExtension); ok {
			return true
		}
	}
	return false
}
