package scen

import (
	"context"
	stdtls "crypto/tls"
	"fmt"
	"strings"

	tls "github.com/refraction-networking/utls"
	"github.com/refraction-networking/utls/zz_verif/simrand"
	"github.com/refraction-networking/utls/zz_verif/simrt"
	"github.com/refraction-networking/utls/zz_verif/wire"
)

// C23: QUIC clients complete the handshake through the event API and never hang.

func init() {
	Register("C23", &Info{
		Run:   runC23,
		Quick: 7500, Thor: 1000000,
		Rule: "a world = one generated TLS 1.3-only QUIC ClientHello spec with quic_transport_parameters (drawn suites, groups incl. ones without a share to force HelloRetryRequest, ALPN, GREASE, transport parameters) on a UQUICConn, paired with the repository's or the std library's QUIC server and driven through Start / HandleData / NextEvent by a pump task that delivers CRYPTO data in drawn chunk sizes (40%: out of one receive buffer that is overwritten right after every HandleData call) and serves one event per step from the client or the server in a drawn interleaving (draining, eager: the server's answer is handed to HandleData before NextEvent has reported QUICNoEvent, mixed per step); after a Start that failed, HandleData and SetTransportParameters are called too; 35% of the fault-free worlds are the second connection of a resumption history (a first QUIC connection completes, the server sends a session ticket, the spec ends in pre_shared_key); Start is given a cancelable context or one that can never be cancelled (Background, WithoutCancel); fault-free worlds end with a server session ticket delivered whole, byte by byte or cut 1-4 bytes before its end (HandleData must accept it); faults: context cancelled at a drawn scheduler step, Close at a drawn pump iteration, CRYPTO data at the wrong encryption level at a drawn pump iteration, server-side failure (no common ALPN), unbuildable ClientHello (PSK parrot without session, Config.Rand failing at its n-th read, unsupported curve in a key share); oracle: fault-free worlds complete on both sides; the ClientHello (first Initial-level CRYPTO data) parses under the strict grammar with an empty legacy session id; client events: per level the write secret precedes the read secret, the application read secret comes only after HandshakeDone, peer transport parameters are delivered exactly once and equal what the server set; Start, HandleData and Close return in every world (a world in which a task is blocked forever is the violation); non-trivial = >=1 HandleData (failure stratum: the injected fault fired); distinct = (spec, server, chunking, fault)",
		Assumptions: []string{"the QUIC layer (packet protection, CRYPTO frames, CONNECTION_CLOSE) is the harness's pump: only the TLS-QUIC interface of RFC 9001 is exercised",
			"no compatibility CCS can exist in QUIC (there is no record layer); the clause is covered by checking that only handshake bytes appear in CRYPTO data"},
		Real: []string{"utls UQUICConn / UConn handshake from /repo", "utls QUICServer or std crypto/tls QUICServer"},
		Stub: []string{"QUIC packet layer (harness pump), scheduler, clock, crypto/rand, Config.Rand"},
	})
}

type quicSrv interface {
	Start(ctx context.Context) error
	HandleData(level int, data []byte) error
	Next() (kind int, level int, data []byte)
	Close() error
	Done() bool
	SendTicket() error
	DidResume() bool
}

// event kinds normalised across both implementations
const (
	qNone = iota
	qReadSecret
	qWriteSecret
	qWriteData
	qTransportParams
	qTransportParamsRequired
	qRejectedEarly
	qHandshakeDone
	qResume
	qStore
)

type utlsQSrv struct {
	c    *tls.QUICConn
	done bool
}

func (s *utlsQSrv) Start(ctx context.Context) error { return s.c.Start(ctx) }
func (s *utlsQSrv) HandleData(l int, d []byte) error {
	return s.c.HandleData(tls.QUICEncryptionLevel(l), d)
}
func (s *utlsQSrv) Close() error { return s.c.Close() }
func (s *utlsQSrv) SendTicket() error {
	return s.c.SendSessionTicket(tls.QUICSessionTicketOptions{})
}
func (s *utlsQSrv) DidResume() bool { return s.c.ConnectionState().DidResume }
func (s *utlsQSrv) Done() bool   { return s.done }
func (s *utlsQSrv) Next() (int, int, []byte) {
	e := s.c.NextEvent()
	if e.Kind == tls.QUICHandshakeDone {
		s.done = true
	}
	return int(e.Kind), int(e.Level), append([]byte(nil), e.Data...)
}

type stdQSrv struct {
	c    *stdtls.QUICConn
	done bool
}

func (s *stdQSrv) Start(ctx context.Context) error { return s.c.Start(ctx) }
func (s *stdQSrv) HandleData(l int, d []byte) error {
	return s.c.HandleData(stdtls.QUICEncryptionLevel(l), d)
}
func (s *stdQSrv) Close() error { return s.c.Close() }
func (s *stdQSrv) SendTicket() error {
	return s.c.SendSessionTicket(stdtls.QUICSessionTicketOptions{})
}
func (s *stdQSrv) DidResume() bool { return s.c.ConnectionState().DidResume }
func (s *stdQSrv) Done() bool   { return s.done }
func (s *stdQSrv) Next() (int, int, []byte) {
	e := s.c.NextEvent()
	if e.Kind == stdtls.QUICHandshakeDone {
		s.done = true
	}
	k := int(e.Kind)
	// std (go1.26) has additional kinds after QUICStoreSession; anything above is ignored
	return k, int(e.Level), append([]byte(nil), e.Data...)
}

// quicSpecWithPSK: the generated specs end in a pre_shared_key extension (set per world, before the
// factory is used; one world at a time per process).
var quicSpecWithPSK bool

func genQUICSpec(ch *simrt.Chooser, tp []byte) (func() *tls.ClientHelloSpec, string) {
	s13 := [][]uint16{{0x1301, 0x1302, 0x1303}, {0x1303, 0x1301}, {0x1302}, {0x1301}}[ch.Pick(4, "suites")]
	grease := ch.Bool(50, "grease")
	groupSets := [][]tls.CurveID{{tls.X25519, tls.CurveP256, tls.CurveP384}, {tls.CurveP256, tls.X25519}, {tls.X25519MLKEM768, tls.X25519, tls.CurveP256}, {tls.CurveP384, tls.CurveP256, tls.X25519}}
	groups := groupSets[ch.Pick(len(groupSets), "groups")]
	nshare := ch.Range(1, 2, "nshare")
	alpn := [][]string{{"h3"}, {"h3", "h3-29"}, {"hq-interop"}}[ch.Pick(3, "alpn")]
	withGTP := ch.Bool(40, "grease-tp")
	desc := fmt.Sprintf("suites=%x groups=%v shares=%d alpn=%v grease=%v gtp=%v", s13, groups, nshare, alpn, grease, withGTP)
	return func() *tls.ClientHelloSpec {
		cs := append([]uint16(nil), s13...)
		curves := append([]tls.CurveID(nil), groups...)
		var ks []tls.KeyShare
		if grease {
			cs = append([]uint16{tls.GREASE_PLACEHOLDER}, cs...)
			curves = append([]tls.CurveID{tls.CurveID(tls.GREASE_PLACEHOLDER)}, curves...)
			ks = append(ks, tls.KeyShare{Group: tls.CurveID(tls.GREASE_PLACEHOLDER), Data: []byte{0}})
		}
		for i := 0; i < nshare && i < len(groups); i++ {
			ks = append(ks, tls.KeyShare{Group: groups[i]})
		}
		tps := tls.TransportParameters{tls.InitialMaxData(1 << 20), tls.MaxIdleTimeout(30000), &tls.FakeQUICTransportParameter{Id: 0x0f, Val: tp}}
		if withGTP {
			tps = append(tps, &tls.GREASETransportParameter{Length: 4})
		}
		exts := []tls.TLSExtension{&tls.SNIExtension{}, &tls.SupportedCurvesExtension{Curves: curves},
			&tls.SignatureAlgorithmsExtension{SupportedSignatureAlgorithms: []tls.SignatureScheme{tls.ECDSAWithP256AndSHA256, tls.PSSWithSHA256, tls.PKCS1WithSHA256, tls.PSSWithSHA384, tls.Ed25519}},
			&tls.ALPNExtension{AlpnProtocols: alpn}, &tls.KeyShareExtension{KeyShares: ks}, &tls.PSKKeyExchangeModesExtension{Modes: []uint8{tls.PskModeDHE}},
			&tls.SupportedVersionsExtension{Versions: []uint16{tls.VersionTLS13}}, &tls.QUICTransportParametersExtension{TransportParameters: tps}}
		if grease {
			exts = append([]tls.TLSExtension{&tls.UtlsGREASEExtension{}}, exts...)
		}
		if quicSpecWithPSK {
			exts = append(exts, &tls.UtlsPreSharedKeyExtension{})
		}
		return &tls.ClientHelloSpec{CipherSuites: cs, CompressionMethods: []byte{0}, Extensions: exts, TLSVersMin: tls.VersionTLS13, TLSVersMax: tls.VersionTLS13}
	}, desc
}

func runC23(c *Ctx) {
	ch := c.Ch
	var scid [8]byte
	ch.Bytes(scid[:], "scid")
	quicSpecWithPSK = false
	newSpec, desc := genQUICSpec(ch, scid[:])
	peer := ch.Pick(2, "peer")
	fault := []string{"none", "none", "none", "cancel", "close", "server-fail", "unbuildable-psk", "unbuildable-rand", "unbuildable-curve", "wrong-level-data"}[ch.Pick(10, "fault")]
	wrongLevelAt := ch.Range(0, 6, "wrong-level-at")
	wrongLevel := []tls.QUICEncryptionLevel{tls.QUICEncryptionLevelHandshake, tls.QUICEncryptionLevelApplication, tls.QUICEncryptionLevelInitial, tls.QUICEncryptionLevelEarly}[ch.Pick(4, "wrong-level")]
	// fault-free worlds: after the handshake the server issues a session ticket (a post-handshake
	// message) which reaches the client whole, byte by byte, or cut 1-4 bytes before its end
	ticketCut := ch.Pick(7, "ticket-cut")
	resume := fault == "none" && ch.Bool(35, "quic-resume")
	cancelAt := ch.Range(0, 400, "cancel-step")
	// (the context is cancelled by a second task at a drawn scheduler step - with few scheduler steps
	// in a world that is mostly "as soon as the pump idles" - or by the pump itself before a drawn
	// iteration, i.e. between two calls into the connection)
	cancelIter := -1
	if ch.Bool(60, "cancel-in-pump") {
		cancelIter = ch.Range(0, 14, "cancel-iter")
	}
	quicSpecWithPSK = resume
	closeAt := ch.Range(0, 30, "close-iter")
	pumpMode := ch.Pick(3, "pump-mode")
	pumpOrder := ch.U64("pump-order")
	afterFailedStart := ch.Pick(4, "after-failed-start")
	chunk := []int{0, 1, 7, 100, 1000}[ch.Pick(5, "chunk")]
	recycle := ch.Bool(40, "recycled-receive-buffer")
	var rbuf [2048]byte
	ctxKind := ch.Pick(3, "ctx-kind")
	forceHRR := ch.Bool(30, "hrr") && strings.Contains(desc, "CurveP384") && !strings.Contains(desc, "groups=[CurveP384")
	serverTP := []byte("server-transport-params-" + fmt.Sprint(ch.Pick(1000, "stp")))
	// (no scheduling points at lock operations here: the QUIC API has a single caller by contract, and
	// the library's own handshake goroutine shares the caller's task identity - lock-level yields of
	// the two would be ordered by real time)
	w := c.NewWorld(simrt.Config{PreemptPct: 10 + 20*ch.Pick(3, "preempt")})
	ResetStamp()
	c.R.Class = fmt.Sprintf("%s peer=%s fault=%s chunk=%d hrr=%v pump=%d ctx=%d resume=%v", desc, peerName(peer), fault, chunk, forceHRR, pumpMode, ctxKind, resume)

	salpn := []string{"h3", "hq-interop", "h3-29"}
	if fault == "server-fail" {
		salpn = []string{"nothing-in-common"}
	}
	scfg := &tls.Config{Certificates: []tls.Certificate{Cert("ecdsa").U}, NextProtos: salpn, MinVersion: tls.VersionTLS13}
	stdcfg := &stdtls.Config{Certificates: []stdtls.Certificate{Cert("ecdsa").S}, NextProtos: salpn, MinVersion: stdtls.VersionTLS13}
	if forceHRR {
		scfg.CurvePreferences = []tls.CurveID{tls.CurveP384}
		stdcfg.CurvePreferences = []stdtls.CurveID{stdtls.CurveP384}
	}
	ccfg := &tls.Config{ServerName: "example.test", RootCAs: Roots(), MinVersion: tls.VersionTLS13, NextProtos: nil}
	id := tls.HelloCustom
	var rs *simrand.Stream
	switch fault {
	case "unbuildable-psk":
		id = tls.HelloChrome_112_PSK_Shuf // a PSK parrot without a session and without OmitEmptyPsk cannot be built
	case "unbuildable-rand":
		rs = simrand.NewStream(ch.U64("cfg-rand"))
		rs.FailAt = int64(ch.Range(1, 3, "randfail-at"))
		ccfg.Rand = rs
	}
	newSrv := func() quicSrv {
		if peer == PeerStd {
			q := stdtls.QUICServer(&stdtls.QUICConfig{TLSConfig: stdcfg})
			q.SetTransportParameters(serverTP)
			return &stdQSrv{c: q}
		}
		q := tls.QUICServer(&tls.QUICConfig{TLSConfig: scfg})
		q.SetTransportParameters(serverTP)
		return &utlsQSrv{c: q}
	}
	srv := newSrv()
	// resumption history: a first QUIC connection (same spec, same servers) completes, the server
	// sends a session ticket, the client stores it in its ClientSessionCache; the connection under
	// test then offers it (the spec ends in a pre_shared_key extension)
	if resume {
		ccfg.ClientSessionCache = tls.NewLRUClientSessionCache(4)
		ccfg.OmitEmptyPsk = true
	}
	prelimOK := false
	var ticketErr error
	ticketDelivered, wrongLevelReturned := false, false
	prelim := func() {
		s0 := newSrv()
		c0 := tls.UQUICClient(&tls.QUICConfig{TLSConfig: ccfg}, tls.HelloCustom)
		if err := c0.ApplyPreset(newSpec()); err != nil {
			return
		}
		c0.SetTransportParameters(scid[:])
		if c0.Start(context.Background()) != nil || s0.Start(context.Background()) != nil {
			c0.Close()
			s0.Close()
			return
		}
		cdone := false
		pumpBoth := func() {
			for it := 0; it < 400; it++ {
				did := false
				for {
					e := c0.NextEvent()
					if e.Kind == tls.QUICNoEvent {
						break
					}
					did = true
					if e.Kind == tls.QUICWriteData {
						s0.HandleData(int(e.Level), append([]byte(nil), e.Data...))
					}
					if e.Kind == tls.QUICHandshakeDone {
						cdone = true
					}
				}
				for {
					k, lvl, d := s0.Next()
					if k == qNone {
						break
					}
					did = true
					if k == qWriteData {
						c0.HandleData(tls.QUICEncryptionLevel(lvl), d)
					}
				}
				if !did {
					break
				}
			}
		}
		pumpBoth()
		if cdone && s0.Done() && s0.SendTicket() == nil {
			pumpBoth()
			prelimOK = true
		}
		c0.Close()
		s0.Close()
	}
	// the context Start is given: cancelable, or one that can never be cancelled (Done() == nil:
	// Background, TODO, WithoutCancel) - Close must end the handshake in both cases
	ctx, cancel := context.WithCancel(context.Background())
	defer cancel()
	if fault != "cancel" {
		switch ctxKind {
		case 1:
			ctx = context.Background()
		case 2:
			ctx = context.WithoutCancel(ctx)
		}
	}

	type evt struct {
		kind, level int
		data        []byte
	}
	var cevents []evt
	var startErr, applyErr, hdErr, closeErr error
	var startReturned, closeReturned bool
	handleCalls := 0
	var firstFlight, serverFirst []byte
	clientDone := false
	clientResumed := false
	srvFailed := false
	pump := w.Go("pump", func() {
		if resume {
			prelim()
		}
		cq := tls.UQUICClient(&tls.QUICConfig{TLSConfig: ccfg}, id)
		if id == tls.HelloCustom {
			sp := newSpec()
			if fault == "unbuildable-curve" {
				for _, e := range sp.Extensions {
					if k, ok := e.(*tls.KeyShareExtension); ok {
						k.KeyShares = append(k.KeyShares, tls.KeyShare{Group: tls.CurveID(0x0102)}) // no such curve, no key given
					}
				}
			}
			if applyErr = cq.ApplyPreset(sp); applyErr != nil {
				return
			}
		}
		cq.SetTransportParameters(scid[:])
		startErr = cq.Start(ctx)
		startReturned = true
		if startErr != nil {
			// the other entry points must return too on a connection whose handshake never started
			if afterFailedStart&1 != 0 {
				hdErr = cq.HandleData(tls.QUICEncryptionLevelInitial, []byte{2, 0, 0, 1, 0})
				c.Probe("handledata-after-failed-start")
			}
			if afterFailedStart&2 != 0 {
				cq.SetTransportParameters(scid[:])
				c.Probe("settransportparameters-after-failed-start")
			}
			closeErr = cq.Close()
			closeReturned = true
			return
		}
		if err := srv.Start(context.Background()); err != nil {
			srvFailed = true
		}
		defer srv.Close()
		deliver := func(to0 func(int, []byte) error, level int, data []byte) error {
			to := to0
			if recycle {
				// a receive buffer that is reused: the piece is copied into it for the call and the
				// buffer is overwritten as soon as HandleData has returned
				to = func(l int, b []byte) error {
					for {
						n := copy(rbuf[:], b)
						err := to0(l, rbuf[:n])
						for i := range rbuf[:n] {
							rbuf[i] = 0xa5
						}
						if b = b[n:]; err != nil || len(b) == 0 {
							return err
						}
					}
				}
			}
			if chunk == 0 || len(data) <= chunk {
				return to(level, data)
			}
			for len(data) > 0 {
				n := chunk
				if n > len(data) {
					n = len(data)
				}
				if err := to(level, data[:n]); err != nil {
					return err
				}
				data = data[n:]
			}
			return nil
		}
		// the event pump: one event per step, from the client or from the server; which side is served
		// first when both have something pending is the interleaving under test (draining: the client's
		// events first; eager: the server's answer is fed back before the client's NextEvent has
		// reported QUICNoEvent; mixed: drawn per step)
		stepClient := func() bool {
			e := cq.NextEvent()
			if e.Kind == tls.QUICNoEvent {
				return false
			}
			d := append([]byte(nil), e.Data...)
			cevents = append(cevents, evt{int(e.Kind), int(e.Level), d})
			switch e.Kind {
			case tls.QUICWriteData:
				if e.Level == tls.QUICEncryptionLevelInitial {
					firstFlight = append(firstFlight, d...)
				}
				if !srvFailed {
					if err := deliver(srv.HandleData, int(e.Level), d); err != nil {
						srvFailed = true
					}
				}
			case tls.QUICHandshakeDone:
				clientDone = true
				clientResumed = cq.ConnectionState().DidResume
			}
			return true
		}
		stepServer := func() bool {
			if srvFailed {
				return false
			}
			k, lvl, d := srv.Next()
			if k == qNone {
				return false
			}
			if k == qWriteData {
				if lvl == 0 {
					serverFirst = append(serverFirst, d...)
				}
				handleCalls++
				hdErr = deliver(func(l int, b []byte) error { return cq.HandleData(tls.QUICEncryptionLevel(l), b) }, lvl, d)
			}
			return true
		}
		idle := 0
		for iter := 0; iter < 800 && hdErr == nil; iter++ {
			if fault == "cancel" && iter == cancelIter {
				cancel()
				c.Fault("cancel", 1)
				simrt.Yield() // the handshake goroutine reacts in its own time: let it finish before the next call
			}
			if fault == "wrong-level-data" && iter == wrongLevelAt {
				// CRYPTO data at a level the handshake is not reading at (a peer can send that at any
				// moment): the call must return - with an error, and every later call too
				wlErr := cq.HandleData(wrongLevel, []byte{11, 0, 0, 3, 0, 0, 0})
				wrongLevelReturned = true
				c.Fault("wrong-level-data", 1)
				if wlErr != nil {
					break
				}
			}
			if fault == "close" && iter == closeAt {
				closeErr = cq.Close()
				closeReturned = true
				c.Fault("close", 1)
				return
			}
			clientFirst := pumpMode == 0 || (pumpMode == 2 && pumpOrder>>(uint(iter)%64)&1 == 0)
			var did bool
			if clientFirst {
				did = stepClient() || stepServer()
			} else {
				did = stepServer() || stepClient()
			}
			if did {
				idle = 0
				continue
			}
			idle++
			if idle >= 2 {
				break
			}
			simrt.Yield()
		}
		if fault == "none" && clientDone && srv.Done() && hdErr == nil && ticketCut > 0 && srv.SendTicket() == nil {
			for {
				k, lvl, d := srv.Next()
				if k == qNone {
					break
				}
				if k != qWriteData {
					continue
				}
				var pieces [][]byte
				switch {
				case ticketCut <= 4 && len(d) > ticketCut:
					pieces = [][]byte{d[:len(d)-ticketCut], d[len(d)-ticketCut:]}
				case ticketCut == 5:
					for i := range d {
						pieces = append(pieces, d[i:i+1])
					}
				default:
					pieces = [][]byte{d}
				}
				for _, pc := range pieces {
					if err := cq.HandleData(tls.QUICEncryptionLevel(lvl), append([]byte(nil), pc...)); err != nil {
						ticketErr = err
						break
					}
				}
				ticketDelivered = true
			}
			for cq.NextEvent().Kind != tls.QUICNoEvent {
			}
		}
		closeErr = cq.Close()
		closeReturned = true
		srv.Close()
	})
	if fault == "cancel" && cancelIter < 0 {
		w.Go("canceller", func() {
			simrt.WaitSteps(cancelAt)
			cancel()
			c.Fault("cancel", 1)
		})
	}
	w.RunUntil(pump)
	w.Run()
	w.Join()
	c.Finish(w, true)
	if rs != nil && rs.Failed {
		c.Fault("randfail", 1)
	}
	_ = closeErr
	if c.R.Violation != nil {
		// a deadlocked world: name the call that never returned
		if strings.HasPrefix(c.R.Violation.Class, "deadlock") {
			what := "HandleData-or-pump"
			if !startReturned && applyErr == nil {
				what = "Start"
			} else if fault == "close" && !closeReturned {
				what = "Close"
			} else if fault == "wrong-level-data" && !wrongLevelReturned {
				what = "HandleData(wrong level)"
			}
			c.R.Violation.Class = fmt.Sprintf("quic-call-never-returned call=%s fault=%s", what, fault)
		}
		return
	}
	c.R.NonTrivial = handleCalls > 0 || fault != "none"
	if applyErr != nil {
		if fault == "unbuildable-curve" || fault == "unbuildable-rand" {
			c.Probe("apply-preset-refused")
			return
		}
		c.Violate("apply-preset-error", "%s: %v", c.R.Class, applyErr)
		return
	}
	if strings.HasPrefix(fault, "unbuildable") {
		if startErr == nil && clientDone {
			if fault != "unbuildable-rand" || (rs != nil && rs.Failed) {
				c.Violate("unbuildable-hello-completed", "%s: handshake completed although the ClientHello could not be built", c.R.Class)
			}
		}
		c.Probe("unbuildable-returned")
		return
	}
	// the ClientHello
	if len(firstFlight) >= 4 {
		n := int(firstFlight[1])<<16 | int(firstFlight[2])<<8 | int(firstFlight[3])
		if len(firstFlight) >= 4+n {
			h, err := wire.ParseClientHello(firstFlight[:4+n])
			if err != nil {
				c.Violate("malformed-quic-clienthello", "%s: %v", c.R.Class, err)
				return
			}
			if len(h.SessionID) != 0 {
				c.Violate("quic-hello-has-session-id", "%s: legacy session id %x", c.R.Class, h.SessionID)
			}
			if h.QUICTransportParams == nil {
				c.Violate("quic-hello-without-transport-parameters", "%s", c.R.Class)
			}
			if rest := firstFlight[4+n:]; len(rest) > 0 && rest[0] != 1 {
				c.Violate("non-handshake-bytes-in-initial-crypto-data", "%s: %x", c.R.Class, rest[:1])
			}
		}
	}
	if fault == "none" {
		if !clientDone || !srv.Done() || hdErr != nil || startErr != nil {
			hrr := forceHRR
			_ = hrr
			c.Violate(fmt.Sprintf("quic-handshake-did-not-complete sel=%s %v", quicSel(firstFlight, serverFirst), firstErr(startErr, hdErr)), "%s: clientDone=%v serverDone=%v start=%v handle=%v srvFailed=%v", c.R.Class, clientDone, srv.Done(), startErr, hdErr, srvFailed)
			return
		}
	}
	if ticketDelivered {
		c.Probe(fmt.Sprintf("post-handshake-ticket-cut=%d", ticketCut))
		if ticketErr != nil {
			c.Violate("quic-post-handshake-ticket-refused", "%s: HandleData returned %v for an honest NewSessionTicket delivered with cut=%d", c.R.Class, ticketErr, ticketCut)
			return
		}
	}
	if resume && prelimOK {
		c.Probe("quic-second-connection-with-cached-session")
		if len(firstFlight) >= 4 {
			if h, err := wire.ParseClientHello(firstFlight[:4+(int(firstFlight[1])<<16|int(firstFlight[2])<<8|int(firstFlight[3]))]); err == nil && len(h.PSKIdentities) > 0 {
				c.Probe("quic-psk-offered")
				if clientResumed && srv.DidResume() {
					c.Probe("quic-resumed")
				} else if clientResumed != srv.DidResume() {
					c.Violate("quic-did-resume-disagreement", "%s: client %v server %v", c.R.Class, clientResumed, srv.DidResume())
				}
			}
		}
	}
	// event order on the client
	seenWrite := map[int]bool{}
	tpCount := 0
	doneIdx, appReadIdx := -1, -1
	for i, e := range cevents {
		switch e.kind {
		case int(tls.QUICSetWriteSecret):
			seenWrite[e.level] = true
		case int(tls.QUICSetReadSecret):
			if !seenWrite[e.level] {
				c.Violate("quic-read-secret-before-write-secret", "%s: level %d", c.R.Class, e.level)
			}
			if e.level == int(tls.QUICEncryptionLevelApplication) {
				appReadIdx = i
			}
		case int(tls.QUICTransportParameters):
			tpCount++
			if string(e.data) != string(serverTP) {
				c.Violate("quic-peer-transport-parameters-altered", "%s: got %q", c.R.Class, e.data)
			}
		case int(tls.QUICHandshakeDone):
			doneIdx = i
		}
	}
	if appReadIdx >= 0 && (doneIdx < 0 || appReadIdx < doneIdx) {
		c.Violate("quic-1rtt-read-secret-before-handshake-done", "%s: read secret at event %d, HandshakeDone at %d", c.R.Class, appReadIdx, doneIdx)
	}
	if clientDone && tpCount != 1 {
		c.Violate("quic-peer-transport-parameters-count", "%s: delivered %d times", c.R.Class, tpCount)
	}
	if c.R.Run%300 == 0 {
		c.R.Sample = map[string]any{"spec": desc, "peer": peerName(peer), "fault": fault, "chunk": chunk, "hrr": forceHRR, "client_events": len(cevents)}
	}
}

func firstErr(es ...error) string {
	for _, e := range es {
		if e != nil {
			return firstLine(e.Error())
		}
	}
	return "no-error"
}

// quicSel classifies the server's key-exchange choice relative to the ClientHello's shares
// (both taken from the CRYPTO data), with the same vocabulary as C10.
func quicSel(chFlight, shFlight []byte) string {
	msg := func(b []byte) []byte {
		if len(b) < 4 {
			return nil
		}
		n := int(b[1])<<16 | int(b[2])<<8 | int(b[3])
		if len(b) < 4+n {
			return nil
		}
		return b[:4+n]
	}
	hm, sm := msg(chFlight), msg(shFlight)
	if hm == nil || sm == nil {
		return "none"
	}
	h, err := wire.ParseClientHello(hm)
	if err != nil {
		return "none"
	}
	sh, err := wire.ParseServerHello(sm)
	if err != nil {
		return "none"
	}
	r := &NegResult{Offer: OfferOf(h, 0), Obs: &HelloObs{SH: []*wire.ServerHello{sh}}}
	return selClass(r)
}
