package scen

import (
	"fmt"
	"sort"
	"strings"

	tls "github.com/refraction-networking/utls"
	"github.com/refraction-networking/utls/zz_verif/simnet"
	"github.com/refraction-networking/utls/zz_verif/simrt"
	"github.com/refraction-networking/utls/zz_verif/wire"
)

// HelloObs is what the independent reassembler recovers from a link's wire tap.
type HelloObs struct {
	CH      []*wire.ClientHello // client hellos in order (2 after a HelloRetryRequest)
	CHErr   error               // first grammar violation among the client hellos
	CHRaw   [][]byte
	SH      []*wire.ServerHello // ServerHello / HelloRetryRequest messages in order
	SHErr   error
	CRecs   []wire.Record
	SRecs   []wire.Record
	CCSFromClient bool
	FirstRecordPayload []byte
}

// ObserveHellos parses both directions of the tap.
func ObserveHellos(l *simnet.Link) *HelloObs {
	o := &HelloObs{}
	crecs, _, err := wire.ParseRecords(l.AB.Sent)
	if err != nil {
		o.CHErr = fmt.Errorf("client record stream: %w", err)
	}
	o.CRecs = crecs
	if len(crecs) > 0 {
		o.FirstRecordPayload = crecs[0].Payload
	}
	for _, r := range crecs {
		if r.Type == 20 {
			o.CCSFromClient = true
		}
	}
	msgs, _, herr := wire.PlaintextHandshake(crecs)
	if herr != nil && o.CHErr == nil && len(msgs) == 0 {
		o.CHErr = fmt.Errorf("client handshake stream: %w", herr)
	}
	for _, m := range msgs {
		if m.Type != 1 {
			break // TLS 1.2 client flight continues in plaintext; stop at the first non-hello
		}
		o.CHRaw = append(o.CHRaw, m.Raw)
		ch, err := wire.ParseClientHello(m.Raw)
		if err != nil {
			if o.CHErr == nil {
				o.CHErr = fmt.Errorf("ClientHello #%d: %w", len(o.CHRaw), err)
			}
			continue
		}
		o.CH = append(o.CH, ch)
	}
	srecs, _, err := wire.ParseRecords(l.BA.Sent)
	if err != nil {
		o.SHErr = err
	}
	o.SRecs = srecs
	smsgs, _, _ := wire.PlaintextHandshake(srecs)
	for _, m := range smsgs {
		if m.Type != 2 {
			continue
		}
		sh, err := wire.ParseServerHello(m.Raw)
		if err != nil {
			if o.SHErr == nil {
				o.SHErr = err
			}
			continue
		}
		o.SH = append(o.SH, sh)
	}
	return o
}

// Offer is the negotiation-relevant content of an on-wire ClientHello.
type Offer struct {
	Versions []uint16 // offered versions, highest first
	Suites   []uint16 // without GREASE
	Groups   []uint16 // without GREASE
	Shares   []uint16 // groups with a key share, without GREASE
	SigAlgs  []uint16
	ALPN     []string
	HasEMS   bool
	HasTicket bool
	HasPSK   bool
}

func OfferOf(ch *wire.ClientHello, specMin uint16) *Offer {
	o := &Offer{}
	if len(ch.SupportedVersions) > 0 {
		for _, v := range ch.SupportedVersions {
			if !wire.IsGREASE(v) {
				o.Versions = append(o.Versions, v)
			}
		}
	} else {
		min := specMin
		if min == 0 {
			min = 0x0301
		}
		for v := ch.LegacyVersion; v >= min && v >= 0x0301; v-- {
			o.Versions = append(o.Versions, v)
		}
	}
	sort.Slice(o.Versions, func(i, j int) bool { return o.Versions[i] > o.Versions[j] })
	for _, s := range ch.CipherSuites {
		if !wire.IsGREASE(s) {
			o.Suites = append(o.Suites, s)
		}
	}
	for _, g := range ch.SupportedGroups {
		if !wire.IsGREASE(g) {
			o.Groups = append(o.Groups, g)
		}
	}
	for _, k := range ch.KeyShares {
		if !wire.IsGREASE(k.Group) {
			o.Shares = append(o.Shares, k.Group)
		}
	}
	o.SigAlgs = ch.SigAlgs
	o.ALPN = ch.ALPN
	_, o.HasEMS = ch.Ext(23)
	o.HasTicket = ch.HasSessionTicket
	o.HasPSK = len(ch.PSKIdentities) > 0
	return o
}

func has16(xs []uint16, v uint16) bool {
	for _, x := range xs {
		if x == v {
			return true
		}
	}
	return false
}

func hasStr(xs []string, v string) bool {
	for _, x := range xs {
		if x == v {
			return true
		}
	}
	return false
}

// isPSKParrot: parrots whose spec carries a pre_shared_key extension; without a cached
// session they need OmitEmptyPsk (documented) to be usable at all.
func isPSKParrot(name string) bool { return strings.Contains(name, "PSK") }

// PickID draws a fingerprint: predefined parrot, randomized family (seeded from the
// chooser) or HelloGolang. stratum >= 0 forces parrot index stratum % len(AllParrots).
func PickID(ch *simrt.Chooser, stratum int64, allowGolang bool) IDInfo {
	if stratum >= 0 {
		return AllParrots[int(stratum)%len(AllParrots)]
	}
	k := ch.Pick(10, "id-family")
	switch {
	case k < 6:
		return AllParrots[ch.Pick(len(AllParrots), "parrot")]
	case k < 9 || !allowGolang:
		id, _ := RandomizedID(ch)
		return id
	default:
		return IDInfo{"Golang", tls.HelloGolang}
	}
}

// Known cipher suites: TLS 1.3 suites and whether a suite id needs TLS 1.2.
func isTLS13Suite(s uint16) bool { return s == 0x1301 || s == 0x1302 || s == 0x1303 }

// ImplementedGroups is the set of key-exchange groups utls documents as implemented
// (exported CurveID constants), used by the negotiation oracle.
var ImplementedGroups = map[uint16]string{23: "P-256", 24: "P-384", 25: "P-521", 29: "X25519", 4588: "X25519MLKEM768", 0x6399: "X25519Kyber768Draft00"}

// StdGroups is what the Go standard library server (go1.26) can negotiate.
var StdGroups = map[uint16]bool{23: true, 24: true, 25: true, 29: true, 4588: true}

// Reserialize encodes a ClientHello from its parsed parts with edit(exts) applied to the
// extension list (harness encoder, used to vary captured hellos before fingerprinting).
func Reserialize(ch *wire.ClientHello, edit func([]wire.Extension) []wire.Extension) []byte {
	exts := append([]wire.Extension(nil), ch.Extensions...)
	if edit != nil {
		exts = edit(exts)
	}
	var body []byte
	body = append(body, byte(ch.LegacyVersion>>8), byte(ch.LegacyVersion))
	body = append(body, ch.Random...)
	body = append(body, byte(len(ch.SessionID)))
	body = append(body, ch.SessionID...)
	body = append(body, byte(len(ch.CipherSuites)*2>>8), byte(len(ch.CipherSuites)*2))
	for _, s := range ch.CipherSuites {
		body = append(body, byte(s>>8), byte(s))
	}
	body = append(body, byte(len(ch.Compression)))
	body = append(body, ch.Compression...)
	if ch.HasExtensions {
		var eb []byte
		for _, e := range exts {
			eb = append(eb, byte(e.Type>>8), byte(e.Type), byte(len(e.Data)>>8), byte(len(e.Data)))
			eb = append(eb, e.Data...)
		}
		body = append(body, byte(len(eb)>>8), byte(len(eb)))
		body = append(body, eb...)
	}
	msg := []byte{1, byte(len(body) >> 16), byte(len(body) >> 8), byte(len(body))}
	return append(msg, body...)
}

// AsRecord wraps a handshake message in one TLS record (as Fingerprinter expects).
func AsRecord(msg []byte) []byte {
	return append([]byte{22, 3, 1, byte(len(msg) >> 8), byte(len(msg))}, msg...)
}
