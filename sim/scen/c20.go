package scen

import (
	"bytes"
	"crypto/hkdf"
	"crypto/sha256"
	"crypto/sha512"
	"fmt"
	"hash"
	"runtime"

	tls "github.com/refraction-networking/utls"
	"github.com/refraction-networking/utls/zz_verif/simrt"
)

// C20: injected sessions are used exactly as given, under any legal call order.

func init() {
	Register("C20", &Info{
		Run:   runC20,
		Quick: 8000, Thor: 1200000,
		Rule: "a world = a seed connection that obtains a genuine TLS 1.2 or TLS 1.3 session from the repository server (captured through a recording ClientSessionCache), then a second UConn (parrots with and without session_ticket / pre_shared_key extensions) on which a sequence of 0-5 session-API calls drawn from {SetClientRandom and SetSNI (documented edits of a built hello), SetSessionCache, BuildHandshakeStateWithoutSession, SetSessionTicketExtension (session of the seed connection, or in a quarter of the worlds the documented sessionless 'fake ticket'), SetSessionState (the seed's, one forged with MakeClientSessionState, or nil), the UConn's cache empty or already holding the seed session, SetPskExtension (extension initialised by the harness from the seed's resumption state with an independently derived early secret and binder key), BuildHandshakeState} is applied in order, followed by Handshake; all sequences of length <= 3 over the eight operations are enumerated by run index (585 of every 800 runs), longer ones are drawn; a small reference model of the documented protocol classifies each sequence as allowed / forbidden / unspecified; oracle: allowed => no panic, Handshake completes, the injected ticket / PSK identity appears on the wire byte for byte and the server resumes; forbidden (setter without a cache, setter after BuildHandshakeState, setter for an extension the spec lacks) => an error or a panic carrying a message, never a runtime error; unspecified => only 'no runtime-error panic'; non-trivial = the sequence contains a setter; distinct = (parrot, version, sequence)",
		Assumptions: []string{"the reference model is my reading of the doc comments on UConn.BuildHandshakeState, BuildHandshakeStateWithoutSession, SetSessionTicketExtension, SetPskExtension, SetSessionState and Config.PreferSkipResumptionOnNilExtension; it is deliberately narrow about what it calls 'allowed': cache set first, at most one setter, setter before any BuildHandshakeState (BuildHandshakeStateWithoutSession may precede it)",
			"TLS 1.3 early secret and binder key for the injected PSK are derived by the harness (RFC 8446 section 7.1) from ClientSessionState.MasterSecret()"},
		Real: []string{"utls client session controller and handshake from /repo", "utls server (real tickets)"},
		Stub: []string{"transport, clock, crypto/rand"},
	})
}

type recCache struct {
	m    map[string]*tls.ClientSessionState
	last *tls.ClientSessionState
}

func (r *recCache) Get(k string) (*tls.ClientSessionState, bool) { s, ok := r.m[k]; return s, ok }
func (r *recCache) Put(k string, s *tls.ClientSessionState) {
	if s == nil {
		delete(r.m, k)
		return
	}
	r.m[k] = s
	r.last = s
}

// hkdfExpandLabel per RFC 8446 section 7.1 (harness implementation).
func hkdfExpandLabel(h func() hash.Hash, secret []byte, label string, context []byte, n int) []byte {
	full := "tls13 " + label
	info := []byte{byte(n >> 8), byte(n), byte(len(full))}
	info = append(info, full...)
	info = append(info, byte(len(context)))
	info = append(info, context...)
	out, _ := hkdf.Expand(h, secret, string(info), n)
	return out
}

func suiteHash(s uint16) func() hash.Hash {
	if s == 0x1302 {
		return sha512.New384
	}
	return sha256.New
}

const c20ops = "CWTSPBRN"

func opName(b byte) string {
	return map[byte]string{'R': "SetClientRandom", 'N': "SetSNI", 'C': "SetSessionCache", 'W': "BuildHandshakeStateWithoutSession", 'T': "SetSessionTicketExtension", 'S': "SetSessionState", 'P': "SetPskExtension", 'B': "BuildHandshakeState"}[b]
}

func runC20(c *Ctx) {
	ch := c.Ch
	// sequence: enumerate all of length <= 3 over 6 ops (1+6+36+216 = 259), then draw
	var seq []byte
	nops := len(c20ops)
	idx := int(c.Run) % 800
	if idx < 1+nops+nops*nops+nops*nops*nops {
		n, k := 0, idx
		for p := 1; k >= p; p *= nops {
			k -= p
			n++
		}
		for i := 0; i < n; i++ {
			seq = append(seq, c20ops[k%nops])
			k /= nops
		}
	} else {
		if ch.Bool(50, "structured") {
			// the documented shapes: [inspect] cache [inspect] setter [build]* [edit]* [build]?
			if ch.Bool(25, "w0") {
				seq = append(seq, 'W')
			}
			seq = append(seq, 'C')
			if ch.Bool(30, "w1") {
				seq = append(seq, 'W')
			}
			seq = append(seq, "TSP"[ch.Pick(3, "setter")])
			for k := ch.Pick(3, "builds"); k > 0; k-- {
				seq = append(seq, 'B')
			}
			for k := ch.Pick(3, "edits"); k > 0; k-- {
				seq = append(seq, "RN"[ch.Pick(2, "edit")])
			}
			if ch.Bool(30, "b-last") {
				seq = append(seq, 'B')
			}
		}
		n := ch.Range(2, 6, "seq-len")
		if len(seq) > 0 {
			n = 0
		}
		if n > 0 && ch.Bool(60, "cache-first") {
			seq = append(seq, 'C') // the prerequisite of every setter: more sequences the model allows
		}
		for i := 0; i < n; i++ {
			seq = append(seq, c20ops[ch.Pick(nops, "op")])
		}
	}
	// SetClientRandom needs a built hello (documented): an edit before any build becomes a build
	builtYet := false
	for i, op := range seq {
		if op == 'B' || op == 'W' {
			builtYet = true
		}
		if op == 'R' && !builtYet {
			seq[i] = 'B'
			builtYet = true
		}
	}
	ver := []uint16{tls.VersionTLS12, tls.VersionTLS13}[ch.Pick(2, "ver")]
	// most worlds give a single-setter sequence the protocol version it can work with
	nset, lastSetter := 0, byte(0)
	for _, op := range seq {
		if op == 'T' || op == 'S' || op == 'P' {
			nset++
			lastSetter = op
		}
	}
	match := nset == 1 && ch.Bool(80, "matching-world")
	if match {
		if lastSetter == 'P' {
			ver = tls.VersionTLS13
		} else {
			ver = tls.VersionTLS12
		}
	}
	targets := []IDInfo{{"Chrome_133", tls.HelloChrome_133}, {"Chrome_112_PSK_Shuf", tls.HelloChrome_112_PSK_Shuf}, {"Firefox_120", tls.HelloFirefox_120}, {"Safari_16_0", tls.HelloSafari_16_0}, {"Chrome_100_PSK", tls.HelloChrome_100_PSK}, {"Firefox_65", tls.HelloFirefox_65}}
	idi := targets[ch.Pick(len(targets), "target")]
	if match {
		if lastSetter == 'P' {
			idi = []IDInfo{{"Chrome_112_PSK_Shuf", tls.HelloChrome_112_PSK_Shuf}, {"Chrome_100_PSK", tls.HelloChrome_100_PSK}, {"Chrome_115_PQ_PSK", tls.HelloChrome_115_PQ_PSK}}[ch.Pick(3, "psk-target")]
		} else {
			idi = []IDInfo{{"Chrome_133", tls.HelloChrome_133}, {"Firefox_120", tls.HelloFirefox_120}, {"Firefox_65", tls.HelloFirefox_65}, {"Chrome_100_PSK", tls.HelloChrome_100_PSK}}[ch.Pick(4, "ticket-target")]
		}
	}
	forged := ch.Bool(40, "forged")
	// sessionless injection (the documented "fake ticket": an initialized extension carrying ticket
	// bytes but no session; SetSessionState(nil) for an empty one), and a session cache that already
	// holds a session for this server from an earlier connection: what was given goes out as given,
	// nothing from the cache is mixed in
	fakeTicket := ch.Bool(25, "sessionless-ticket")
	prefilled := ch.Bool(50, "prefilled-cache")
	fakeBytes := make([]byte, ch.Range(1, 200, "fake-ticket-len"))
	ch.Bytes(fakeBytes, "fake-ticket")
	w := c.NewWorld(simrt.Config{})
	scfg := &tls.Config{Certificates: []tls.Certificate{Cert("ecdsa").U}, MaxVersion: ver}
	seedCache := &recCache{m: map[string]*tls.ClientSessionState{}}
	seed := RunConn(c, w, &ConnSpec{Name: "seed", ID: tls.HelloGolang, CCfg: &tls.Config{ServerName: "example.test", RootCAs: Roots(), ClientSessionCache: seedCache, MaxVersion: ver}, Peer: PeerUTLS, SCfg: scfg, Payload: [][]byte{[]byte("seed")}})
	if !seed.CDone || seedCache.last == nil {
		c.Finish(w, true)
		c.R.Harness = "seed connection produced no session: " + seed.Describe()
		return
	}
	// the target connection may meet a HelloRetryRequest (every target lists P-384 without a share):
	// an injected PSK has to survive it like a loaded one
	if ver == tls.VersionTLS13 && ch.Bool(30, "target-hrr") {
		scfg.CurvePreferences = []tls.CurveID{tls.CurveP384}
		c.Probe("target-hrr")
	}
	css := seedCache.last
	ticket, sstate, err := css.ResumptionState()
	if err != nil || sstate == nil {
		c.R.Harness = fmt.Sprintf("ResumptionState: %v", err)
		return
	}
	hasTicketExt := specHas(idi.ID, "ticket")
	hasPSKExt := specHas(idi.ID, "psk")

	// ---- reference model of the documented protocol ----
	cacheSet, built, setters := false, false, 0
	class := "allowed"
	reason := ""
	usedSetter := byte(0)
	forbiddenAt := -1
	for opi, op := range seq {
		if class == "forbidden" && forbiddenAt < 0 {
			forbiddenAt = opi - 1
		}
		switch op {
		case 'C':
			cacheSet = true
		case 'W':
			if built {
				if class == "allowed" {
					class, reason = "unspecified", "BuildHandshakeStateWithoutSession after BuildHandshakeState"
				}
			}
		case 'B':
			built = true
		case 'T', 'S', 'P':
			setters++
			switch {
			case !cacheSet:
				if class == "allowed" {
					class, reason = "forbidden", "setter without a session cache"
				}
			case built:
				if class == "allowed" {
					class, reason = "forbidden", "session set after BuildHandshakeState"
				}
			case setters > 1:
				if class == "allowed" {
					class, reason = "unspecified", "more than one session setter"
				}
			case (op == 'T' || op == 'S') && !hasTicketExt:
				if class == "allowed" {
					class, reason = "forbidden", "session ticket for a spec without session_ticket"
				}
			case op == 'P' && !hasPSKExt:
				if class == "allowed" {
					class, reason = "forbidden", "PSK for a spec without pre_shared_key"
				}
			case (op == 'T' || op == 'S') && ver != tls.VersionTLS12, op == 'P' && ver != tls.VersionTLS13:
				if class == "allowed" {
					class, reason = "unspecified", "session of the other protocol version"
				}
			default:
				usedSetter = op
			}
		}
	}

	if class == "forbidden" && forbiddenAt < 0 {
		forbiddenAt = len(seq) - 1
	}
	// ---- run it ----
	var opErr error
	var opPanic any
	var opRuntime bool
	failedAt := -1
	var wantTicket, wantPSK []byte
	newCache := tls.NewLRUClientSessionCache(4)
	if prefilled {
		newCache.Put("example.test", css)
	}
	ccfg := &tls.Config{ServerName: "example.test", RootCAs: Roots(), OmitEmptyPsk: true, MaxVersion: ver}
	sp := &ConnSpec{Name: "target", ID: idi.ID, CCfg: ccfg, Peer: PeerUTLS, SCfg: scfg, Payload: [][]byte{[]byte("ping")}}
	sp.Prep = func(u *tls.UConn) (ret error) {
		for i, op := range seq {
			func() {
				defer func() {
					if r := recover(); r != nil {
						opPanic = r
						_, opRuntime = r.(runtime.Error)
						failedAt = i
					}
				}()
				switch op {
				case 'C':
					u.SetSessionCache(newCache)
				case 'W':
					opErr = u.BuildHandshakeStateWithoutSession()
				case 'B':
					opErr = u.BuildHandshakeState()
				case 'T':
					if fakeTicket {
						wantTicket = fakeBytes
						opErr = u.SetSessionTicketExtension(&tls.SessionTicketExtension{Ticket: append([]byte(nil), fakeBytes...), Initialized: true})
						break
					}
					wantTicket = ticket
					opErr = u.SetSessionTicketExtension(&tls.SessionTicketExtension{Session: sstate, Ticket: ticket, Initialized: true})
				case 'S':
					if fakeTicket {
						wantTicket = []byte{}
						opErr = u.SetSessionState(nil)
						break
					}
					st := css
					if forged && ver == tls.VersionTLS12 {
						st = tls.MakeClientSessionState(ticket, css.Vers(), css.CipherSuite(), css.MasterSecret(), css.ServerCertificates(), css.VerifiedChains())
						st.SetEMS(css.EMS())
					}
					wantTicket = ticket
					opErr = u.SetSessionState(st)
				case 'R':
					var rnd [32]byte
					for j := range rnd {
						rnd[j] = byte(0x40 + i + j)
					}
					opErr = u.SetClientRandom(rnd[:])
				case 'N':
					u.SetSNI("www.example.test")
				case 'P':
					ext := &tls.UtlsPreSharedKeyExtension{}
					if ver == tls.VersionTLS13 {
						h := suiteHash(css.CipherSuite())
						zeros := make([]byte, h().Size())
						early, _ := hkdf.Extract(h, css.MasterSecret(), zeros)
						emptyHash := h().Sum(nil)
						binderKey := hkdfExpandLabel(h, early, "res binder", emptyHash, h().Size())
						ext.InitializeByUtls(sstate, early, binderKey, []tls.PskIdentity{{Label: ticket, ObfuscatedTicketAge: 12345}})
						wantPSK = ticket
					} else {
						// a TLS 1.2 session cannot initialise a PSK extension: hand over an empty one
					}
					opErr = u.SetPskExtension(ext)
				}
			}()
			if opPanic != nil {
				return fmt.Errorf("panic in %s: %v", opName(op), opPanic)
			}
			if opErr != nil {
				failedAt = i
				return opErr
			}
		}
		return nil
	}
	var hsPanic any
	var hsRuntime bool
	o := RunConn(c, w, sp)
	c.Finish(w, true)
	if o.CPanic != nil {
		// a panic in the client task (Handshake): the world then deadlocks on the orphaned server; both
		// are consequences, judged below against the model
		hsPanic = o.CPanic
		_, hsRuntime = o.CPanic.(runtime.Error)
		c.R.Violation = nil
	}
	seqS := string(seq)
	c.R.Class = fmt.Sprintf("%s v=%x seq=%s forged=%v model=%s", idi.Name, ver, seqS, forged, class)
	c.R.NonTrivial = setters > 0
	c.R.Class += fmt.Sprintf(" sessionless=%v prefilled=%v", fakeTicket, prefilled)
	if c.R.Violation != nil {
		return
	}
	detail := fmt.Sprintf("%s (%s): failedAt=%d opErr=%v opPanic=%v handshakePanic=%v outcome=%s", c.R.Class, reason, failedAt, opErr, opPanic, firstLine(fmt.Sprint(hsPanic)), o.Describe())
	if opRuntime || hsRuntime {
		c.Violate("runtime-error-panic-in-session-api model="+class, "%s", detail)
		return
	}
	switch class {
	case "allowed":
		if opPanic != nil || hsPanic != nil {
			c.Violate("assertion-panic-on-allowed-sequence", "%s", detail)
			return
		}
		if o.BuildErr != nil || !o.CDone {
			c.Violate("allowed-sequence-failed setter="+string(rune0(usedSetter)), "%s", detail)
			return
		}
		obs := ObserveHellos(o.Link)
		if usedSetter != 0 && len(obs.CH) > 0 {
			h := obs.CH[0]
			if wantTicket != nil && usedSetter != 'P' {
				if !bytes.Equal(h.SessionTicket, wantTicket) {
					c.Violate("injected-ticket-not-on-wire", "%s: wire ticket %d bytes, injected %d bytes", detail, len(h.SessionTicket), len(wantTicket))
					return
				}
			}
			if usedSetter == 'P' {
				if len(h.PSKIdentities) != 1 || !bytes.Equal(h.PSKIdentities[0].Identity, wantPSK) {
					c.Violate("injected-psk-not-on-wire", "%s: %d identities on the wire", detail, len(h.PSKIdentities))
					return
				}
			}
			if fakeTicket && usedSetter != 'P' {
				// nothing but what was given: no identity from the cache next to it, no resumption
				if len(h.PSKIdentities) > 0 || o.CState.DidResume {
					c.Violate("cached-session-mixed-into-sessionless-injection", "%s: %d PSK identities on the wire, DidResume=%v (cache prefilled=%v)", detail, len(h.PSKIdentities), o.CState.DidResume, prefilled)
					return
				}
				c.Probe("sessionless-injection-as-given")
			} else if !o.CState.DidResume || !o.S.DidResume {
				c.Violate("injected-session-not-resumed setter="+string(rune0(usedSetter)), "%s: client DidResume=%v server DidResume=%v", detail, o.CState.DidResume, o.S.DidResume)
				return
			}
			c.Probe("injected-session-resumed-" + string(rune0(usedSetter)))
		}
		if string(o.CRead) != "ping" {
			c.Violate("allowed-sequence-echo-failed", "%s", detail)
		}
	case "forbidden":
		// a forbidden call is refused where it is made (error or message panic of that call); a panic
		// that surfaces only later (a following build, or Handshake) is an internal assertion tripping
		// over state the forbidden call was allowed to leave behind
		if hsPanic != nil || (opPanic != nil && failedAt > forbiddenAt && (seq[failedAt] == 'B' || seq[failedAt] == 'W')) {
			where := "Handshake"
			if hsPanic == nil {
				where = opName(seq[failedAt])
			}
			c.Violate("forbidden-call-accepted-then-internal-panic in="+where, "%s: forbidden call %s (index %d) did not fail; later panic: %s", detail, opName(seq[forbiddenAt]), forbiddenAt, firstLine(fmt.Sprint(opPanic, hsPanic)))
			return
		}
		if opPanic != nil {
			c.Probe("forbidden-call-panicked-with-message")
		}
		if opErr == nil && opPanic == nil && hsPanic == nil && o.BuildErr == nil && o.CErr == nil {
			// the forbidden call was silently accepted: only a problem if it also took effect
			c.Probe("forbidden-sequence-accepted")
		} else {
			c.Probe("forbidden-sequence-refused")
		}
	default:
		c.Probe("unspecified-sequence")
	}
	if c.R.Run%300 == 0 {
		c.R.Sample = map[string]any{"parrot": idi.Name, "version": ver, "sequence": seqS, "model": class, "reason": reason}
	}
}

func rune0(b byte) rune {
	if b == 0 {
		return '-'
	}
	return rune(b)
}
