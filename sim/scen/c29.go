package scen

import (
	"errors"
	"fmt"
	"net"
	"sort"
	"strings"
	"sync"
	"time"

	tls "github.com/refraction-networking/utls"
	"github.com/refraction-networking/utls/zz_verif/simnet"
	"github.com/refraction-networking/utls/zz_verif/simrt"
)

// C29: Roller.Dial prefers the last working fingerprint, tries each ID at most once, returns
// the first connection whose handshake succeeds, returns dial errors at once, race-free.

func init() {
	Register("C29", &Info{
		Run:  runC29,
		Race: true,
		Quick: 1500, Thor: 100000, QuickWallS: 45,
		Rule: "a world = one Roller with 2-5 configured parrots (optionally HelloRandomized), a listener whose server accepts a drawn subset of fingerprints (classified on the server from the offered cipher-suite list) or black-holes a fingerprint until the handshake timeout, 1-4 Dial tasks (some sequential, some concurrent), optional dial failure at the n-th dial; non-trivial = a Dial made >=2 attempts or >=2 Dials overlapped; distinct = (configured IDs, accept set, task plan, fault, schedule hash)",
		Assumptions: []string{
			"Roller passes a nil Config, so trust comes from the process-wide system pool: the worker process runs with SSL_CERT_FILE pointing at the harness CA",
			"a fingerprint is identified on the server by its de-GREASEd cipher-suite list; configured parrots are chosen with pairwise different lists; any other list is attributed to HelloRandomized",
			"identity of a ClientHelloID includes its seed: the seeded working HelloRandomized and the configured unseeded HelloRandomized are different IDs; a working randomized ID must reproduce the fingerprint that succeeded (same cipher-suite list on the next Dial's first attempt)",
		},
		Real: []string{"utls Roller, UConn (client) from /repo", "utls tls.Server as listener peer", "Go race detector"},
		Stub: []string{"net.DialTimeout -> simnet.DialTimeout (listener registry)", "transport, clock, crypto/rand"},
	})
}

func ungreasedSig(cs []uint16) string {
	var b strings.Builder
	for _, c := range cs {
		if c&0x0f0f == 0x0a0a && c>>8 == c&0xff {
			continue
		}
		fmt.Fprintf(&b, "%04x", c)
	}
	return b.String()
}

type rollAttempt struct {
	sig      string
	name     string // parrot name or "randomized"
	accepted bool
	sni      string
	done     bool
	at       int64
	blackhole bool
}

type rollCall struct {
	task       string
	invoke     int64
	ret        int64
	startWork  *tls.ClientHelloID
	err        error
	conn       *tls.UConn
	connID     tls.ClientHelloID
	workAfter  *tls.ClientHelloID
	echoOK     bool
	retAt      time.Duration
	dialsBefore int
	after      int64
	accSig     string // cipher-suite signature of the attempt the server accepted
	firstSig   string // ... of the call's first attempt
}

func runC29(c *Ctx) {
	ch := c.Ch
	curated := []IDInfo{{"Chrome_133", tls.HelloChrome_133}, {"Firefox_120", tls.HelloFirefox_120}, {"IOS_14", tls.HelloIOS_14},
		{"Safari_16_0", tls.HelloSafari_16_0}, {"Edge_85", tls.HelloEdge_85}, {"Firefox_65", tls.HelloFirefox_65},
		{"Chrome_83", tls.HelloChrome_83}, {"360_7_5", tls.Hello360_7_5}, {"Android_11", tls.HelloAndroid_11_OkHttp}, {"Chrome_100", tls.HelloChrome_100}}
	sigOf := map[string]string{} // sig -> name
	var pool []IDInfo
	for _, id := range curated {
		spec, err := tls.UTLSIdToSpec(id.ID)
		if err != nil {
			continue
		}
		s := ungreasedSig(spec.CipherSuites)
		if _, dup := sigOf[s]; dup {
			continue
		}
		sigOf[s] = id.Name
		pool = append(pool, id)
	}
	nids := ch.Range(2, 5, "nids")
	var ids []IDInfo
	used := map[int]bool{}
	for len(ids) < nids {
		k := ch.Pick(len(pool), "id")
		if used[k] {
			k = (k + 1) % len(pool)
			for used[k] {
				k = (k + 1) % len(pool)
			}
		}
		used[k] = true
		ids = append(ids, pool[k])
	}
	withRandomized := ch.Bool(30, "randomized")
	// the server's policy changes over time: up to three phases, each with its own accept set,
	// switching after a drawn number of server-side attempts (a fingerprint that worked gets
	// blocked later, another one starts working)
	nphase := ch.Range(1, 3, "nphases")
	phases := make([]map[string]bool, nphase)
	switchAt := make([]int, nphase)
	var accNames []string
	for p := 0; p < nphase; p++ {
		phases[p] = map[string]bool{}
		for _, id := range ids {
			if ch.Bool(35, "accept") {
				phases[p][id.Name] = true
				accNames = append(accNames, fmt.Sprintf("%d:%s", p, id.Name))
			}
		}
		if withRandomized && ch.Bool(35, "accept-rand") {
			phases[p]["randomized"] = true
			accNames = append(accNames, fmt.Sprintf("%d:randomized", p))
		}
		if p > 0 {
			switchAt[p] = switchAt[p-1] + ch.Range(1, 6, "phase-len")
		}
	}
	acceptNow := func(attemptIdx int, name string) bool {
		p := 0
		for q := 1; q < nphase; q++ {
			if attemptIdx >= switchAt[q] {
				p = q
			}
		}
		return phases[p][name]
	}
	blackhole := ""
	if ch.Bool(25, "blackhole") {
		blackhole = ids[ch.Pick(len(ids), "bh")].Name
	}
	dialFailAt := -1
	if ch.Bool(20, "dialfail") {
		dialFailAt = ch.Range(0, 6, "dialfail-n")
	}
	ntasks := ch.Range(1, 4, "ntasks")
	callsPer := make([]int, ntasks)
	for i := range callsPer {
		callsPer[i] = ch.Range(1, 3, "ncalls")
	}
	hsTimeout := time.Duration(ch.Range(3, 12, "hs-timeout")) * time.Second

	w := c.NewWorld(simrt.Config{LockYield: ch.Bool(60, "lockyield"), UnlockYield: ch.Bool(30, "unlockyield"), AtomicYield: ch.Bool(30, "atomyield"), PreemptPct: 5 + 15*ch.Pick(4, "preempt")})
	ResetStamp()
	nt := simnet.NewNet()
	frag := ch.Bool(40, "frag")
	nt.LinkSetup = func(l *simnet.Link) { l.Frag = frag }
	nt.StampFn = Stamp
	if dialFailAt >= 0 {
		nt.DialFault = func(w *simrt.World, n int, address string) error {
			if n == dialFailAt {
				return simnet.ErrDialTO
			}
			return nil
		}
	}
	lis := nt.Listen("srv.test:443")

	r, err := tls.NewRoller()
	if err != nil {
		c.R.Harness = "NewRoller: " + err.Error()
		return
	}
	r.HelloIDs = nil
	for _, id := range ids {
		r.HelloIDs = append(r.HelloIDs, id.ID)
	}
	if withRandomized {
		r.HelloIDs = append(r.HelloIDs, tls.HelloRandomized)
	}
	r.TlsHandshakeTimeout = hsTimeout
	r.TcpDialTimeout = 5 * time.Second

	// server side
	var mu sync.Mutex
	var attempts []*rollAttempt
	baseCfg := &tls.Config{Certificates: []tls.Certificate{Cert("ecdsa").U, Cert("rsa").U}}
	serve := func(conn net.Conn) {
		at := &rollAttempt{}
		mu.Lock()
		myIdx := len(attempts)
		attempts = append(attempts, at)
		at.at = Stamp()
		mu.Unlock()
		conn.SetDeadline(time.Now().Add(60 * time.Second))
		cfg := baseCfg.Clone()
		cfg.GetConfigForClient = func(chi *tls.ClientHelloInfo) (*tls.Config, error) {
			at.sig = ungreasedSig(chi.CipherSuites)
			at.sni = chi.ServerName
			at.name = sigOf[at.sig]
			if at.name == "" {
				at.name = "randomized"
			}
			if at.name == blackhole {
				at.blackhole = true
				// never answer: the client's handshake deadline must fire
				buf := make([]byte, 1)
				conn.Read(buf)
				return nil, errors.New("blackhole")
			}
			if !acceptNow(myIdx, at.name) {
				return nil, errors.New("fingerprint not accepted")
			}
			return nil, nil
		}
		sc := tls.Server(conn, cfg)
		if err := sc.Handshake(); err != nil {
			conn.Close()
			at.done = true
			return
		}
		at.accepted = true
		buf := make([]byte, 256)
		for {
			n, err := sc.Read(buf)
			if n > 0 {
				sc.Write(buf[:n])
			}
			if err != nil {
				break
			}
		}
		sc.Close()
		at.done = true
	}
	lt := w.Go("listener", func() {
		for {
			conn, err := lis.Accept()
			if err != nil || conn == nil {
				return
			}
			go serve(conn)
		}
	})
	_ = lt

	calls := make([][]*rollCall, ntasks)
	var dialTasks []*simrt.Task
	for i := 0; i < ntasks; i++ {
		i := i
		dialTasks = append(dialTasks, w.Go(fmt.Sprintf("dial%d", i), func() {
			for k := 0; k < callsPer[i]; k++ {
				rc := &rollCall{task: fmt.Sprintf("dial%d", i)}
				simrt.Yield()
				// the invocation stamp is taken in the same critical section as the read of the
				// working ID: Unlock is a scheduling point, so a stamp taken after it would put a
				// Dial of another task that stored a new working ID and returned in between
				// entirely before this call, and the overlap rule below would not see it
				r.HelloIDMu.Lock()
				if r.WorkingHelloID != nil {
					v := *r.WorkingHelloID
					rc.startWork = &v
				}
				rc.invoke = Stamp()
				r.HelloIDMu.Unlock()
				u, err := r.Dial("tcp", "srv.test:443", "example.test")
				rc.ret = Stamp()
				rc.retAt = w.Now()
				rc.err = err
				rc.conn = u
				r.HelloIDMu.Lock()
				if r.WorkingHelloID != nil {
					v := *r.WorkingHelloID
					rc.workAfter = &v
				}
				rc.after = Stamp()
				r.HelloIDMu.Unlock()
				if u != nil {
					rc.connID = u.ClientHelloID
					msg := []byte("ping-" + rc.task)
					u.SetDeadline(time.Now().Add(30 * time.Second))
					if _, err := u.Write(msg); err == nil {
						got := make([]byte, len(msg))
						n := 0
						for n < len(msg) {
							m, err := u.Read(got[n:])
							n += m
							if err != nil {
								break
							}
						}
						rc.echoOK = string(got[:n]) == string(msg)
					}
					u.Close()
				}
				calls[i] = append(calls[i], rc)
			}
		}))
	}
	w.RunUntil(dialTasks...)
	w.Go("stop", func() { lis.Close() })
	w.Run()
	w.Join()
	c.Finish(w, true)
	simnet.ClearNet()

	var idNames []string
	for _, id := range ids {
		idNames = append(idNames, id.Name)
	}
	sort.Strings(accNames)
	c.R.Class = fmt.Sprintf("ids=%v rand=%v accept=%v bh=%s dialfail=%d calls=%v", idNames, withRandomized, accNames, blackhole, dialFailAt, callsPer)
	if dialFailAt >= 0 && len(nt.Dials) > dialFailAt {
		c.Fault("dialfail", 1)
	}
	if c.R.Violation != nil {
		return
	}

	// attribute attempts to calls: every dial record carries the task name and the link
	type callAtt struct {
		names []string
		acc   []bool
		dialErr bool
	}
	dialsByTask := map[string][]simnet.DialRecord{}
	for _, d := range nt.Dials {
		dialsByTask[d.Task] = append(dialsByTask[d.Task], d)
	}
	// server attempts are matched to dial records by link order: attempts[] was appended in
	// accept order, which equals successful-dial order
	var okDials []simnet.DialRecord
	for _, d := range nt.Dials {
		if d.Err == "" {
			okDials = append(okDials, d)
		}
	}
	if len(okDials) != len(attempts) {
		c.R.Harness = fmt.Sprintf("attempt bookkeeping: %d dials vs %d server attempts", len(okDials), len(attempts))
		return
	}
	attOfLink := map[*simnet.Link]*rollAttempt{}
	for i, d := range okDials {
		attOfLink[d.Link] = attempts[i]
	}
	nonTrivial := false
	var allCalls []*rollCall
	for _, cs := range calls {
		allCalls = append(allCalls, cs...)
	}
	// first pass: the fingerprint (cipher-suite signature) of each call's first and accepted attempt
	for ti, cs := range calls {
		for _, rc := range cs {
			first := true
			for _, d := range dialsByTask[fmt.Sprintf("dial%d", ti)] {
				if d.Stamp > rc.invoke && d.Stamp < rc.ret && d.Err == "" {
					if a := attOfLink[d.Link]; a != nil {
						if first {
							rc.firstSig = a.sig
						}
						if a.accepted && rc.accSig == "" {
							rc.accSig = a.sig
						}
					}
				}
				if d.Stamp > rc.invoke && d.Stamp < rc.ret {
					first = false
				}
			}
		}
	}
	// successes in completion order, for the concurrent working-ID rule
	for ti, cs := range calls {
		tname := fmt.Sprintf("dial%d", ti)
		ds := dialsByTask[tname]
		for _, rc := range cs {
			// the dials of this call: records of this task stamped between invoke and return
			var my []simnet.DialRecord
			for _, d := range ds {
				if d.Stamp > rc.invoke && d.Stamp < rc.ret {
					my = append(my, d)
				}
			}
			if len(my) >= 2 {
				nonTrivial = true
			}
			var names []string
			accIdx := -1
			dialErr := false
			for i, d := range my {
				if d.Err != "" {
					dialErr = true
					names = append(names, "dial-error")
					continue
				}
				a := attOfLink[d.Link]
				names = append(names, a.name)
				if a.sni != "example.test" && a.name != "" && (a.accepted || a.sig != "") {
					c.Violate("wrong-sni", "attempt %d of %s sent SNI %q, want example.test", i, tname, a.sni)
				}
				if a.accepted && accIdx < 0 {
					accIdx = i
				}
			}
			detail := fmt.Sprintf("task %s attempts=%v err=%v startWorking=%s ids=%v accept=%v blackhole=%s", tname, names, rc.err, idStr(rc.startWork), idNames, accNames, blackhole)
			// each ID at most once
			seen := map[string]int{}
			for _, n := range names {
				seen[n]++
			}
			for n, k := range seen {
				lim := 1
				if n == "randomized" && rc.startWork != nil && rc.startWork.Seed != nil && withRandomized {
					lim = 2 // seeded working ID + configured unseeded ID
				}
				if n == "randomized" && concurrentSeeded(rc, allCalls) && withRandomized {
					lim = 2
				}
				if n != "dial-error" && k > lim {
					c.Violate("id-tried-more-than-once", "%s was tried %d times: %s", n, k, detail)
				}
			}
			// first attempt = a value WorkingHelloID held during the call
			if len(names) > 0 && names[0] != "dial-error" {
				cands := map[string]bool{}
				if rc.startWork != nil {
					cands[nameOfID(*rc.startWork, ids)] = true
				}
				concurrent := false
				for _, oc := range allCalls {
					// a successful call that overlaps this one: it stores its ID some time between its
					// invocation and its return (not necessarily before this call returns)
					if oc != rc && oc.err == nil && oc.conn != nil && oc.ret > rc.invoke && oc.invoke < rc.ret {
						cands[nameOfID(oc.connID, ids)] = true
						concurrent = true
					}
				}
				if rc.startWork != nil && !concurrent && !cands[names[0]] {
					c.Violate("working-id-not-tried-first", "first attempt %s, working ID was %s: %s", names[0], idStr(rc.startWork), detail)
				}
				// a working randomized ID stands for one concrete fingerprint (its seed): the hello tried
				// first must be the one that worked, not merely another randomized hello
				if rc.startWork != nil && !concurrent && names[0] == "randomized" && strings.HasPrefix(rc.startWork.Client, "Randomized") {
					var src *rollCall
					for _, oc := range allCalls {
						if oc != rc && oc.conn != nil && oc.ret < rc.invoke && sameID(oc.connID, *rc.startWork) && (src == nil || oc.ret > src.ret) {
							src = oc
						}
					}
					if src != nil && src.accSig != "" && rc.firstSig != "" {
						c.Probe("working-randomized-id-reused")
						if rc.firstSig != src.accSig {
							c.Violate("working-randomized-fingerprint-not-reused", "the working ID is the randomized fingerprint that succeeded before (cipher suites %s) but the first attempt offered %s (seed recorded: %v): %s", src.accSig, rc.firstSig, rc.startWork.Seed != nil, detail)
						}
					}
				}
				if rc.startWork != nil && concurrent && !cands[names[0]] {
					// with a concurrent success the working ID may legitimately have been nil->X or X->Y
					// at the moment Dial read it; X (start) stays a candidate, so this is still wrong
					c.Violate("working-id-not-tried-first", "first attempt %s not among %v: %s", names[0], cands, detail)
				}
			}
			// outcome
			switch {
			case dialErr:
				if rc.err == nil || rc.conn != nil {
					c.Violate("dial-error-not-returned", "a TCP dial failed but Dial returned (%v, %v): %s", rc.conn != nil, rc.err, detail)
				} else if !errors.Is(rc.err, simnet.ErrDialTO) && rc.err != simnet.ErrDialTO {
					c.Violate("dial-error-replaced", "Dial returned %v instead of the dial error: %s", rc.err, detail)
				}
				if names[len(names)-1] != "dial-error" {
					c.Violate("continued-after-dial-error", "attempts continued after a dial error: %s", detail)
				}
			case accIdx >= 0:
				if rc.err != nil || rc.conn == nil {
					c.Violate("accepted-but-dial-failed", "server accepted attempt %d but Dial returned err=%v: %s", accIdx, rc.err, detail)
				} else {
					if accIdx != len(names)-1 {
						c.Violate("continued-after-success", "attempts continued after a successful handshake: %s", detail)
					}
					if got := nameOfID(rc.connID, ids); got != names[accIdx] {
						c.Violate("returned-conn-id-mismatch", "returned connection reports %s, server saw %s: %s", got, names[accIdx], detail)
					}
					if !rc.echoOK {
						c.Violate("returned-conn-unusable", "echo over the returned connection failed: %s", detail)
					}
					// working ID recorded
					okAfter := rc.workAfter != nil && sameID(*rc.workAfter, rc.connID)
					if !okAfter && rc.workAfter != nil {
						for _, oc := range allCalls {
							if oc != rc && oc.conn != nil && sameID(*rc.workAfter, oc.connID) && oc.invoke < rc.after && oc.ret > rc.invoke {
								okAfter = true // a success of an overlapping call overwrote it
							}
						}
					}
					if !okAfter {
						c.Violate("working-id-not-recorded", "after success WorkingHelloID=%s, returned conn=%s: %s", idStr(rc.workAfter), idStr(&rc.connID), detail)
					}
				}
			default:
				if rc.err == nil || rc.conn != nil {
					c.Violate("success-without-accepted-handshake", "no attempt was accepted but Dial returned a connection: %s", detail)
				}
				want := len(r.HelloIDs)
				if len(names) < want {
					c.Violate("gave-up-early", "only %d attempts for %d configured IDs: %s", len(names), want, detail)
				}
			}
			// deadline: a black-holed attempt must end at the handshake timeout
			if rc.retAt > time.Duration(len(names)+1)*hsTimeout+40*time.Second {
				c.Violate("dial-exceeded-timeouts", "Dial returned at %v: %s", rc.retAt, detail)
			}
		}
	}
	over := false
	for _, a := range allCalls {
		for _, b := range allCalls {
			if a != b && a.invoke < b.invoke && b.invoke < a.ret {
				over = true
			}
		}
	}
	c.R.NonTrivial = nonTrivial || over
	if blackhole != "" {
		for _, a := range attempts {
			if a.blackhole {
				c.Fault("deadline", 1)
			}
		}
	}
	if c.R.Run%300 == 0 {
		c.R.Sample = map[string]any{"ids": idNames, "randomized": withRandomized, "accept": accNames, "blackhole": blackhole, "dialfail_at": dialFailAt, "calls_per_task": callsPer}
	}
}

func sameID(a, b tls.ClientHelloID) bool {
	if a.Client != b.Client || a.Version != b.Version {
		return false
	}
	if (a.Seed == nil) != (b.Seed == nil) {
		return false
	}
	if a.Seed != nil && *a.Seed != *b.Seed {
		return false
	}
	return true
}

func nameOfID(id tls.ClientHelloID, ids []IDInfo) string {
	for _, i := range ids {
		if i.ID.Client == id.Client && i.ID.Version == id.Version {
			return i.Name
		}
	}
	if strings.HasPrefix(id.Client, "Randomized") {
		return "randomized"
	}
	return id.Client + "-" + id.Version
}

func idStr(id *tls.ClientHelloID) string {
	if id == nil {
		return "nil"
	}
	return id.Client + "-" + id.Version
}

func concurrentSeeded(rc *rollCall, all []*rollCall) bool {
	for _, oc := range all {
		if oc != rc && oc.conn != nil && oc.connID.Seed != nil && oc.ret < rc.ret {
			return true
		}
	}
	return false
}
