// Command worker executes simulated worlds for one property: a contiguous range of run
// indices (one world at a time; the random source is process-global), a single replay from
// a tape, or an in-process minimisation. It prints a JSON summary to VERIF_OUT.
//go:debug randseednop=0
package main

import (
	"encoding/json"
	mrand "math/rand"
	"fmt"
	"os"
	"runtime"
	"strconv"
	"strings"
	"time"

	"github.com/refraction-networking/utls/zz_verif/scen"
	"github.com/refraction-networking/utls/zz_verif/simnet"
	"github.com/refraction-networking/utls/zz_verif/simrand"
	"github.com/refraction-networking/utls/zz_verif/simrt"
)

type Summary struct {
	Prop        string            `json:"prop"`
	From, To    int64             `json:"-"`
	Evaluations int64             `json:"evaluations"`
	Hashes      []uint64          `json:"hashes"` // class+sched hash of non-trivial worlds
	Scheds      []uint64          `json:"scheds"`
	Faults      map[string]int    `json:"faults"`
	Probes      map[string]int    `json:"probes"`
	Steps       int64             `json:"steps"`
	Picks       int64             `json:"picks"`
	Overlaps    int64             `json:"overlaps"`
	SimMs       int64             `json:"sim_ms"`
	Samples     []any             `json:"samples"`
	Violations  []*scen.Result    `json:"violations"`
	Harness     []string          `json:"harness"`
	Traces      map[string]uint64 `json:"traces,omitempty"`
	WallS       float64           `json:"wall_s"`
	NonTrivial  int64             `json:"nontrivial"`
}

func runSeed(seed uint64, prop string, run int64) uint64 {
	h := seed*0x9e3779b97f4a7c15 + uint64(run)*0xbf58476d1ce4e5b9
	for i := 0; i < len(prop); i++ {
		h = (h ^ uint64(prop[i])) * 1099511628211
	}
	h ^= h >> 29
	return h
}

func fnv(s string, h uint64) uint64 {
	for i := 0; i < len(s); i++ {
		h = (h ^ uint64(s[i])) * 1099511628211
	}
	return h
}

// one executes a single world in a fresh bubble.
func one(info *scen.Info, prop, tier string, run int64, ch *simrt.Chooser, trace int) *scen.Result {
	res := &scen.Result{Prop: prop, Run: run, ProcMode: scen.ProcMode}
	ctx := &scen.Ctx{Prop: prop, Tier: tier, Run: run, Ch: ch, R: res, Trace: trace}
	stream := simrand.NewStream(0)
	leak := simrt.Bubble(func() {
		defer func() {
			if r := recover(); r != nil {
				buf := make([]byte, 1<<14)
				buf = buf[:runtime.Stack(buf, false)]
				res.Harness = fmt.Sprintf("scenario panic on root goroutine: %v\n%s", r, buf)
			}
		}()
		ws := ch.U64("world-rand")
		mrand.Seed(int64(ws)) // math/rand's global source (go:debug randseednop=0): library fallbacks stay replayable
		stream = simrand.NewStream(ws)
		simrand.InstallGlobal(stream)
		info.Run(ctx)
	})
	simrand.UninstallGlobal()
	simnet.ClearNet()
	if ctx.W != nil {
		ctx.W.Close()
	}
	if leak != "" && res.Violation == nil && res.Harness == "" {
		res.Harness = "bubble: " + leak
	}
	res.Tape = append([]uint32(nil), ch.Tape...)
	return res
}

func readTape(path string) (prop string, tape []uint32, class string, run int64, seed int64) {
	b, err := os.ReadFile(path)
	if err != nil {
		fatal("read tape: %v", err)
	}
	var f struct {
		Property string   `json:"property"`
		Tape     []uint32 `json:"tape"`
		Class    string   `json:"class"`
		Run      int64    `json:"run"`
		Seed     int64    `json:"seed"`
	}
	if err := json.Unmarshal(b, &f); err != nil {
		fatal("parse tape: %v", err)
	}
	return f.Property, f.Tape, f.Class, f.Run, f.Seed
}

func fatal(format string, a ...any) {
	fmt.Fprintf(os.Stderr, "worker: "+format+"\n", a...)
	os.Exit(2)
}

func envInt(k string, def int64) int64 {
	v := os.Getenv(k)
	if v == "" {
		return def
	}
	n, err := strconv.ParseInt(v, 10, 64)
	if err != nil {
		fatal("bad %s", k)
	}
	return n
}

func writeJSON(path string, v any) {
	b, err := json.Marshal(v)
	if err != nil {
		fatal("marshal: %v", err)
	}
	if path == "" || path == "-" {
		os.Stdout.Write(append(b, '\n'))
		return
	}
	if err := os.WriteFile(path, b, 0o644); err != nil {
		fatal("write: %v", err)
	}
}

func sameClass(r *scen.Result, class string) bool {
	return r.Violation != nil && r.Violation.Class == class
}

// minimise shrinks the tape by delta debugging while the same violation class recurs.
func minimise(info *scen.Info, prop, tier string, run int64, tape []uint32, class string, budget int) ([]uint32, int) {
	tries := 0
	try := func(t []uint32) bool {
		if tries >= budget {
			return false
		}
		tries++
		r := one(info, prop, tier, run, simrt.NewReplay(t), 0)
		return sameClass(r, class)
	}
	cur := append([]uint32(nil), tape...)
	// 1. truncate (an exhausted tape yields 0 = benign default)
	for n := len(cur) / 2; n >= 1; n /= 2 {
		for len(cur) > n {
			c := cur[:len(cur)-n]
			if try(c) {
				cur = append([]uint32(nil), c...)
			} else {
				break
			}
		}
	}
	// 2. zero spans
	for n := len(cur) / 2; n >= 1; n /= 2 {
		for i := 0; i+n <= len(cur); i += n {
			allz := true
			for _, v := range cur[i : i+n] {
				if v != 0 {
					allz = false
				}
			}
			if allz {
				continue
			}
			c := append([]uint32(nil), cur...)
			for j := i; j < i+n; j++ {
				c[j] = 0
			}
			if try(c) {
				cur = c
			}
		}
	}
	// 3. delete spans
	for n := len(cur) / 2; n >= 1; n /= 2 {
		for i := 0; i+n <= len(cur); {
			c := append(append([]uint32(nil), cur[:i]...), cur[i+n:]...)
			if try(c) {
				cur = c
			} else {
				i += n
			}
		}
	}
	// 4. lower values
	for i := range cur {
		for cur[i] > 0 {
			c := append([]uint32(nil), cur...)
			c[i] = cur[i] / 2
			if try(c) {
				cur = c
			} else {
				c[i] = cur[i] - 1
				if try(c) {
					cur = c
				} else {
					break
				}
			}
		}
	}
	for len(cur) > 0 && cur[len(cur)-1] == 0 {
		cur = cur[:len(cur)-1]
	}
	return cur, tries
}

func main() {
	if v, err := strconv.Atoi(os.Getenv("VERIF_PROCMODE")); err == nil {
		scen.ProcMode = v
	}
	prop := os.Getenv("VERIF_PROP")
	tier := os.Getenv("VERIF_TIER")
	if tier == "" {
		tier = "quick"
	}
	out := os.Getenv("VERIF_OUT")
	seed := uint64(envInt("VERIF_SEED", 1))
	marker := os.Getenv("VERIF_MARKERS") != ""
	start := time.Now()

	if os.Getenv("VERIF_INFO") != "" {
		info := scen.Registry[prop]
		if info == nil {
			fatal("unknown property %q (have %v)", prop, keys())
		}
		writeJSON("-", map[string]any{"race": info.Race, "rule": info.Rule, "quick": info.Quick, "thor": info.Thor,
			"assumptions": info.Assumptions, "real": info.Real, "stub": info.Stub,
			"quick_wall_s": info.QuickWallS, "thor_wall_s": info.ThorWallS, "workers": info.Workers})
		return
	}
	if tp := os.Getenv("VERIF_TAPE"); tp != "" {
		p, tape, class, run, _ := readTape(tp)
		if prop == "" {
			prop = p
		}
		info := scen.Registry[prop]
		if info == nil {
			fatal("unknown property %q", prop)
		}
		if os.Getenv("VERIF_MINIMISE") != "" {
			mt, tries := minimise(info, prop, tier, run, tape, class, int(envInt("VERIF_MIN_BUDGET", 400)))
			r := one(info, prop, tier, run, simrt.NewReplay(mt), 400)
			r.Tape = mt
			r.Probes = map[string]int{"minimise-tries": tries}
			writeJSON(out, r)
			return
		}
		if marker {
			fmt.Fprintf(os.Stderr, "VERIF-RUN %d\n", run)
		}
		r := one(info, prop, tier, run, simrt.NewReplay(tape), 400)
		writeJSON(out, r)
		return
	}

	info := scen.Registry[prop]
	if info == nil {
		fatal("unknown property %q (have %v)", prop, keys())
	}
	from, to := envInt("VERIF_FROM", 0), envInt("VERIF_TO", 1)
	progress := os.Getenv("VERIF_PROGRESS")
	wantTraces := os.Getenv("VERIF_TRACES") != ""
	deadline := time.Time{}
	if d := envInt("VERIF_WALL_S", 0); d > 0 {
		deadline = start.Add(time.Duration(d) * time.Second)
	}
	sum := &Summary{Prop: prop, Faults: map[string]int{}, Probes: map[string]int{}}
	if wantTraces {
		sum.Traces = map[string]uint64{}
	}
	seen := map[uint64]bool{}
	seenS := map[uint64]bool{}
	var pf *os.File
	if progress != "" {
		pf, _ = os.Create(progress)
	}
	for run := from; run < to; run++ {
		if !deadline.IsZero() && time.Now().After(deadline) {
			break
		}
		if pf != nil {
			pf.WriteAt([]byte(fmt.Sprintf("%-20d\n", run)), 0)
		}
		if marker {
			fmt.Fprintf(os.Stderr, "VERIF-RUN %d\n", run)
		}
		ch := simrt.NewChooser(runSeed(seed, prop, run))
		r := one(info, prop, tier, run, ch, 0)
		sum.Evaluations++
		sum.Steps += int64(r.Steps)
		sum.Picks += int64(r.Picks)
		sum.Overlaps += int64(r.Overlaps)
		sum.SimMs += r.SimTimeMs
		for k, v := range r.Faults {
			sum.Faults[k] += v
		}
		for k, v := range r.Probes {
			sum.Probes[k] += v
		}
		if wantTraces {
			sum.Traces[strconv.FormatInt(run, 10)] = r.Trace ^ fnv(fmt.Sprint(r.Tape), 7)
		}
		if r.Harness != "" {
			if len(sum.Harness) < 20 {
				sum.Harness = append(sum.Harness, fmt.Sprintf("run %d: %s", run, r.Harness))
			}
			continue
		}
		if r.NonTrivial {
			sum.NonTrivial++
			h := fnv(r.Class, r.Sched)
			if !seen[h] {
				seen[h] = true
				sum.Hashes = append(sum.Hashes, h)
			}
		}
		if !seenS[r.Sched] {
			seenS[r.Sched] = true
			sum.Scheds = append(sum.Scheds, r.Sched)
		}
		if r.Sample != nil && len(sum.Samples) < 6 {
			sum.Samples = append(sum.Samples, map[string]any{"run": run, "class": r.Class, "case": r.Sample, "steps": r.Steps, "tape_len": len(r.Tape)})
		}
		if r.Violation != nil {
			// one minimised witness per class per worker
			dup := false
			for _, v := range sum.Violations {
				if v.Violation.Class == r.Violation.Class {
					dup = true
				}
			}
			if !dup && len(sum.Violations) < 40 {
				if strings.HasPrefix(os.Getenv("VERIF_NOMIN"), "1") {
					sum.Violations = append(sum.Violations, r)
				} else {
					mt, tries := minimise(info, prop, tier, run, r.Tape, r.Violation.Class, 300)
					mr := one(info, prop, tier, run, simrt.NewReplay(mt), 200)
					if !sameClass(mr, r.Violation.Class) {
						mr = one(info, prop, tier, run, simrt.NewReplay(r.Tape), 200)
						mt = r.Tape
					}
					mr.Tape = mt
					if mr.Probes == nil {
						mr.Probes = map[string]int{}
					}
					mr.Probes["minimise-tries"] = tries
					mr.Probes["original-tape-len"] = len(r.Tape)
					sum.Violations = append(sum.Violations, mr)
				}
			}
		}
	}
	sum.WallS = time.Since(start).Seconds()
	writeJSON(out, sum)
}

func keys() []string {
	var ks []string
	for k := range scen.Registry {
		ks = append(ks, k)
	}
	return ks
}
