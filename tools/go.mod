module veriftools

go 1.24
