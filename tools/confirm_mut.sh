#!/bin/bash
# usage: confirm_mut.sh <worktree> <mutdir> <demo-run-regex> [extra go test flags...]
# Confirms a seeded change: builds, existing suite unchanged, demo fails with / passes without.
WT=$1; MD=$2; RX=$3; shift 3
export PATH=/root/go/pkg/mod/golang.org/toolchain@v0.0.1-go1.24.0.linux-amd64/bin:$PATH GOTOOLCHAIN=local GOFLAGS=-mod=mod GOPROXY=off GOSUMDB=off
cd $WT || exit 2
git checkout -q -- . ; rm -f zz_demo_test.go
git apply $MD/patch.diff || { echo "APPLY-FAIL"; exit 2; }
go build ./... || { echo "BUILD-FAIL"; git checkout -q -- .; exit 1; }
fails=$(go test -vet=off -count=1 -timeout 25m . 2>&1 | grep -E "^--- FAIL" | grep -v TestVerifyHostname | head -5)
[ -n "$fails" ] && { echo "SUITE-CHANGED: $fails"; }
cp $MD/demo_test.go zz_demo_test.go
go test -vet=off -count=1 -timeout 10m -run "$RX" "$@" . > /tmp/confirm.$$.with.log 2>&1; with=$?
git checkout -q -- .
go test -vet=off -count=1 -timeout 10m -run "$RX" "$@" . > /tmp/confirm.$$.without.log 2>&1; without=$?
rm -f zz_demo_test.go
echo "suite_ok=$([ -z "$fails" ] && echo yes || echo no) demo_with_change_rc=$with demo_without_change_rc=$without"
