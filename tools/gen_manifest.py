#!/usr/bin/env python3
"""Regenerates /verif/MANIFEST.json from the table below (properties.jsonl is never touched)."""
import json
NA = {
 'C06':'FingerprintClientHello/FromRaw followed by ApplyPreset and BuildHandshakeState is a function of the captured bytes and the Fingerprinter flags; everything that varies per connection is excluded by the statement itself. No peer, clock, schedule or fault for a simulator to own: property-based input generation is the fitting technique (DESIGN 5). Fingerprinted copies are still one of the fingerprint families of C02, C10-C13, C17, C18, C33 (not claimed as coverage of C06).',
 'C09':'The randomized spec is a function of (Seed, Weights, family); reproducibility and cross-extension consistency are statements about that function alone. The multi-party consequence named in the property (a server answering with a HelloRetryRequest the client cannot follow) is exercised through randomized fingerprints by C10, C17 and C18, whose findings (repaired in /repo by fix: commits bdc5777 and 1515e2f) were exactly those cases (DESIGN 5).',
 'C07':'Pure total functions of caller-supplied bytes/JSON: no connection, clock, randomness, peer, schedule or fault for a simulator to own; coverage-guided fuzzing is the fitting technique (DESIGN 5).',
 'C08':'Encoder/decoder agreement per extension type is a pure codec round trip on in-memory values; nothing for a scheduler, transport or clock to decide (DESIGN 5).',
 'C24':'Varint and transport-parameter marshalling are pure functions; the statement quantifies over all 62-bit values symbolically (DESIGN 5).',
 'C31':'Conversions between public and private message views are pure field copying with no concurrency, time, I/O or peer (DESIGN 5).',
 'C32':'Dictionary consistency is a finite table check and JSON import a pure function of its input (DESIGN 5).',
}
TRUST = "Trusted: go1.26.8 runtime, testing/synctest bubbles and (where used) the race detector; the seam rewrite sync->simsync, sync/atomic->simatomic, net.DialTimeout->simnet (pass-through outside a world); the harness oracle code under /verif/sim. The simulated code is /repo compiled by go1.26.8, not the default toolchain. Sampling, not proof."
# id -> (technique, level text, extra note, design ref)
CLAIMED = {
 'C26': ("deterministic simulation: seeded schedules over lock/atomic/IO points + context-cancel/close/transport faults; invariants over recorded call outcomes; race detector with race-invisible hand-off",
         "Seeded exploration of concurrent Handshake/HandshakeContext/Read/Write/Close(Write) on one real UConn against a real server over the simulated transport, with cancellation, close and transport faults injected at drawn scheduler steps; oracles: no data race, no deadlock, every call returns by the deadline, handshake outcome sharing, late cancellation harmless, stream prefix property.",
         "Not covered: weak memory, parallelism inside one call.", "4 C26"),
 'C29': ("deterministic simulation: concurrent Roller.Dial tasks against simulated listeners with per-fingerprint accept/blackhole policies, dial failures and handshake timeouts; per-call sequential Roller model; race detector",
         "Seeded exploration of 1-4 Dial tasks on one Roller against a listener that accepts a drawn subset of fingerprints; every attempt is attributed to a call from the simulated dial log and checked against the sequential Roller model (working ID first, each ID once, first success returned and recorded, SNI, dial error returned at once).",
         "Fingerprints are recognised server-side by their cipher-suite list.", "4 C29"),
 'C30': ("deterministic simulation: concurrent prng users scheduled at every mutex acquisition; porcupine linearizability against an independent SHAKE256 stream; independent HKDF for salted seeds; race detector",
         "Seeded exploration of concurrent Read/Int63/Uint64 on one prng checked (porcupine) against the single SHAKE256(seed) stream computed with the standard library, helper range post-conditions at boundary arguments, salted-seed determinism against an independent HKDF-SHA3-256.",
         "Helper post-conditions are pure; only the concurrency and determinism parts owe anything to the simulator.", "4 C30"),
 'C36': ("deterministic simulation: seeded schedules at every mutex acquisition + porcupine linearizability vs sequential LRU model + race detector with race-invisible scheduler hand-off",
         "Seeded sampling of concurrent Put/Put(nil)/Get histories (1-4 tasks, capacity 1-3) on the real lruSessionCache under a scheduler that chooses who runs at every lock acquisition; each history is checked for linearizability against a sequential bounded-LRU model, and the Go race detector sees only the cache's own synchronisation.",
         "Trusted additionally: porcupine, the sequential LRU model (sim/scen/c36.go).", "4 C36"),
}
PENDING = "not claimed yet: the simulation check for this property is still under construction (DESIGN 4); no verdict is offered"
def main():
    import os
    extra = {}
    p = '/verif/tools/manifest_extra.json'
    if os.path.exists(p):
        extra = json.load(open(p))
    props=[json.loads(l) for l in open('/verif/properties.jsonl')]
    claimed = dict(CLAIMED)
    for k,v in extra.get('claimed',{}).items():
        claimed[k]=tuple(v)
    checks=[]
    for pid in sorted(claimed):
        tech,text,note,ref = claimed[pid]
        checks.append({"property_id":pid,"quick_cmd":f"bin/check {pid} quick","thorough_cmd":f"bin/check {pid} thorough",
          "evidence_file":f"/verif/evidence/{pid}.json","replay_cmd_template":f"bin/check {pid} --replay {{path}}","engine":"simcheck",
          "level_claimed":{"category":"exploration","text":text+" Evidence from seeded search over many simulated runs, not proof.","design_ref":ref},
          "level_note":TRUST+" "+note,"technique":tech})
    na=[]
    for p_ in props:
        i=p_['id']
        if i in claimed: continue
        reason = NA.get(i) or extra.get('not_claimed',{}).get(i) or PENDING
        na.append({"property_id":i,"reason":reason})
    m={"version":1,"setup_cmd":"bin/setup",
       "hooks":{"guard":"none (no hooks are committed in /repo: seams are installed by tools/rewrite in a scratch copy of the working tree at build time)",
                "enable":"bin/check copies /repo's working tree to a temp dir, rewrites imports sync->zz_verif/simsync, sync/atomic->zz_verif/simatomic and net.DialTimeout->simnet.DialTimeout, adds the harness under zz_verif/ plus one export file in package tls, builds with go1.26.8",
                "baseline_off_cmd":"cd /repo && go test -vet=off -count=1 -timeout 25m ./...","source_commits":[],"add_only":True},
       "engines":[{"name":"simcheck","path":"/verif/tools/simcheck","serves_properties":sorted(claimed),
                   "kind_free_text":"deterministic simulation with fault injection: seeded scheduler over synctest bubbles, simulated transport/clock/randomness, decision-tape replay and minimisation"}],
       "checks":checks,
       "notes":"See DESIGN.md. fix: commits in /repo are listed in known_findings.jsonl (status fixed).",
       "not_applicable":na}
    json.dump(m,open('/verif/MANIFEST.json','w'),indent=1)
    print("claimed:",sorted(claimed))
main()
