#!/bin/bash
# development helper: build the worker from /repo + /verif/sim into $1 (dir), optional -race
set -e
export GOFLAGS=-mod=mod GOPROXY=off GOSUMDB=off GOTOOLCHAIN=local
OUT=${1:-/tmp/vdev}; shift || true
S=$OUT/src
mkdir -p $OUT
rm -rf $S && mkdir -p $S
rsync -a --exclude .git --exclude testdata --exclude examples /repo/ $S/
mkdir -p $S/zz_verif && cp -r /verif/sim/* $S/zz_verif/
cp /verif/sim/export/*.go $S/ && rm -rf $S/zz_verif/export
cp -r /verif/fixtures $S/zz_verif/fixtures
(cd /verif/tools/rewrite && go1.26.8 build -o $OUT/rewrite . )
$OUT/rewrite $S
cd $S
grep -q porcupine go.mod || echo 'require github.com/anishathalye/porcupine v1.3.0' >> go.mod
go1.26.8 build "$@" -ldflags=-checklinkname=0 -o $OUT/worker ./zz_verif/cmd/worker
