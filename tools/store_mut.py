#!/usr/bin/env python3
"""store_mut.py <prop> <k> <srcdir> <caught_by> <violation_class> <history> : copy a confirmed seeded change into seeded/<prop>-<k>/ with meta.json"""
import sys, os, json, shutil, re
prop,k,src,caught,vclass,history=sys.argv[1:7]
dst=f'/verif/seeded/{prop}-{k}'
os.makedirs(dst,exist_ok=True)
for f in ('patch.diff','demo_test.go','README.md'):
    shutil.copy(os.path.join(src,f),os.path.join(dst,f))
readme=open(os.path.join(src,'README.md')).read()
first=[l.strip() for l in readme.splitlines() if l.strip() and not l.startswith('#')]
conf=''
for l in open('/tmp/mut/confirm_results.txt'):
    if l.startswith(f'{prop} mut{k}:'): conf=l.strip()
meta={"property":prop,"change":(first[0] if first else '')[:400],
 "author":"independent sub-agent given only the property text and a scratch worktree",
 "confirmed":{"how":"tools/confirm_mut.sh in the sub-agent's scratch worktree: git apply, go build ./..., go test . (only TestVerifyHostname fails, as on the clean tree), demo with the change, demo without the change","result":conf},
 "check":{"command":f"tools/mutcheck.sh {caught} seeded/{prop}-{k}/patch.diff","result":"exit 1, VIOLATION","violation_class":vclass,"history":history}}
json.dump(meta,open(os.path.join(dst,'meta.json'),'w'),indent=1)
print(dst, conf)
