#!/bin/bash
# Runs every stored seeded change against the check named in its meta.json (quick tier) and
# reports which ones are caught. /repo is restored after each run. Results: seeded/REGRESS.txt
cd /verif || exit 2
out=seeded/REGRESS.txt; : > $out
cp -r evidence /tmp/evidence.keep.$$ 2>/dev/null
for d in seeded/*/; do
  id=$(basename $d)
  [ -f $d/meta.json ] || continue
  if [ -n "$1" ] && [[ ! "$id" =~ $1 ]]; then continue; fi
  prop=$(python3 -c "import json,sys;print(json.load(open('$d/meta.json'))['check']['command'].split()[1])")
  if ! git -C /repo apply --check /verif/$d/patch.diff 2>/dev/null; then echo "$id $prop NOAPPLY" | tee -a $out; continue; fi
  res=$(tools/mutcheck.sh $prop /verif/$d/patch.diff quick 2>&1 | head -1)
  cls=$(grep -m1 "^violation class" /tmp/mutcheck.$prop.log | cut -c1-120)
  echo "$id $prop $res $cls" | tee -a $out
done
rm -rf evidence && mv /tmp/evidence.keep.$$ evidence
git clean -fdq replays
