#!/bin/bash
# Runs every stored seeded change against the check named in its meta.json (quick tier) and reports
# which ones are caught; three at a time, each in its own scratch worktree (tools/mutcheck.sh).
# /repo, /verif/evidence and /verif/replays are not touched. Results: seeded/REGRESS.txt
cd /verif || exit 2
out=seeded/REGRESS.txt; tmp=$(mktemp -d)
one() {
  d=$1; id=$(basename $d)
  prop=$(python3 -c "import json,sys;print(json.load(open('$d/meta.json'))['check']['command'].split()[1])")
  if grep -q '"not_caught"' $d/meta.json; then echo "$id $prop NOT-CAUGHT (recorded as open, see meta.json and DESIGN 9.5)" > $tmp/$id.res; return; fi
  if grep -q '"superseded_by"' $d/meta.json; then echo "$id $prop SUPERSEDED (no longer breaks the property on the repaired tree, see meta.json)" > $tmp/$id.res; return; fi
  if ! git -C /repo apply --check /verif/$d/patch.diff 2>/dev/null; then echo "$id $prop NOAPPLY" > $tmp/$id.res; return; fi
  res=$(MUTLOG=$tmp/$id.log VERIF_WORKERS=6 tools/mutcheck.sh $prop /verif/$d/patch.diff quick 2>&1 | head -1)
  cls=$(grep -m1 "^violation class" $tmp/$id.log | cut -c1-120)
  echo "$id $prop $res $cls" > $tmp/$id.res
}
export -f one; export tmp
ls -d seeded/*/ | while read d; do
  id=$(basename $d); [ -f $d/meta.json ] || continue
  if [ -n "$1" ] && [[ ! "$id" =~ $1 ]]; then continue; fi
  echo $d
done | xargs -P 3 -I{} bash -c 'one {}'
cat $tmp/*.res 2>/dev/null | sort -V > $out.new
if [ -n "$1" ]; then cat $out.new; rm -f $out.new; else mv $out.new $out; cat $out; fi
rm -rf $tmp
