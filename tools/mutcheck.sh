#!/bin/bash
# usage: mutcheck.sh <prop> <patch.diff> [tier]  — run a check against /repo's HEAD plus a seeded change.
# The change is applied to a throw-away git worktree of /repo (VERIF_REPO), never to /repo itself, so
# background sweeps that read /repo are not disturbed; build cache, evidence and replays of the run go
# to a scratch directory (VERIF_DEVOUT). Worktree and scratch directory are removed afterwards.
# Several of these may run at the same time.
P=$1; D=$2; T=${3:-quick}
W=$(mktemp -d /tmp/mutwt.XXXXXX); O=$W.out; rmdir $W
git -C /repo worktree add -q --detach $W HEAD || exit 2
trap 'git -C /repo worktree remove --force $W 2>/dev/null; git -C /repo worktree prune; rm -rf $O' EXIT
git -C $W apply "$D" || { echo "patch does not apply"; exit 2; }
mkdir -p $O
L=${MUTLOG:-/tmp/mutcheck.$P.log}
cd /verif && VERIF_REPO=$W VERIF_DEVOUT=$O bin/check $P $T > $L.$$ 2>&1; rc=$?
mv $L.$$ $L
echo "rc=$rc"; grep -E "^(violation class|VIOLATION|simcheck:|KNOWN)" $L | head -12
