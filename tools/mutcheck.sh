#!/bin/bash
# usage: mutcheck.sh <prop> <patch.diff> [tier]  — apply a seeded change to /repo, run the check, undo.
P=$1; D=$2; T=${3:-quick}
cd /repo || exit 2
if ! git diff --quiet; then echo "repo dirty"; exit 2; fi
git apply "$D" || { echo "patch does not apply"; exit 2; }
cd /verif && bin/check $P $T > /tmp/mutcheck.$P.log 2>&1; rc=$?
git -C /repo checkout -- . ; git -C /repo clean -fdq
echo "rc=$rc"; grep -E "^(violation class|VIOLATION|simcheck:|KNOWN)" /tmp/mutcheck.$P.log | head -12
