#!/bin/bash
# tools/sweep.sh <tier> <seed>... : development sweep. Runs every claimed check at the given tier for
# each seed from the directory it is started in (a `vp run` snapshot of /verif or /verif itself),
# so later edits of /verif do not disturb it. One verdict line per (property, seed) in sweep.log;
# full logs under sweeplogs/. Not registered in MANIFEST.json: its results are not evidence.
root=$(pwd); tier=${1:-thorough}; shift
export VERIF_ROOT=$root
mkdir -p $root/sweeplogs
props=$(python3 -c "import json;print(' '.join(c['property_id'] for c in json.load(open('MANIFEST.json'))['checks']))")
[ -n "$SWEEP_PROPS" ] && props=$SWEEP_PROPS
for seed in "${@:-1}"; do
 for p in $props; do
  s=$(date +%s); VERIF_SEED=$seed bin/check $p $tier > $root/sweeplogs/$p.$tier.$seed.log 2>&1; rc=$?; e=$(date +%s)
  echo "$p seed=$seed tier=$tier rc=$rc $((e-s))s known=$(grep -c KNOWN-FINDING $root/sweeplogs/$p.$tier.$seed.log) viol=$(grep -c '^VIOLATION' $root/sweeplogs/$p.$tier.$seed.log); $(grep -E '^simcheck: C' $root/sweeplogs/$p.$tier.$seed.log | tail -1 | cut -c1-160)" | tee -a $root/sweep.log
 done
done
