// Command genfix writes the certificate fixtures used by the simulator (run once; the PEM
// files are committed). The bubble clock starts at 2000-01-01T00:00:00Z.
package main

import (
	"crypto"
	"crypto/ecdsa"
	"crypto/ed25519"
	"crypto/elliptic"
	"crypto/rand"
	"crypto/rsa"
	"crypto/x509"
	"crypto/x509/pkix"
	"encoding/pem"
	"math/big"
	"os"
	"path/filepath"
	"time"
)

var dir = "/verif/fixtures"

func must(err error) {
	if err != nil {
		panic(err)
	}
}

func writePEM(name, typ string, der []byte) {
	must(os.WriteFile(filepath.Join(dir, name), pem.EncodeToMemory(&pem.Block{Type: typ, Bytes: der}), 0o644))
}

func d(y int, m time.Month, day int) time.Time { return time.Date(y, m, day, 0, 0, 0, 0, time.UTC) }

var serial = int64(1000)

func ca(name, cn string) (*x509.Certificate, crypto.Signer) {
	k, err := ecdsa.GenerateKey(elliptic.P256(), rand.Reader)
	must(err)
	serial++
	t := &x509.Certificate{SerialNumber: big.NewInt(serial), Subject: pkix.Name{CommonName: cn}, NotBefore: d(1999, 1, 1), NotAfter: d(2100, 1, 1),
		IsCA: true, BasicConstraintsValid: true, KeyUsage: x509.KeyUsageCertSign | x509.KeyUsageDigitalSignature}
	der, err := x509.CreateCertificate(rand.Reader, t, t, k.Public(), k)
	must(err)
	writePEM(name+".pem", "CERTIFICATE", der)
	c, _ := x509.ParseCertificate(der)
	return c, k
}

func leaf(name string, key crypto.Signer, cac *x509.Certificate, cak crypto.Signer, names []string, nb, na time.Time) {
	serial++
	t := &x509.Certificate{SerialNumber: big.NewInt(serial), Subject: pkix.Name{CommonName: names[0]}, NotBefore: nb, NotAfter: na,
		DNSNames: names, KeyUsage: x509.KeyUsageDigitalSignature | x509.KeyUsageKeyEncipherment, ExtKeyUsage: []x509.ExtKeyUsage{x509.ExtKeyUsageServerAuth}}
	der, err := x509.CreateCertificate(rand.Reader, t, cac, key.Public(), cak)
	must(err)
	writePEM(name+".pem", "CERTIFICATE", der)
	kb, err := x509.MarshalPKCS8PrivateKey(key)
	must(err)
	writePEM(name+".key", "PRIVATE KEY", kb)
}

func main() {
	must(os.MkdirAll(dir, 0o755))
	c1, k1 := ca("ca", "Verif Root CA")
	c2, k2 := ca("ca-untrusted", "Verif Untrusted CA")
	ek, _ := ecdsa.GenerateKey(elliptic.P256(), rand.Reader)
	rk, _ := rsa.GenerateKey(rand.Reader, 2048)
	_, edk, _ := ed25519.GenerateKey(rand.Reader)
	names := []string{"example.test", "www.example.test", "*.wild.test", "public.ech.test", "a.test", "b.test"}
	leaf("leaf-ecdsa", ek, c1, k1, names, d(1999, 6, 1), d(2090, 1, 1))
	leaf("leaf-rsa", rk, c1, k1, names, d(1999, 6, 1), d(2090, 1, 1))
	leaf("leaf-ed25519", edk, c1, k1, names, d(1999, 6, 1), d(2090, 1, 1))
	ek2, _ := ecdsa.GenerateKey(elliptic.P256(), rand.Reader)
	leaf("leaf-wrongname", ek2, c1, k1, []string{"other.test"}, d(1999, 6, 1), d(2090, 1, 1))
	leaf("leaf-expired", ek2, c1, k1, names, d(1999, 6, 1), d(1999, 12, 1))
	leaf("leaf-notyet", ek2, c1, k1, names, d(2050, 1, 1), d(2090, 1, 1))
	leaf("leaf-untrusted", ek2, c2, k2, names, d(1999, 6, 1), d(2090, 1, 1))
	// short-lived: valid 1999-06-01 .. 2000-01-08 (expires one week into the bubble's time)
	leaf("leaf-shortlived", ek2, c1, k1, names, d(1999, 6, 1), d(2000, 1, 8))
	// public-name-only certificate for ECH rejection scenarios
	leaf("leaf-publiconly", ek2, c1, k1, []string{"public.ech.test"}, d(1999, 6, 1), d(2090, 1, 1))
	// a long chain filler: big certificate (many SANs) for compressed-certificate sizes
	var many []string
	many = append(many, names...)
	for i := 0; i < 400; i++ {
		many = append(many, "host-"+big.NewInt(int64(i)).String()+".filler.example.test")
	}
	leaf("leaf-big", ek2, c1, k1, many, d(1999, 6, 1), d(2090, 1, 1))
}
