#!/bin/bash
# runs every claimed check's quick command sequentially; prints a one-line verdict each
cd /verif
for p in $(python3 -c "import json;print(' '.join(c['property_id'] for c in json.load(open('MANIFEST.json'))['checks']))"); do
  s=$(date +%s); bin/check $p ${1:-quick} > /tmp/allquick.$p.log 2>&1; rc=$?; e=$(date +%s)
  echo "$p rc=$rc $((e-s))s $(grep -c KNOWN-FINDING /tmp/allquick.$p.log) known; $(grep -E '^simcheck: C' /tmp/allquick.$p.log | tail -1 | cut -c1-150)"
done
