// Command rewrite installs the simulator's seams in a scratch copy of the utls package
// (DESIGN.md 2.1): import "sync" -> zz_verif/simsync, "sync/atomic" -> zz_verif/simatomic,
// net.DialTimeout -> simnet.DialTimeout. It edits import specs and one selector by byte
// offset (no reformatting). Exit status 2 on any problem; it never guesses.
package main

import (
	"fmt"
	"go/ast"
	"go/parser"
	"go/token"
	"os"
	"path/filepath"
	"sort"
	"strings"
)

const mod = "github.com/refraction-networking/utls"

type edit struct {
	off, end int
	text     string
}

func main() {
	if len(os.Args) != 2 {
		fmt.Fprintln(os.Stderr, "usage: rewrite <dir>")
		os.Exit(2)
	}
	dir := os.Args[1]
	files, err := filepath.Glob(filepath.Join(dir, "*.go"))
	if err != nil || len(files) == 0 {
		fmt.Fprintln(os.Stderr, "rewrite: no go files in", dir)
		os.Exit(2)
	}
	nsync, natomic, ndial := 0, 0, 0
	for _, f := range files {
		if strings.HasSuffix(f, "_test.go") || strings.HasPrefix(filepath.Base(f), "zz_verif") {
			continue
		}
		src, err := os.ReadFile(f)
		if err != nil {
			fmt.Fprintln(os.Stderr, "rewrite:", err)
			os.Exit(2)
		}
		fset := token.NewFileSet()
		af, err := parser.ParseFile(fset, f, src, parser.ParseComments)
		if err != nil {
			fmt.Fprintln(os.Stderr, "rewrite: parse:", err)
			os.Exit(2)
		}
		if af.Name.Name != "tls" {
			continue
		}
		var edits []edit
		for _, im := range af.Imports {
			switch im.Path.Value {
			case `"sync"`:
				if im.Name != nil && im.Name.Name != "sync" {
					fmt.Fprintln(os.Stderr, "rewrite: renamed sync import in", f)
					os.Exit(2)
				}
				start := fset.Position(im.Pos()).Offset
				end := fset.Position(im.End()).Offset
				edits = append(edits, edit{start, end, `sync "` + mod + `/zz_verif/simsync"`})
				nsync++
			case `"sync/atomic"`:
				if im.Name != nil && im.Name.Name != "atomic" {
					fmt.Fprintln(os.Stderr, "rewrite: renamed atomic import in", f)
					os.Exit(2)
				}
				start := fset.Position(im.Pos()).Offset
				end := fset.Position(im.End()).Offset
				edits = append(edits, edit{start, end, `atomic "` + mod + `/zz_verif/simatomic"`})
				natomic++
			}
		}
		dialHere := false
		ast.Inspect(af, func(n ast.Node) bool {
			se, ok := n.(*ast.SelectorExpr)
			if !ok {
				return true
			}
			x, ok := se.X.(*ast.Ident)
			if ok && x.Name == "net" && se.Sel.Name == "DialTimeout" {
				start := fset.Position(x.Pos()).Offset
				end := fset.Position(x.End()).Offset
				edits = append(edits, edit{start, end, "zzsimnet"})
				dialHere = true
				ndial++
			}
			return true
		})
		if len(edits) == 0 {
			continue
		}
		sort.Slice(edits, func(i, j int) bool { return edits[i].off > edits[j].off })
		out := string(src)
		for _, e := range edits {
			out = out[:e.off] + e.text + out[e.end:]
		}
		if dialHere {
			out += "\nimport zzsimnet \"" + mod + "/zz_verif/simnet\"\n\nvar _ net.Conn\n"
			// an import after declarations is illegal: move it right after the package clause
			out = strings.TrimSuffix(out, "\nimport zzsimnet \""+mod+"/zz_verif/simnet\"\n\nvar _ net.Conn\n")
			pk := "package tls\n"
			i := strings.Index(out, pk)
			if i < 0 {
				fmt.Fprintln(os.Stderr, "rewrite: no package clause in", f)
				os.Exit(2)
			}
			out = out[:i+len(pk)] + "\nimport zzsimnet \"" + mod + "/zz_verif/simnet\"\n" + out[i+len(pk):] + "\nvar _ net.Conn\n"
		}
		if err := os.WriteFile(f, []byte(out), 0o644); err != nil {
			fmt.Fprintln(os.Stderr, "rewrite:", err)
			os.Exit(2)
		}
	}
	if nsync == 0 || natomic == 0 {
		fmt.Fprintf(os.Stderr, "rewrite: expected sync and sync/atomic imports (found %d, %d)\n", nsync, natomic)
		os.Exit(2)
	}
	fmt.Printf("rewrite: sync=%d atomic=%d dial=%d\n", nsync, natomic, ndial)
}
