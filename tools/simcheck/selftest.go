package main

import (
	"encoding/json"
	"fmt"
	"os"
	"os/exec"
	"path/filepath"
	"sort"
	"strconv"
	"sync"
	"time"
)

// selftest: determinism of the simulator, DESIGN 2.9/2.13. For every claimed property and for each
// of several VERIF_SEED values, the first n worlds are executed in four separate processes (two at
// GOMAXPROCS=1, one at 4, one at 16, half of them in the other process mode); the per-world trace
// hashes (every scheduler event with sizes, byte hashes, results and the clock, xor the decision
// tape) and the per-world outcome (violation class or none) must be identical in all four. The
// processes of all properties run concurrently (up to 16), so the comparison is also made under
// load. Exit 0 = identical everywhere, exit 2 = a divergence (a harness defect, never a VIOLATION).
func selftest(args []string) {
	n := int64(120)
	seeds := []int64{1, 2, 3, 20260921}
	if len(args) > 0 {
		if v, err := strconv.ParseInt(args[0], 10, 64); err == nil && v > 0 {
			n = v
		}
	}
	start := time.Now()
	binPlain, th := build(false)
	binRace, _ := build(true)
	mb, err := os.ReadFile(filepath.Join(verif, "MANIFEST.json"))
	if err != nil {
		die(2, "selftest: %v", err)
	}
	var man struct {
		Checks []struct {
			ID string `json:"property_id"`
		} `json:"checks"`
	}
	json.Unmarshal(mb, &man)
	tmp, _ := os.MkdirTemp("", "verif-selftest-")
	defer os.RemoveAll(tmp)

	type job struct {
		prop string
		seed int64
		cfg  int
	}
	cfgs := []struct {
		gmp  string
		mode string
	}{{"1", "0"}, {"1", "1"}, {"4", "0"}, {"16", "1"}}
	type res struct {
		traces map[string]uint64
		class  map[string]string
		err    string
	}
	results := map[job]*res{}
	var mu sync.Mutex
	var jobs []job
	for _, c := range man.Checks {
		for _, s := range seeds {
			for i := range cfgs {
				jobs = append(jobs, job{c.ID, s, i})
			}
		}
	}
	infoOf := map[string]Info{}
	for _, c := range man.Checks {
		out, err := func() ([]byte, error) {
			cmd := exec.Command(binPlain)
			cmd.Env = append(baseEnv(c.ID, "quick", 1), "VERIF_INFO=1")
			return cmd.Output()
		}()
		var info Info
		if err != nil || json.Unmarshal(out, &info) != nil {
			die(2, "selftest: worker info for %s: %v", c.ID, err)
		}
		infoOf[c.ID] = info
	}
	sem := make(chan struct{}, 16)
	var wg sync.WaitGroup
	for _, j := range jobs {
		j := j
		wg.Add(1)
		sem <- struct{}{}
		go func() {
			defer wg.Done()
			defer func() { <-sem }()
			bin := binPlain
			info := infoOf[j.prop]
			if info.Race {
				bin = binRace
			}
			op := filepath.Join(tmp, fmt.Sprintf("%s-%d-%d.json", j.prop, j.seed, j.cfg))
			env := append(baseEnv(j.prop, "quick", j.seed), "VERIF_FROM=0", "VERIF_TO="+strconv.FormatInt(n, 10), "VERIF_OUT="+op,
				"VERIF_TRACES=1", "GOMAXPROCS="+cfgs[j.cfg].gmp, "VERIF_NOMIN=1", "VERIF_PROCMODE=0", "VERIF_CLASSES=1")
			// the process mode is part of the world's input for the properties that use it; both
			// executions that are compared must share it, so it is fixed here and the second
			// dimension that varies is the process itself and GOMAXPROCS
			_ = cfgs[j.cfg].mode
			if info.Race {
				env = append(env, "GORACE=halt_on_error=0 atexit_sleep_ms=0 exitcode=0")
			}
			stderr, werr := startWorker(bin, env, op)
			r := &res{}
			var s Summary
			if b, err := os.ReadFile(op); err == nil && json.Unmarshal(b, &s) == nil {
				r.traces = s.Traces
				r.class = map[string]string{}
				for _, v := range s.Violations {
					if v.Violation != nil {
						r.class[strconv.FormatInt(v.Run, 10)] = v.Violation.Class
					}
				}
			} else {
				r.err = fmt.Sprintf("no output (%v): %s", werr, tail(stderr, 400))
			}
			mu.Lock()
			results[j] = r
			mu.Unlock()
		}()
	}
	wg.Wait()

	type row struct {
		Prop      string `json:"property"`
		Seeds     int    `json:"seeds"`
		Worlds    int    `json:"worlds_per_seed"`
		Processes int    `json:"processes_per_seed"`
		Compared  int    `json:"world_executions_compared"`
		Diverged  int    `json:"diverged"`
	}
	var rows []row
	var bad []string
	for _, c := range man.Checks {
		rw := row{Prop: c.ID, Seeds: len(seeds), Processes: len(cfgs)}
		for _, s := range seeds {
			base := results[job{c.ID, s, 0}]
			if base == nil || base.err != "" {
				bad = append(bad, fmt.Sprintf("%s seed %d: %s", c.ID, s, base.err))
				continue
			}
			rw.Worlds = len(base.traces)
			for i := 1; i < len(cfgs); i++ {
				o := results[job{c.ID, s, i}]
				if o == nil || o.err != "" {
					bad = append(bad, fmt.Sprintf("%s seed %d GOMAXPROCS=%s: %s", c.ID, s, cfgs[i].gmp, o.err))
					continue
				}
				if len(o.traces) != len(base.traces) {
					bad = append(bad, fmt.Sprintf("%s seed %d GOMAXPROCS=%s: %d worlds against %d", c.ID, s, cfgs[i].gmp, len(o.traces), len(base.traces)))
				}
				var ks []string
				for k := range base.traces {
					ks = append(ks, k)
				}
				sort.Strings(ks)
				for _, k := range ks {
					rw.Compared++
					if o.traces[k] != base.traces[k] || o.class[k] != base.class[k] {
						rw.Diverged++
						if len(bad) < 40 {
							bad = append(bad, fmt.Sprintf("%s seed %d world %s: trace %x/%x class %q/%q (GOMAXPROCS 1 vs %s)", c.ID, s, k, base.traces[k], o.traces[k], base.class[k], o.class[k], cfgs[i].gmp))
						}
					}
				}
			}
		}
		rows = append(rows, rw)
	}
	out := map[string]any{"tree_hash": th, "seeds": seeds, "worlds_per_seed": n, "gomaxprocs": []string{"1", "1", "4", "16"},
		"properties": rows, "problems": bad, "wall_s": time.Since(start).Seconds(),
		"what_is_compared": "per world: FNV hash over every scheduler event (kind, task, resource, sizes, byte hashes of transferred data, results, simulated clock) xor hash of the decision tape, and the world's violation class"}
	b, _ := json.MarshalIndent(out, "", " ")
	os.MkdirAll(filepath.Join(outRoot, "selftest"), 0o755)
	os.WriteFile(filepath.Join(outRoot, "selftest", "determinism.json"), append(b, '\n'), 0o644)
	total, div := 0, 0
	for _, r := range rows {
		total += r.Compared
		div += r.Diverged
	}
	fmt.Printf("selftest: determinism: %d properties x %d seeds x %d worlds x %d processes: %d world executions compared, %d diverged, %d problems, %.0fs\n",
		len(rows), len(seeds), n, len(cfgs), total, div, len(bad), time.Since(start).Seconds())
	for _, p := range bad {
		fmt.Println("selftest:", p)
	}
	if len(bad) > 0 {
		os.Exit(2)
	}
}
