// Command simcheck is the driver behind bin/check: it rebuilds the simulator worker from
// /repo's current working tree (scratch copy + seam rewrite, cached by tree hash), runs
// worker processes over disjoint run ranges, merges their reports, matches violations
// against known_findings.jsonl, writes the replay file and the evidence file.
//
// Exit 0: property held on everything explored (or only known findings matched).
// Exit 1: "VIOLATION property=<id> replay=<path>". Exit 2: build/harness/determinism trouble.
package main

import (
	"bytes"
	"crypto/sha256"
	"encoding/hex"
	"encoding/json"
	"fmt"
	"io"
	"io/fs"
	"os"
	"os/exec"
	"path/filepath"
	"regexp"
	"sort"
	"strconv"
	"strings"
	"sync"
	"syscall"
	"time"
)

const gobin = "go1.26.8"

// repo and verif are /repo and /verif; VERIF_REPO / VERIF_ROOT override them for development
// only (background sweeps from a snapshot of /verif, checks against a scratch worktree). The
// commands registered in MANIFEST.json never set them.
var (
	repo  = envOr("VERIF_REPO", "/repo")
	verif = envOr("VERIF_ROOT", "/verif")
	// outRoot is where build cache, evidence and replay files go: /verif, or VERIF_DEVOUT for
	// development runs against a scratch tree (several may run at once; nothing they write may
	// land in /verif/evidence).
	outRoot = envOr("VERIF_DEVOUT", verif)
)

func envOr(k, d string) string {
	if v := os.Getenv(k); v != "" {
		return v
	}
	return d
}

func die(code int, format string, a ...any) {
	fmt.Fprintf(os.Stderr, "simcheck: "+format+"\n", a...)
	os.Exit(code)
}

func goEnv() []string {
	env := os.Environ()
	env = append(env, "GOFLAGS=-mod=mod", "GOPROXY=off", "GOSUMDB=off", "GOTOOLCHAIN=local", "CGO_ENABLED=1")
	return env
}

func hashTree(h io.Writer, root string, skip func(rel string, d fs.DirEntry) bool) {
	var files []string
	filepath.WalkDir(root, func(p string, d fs.DirEntry, err error) error {
		if err != nil {
			return nil
		}
		rel, _ := filepath.Rel(root, p)
		if skip(rel, d) {
			if d.IsDir() {
				return filepath.SkipDir
			}
			return nil
		}
		if d.Type().IsRegular() {
			files = append(files, rel)
		}
		return nil
	})
	sort.Strings(files)
	for _, f := range files {
		b, err := os.ReadFile(filepath.Join(root, f))
		if err != nil {
			continue
		}
		fmt.Fprintf(h, "%s %d\n", f, len(b))
		h.Write(b)
	}
}

func treeHash() string {
	h := sha256.New()
	hashTree(h, repo, func(rel string, d fs.DirEntry) bool {
		return rel == ".git" || strings.HasPrefix(rel, ".git/")
	})
	hashTree(h, filepath.Join(verif, "sim"), func(string, fs.DirEntry) bool { return false })
	hashTree(h, filepath.Join(verif, "tools", "rewrite"), func(string, fs.DirEntry) bool { return false })
	hashTree(h, filepath.Join(verif, "fixtures"), func(string, fs.DirEntry) bool { return false })
	return hex.EncodeToString(h.Sum(nil))[:20]
}

func run(dir string, env []string, name string, args ...string) (string, error) {
	cmd := exec.Command(name, args...)
	cmd.Dir = dir
	cmd.Env = env
	var buf bytes.Buffer
	cmd.Stdout = &buf
	cmd.Stderr = &buf
	err := cmd.Run()
	return buf.String(), err
}

// build returns the path of the worker binary for the current tree.
func build(race bool) (string, string) {
	th := treeHash()
	cacheRoot := filepath.Join(outRoot, ".cache")
	os.MkdirAll(cacheRoot, 0o755)
	lockf, err := os.OpenFile(filepath.Join(cacheRoot, "lock"), os.O_CREATE|os.O_RDWR, 0o644)
	if err != nil {
		die(2, "lock: %v", err)
	}
	defer lockf.Close()
	syscall.Flock(int(lockf.Fd()), syscall.LOCK_EX)
	defer syscall.Flock(int(lockf.Fd()), syscall.LOCK_UN)

	dir := filepath.Join(cacheRoot, th)
	name := "worker"
	if race {
		name = "worker.race"
	}
	bin := filepath.Join(dir, name)
	if st, err := os.Stat(bin); err == nil && st.Size() > 0 {
		os.Chtimes(dir, time.Now(), time.Now())
		return bin, th
	}
	os.MkdirAll(dir, 0o755)
	prune(cacheRoot, dir)
	scratch, err := os.MkdirTemp("", "verif-build-")
	if err != nil {
		die(2, "mktemp: %v", err)
	}
	defer os.RemoveAll(scratch)
	src := filepath.Join(scratch, "src")
	if out, err := run("", nil, "rsync", "-a", "--exclude", ".git", "--exclude", "/examples", repo+"/", src+"/"); err != nil {
		die(2, "rsync: %v\n%s", err, out)
	}
	if out, err := run("", nil, "cp", "-r", filepath.Join(verif, "sim"), filepath.Join(src, "zz_verif")); err != nil {
		die(2, "cp sim: %v\n%s", err, out)
	}
	// files that belong inside package tls (export shims)
	exp, _ := filepath.Glob(filepath.Join(src, "zz_verif", "export", "*.go"))
	for _, f := range exp {
		b, _ := os.ReadFile(f)
		os.WriteFile(filepath.Join(src, filepath.Base(f)), b, 0o644)
	}
	os.RemoveAll(filepath.Join(src, "zz_verif", "export"))
	if _, err := os.Stat(filepath.Join(verif, "fixtures")); err == nil {
		run("", nil, "cp", "-r", filepath.Join(verif, "fixtures"), filepath.Join(src, "zz_verif", "fixtures"))
	}
	rw := filepath.Join(cacheRoot, "rewrite")
	if out, err := run(filepath.Join(verif, "tools"), goEnv(), gobin, "build", "-o", rw, "./rewrite"); err != nil {
		die(2, "build rewrite: %v\n%s", err, out)
	}
	out, err := run("", nil, rw, src)
	if err != nil {
		die(2, "rewrite failed (seam target missing or unparsable source):\n%s", out)
	}
	os.WriteFile(filepath.Join(dir, "rewrite.txt"), []byte(out), 0o644)
	gm, _ := os.ReadFile(filepath.Join(src, "go.mod"))
	if !bytes.Contains(gm, []byte("porcupine")) {
		gm = append(gm, []byte("\nrequire github.com/anishathalye/porcupine v1.3.0\n")...)
		os.WriteFile(filepath.Join(src, "go.mod"), gm, 0o644)
	}
	args := []string{"build"}
	if race {
		args = append(args, "-race")
	}
	args = append(args, "-trimpath", "-ldflags=-checklinkname=0", "-o", bin, "./zz_verif/cmd/worker")
	if out, err := run(src, goEnv(), gobin, args...); err != nil {
		os.Remove(bin)
		die(2, "build of the rewritten tree failed:\n%s", out)
	}
	return bin, th
}

func prune(cacheRoot, keep string) {
	ents, _ := os.ReadDir(cacheRoot)
	type de struct {
		p string
		t time.Time
	}
	var ds []de
	for _, e := range ents {
		if !e.IsDir() {
			continue
		}
		p := filepath.Join(cacheRoot, e.Name())
		if p == keep {
			continue
		}
		st, err := os.Stat(p)
		if err != nil {
			continue
		}
		ds = append(ds, de{p, st.ModTime()})
	}
	sort.Slice(ds, func(i, j int) bool { return ds[i].t.After(ds[j].t) })
	for i, d := range ds {
		if i >= 2 {
			os.RemoveAll(d.p)
		}
	}
}

// ---- worker protocol ----

type Violation struct {
	Class  string `json:"class"`
	Detail string `json:"detail"`
}

type Result struct {
	Prop      string         `json:"prop"`
	Run       int64          `json:"run"`
	Class     string         `json:"class"`
	Violation *Violation     `json:"violation,omitempty"`
	Steps     int            `json:"steps"`
	Tape      []uint32       `json:"tape,omitempty"`
	Harness   string         `json:"harness_error,omitempty"`
	Events    []string       `json:"events,omitempty"`
	Probes    map[string]int `json:"probes,omitempty"`
	Trace     uint64         `json:"trace"`
	ProcMode  int            `json:"procmode"`
}

type Summary struct {
	Prop        string            `json:"prop"`
	Evaluations int64             `json:"evaluations"`
	Hashes      []uint64          `json:"hashes"`
	Scheds      []uint64          `json:"scheds"`
	Faults      map[string]int    `json:"faults"`
	Probes      map[string]int    `json:"probes"`
	Steps       int64             `json:"steps"`
	Picks       int64             `json:"picks"`
	Overlaps    int64             `json:"overlaps"`
	SimMs       int64             `json:"sim_ms"`
	Samples     []any             `json:"samples"`
	Violations  []*Result         `json:"violations"`
	Harness     []string          `json:"harness"`
	Traces      map[string]uint64 `json:"traces"`
	WallS       float64           `json:"wall_s"`
	NonTrivial  int64             `json:"nontrivial"`
}

type Info struct {
	Race        bool     `json:"race"`
	Rule        string   `json:"rule"`
	Quick       int64    `json:"quick"`
	Thor        int64    `json:"thor"`
	Assumptions []string `json:"assumptions"`
	Real        []string `json:"real"`
	Stub        []string `json:"stub"`
	QuickWallS  int64    `json:"quick_wall_s"`
	ThorWallS   int64    `json:"thor_wall_s"`
	Workers     int      `json:"workers"`
}

type Known struct {
	Property string `json:"property"`
	Status   string `json:"status"` // "known" or "fixed"
	Class    string `json:"class_regex"`
	What     string `json:"what"`
	Commit   string `json:"commit,omitempty"`
}

func loadKnown(prop string) []Known {
	var ks []Known
	b, err := os.ReadFile(filepath.Join(verif, "known_findings.jsonl"))
	if err != nil {
		return nil
	}
	for _, ln := range strings.Split(string(b), "\n") {
		ln = strings.TrimSpace(ln)
		if ln == "" || strings.HasPrefix(ln, "#") {
			continue
		}
		var k Known
		if err := json.Unmarshal([]byte(ln), &k); err != nil {
			die(2, "known_findings.jsonl: %v", err)
		}
		if k.Property == prop && k.Status == "known" {
			ks = append(ks, k)
		}
	}
	return ks
}

type workerOut struct {
	sum    *Summary
	stderr string
	err    error
	from   int64
	to     int64
	prog   string
}

func startWorker(bin string, env []string, outPath string) (string, error) {
	cmd := exec.Command(bin)
	cmd.Env = env
	var eb bytes.Buffer
	cmd.Stderr = &eb
	cmd.Stdout = io.Discard
	cmd.SysProcAttr = &syscall.SysProcAttr{Setpgid: true}
	if err := cmd.Start(); err != nil {
		return "", err
	}
	done := make(chan error, 1)
	go func() { done <- cmd.Wait() }()
	select {
	case err := <-done:
		return eb.String(), err
	case <-time.After(watchdog):
		syscall.Kill(-cmd.Process.Pid, syscall.SIGKILL)
		<-done
		return eb.String(), fmt.Errorf("watchdog: worker killed after %v", watchdog)
	}
}

var watchdog = 30 * time.Minute

func baseEnv(prop, tier string, seed int64) []string {
	env := []string{"VERIF_PROP=" + prop, "VERIF_TIER=" + tier, "VERIF_SEED=" + strconv.FormatInt(seed, 10),
		"GODEBUG=", "GOMAXPROCS=1", "HOME=" + os.Getenv("HOME"), "PATH=" + os.Getenv("PATH"), "SSL_CERT_FILE=" + filepath.Join(verif, "fixtures", "ca.pem"), "SSL_CERT_DIR=/nonexistent"}
	return env
}

var raceRe = regexp.MustCompile(`(?s)WARNING: DATA RACE.*?==================`)
var frameRe = regexp.MustCompile(`(?m)^  ([A-Za-z0-9_./()*\-\[\]]+)\(\)\n\s+(\S+):(\d+)`)

// raceClass derives a stable class from a race report: the first repository frames of the
// two accesses.
func raceClass(rep string) string {
	var fr []string
	for _, blk := range strings.Split(rep, "\n\n") {
		if !(strings.Contains(blk, "Write at") || strings.Contains(blk, "Read at") || strings.Contains(blk, "Previous write") || strings.Contains(blk, "Previous read")) {
			continue
		}
		for _, m := range frameRe.FindAllStringSubmatch(blk, -1) {
			fn := m[1]
			if strings.Contains(fn, "zz_verif") || !strings.Contains(fn, "refraction-networking/utls") {
				continue
			}
			if i := strings.LastIndex(fn, "/"); i >= 0 {
				fn = fn[i+1:]
			}
			fr = append(fr, fn)
			break
		}
	}
	if len(fr) == 0 {
		return "data-race"
	}
	sort.Strings(fr)
	return "data-race " + strings.Join(fr, " / ")
}

func splitByMarker(stderr string) map[int64]string {
	out := map[int64]string{}
	cur := int64(-1)
	var b strings.Builder
	flush := func() {
		if cur >= 0 && b.Len() > 0 {
			out[cur] += b.String()
		}
		b.Reset()
	}
	for _, ln := range strings.SplitAfter(stderr, "\n") {
		if strings.HasPrefix(ln, "VERIF-RUN ") {
			flush()
			n, _ := strconv.ParseInt(strings.TrimSpace(strings.TrimPrefix(ln, "VERIF-RUN ")), 10, 64)
			cur = n
			continue
		}
		b.WriteString(ln)
	}
	flush()
	return out
}

func main() {
	if len(os.Args) < 3 {
		die(2, "usage: simcheck <property> quick|thorough | <property> --replay <file> | selftest")
	}
	prop := os.Args[1]
	mode := os.Args[2]
	seed := int64(20260921)
	if v := os.Getenv("VERIF_SEED"); v != "" {
		n, err := strconv.ParseInt(v, 10, 64)
		if err != nil {
			die(2, "bad VERIF_SEED")
		}
		seed = n
	}
	start := time.Now()

	if prop == "-" && mode == "selftest" {
		selftest(os.Args[3:])
		return
	}
	if prop == "-" && mode == "build" {
		_, th := build(false)
		build(true)
		fmt.Println("simcheck: built worker binaries for tree", th)
		return
	}
	// worker info
	binPlain, th := build(false)
	infoOut, err := func() ([]byte, error) {
		cmd := exec.Command(binPlain)
		cmd.Env = append(baseEnv(prop, "quick", seed), "VERIF_INFO=1")
		return cmd.Output()
	}()
	if err != nil {
		die(2, "worker info: %v", err)
	}
	var info Info
	if err := json.Unmarshal(infoOut, &info); err != nil {
		die(2, "worker info parse: %v: %s", err, infoOut)
	}
	bin := binPlain
	if info.Race {
		bin, _ = build(true)
	}

	if mode == "--replay" {
		if len(os.Args) < 4 {
			die(2, "--replay needs a file")
		}
		os.Exit(replay(prop, bin, binPlain, info, os.Args[3], seed))
	}
	tier := mode
	if tier != "quick" && tier != "thorough" {
		die(2, "tier must be quick or thorough")
	}
	fmt.Printf("simcheck: property=%s tier=%s VERIF_SEED=%d tree=%s race=%v (build+info %.1fs)\n", prop, tier, seed, th, info.Race, time.Since(start).Seconds())

	total := info.Quick
	wall := info.QuickWallS
	if wall == 0 {
		wall = 40
	}
	if tier == "thorough" {
		total = info.Thor
		wall = info.ThorWallS
		if wall == 0 {
			wall = 900
		}
	}
	if v := os.Getenv("VERIF_WALL_S"); v != "" {
		n, _ := strconv.ParseInt(v, 10, 64)
		if n > 0 {
			wall = n
		}
	}
	if v := os.Getenv("VERIF_RUNS"); v != "" {
		n, _ := strconv.ParseInt(v, 10, 64)
		if n > 0 {
			total = n
		}
	}
	nw := 16
	if info.Workers > 0 {
		nw = info.Workers
	}
	if v := os.Getenv("VERIF_WORKERS"); v != "" { // development: leave cores for other work
		if n, _ := strconv.Atoi(v); n > 0 && n < nw {
			nw = n
		}
	}
	if int64(nw) > total {
		nw = int(total)
	}
	tmp, err := os.MkdirTemp("", "verif-run-")
	if err != nil {
		die(2, "mktemp: %v", err)
	}
	defer os.RemoveAll(tmp)

	outs := make([]*workerOut, nw)
	var wg sync.WaitGroup
	per := (total + int64(nw) - 1) / int64(nw)
	for i := 0; i < nw; i++ {
		i := i
		from := int64(i) * per
		to := from + per
		if to > total {
			to = total
		}
		wo := &workerOut{from: from, to: to, prog: filepath.Join(tmp, fmt.Sprintf("prog%d", i))}
		outs[i] = wo
		wg.Add(1)
		go func() {
			defer wg.Done()
			op := filepath.Join(tmp, fmt.Sprintf("out%d.json", i))
			env := append(baseEnv(prop, tier, seed),
				"VERIF_FROM="+strconv.FormatInt(from, 10), "VERIF_TO="+strconv.FormatInt(to, 10),
				"VERIF_OUT="+op, "VERIF_PROGRESS="+wo.prog, "VERIF_WALL_S="+strconv.FormatInt(wall, 10), "VERIF_PROCMODE="+strconv.Itoa(i%2))
			if i == 0 {
				env = append(env, "VERIF_TRACES=1")
			}
			if info.Race {
				env = append(env, "GORACE=halt_on_error=0 atexit_sleep_ms=0 exitcode=0", "VERIF_MARKERS=1")
			}
			wo.stderr, wo.err = startWorker(bin, env, op)
			if b, err := os.ReadFile(op); err == nil {
				var s Summary
				if json.Unmarshal(b, &s) == nil {
					wo.sum = &s
				}
			}
		}()
	}
	wg.Wait()
	fmt.Printf("simcheck: workers done at %.1fs\n", time.Since(start).Seconds())

	// merge
	m := &Summary{Faults: map[string]int{}, Probes: map[string]int{}}
	hashes := map[uint64]bool{}
	scheds := map[uint64]bool{}
	var harness []string
	var viols []*Result
	for i, wo := range outs {
		if wo.sum == nil {
			pr, _ := os.ReadFile(wo.prog)
			msg := fmt.Sprintf("worker %d (runs %d..%d) died: %v; last run %s; stderr tail: %s", i, wo.from, wo.to, wo.err, strings.TrimSpace(string(pr)), tail(wo.stderr, 1500))
			// a crashed worker: re-execute the world it was running, alone
			if r := strings.TrimSpace(string(pr)); r != "" {
				if n, err := strconv.ParseInt(r, 10, 64); err == nil {
					if v := reproduceCrash(prop, tier, seed, bin, n, tmp, i%2); v != nil {
						viols = append(viols, v)
						continue
					}
				}
			}
			harness = append(harness, msg)
			continue
		}
		s := wo.sum
		m.Evaluations += s.Evaluations
		m.NonTrivial += s.NonTrivial
		m.Steps += s.Steps
		m.Picks += s.Picks
		m.Overlaps += s.Overlaps
		m.SimMs += s.SimMs
		for k, v := range s.Faults {
			m.Faults[k] += v
		}
		for k, v := range s.Probes {
			m.Probes[k] += v
		}
		for _, h := range s.Hashes {
			hashes[h] = true
		}
		for _, h := range s.Scheds {
			scheds[h] = true
		}
		if len(m.Samples) < 8 {
			m.Samples = append(m.Samples, s.Samples...)
		}
		harness = append(harness, s.Harness...)
		viols = append(viols, s.Violations...)
		if info.Race && strings.Contains(wo.stderr, "WARNING: DATA RACE") {
			byRun := splitByMarker(wo.stderr)
			var runs []int64
			for r := range byRun {
				runs = append(runs, r)
			}
			sort.Slice(runs, func(a, b int) bool { return runs[a] < runs[b] })
			for _, r := range runs {
				for _, rep := range raceRe.FindAllString(byRun[r], -1) {
					viols = append(viols, &Result{Prop: prop, Run: r, Violation: &Violation{Class: raceClass(rep), Detail: rep}})
				}
			}
		} else if wo.err != nil {
			harness = append(harness, fmt.Sprintf("worker %d: %v: %s", i, wo.err, tail(wo.stderr, 800)))
		}
	}

	// determinism spot check: worker 0's first runs again, other GOMAXPROCS, fresh process
	detCompared, detMismatch := 0, 0
	if outs[0].sum != nil && len(outs[0].sum.Traces) > 0 {
		n := int64(len(outs[0].sum.Traces))
		if n > 48 {
			n = 48
		}
		op := filepath.Join(tmp, "det.json")
		env := append(baseEnv(prop, tier, seed), "VERIF_FROM=0", "VERIF_TO="+strconv.FormatInt(n, 10), "VERIF_OUT="+op, "VERIF_TRACES=1", "GOMAXPROCS=4", "VERIF_NOMIN=1", "VERIF_PROCMODE=0")
		if info.Race {
			env = append(env, "GORACE=halt_on_error=0 atexit_sleep_ms=0 exitcode=0")
		}
		startWorker(bin, env, op)
		var s Summary
		if b, err := os.ReadFile(op); err == nil && json.Unmarshal(b, &s) == nil {
			for k, v := range s.Traces {
				if v0, ok := outs[0].sum.Traces[k]; ok {
					detCompared++
					if v0 != v {
						detMismatch++
						harness = append(harness, fmt.Sprintf("determinism: run %s trace differs between two executions", k))
					}
				}
			}
		} else {
			harness = append(harness, "determinism re-execution produced no output")
		}
	}

	// classify violations
	known := loadKnown(prop)
	knownHit := map[string]int{}
	var fresh []*Result
	seenClass := map[string]bool{}
	for _, v := range viols {
		matched := false
		for _, k := range known {
			re, err := regexp.Compile(k.Class)
			if err != nil {
				die(2, "known_findings: bad regex %q", k.Class)
			}
			if re.MatchString(v.Violation.Class) {
				knownHit[k.What]++
				matched = true
				break
			}
		}
		if matched {
			continue
		}
		if !seenClass[v.Violation.Class] {
			seenClass[v.Violation.Class] = true
			fresh = append(fresh, v)
		}
	}
	var kw []string
	for w := range knownHit {
		kw = append(kw, w)
	}
	sort.Strings(kw)
	for _, w := range kw {
		fmt.Printf("KNOWN-FINDING: property=%s %s (matched %d worlds)\n", prop, w, knownHit[w])
	}

	wallS := time.Since(start).Seconds()
	// evidence
	distinct := len(hashes)
	cov := map[string]any{
		"evaluations":           m.Evaluations,
		"distinct_nontrivial":   distinct,
		"nontrivial_worlds":     m.NonTrivial,
		"rule":                  info.Rule,
		"samples":               m.Samples,
		"distinct_schedules":    len(scheds),
		"scheduler_steps":       m.Steps,
		"scheduler_choice_points": m.Picks,
		"preemptions":           m.Overlaps,
		"simulated_time_s":      float64(m.SimMs) / 1000,
		"faults_fired":          m.Faults,
		"probes":                m.Probes,
		"worlds_per_hour":       int64(float64(m.Evaluations) / wallS * 3600),
		"components_real":       info.Real,
		"components_stub":       info.Stub,
		"determinism_recheck":   map[string]int{"worlds_compared": detCompared, "mismatches": detMismatch},
		"harness_errors":        len(harness),
		"known_findings_matched": knownHit,
		"tree_hash":             th,
		"race_detector":         info.Race,
	}
	if m.Samples == nil {
		cov["samples"] = []any{}
	}
	ev := map[string]any{
		"property_id": prop, "tier": tier, "seed": seed, "level": "exploration",
		"coverage": cov, "assumptions": info.Assumptions, "wall_s": wallS, "violations": len(fresh),
	}
	os.MkdirAll(filepath.Join(outRoot, "evidence"), 0o755)
	eb, _ := json.MarshalIndent(ev, "", " ")
	os.WriteFile(filepath.Join(outRoot, "evidence", prop+".json"), append(eb, '\n'), 0o644)

	fmt.Printf("simcheck: %s worlds=%d nontrivial-distinct=%d schedules=%d steps=%d faults=%v wall=%.1fs\n", prop, m.Evaluations, distinct, len(scheds), m.Steps, m.Faults, wallS)
	if len(fresh) > 0 {
		os.MkdirAll(filepath.Join(outRoot, "replays"), 0o755)
		for i, v := range fresh {
			if i >= 5 {
				fmt.Printf("(%d further violation classes not written)\n", len(fresh)-i)
				break
			}
			rp := filepath.Join(outRoot, "replays", fmt.Sprintf("%s-%d-%d-%d.json", prop, seed, v.Run, i))
			kind := "oracle"
			if strings.HasPrefix(v.Violation.Class, "data-race") {
				kind = "race"
			}
			rf := map[string]any{"property": prop, "seed": seed, "run": v.Run, "tier": tier, "tape": v.Tape, "class": v.Violation.Class,
				"detail": v.Violation.Detail, "events": v.Events, "tree_hash": th, "kind": kind, "minimisation": v.Probes, "procmode": v.ProcMode}
			b, _ := json.MarshalIndent(rf, "", " ")
			os.WriteFile(rp, append(b, '\n'), 0o644)
			fmt.Printf("violation class: %s\n  %s\n", v.Violation.Class, firstLines(v.Violation.Detail, 12))
			fmt.Printf("VIOLATION property=%s replay=%s\n", prop, rp)
		}
		os.Exit(1)
	}
	if len(harness) > 0 {
		for i, h := range harness {
			if i < 10 {
				fmt.Fprintln(os.Stderr, "harness:", h)
			}
		}
		die(2, "%d harness errors (no verdict)", len(harness))
	}
	if m.Evaluations == 0 || distinct < 2 {
		die(2, "nothing explored (evaluations=%d distinct=%d)", m.Evaluations, distinct)
	}
	os.Exit(0)
}

func tail(s string, n int) string {
	if len(s) > n {
		return s[len(s)-n:]
	}
	return s
}

func firstLines(s string, n int) string {
	ls := strings.Split(s, "\n")
	if len(ls) > n {
		ls = ls[:n]
	}
	return strings.Join(ls, "\n  ")
}

// reproduceCrash re-executes one world alone after a worker death. A reproducible death is
// a violation of class "crash"; scenarios whose property does not forbid crashes turn it
// into a harness error themselves (they never die).
func reproduceCrash(prop, tier string, seed int64, bin string, runIdx int64, tmp string, procMode int) *Result {
	op := filepath.Join(tmp, "crash.json")
	os.Remove(op)
	env := append(baseEnv(prop, tier, seed), "VERIF_FROM="+strconv.FormatInt(runIdx, 10), "VERIF_TO="+strconv.FormatInt(runIdx+1, 10), "VERIF_OUT="+op, "VERIF_NOMIN=1", "VERIF_PROCMODE="+strconv.Itoa(procMode))
	stderr, err := startWorker(bin, env, op)
	if _, e := os.Stat(op); e == nil {
		return nil // did not reproduce
	}
	cls := "process-crash"
	for _, ln := range strings.Split(stderr, "\n") {
		if strings.HasPrefix(ln, "fatal error:") || strings.HasPrefix(ln, "panic:") || strings.HasPrefix(ln, "runtime:") {
			cls = "process-crash " + strings.TrimSpace(ln)
			break
		}
	}
	return &Result{Prop: prop, Run: runIdx, ProcMode: procMode, Violation: &Violation{Class: cls, Detail: fmt.Sprintf("%v\n%s", err, tail(stderr, 3000))}}
}

func replay(prop, bin, binPlain string, info Info, file string, seed int64) int {
	b, err := os.ReadFile(file)
	if err != nil {
		die(2, "replay: %v", err)
	}
	var rf struct {
		Property string   `json:"property"`
		Seed     int64    `json:"seed"`
		Run      int64    `json:"run"`
		Tier     string   `json:"tier"`
		Tape     []uint32 `json:"tape"`
		Class    string   `json:"class"`
		Kind     string   `json:"kind"`
		ProcMode int      `json:"procmode"`
	}
	if err := json.Unmarshal(b, &rf); err != nil {
		die(2, "replay: %v", err)
	}
	if rf.Tier == "" {
		rf.Tier = "quick"
	}
	tmp, _ := os.MkdirTemp("", "verif-replay-")
	defer os.RemoveAll(tmp)
	op := filepath.Join(tmp, "out.json")
	env := append(baseEnv(prop, rf.Tier, rf.Seed), "VERIF_OUT="+op, "VERIF_PROCMODE="+strconv.Itoa(rf.ProcMode))
	if len(rf.Tape) > 0 {
		env = append(env, "VERIF_TAPE="+file)
	} else {
		env = append(env, "VERIF_FROM="+strconv.FormatInt(rf.Run, 10), "VERIF_TO="+strconv.FormatInt(rf.Run+1, 10), "VERIF_NOMIN=1")
	}
	if info.Race {
		env = append(env, "GORACE=halt_on_error=0 atexit_sleep_ms=0 exitcode=0", "VERIF_MARKERS=1")
	}
	stderr, werr := startWorker(bin, env, op)
	got := ""
	detail := ""
	if rf.Kind == "race" {
		for _, rep := range raceRe.FindAllString(stderr, -1) {
			if raceClass(rep) == rf.Class || got == "" {
				got = raceClass(rep)
				detail = rep
			}
		}
	} else if ob, err := os.ReadFile(op); err == nil {
		var r Result
		if json.Unmarshal(ob, &r) == nil && r.Violation != nil {
			got, detail = r.Violation.Class, r.Violation.Detail
			if len(r.Events) > 0 {
				fmt.Println("last events:")
				for _, e := range r.Events {
					fmt.Println("  ", e)
				}
			}
		} else {
			var s Summary
			if json.Unmarshal(ob, &s) == nil && len(s.Violations) > 0 {
				got, detail = s.Violations[0].Violation.Class, s.Violations[0].Violation.Detail
			}
		}
	} else if werr != nil {
		got = "process-crash"
		detail = tail(stderr, 3000)
	}
	if got == "" {
		fmt.Printf("replay: no violation reproduced (recorded class: %s)\n", rf.Class)
		return 0
	}
	fmt.Printf("replay: violation class: %s\n  %s\n", got, firstLines(detail, 40))
	if got != rf.Class {
		fmt.Printf("replay: note: recorded class was %q\n", rf.Class)
	}
	fmt.Printf("VIOLATION property=%s replay=%s\n", prop, file)
	return 1
}
